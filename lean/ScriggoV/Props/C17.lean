import ScriggoV.Lemmas.VarStore
/-! C17 — template variables passed to `Run` are the values every reference sees.

Property theorems only (helper lemmas: `Lemmas/VarStore.lean`; model: `Model/VarStore.lean`; what
a reference ought to see: `Spec/VarStore.lean`). All statements are about `Cfg.code`, the model run
with the decisions regenerated from /repo into `Gen/VarBinding.lean` on every check — so an edit of
the package an upvar is recorded under, of the package `initGlobalVariables` binds, of the function
an upvar's position is recorded for, of the one-global-per-variable rule or of the way a pointer
initializer is stored changes a definition below and the theorems are re-checked against it.

Modelling assumptions (exercised by the harness, not proved): the emission events and their
admissibility (`step`) describe what checker and emitter do — in particular that the checker adds
a predeclared variable to the `Upvars` of every enclosing function literal; two different names
in `Run`'s map are not given the same pointer. -/
namespace ScriggoV.VarStore
open ScriggoV.Gen.VarBinding

/-- **The property, for a configuration `c`.** For every admissible emission `es`, every map `init`
passed to `Run` that `initGlobalVariables` accepts, and every run-time sequence `as` of reads and
writes through emitted references (in any function: main, macro, function literal, imported /
extended / rendered file): the values read are those of the one-variable-per-name semantics
started from the values passed to `Run`, and when `Run` returns every variable passed by pointer
holds, in the caller's storage, the last value assigned to it. -/
def FullStatement (c : Cfg) : Prop :=
  ∀ (es : List Event) (s : Store) (init : List (String × InitVal)) (slots : List Slot)
    (as : List Action),
    emit c es = some s → initGlobalVariables c init s.globals = .ok slots → emitted s as →
    ∃ m', exec s slots as (Mem.init slots init) = .ok ((Spec.run as (Spec.initial init)).1, m')
      ∧ ∀ v n, init.lookup v = some (.pointer n) → m'.caller v = (Spec.run as (Spec.initial init)).2 v

/-- the code as it is satisfies the hypotheses of every theorem below (a fact about the
regenerated definitions) -/
theorem code_cfg_sound : Cfg.code.Sound := by
  refine ⟨fun v => ?_, fun v => ?_, ?_, ?_, ?_, ?_, ?_, ?_⟩ <;>
    simp [Cfg.code, Cfg.useGlobal, Cfg.upvarGlobal, Cfg.upvarOf, Cfg.nameOf,
      globalsPkgName, bindPkgName, upvarPkgSource, upvarNameSource, usePkgSource, useNameSource,
      upvarIndexPkgSource, upvarIndexNameSource, upvarRefOwner, oneGlobalPerVariable,
      Gen.VarBinding.pointerInit, templatePkgName, usedVarsPkg, Gen.VarBinding.lookupOrder]

/-- **C17, aliasing.** After any emission, every recorded reference to a variable `v` — in whatever
function `f` it was emitted, and whichever reference came first — is at run time the *one* global
recorded for `v`, which carries the package `initGlobalVariables` binds and the name `v`:
`storage (resolve r) = storage (binding "main" v)`. -/
theorem reference_aliases_binding (es : List Event) (s : Store) (h : emit Cfg.code es = some s)
    (f : Fn) (v : String) (k : Nat) (hr : s.ref f v = some k) :
    ∃ g, resolve s f k = some g ∧ s.globals[g]? = some ⟨bindPkgName, v⟩
      ∧ ∀ g', s.globals[g']? = some ⟨bindPkgName, v⟩ → g' = g := by
  have hs := run_inv code_cfg_sound es _ s (init_inv _) h
  obtain ⟨_, g, h1, h2⟩ := hs.r f v k (by simp) hr
  refine ⟨g, h2, hs.g1 v g h1, ?_⟩
  intro g' hg'
  have := hs.g2 g' _ hg' rfl
  simp only at this
  rw [h1] at this
  exact (Option.some.inj this).symm

example : ∃ s, emit Cfg.code [.closure 0 1 [.loc "a", .predef "v"], .use 1 "v", .use 0 "v"] = some s
    ∧ s.ref 1 "v" = some 1 ∧ s.ref 0 "v" = some 0 := ⟨_, rfl, by decide, by decide⟩

/-- **C17, names do not capture.** A reference the checker resolved to the global `v` is emitted as
that global — an entry of the globals under the package `initGlobalVariables` binds, never one
under the package of template files — whatever same-named variables imported, extending or
rendered files declare (`pkgVar k v`) and whatever is bound by that name into the referring
function's package (`bindImport t k v`), and whatever captured local has that name: with the
lookup order regenerated from `nonLocalVarIndex`, the by-name lookups are not reached. -/
theorem global_reference_not_captured_by_package_var (es : List Event) (s : Store)
    (h : emit Cfg.code es = some s) (f : Fn) (v : String) (k : Nat) (hr : s.ref f v = some k) :
    ∃ g gl, resolve s f k = some g ∧ s.globals[g]? = some gl ∧ gl.name = v
      ∧ gl.pkg = bindPkgName ∧ gl.pkg ≠ templatePkgName := by
  obtain ⟨g, h1, h2, _⟩ := reference_aliases_binding es s h f v k hr
  have hne : bindPkgName ≠ templatePkgName := by decide
  exact ⟨g, _, h1, h2, rfl, rfl, hne⟩

example : ∃ s, emit Cfg.code [.declFunc 1 1, .pkgVar 1 "v", .bindImport 0 1 "v", .use 0 "v", .use 1 "v"]
    = some s ∧ s.pkgVarRef 0 "v" = some 0 ∧ s.ref 0 "v" = some 1 ∧ s.ref 1 "v" = some 1 :=
  ⟨_, rfl, by decide, by decide, by decide⟩

/-- **C17, the values.** The full statement holds of the code. -/
theorem every_reference_sees_run_value : FullStatement Cfg.code := by
  intro es s init slots as h hi he
  have hs := run_inv code_cfg_sound es _ s (init_inv _) h
  obtain ⟨m', h1, h2⟩ := exec_spec code_cfg_sound hs hi as _ _ he (sim_init code_cfg_sound hs hi)
  exact ⟨m', h1, h2.ptr⟩

/-- `initGlobalVariables` accepts every map of values and non-nil pointers of the right types -/
theorem init_accepts (init : List (String × InitVal))
    (hv : ∀ v iv, init.lookup v = some iv → (∃ n, iv = .value n) ∨ (∃ n, iv = .pointer n))
    (gs : List Global) : ∃ slots, initGlobalVariables Cfg.code init gs = .ok slots := by
  induction gs with
  | nil => exact ⟨[], rfl⟩
  | cons g gs ih =>
    obtain ⟨sls, hsl⟩ := ih
    have : ∃ sl, initOne Cfg.code init g = .ok sl := by
      unfold initOne
      split
      · cases hl : init.lookup g.name with
        | none => exact ⟨_, rfl⟩
        | some iv =>
          rcases hv _ _ hl with ⟨n, rfl⟩ | ⟨n, rfl⟩
          · exact ⟨_, rfl⟩
          · simp only [code_cfg_sound.ptr]; exact ⟨_, rfl⟩
      · exact ⟨_, rfl⟩
    obtain ⟨sl, h1⟩ := this
    exact ⟨sl :: sls, by simp [initGlobalVariables, h1, hsl]⟩

/-- **C17, sharing and copying.** The global of a referenced variable is the caller's own variable
when a pointer was passed, and otherwise one new variable holding the passed value (the zero value
when none was passed) — one, because a variable has one global (`reference_aliases_binding`). -/
theorem pointer_shared_value_copied (es : List Event) (s : Store) (h : emit Cfg.code es = some s)
    (init : List (String × InitVal)) (slots : List Slot)
    (hi : initGlobalVariables Cfg.code init s.globals = .ok slots) (v : String) (g : Nat)
    (hg : s.globals[g]? = some ⟨bindPkgName, v⟩) :
    (∃ n, init.lookup v = some (.pointer n) ∧ slots[g]? = some (.shared v)) ∨
    (∃ n, (∀ k, init.lookup v ≠ some (.pointer k)) ∧ slots[g]? = some (.own n)
        ∧ Spec.initial init v = n) := by
  have hs := run_inv code_cfg_sound es _ s (init_inv _) h
  exact slot_of_var code_cfg_sound hs hi (hs.g2 g _ hg rfl)

/-- **The `UsedVars` clause, for a configuration `c`:** the names `UsedVars` returns are, without
repetition, exactly the declared variables the emitted code refers to — whatever variables the
imported template files declare themselves (`pkgVar`). -/
def UsedVarsStatement (c : Cfg) : Prop :=
  ∀ (es : List Event) (s : Store), emit c es = some s →
    (usedVars c s).Nodup ∧ ∀ v, v ∈ usedVars c s ↔ v ∈ Spec.referenced es

/-- **C17, UsedVars.** -/
theorem usedVars_exact : UsedVarsStatement Cfg.code := by
  intro es s h
  have hs := run_inv code_cfg_sound es _ s (init_inv _) h
  have hu : Cfg.code.usedPkg = some Cfg.code.bindPkg := by
    simp [Cfg.code, usedVarsPkg, bindPkgName]
  obtain ⟨h1, h2⟩ := usedVars_filtered hu hs
  have hseen := run_seen code_cfg_sound es _ s (init_inv _) h
  refine ⟨h1, fun v => ⟨fun hv => ?_, fun hv => ?_⟩⟩
  · have := (hseen v).mp (h2 v hv)
    simpa [Store.init] using this
  · exact mem_usedVars code_cfg_sound hs v ((hseen v).mpr (Or.inr hv))

example : ∃ s, emit Cfg.code [.declFunc 1 1, .pkgVar 1 "X1", .use 1 "v", .use 0 "v"] = some s
    ∧ usedVars Cfg.code s = ["v"] := ⟨_, rfl, by decide⟩

/-! ### The three defects found on the unchanged tree, as refuted configurations

`fixes/C17-upvar-nativepkg.md`: the checker recorded an upvar under the variable's own name as
package. `fixes/C17-predefvar-one-global.md`: `predefVarIndex` appended a global per function. `fixes/C17-usedvars-template-package-vars.md`:
`UsedVars` reported the variables declared by imported template files too. -/

/-- outputs of a run, for the witnesses below -/
def outputs (c : Cfg) (es : List Event) (init : List (String × InitVal)) (as : List Action) :
    Option (List Int) :=
  match emit c es with
  | none => none
  | some s =>
    match initGlobalVariables c init s.globals with
    | .error _ => none
    | .ok slots =>
      match exec s slots as (Mem.init slots init) with
      | .error _ => none
      | .ok r => some r.1

theorem outputs_of_full {c : Cfg} (h : FullStatement c) (es : List Event)
    (init : List (String × InitVal)) (as : List Action) (s : Store) (slots : List Slot)
    (h1 : emit c es = some s) (h2 : initGlobalVariables c init s.globals = .ok slots)
    (h3 : emitted s as) : outputs c es init as = some (Spec.run as (Spec.initial init)).1 := by
  obtain ⟨m', h4, _⟩ := h es s init slots as h1 h2 h3
  simp [outputs, h1, h2, h4]

/-- `{% macro M %}[{{ v }}]{% end %}{{ M() }}({{ v }})` run with `v: 7` — with the upvar recorded
under `ident.Name` the model prints `[0](0)`, as the unfixed code did. -/
theorem upvar_identName_refuted : ¬ FullStatement { Cfg.code with upvarPkg := .identName } := by
  intro h
  have := outputs_of_full h [.closure 0 1 [.predef "v"], .use 1 "v", .use 0 "v"]
    [("v", .value 7)] [.show 1 "v", .show 0 "v"] _ _ rfl rfl (by decide)
  revert this
  decide

/-- `{% import "imp" %}{% v = 5 %}({{ v }}){{ M() }}` with `M` in the imported file reading `v`,
run with `v: 7` — with one global per function the model prints `(5)[7]`, as the unfixed code did. -/
theorem perFunction_globals_refuted : ¬ FullStatement { Cfg.code with share := false } := by
  intro h
  have := outputs_of_full h [.declFunc 1 1, .use 1 "v", .use 0 "v"]
    [("v", .value 7)] [.set 0 "v" 5, .show 0 "v", .show 1 "v"] _ _ rfl rfl (by decide)
  revert this
  decide

/-- index `{% import "imp" %}{{ v }}`, imp `{% var v = 500 %}` (unexported: invisible to the importer),
run with `v: 7` — with the by-name lookup among the package variables before the predefined one the
reference is emitted as the imported file's variable and does not show 7. -/
theorem packageVars_first_refuted :
    ¬ FullStatement { Cfg.code with lookupOrder := [.closureVars, .packageVars, .predefined] } := by
  intro h
  have := outputs_of_full h [.pkgVar 1 "v", .bindImport 0 1 "v", .use 0 "v"]
    [("v", .value 7)] [.show 0 "v"] _ _ rfl rfl (by decide)
  revert this
  decide

/-- `{% import "imp" %}` with `{% var X1 = 3 %}` in the imported file — without the package filter
`UsedVars` reports `X1`, as the unfixed code did. -/
theorem usedVars_unfiltered_refuted : ¬ UsedVarsStatement { Cfg.code with usedPkg := none } := by
  intro h
  have := ((h [.pkgVar 1 "X1"] _ rfl).2 "X1").mp (by decide)
  simp [Spec.referenced] at this

end ScriggoV.VarStore
