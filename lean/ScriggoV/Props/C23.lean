import ScriggoV.Lemmas.Files
import ScriggoV.Gen.FilesWrites
/-! C23 — the in-memory `Files` type is a well-behaved `io/fs` file system (`files.go`).
Property theorems only; helper lemmas are in `Lemmas/Files.lean`.

The map is any list of (name, data) pairs with distinct keys (`ValidFS.nodup`), i.e. any iteration
order of the Go map; names are valid slash paths (`fs.ValidPath`, not "."), and no name is both a
file and a directory (`noConflict`). The io/fs contract clauses that `testing/fstest.TestFS`
checks are the statements below. -/
namespace ScriggoV.Files

/-- a valid, non-conflicting `Files` map -/
structure ValidFS (fs : FS) : Prop where
  nodup : (fs.map Prod.fst).Nodup
  valid : ∀ kv ∈ fs, validPath kv.1 = true ∧ kv.1 ≠ [dot]
  noConflict : ∀ kv ∈ fs, ∀ kv' ∈ fs, ¬ (kv.1 ++ [slash]) <+: kv'.1

/-- in a map, first-match lookup is membership -/
theorem lookup_eq_some_iff (fs : FS) (hn : (fs.map Prod.fst).Nodup) (k v : Bytes) :
    fs.lookup k = some v ↔ (k, v) ∈ fs := by
  induction fs with
  | nil => simp
  | cons x r ih =>
    obtain ⟨k', v'⟩ := x
    simp only [List.map_cons, List.nodup_cons] at hn
    simp only [List.lookup_cons, List.mem_cons, Prod.mk.injEq]
    by_cases hk : k = k'
    · subst hk
      simp only [beq_self_eq_true, Option.some.injEq, true_and]
      constructor
      · intro h; exact Or.inl h.symm
      · rintro (h | h)
        · exact h.symm
        · exact absurd (List.mem_map.2 ⟨(k, v), h, rfl⟩) hn.1
    · have hne : (k == k') = false := by simpa using hk
      simp only [hne, hk, false_and, false_or]
      exact ih hn.2

theorem lookup_eq_none_of_not_key (fs : FS) (k : Bytes) (h : k ∉ fs.map Prod.fst) :
    fs.lookup k = none := by
  rw [List.lookup_eq_none_iff]
  intro p hp
  simp only [bne_iff_ne, ne_eq]
  intro hc
  exact h (List.mem_map.2 ⟨p, hp, hc.symm⟩)

theorem validPath_dot : validPath [dot] = true := by decide

/-! ### Open -/

/-- **every file opens**, with its contents, offset 0 and mode 0 -/
theorem open_file (fs : FS) (hv : ValidFS fs) (k v : Bytes) (hm : (k, v) ∈ fs) :
    fsOpen fs k = some (.file { name := k, data := v, offset := 0, mode := false }) := by
  obtain ⟨h1, h2⟩ := hv.valid (k, v) hm
  simp only [fsOpen, h1, if_true, h2, if_false, (lookup_eq_some_iff fs hv.nodup k v).2 hm]

/-- **every implied directory opens** as a directory -/
theorem open_dir (fs : FS) (hv : ValidFS fs) (d t v : Bytes) (hm : (d ++ slash :: t, v) ∈ fs) :
    fsOpen fs d = some (.dir { name := d, data := [], offset := 0, mode := true } 0) := by
  obtain ⟨h1, _⟩ := hv.valid _ hm
  obtain ⟨hvd, hnd, _, _⟩ := validPath_prefix d t h1
  have hnk : d ∉ fs.map Prod.fst := by
    intro hc
    obtain ⟨kv, hkv, hk⟩ := List.mem_map.1 hc
    apply hv.noConflict kv hkv _ hm
    rw [hk]; exact ⟨t, by simp⟩
  have hany : anyHasPrefix fs (d ++ [slash]) = true := by
    simp only [anyHasPrefix, List.any_eq_true]
    exact ⟨_, hm, List.isPrefixOf_iff_prefix.2 ⟨t, by simp⟩⟩
  simp only [fsOpen, hvd, if_true, hnd, if_false, lookup_eq_none_of_not_key fs d hnk, hany]

/-- the root always opens as a directory -/
theorem open_root (fs : FS) :
    fsOpen fs [dot] = some (.dir { name := [dot], data := [], offset := 0, mode := true } 0) := by
  simp [fsOpen, validPath_dot]

/-- nothing else opens: a name that opens is a valid path and is the root, a file of the map or a
directory prefix of one -/
theorem open_only (fs : FS) (name : Bytes) (h : Handle) (ho : fsOpen fs name = some h) :
    validPath name = true ∧ h.f.name = name ∧ h.f.offset = 0 ∧
    ((name = [dot] ∧ ∃ f, h = .dir f 0) ∨
     (∃ v, (name, v) ∈ fs ∧ h = .file { name := name, data := v, offset := 0, mode := false }) ∨
     ((∃ kv ∈ fs, (name ++ [slash]) <+: kv.1) ∧ ∃ f, h = .dir f 0)) := by
  unfold fsOpen at ho
  by_cases hvp : validPath name = true
  · rw [if_pos hvp] at ho
    by_cases hd : name = [dot]
    · rw [if_pos hd] at ho
      cases ho
      exact ⟨hvp, rfl, rfl, Or.inl ⟨hd, _, rfl⟩⟩
    · rw [if_neg hd] at ho
      cases hl : fs.lookup name with
      | some v =>
        rw [hl] at ho
        cases ho
        refine ⟨hvp, rfl, rfl, Or.inr (Or.inl ⟨v, ?_, rfl⟩)⟩
        clear hvp hd
        induction fs with
        | nil => simp at hl
        | cons x r ih =>
          obtain ⟨k', v'⟩ := x
          simp only [List.lookup_cons] at hl
          by_cases hk : name = k'
          · subst hk; simp at hl; subst hl; exact List.mem_cons_self
          · have : (name == k') = false := by simpa using hk
            simp only [this] at hl
            exact List.mem_cons_of_mem _ (ih hl)
      | none =>
        rw [hl] at ho
        by_cases ha : anyHasPrefix fs (name ++ [slash]) = true
        · simp only [ha, if_true, Option.some.injEq] at ho
          subst ho
          simp only [anyHasPrefix, List.any_eq_true] at ha
          obtain ⟨kv, hkv, hp⟩ := ha
          exact ⟨hvp, rfl, rfl, Or.inr (Or.inr ⟨⟨kv, hkv, List.isPrefixOf_iff_prefix.1 hp⟩, _, rfl⟩)⟩
        · simp [ha] at ho
  · rw [if_neg hvp] at ho; cases ho

/-! ### ReadDir(-1): the listing -/

/-- the entries `ReadDir` builds for the whole directory -/
def fullListing (fs : FS) (name : Bytes) : List File :=
  (listing fs name).1.map (mkEntry fs (listing fs name).2)

/-- **the names `ReadDir` works with are exactly the children, once each, sorted.** For a valid
map and the directory named `d` (prefix `dir`): the sorted names are strictly increasing; every
name is `dir ++ c` for a path element `c`; `dir ++ c` is listed as a file iff it is a key of the
map, and as a directory iff some key lies below it. -/
theorem listing_spec (fs : FS) (hv : ValidFS fs) (d : Bytes) :
    let dir := dirPrefix d
    let names := (listing fs d).1
    let hasDir := (listing fs d).2
    StrictSorted names ∧
    (∀ nm ∈ names, ∃ c, Seg c ∧ nm = dir ++ c) ∧
    (∀ c, Seg c → ((dir ++ c ∈ names ∧ dir ++ c ∉ hasDir) ↔ dir ++ c ∈ fs.map Prod.fst)) ∧
    (∀ c, Seg c → ((dir ++ c ∈ names ∧ dir ++ c ∈ hasDir) ↔
        ∃ kv ∈ fs, (dir ++ c ++ [slash]) <+: kv.1)) ∧
    (∀ nm ∈ hasDir, nm ∈ names) := by
  intro dir names hasDir
  have hdir : DirOK dir := dirOK_dirPrefix d
  obtain ⟨hm1, hm2⟩ := collect_mem dir fs [] [] (by simp)
  have hnames : ∀ nm, nm ∈ names ↔ ∃ kv ∈ fs, ∃ b, child dir kv.1 = some (nm, b) := by
    intro nm
    have := hm1 nm
    simp only [List.not_mem_nil, false_or] at this
    exact ((sortStrings_perm _).mem_iff).trans this
  have hhd : ∀ nm, nm ∈ hasDir ↔ ∃ kv ∈ fs, child dir kv.1 = some (nm, true) := by
    intro nm
    have := hm2 nm
    simp only [List.not_mem_nil, false_or] at this
    exact this
  -- a directory child is never a key
  have hconf : ∀ kv ∈ fs, ∀ x, child dir kv.1 = some (x, true) → x ∉ fs.map Prod.fst := by
    intro kv hkv x hx hc
    rcases (child_some dir kv.1 x true hx).2 with ⟨h, _⟩ | ⟨_, c, t, _, hxc, hkey⟩
    · cases h
    · obtain ⟨kv', hkv', hk'⟩ := List.mem_map.1 hc
      apply hv.noConflict kv' hkv' kv hkv
      rw [hk', hkey, hxc]; exact ⟨t, by simp⟩
  refine ⟨?_, ?_, ?_, ?_, ?_⟩
  · apply sortStrings_strict
    exact collect_nodup dir fs [] [] [] List.nodup_nil (by simp) hv.nodup (by simp)
      (fun kv hkv x hx => ⟨by simp, hconf kv hkv x hx⟩)
  · intro nm hnm
    obtain ⟨kv, hkv, b, hc⟩ := (hnames nm).1 hnm
    obtain ⟨hvp, hnd⟩ := hv.valid kv hkv
    obtain ⟨c, hseg, h⟩ := child_valid dir kv.1 hdir hvp hnd (child_some dir kv.1 nm b hc).1
    rcases h with ⟨h1, h2⟩ | ⟨t, h1, _⟩
    · rw [h1] at hc; cases hc; exact ⟨c, hseg, h2⟩
    · rw [h1] at hc; cases hc; exact ⟨c, hseg, rfl⟩
  · intro c hseg
    constructor
    · rintro ⟨hin, hnot⟩
      obtain ⟨kv, hkv, b, hc⟩ := (hnames _).1 hin
      cases b with
      | true => exact absurd ((hhd _).2 ⟨kv, hkv, hc⟩) hnot
      | false =>
        rcases (child_some dir kv.1 _ false hc).2 with ⟨_, h⟩ | ⟨h, _⟩
        · rw [h]; exact List.mem_map.2 ⟨kv, hkv, rfl⟩
        · cases h
    · intro hkey
      obtain ⟨kv, hkv, hk⟩ := List.mem_map.1 hkey
      refine ⟨(hnames _).2 ⟨kv, hkv, false, by rw [hk]; exact child_file_of_seg dir c hseg⟩, ?_⟩
      intro hc
      obtain ⟨kv', hkv', hc'⟩ := (hhd _).1 hc
      exact hconf kv' hkv' _ hc' hkey
  · intro c hseg
    constructor
    · rintro ⟨_, hin⟩
      obtain ⟨kv, hkv, hc⟩ := (hhd _).1 hin
      rcases (child_some dir kv.1 _ true hc).2 with ⟨h, _⟩ | ⟨_, c', t, _, hxc, hkey⟩
      · cases h
      · refine ⟨kv, hkv, ?_⟩
        rw [hkey, ← hxc]; exact ⟨t, by simp⟩
    · rintro ⟨kv, hkv, t, ht⟩
      have hc : child dir kv.1 = some (dir ++ c, true) := by
        rw [← ht, List.append_assoc (dir ++ c), List.singleton_append]
        exact child_dir_of_seg dir c t hseg
      exact ⟨(hnames _).2 ⟨kv, hkv, true, hc⟩, (hhd _).2 ⟨kv, hkv, hc⟩⟩
  · intro nm hnm
    obtain ⟨kv, hkv, hc⟩ := (hhd nm).1 hnm
    exact (hnames nm).2 ⟨kv, hkv, true, hc⟩

/-- **every entry agrees with `Stat` of the child it names.** For each entry `e` of the full
listing of directory `d`: `e.Name()` is a path element `c`, the entry's name is `dir ++ c`,
opening `dir ++ Name()` succeeds and `Stat` of the opened file equals `e.Info()` (name, size, mode,
IsDir — `Type()` is `Mode()`); the entry says directory exactly when the opened handle is one. -/
theorem entry_agrees_with_stat (fs : FS) (hv : ValidFS fs) (d : Bytes) (e : File)
    (he : e ∈ fullListing fs d) :
    ∃ c h, Seg c ∧ e.name = dirPrefix d ++ c ∧ e.info.name = c ∧
      fsOpen fs (dirPrefix d ++ e.info.name) = some h ∧ h.f.info = e.info ∧
      (e.mode = true ↔ ∃ f, h = .dir f 0) := by
  obtain ⟨_, hseg, hfile, hdirc, _⟩ := listing_spec fs hv d
  simp only [fullListing, List.mem_map] at he
  obtain ⟨nm, hnm, hmk⟩ := he
  obtain ⟨c, hc, hnc⟩ := hseg nm hnm
  have hbase : base nm = c := by rw [hnc]; exact base_child _ c (dirOK_dirPrefix d) hc
  by_cases hin : nm ∈ (listing fs d).2
  · -- a directory child
    have hE : e = { name := nm, data := [], offset := 0, mode := true } := by
      rw [← hmk]; simp [mkEntry, hin]
    obtain ⟨kv, hkv, t, ht⟩ := (hdirc c hc).1 ⟨hnc ▸ hnm, hnc ▸ hin⟩
    have hmem : (nm ++ slash :: t, kv.2) ∈ fs := by
      have : nm ++ slash :: t = kv.1 := by rw [← ht, hnc]; simp
      rw [this]; exact hkv
    have hopen := open_dir fs hv nm t kv.2 hmem
    subst hE
    refine ⟨c, .dir { name := nm, data := [], offset := 0, mode := true } 0, hc, hnc, hbase, ?_, rfl, ?_⟩
    · simp only [File.info, hbase]; rw [← hnc]; exact hopen
    · simp
  · -- a file child
    have hkey : nm ∈ fs.map Prod.fst := by
      rw [hnc]; exact (hfile c hc).1 ⟨hnc ▸ hnm, hnc ▸ hin⟩
    obtain ⟨kv, hkv, hk⟩ := List.mem_map.1 hkey
    have hmem : (nm, kv.2) ∈ fs := by rw [← hk]; exact hkv
    have hl := (lookup_eq_some_iff fs hv.nodup nm kv.2).2 hmem
    have hE : e = { name := nm, data := kv.2, offset := 0, mode := false } := by
      rw [← hmk]; simp [mkEntry, hin, hl]
    have hopen := open_file fs hv nm kv.2 hmem
    subst hE
    refine ⟨c, .file { name := nm, data := kv.2, offset := 0, mode := false }, hc, hnc, hbase, ?_, rfl, ?_⟩
    · simp only [File.info, hbase]; rw [← hnc]; exact hopen
    · simp

/-- the entry names are the sorted names; the listing is strictly sorted by `Name()` too (the
common directory prefix does not matter for the order) -/
theorem fullListing_names (fs : FS) (d : Bytes) :
    (fullListing fs d).map (·.name) = (listing fs d).1 := by
  simp only [fullListing, List.map_map]
  have : ((fun x : File => x.name) ∘ mkEntry fs (listing fs d).2) = id := by
    funext nm; simp only [Function.comp, mkEntry]; split <;> rfl
  rw [this, List.map_id]

theorem fullListing_sorted_by_Name (fs : FS) (hv : ValidFS fs) (d : Bytes) :
    StrictSorted ((fullListing fs d).map (·.info.name)) := by
  obtain ⟨hs, hseg, _⟩ := listing_spec fs hv d
  have hmap : (fullListing fs d).map (·.info.name) = (listing fs d).1.map base := by
    simp only [fullListing, List.map_map]
    apply List.map_congr_left
    intro nm _
    simp only [Function.comp, File.info, mkEntry]; split <;> rfl
  rw [hmap]
  simp only [StrictSorted, List.pairwise_map]
  refine List.Pairwise.imp_of_mem ?_ hs
  intro a b ha hb hab
  obtain ⟨ca, hca, rfl⟩ := hseg a ha
  obtain ⟨cb, hcb, rfl⟩ := hseg b hb
  rw [base_child _ ca (dirOK_dirPrefix d) hca, base_child _ cb (dirOK_dirPrefix d) hcb]
  rw [bytesLe_append_left] at hab
  exact ⟨hab.1, fun h => hab.2 (by rw [h])⟩

/-! ### ReadDir(n): offsets and paging -/

/-- what `ReadDir(n)` does in terms of the full listing: `n ≤ 0` returns everything after the
offset (nothing, with a nil error, at the end); `n > 0` returns `io.EOF` at the end and otherwise
the next `n` entries (fewer at the end); the offset advances by what was returned -/
theorem readDir_eq (fs : FS) (f : File) (off : Nat) (n : Int) :
    readDir fs f off n =
      if n > 0 then
        (if (fullListing fs f.name).length ≤ off then (off, none)
         else (off + (((fullListing fs f.name).drop off).take n.toNat).length,
               some (((fullListing fs f.name).drop off).take n.toNat)))
      else (off + ((fullListing fs f.name).drop off).length, some ((fullListing fs f.name).drop off)) := by
  have hlen : (fullListing fs f.name).length = (listing fs f.name).1.length := by
    simp [fullListing]
  have hdrop : (if off < (listing fs f.name).1.length then (listing fs f.name).1.drop off else [])
      = (listing fs f.name).1.drop off := by
    split
    · rfl
    · rw [List.drop_eq_nil_of_le (by omega)]
  unfold readDir
  simp only [hdrop]
  by_cases hn : n > 0
  · simp only [hn, true_and, if_true, hlen]
    by_cases hoff : (listing fs f.name).1.length ≤ off
    · simp [hoff]
    · have h1 : ¬ ((listing fs f.name).1.length - off = 0) := by omega
      simp only [List.length_drop, h1, if_false, hoff]
      by_cases hbig : ((listing fs f.name).1.length - off : Nat) > n
      · have : (((listing fs f.name).1.length - off : Nat) : Int) > n := by exact_mod_cast hbig
        simp only [this, if_true, fullListing, List.map_drop, List.map_take, List.length_take,
          List.length_drop, List.length_map]
      · have h2 : ¬ ((((listing fs f.name).1.length - off : Nat) : Int) > n) := by exact_mod_cast hbig
        have h3 : (listing fs f.name).1.length - off ≤ n.toNat := by omega
        simp only [h2, if_false, fullListing, ← List.map_drop, ← List.map_take]
        rw [List.take_of_length_le (by simp; omega)]
        simp
  · simp only [hn, false_and, if_false, fullListing, List.map_drop, List.length_drop, List.length_map]

/-- successive `ReadDir` calls on one directory handle -/
def readPages (fs : FS) (f : File) : Nat → List Int → List (Option (List File)) × Nat
  | off, [] => ([], off)
  | off, n :: ns =>
    let r := readDir fs f off n
    let q := readPages fs f r.1 ns
    (r.2 :: q.1, q.2)

/-- concatenation of the pages returned (an `io.EOF` contributes nothing) -/
def concatPages (l : List (Option (List File))) : List File := l.flatMap (·.getD [])

/-- **paging.** For every sequence `n₁ n₂ …` of positive page sizes, starting at any offset within
the listing: the concatenation of the pages is the next `n₁ + n₂ + …` entries of the full listing
and the offset ends at `min (off + Σ nᵢ) len`. -/
theorem readPages_spec (fs : FS) (f : File) (ns : List Int) (hpos : ∀ n ∈ ns, n > 0) (off : Nat)
    (hoff : off ≤ (fullListing fs f.name).length) :
    concatPages (readPages fs f off ns).1
        = ((fullListing fs f.name).drop off).take (ns.map Int.toNat).sum ∧
    (readPages fs f off ns).2 = min (off + (ns.map Int.toNat).sum) (fullListing fs f.name).length := by
  induction ns generalizing off with
  | nil => simp [readPages, concatPages]; omega
  | cons n ns ih =>
    have hn : n > 0 := hpos n List.mem_cons_self
    have hns : ∀ m ∈ ns, m > 0 := fun m hm => hpos m (List.mem_cons_of_mem _ hm)
    simp only [readPages, concatPages, List.flatMap_cons, List.map_cons, List.sum_cons]
    rw [readDir_eq, if_pos hn]
    by_cases hend : (fullListing fs f.name).length ≤ off
    · have heq : off = (fullListing fs f.name).length := by omega
      rw [if_pos hend]
      obtain ⟨h1, h2⟩ := ih hns off hoff
      simp only [concatPages] at h1
      simp only [Option.getD_none, List.nil_append, h1, h2]
      rw [List.drop_eq_nil_of_le hend]
      simp; omega
    · rw [if_neg hend]
      have hlen : (((fullListing fs f.name).drop off).take n.toNat).length
          = min n.toNat ((fullListing fs f.name).length - off) := by simp
      have hoff' : off + (((fullListing fs f.name).drop off).take n.toNat).length
          ≤ (fullListing fs f.name).length := by rw [hlen]; omega
      obtain ⟨h1, h2⟩ := ih hns _ hoff'
      simp only [concatPages] at h1
      simp only [Option.getD_some, h1, h2]
      constructor
      · rw [hlen, List.take_add, ← List.drop_drop]
        by_cases hle : n.toNat ≤ (fullListing fs f.name).length - off
        · rw [Nat.min_eq_left hle]
        · have hall : ((fullListing fs f.name).drop off).take n.toNat = (fullListing fs f.name).drop off :=
            List.take_of_length_le (by simp; omega)
          rw [Nat.min_eq_right (by omega), hall]
          rw [List.drop_eq_nil_of_le (as := List.drop off (fullListing fs f.name))
                (i := (fullListing fs f.name).length - off) (by simp),
              List.drop_eq_nil_of_le (as := List.drop off (fullListing fs f.name))
                (i := n.toNat) (by simp; omega)]
      · rw [hlen]; omega

/-- **after the last page comes `io.EOF`** (for `n > 0`) and `ReadDir(n ≤ 0)` returns no entries
and a nil error; the offset does not move -/
theorem readDir_at_end (fs : FS) (f : File) (off : Nat) (n : Int)
    (hoff : (fullListing fs f.name).length ≤ off) :
    readDir fs f off n = (off, if n > 0 then none else some []) := by
  rw [readDir_eq]
  by_cases hn : n > 0
  · simp [hn, hoff]
  · simp [hn, List.drop_eq_nil_of_le hoff]

/-- **before the end a page is never empty** and never longer than asked -/
theorem readDir_page (fs : FS) (f : File) (off : Nat) (n : Int) (hn : n > 0)
    (hoff : off < (fullListing fs f.name).length) :
    ∃ page, (readDir fs f off n).2 = some page ∧ page ≠ [] ∧ page.length ≤ n.toNat ∧
      (readDir fs f off n).1 = off + page.length := by
  rw [readDir_eq, if_pos hn, if_neg (by omega)]
  refine ⟨_, rfl, ?_, by simp; omega, rfl⟩
  intro h
  have := congrArg List.length h
  simp at this
  omega

/-- **paging, complete read.** On a freshly opened directory, page sizes `n₁ n₂ …` (all positive)
that add up to at least the number of entries return, concatenated, exactly the full listing —
which `ReadDir(-1)` on a fresh handle returns in one piece — and the next call returns `io.EOF`. -/
theorem paging_complete (fs : FS) (f : File) (ns : List Int) (hpos : ∀ n ∈ ns, n > 0)
    (hsum : (fullListing fs f.name).length ≤ (ns.map Int.toNat).sum) (m : Int) (hm : m > 0) :
    concatPages (readPages fs f 0 ns).1 = fullListing fs f.name ∧
    (readDir fs f 0 (-1)).2 = some (fullListing fs f.name) ∧
    (readDir fs f (readPages fs f 0 ns).2 m).2 = none ∧
    (readDir fs f (readPages fs f 0 ns).2 (-1)).2 = some [] := by
  obtain ⟨h1, h2⟩ := readPages_spec fs f ns hpos 0 (Nat.zero_le _)
  have hend : (fullListing fs f.name).length ≤ (readPages fs f 0 ns).2 := by rw [h2]; omega
  refine ⟨?_, ?_, ?_, ?_⟩
  · rw [h1, List.drop_zero, List.take_of_length_le hsum]
  · rw [readDir_eq]; simp
  · rw [readDir_at_end fs f _ m hend]; simp [hm]
  · rw [readDir_at_end fs f _ (-1) hend]; simp

/-! ### Read and Close -/

/-- **Read after Close errs** (and keeps erring: the file stays closed) -/
theorem read_after_close (f : File) (k : Nat) :
    (f.close.read k).2 = .invalid ∧ (f.close.read k).1 = f.close := by
  simp [File.close, File.read]

/-- successive `Read` calls with buffer sizes `k₁ k₂ …` -/
def reads (f : File) : List Nat → List ReadRes × File
  | [] => ([], f)
  | k :: ks =>
    let r := f.read k
    let q := reads r.1 ks
    (r.2 :: q.1, q.2)

def concatReads (l : List ReadRes) : Bytes :=
  l.flatMap fun r => match r with | .data b => b | _ => []

/-- **reading gives the contents.** On an open file at offset `off ≤ len`, reads with any buffer
sizes return, concatenated, the next `Σ kᵢ` bytes of the contents, and advance the offset that far -/
theorem reads_spec (ks : List Nat) (f : File) (off : Nat) (hoff : f.offset = off)
    (hle : off ≤ f.data.length) :
    concatReads (reads f ks).1 = (f.data.drop off).take ks.sum ∧
    (reads f ks).2.offset = ((min (off + ks.sum) f.data.length : Nat) : Int) ∧
    (reads f ks).2.data = f.data := by
  induction ks generalizing f off with
  | nil => simp [reads, concatReads, hoff]; omega
  | cons k ks ih =>
    simp only [reads, concatReads, List.flatMap_cons, List.sum_cons]
    unfold File.read
    have h0 : ¬ f.offset < 0 := by omega
    rw [if_neg h0]
    by_cases hend : f.offset = f.data.length
    · rw [if_pos hend]
      have heq : off = f.data.length := by omega
      obtain ⟨h1, h2, h3⟩ := ih f off hoff hle
      simp only [concatReads] at h1
      simp only [List.nil_append, h1, h2, h3]
      refine ⟨?_, ?_, trivial⟩
      · rw [List.drop_eq_nil_of_le (by omega)]; simp
      · congr 1; omega
    · rw [if_neg hend]
      have hto : f.offset.toNat = off := by omega
      rw [hto]
      have hlen : ((f.data.drop off).take k).length = min k (f.data.length - off) := by simp
      obtain ⟨h1, h2, h3⟩ := ih
        { f with offset := f.offset + (((f.data.drop off).take k).length : Nat) }
        (off + ((f.data.drop off).take k).length)
        (by show f.offset + (((f.data.drop off).take k).length : Nat)
              = ((off + ((f.data.drop off).take k).length : Nat) : Int)
            omega)
        (by show off + ((f.data.drop off).take k).length ≤ f.data.length
            rw [hlen]; omega)
      simp only [concatReads] at h1
      simp only [h1, h2, h3]
      refine ⟨?_, ?_, trivial⟩
      · rw [hlen, List.take_add, ← List.drop_drop]
        by_cases hk : k ≤ f.data.length - off
        · rw [Nat.min_eq_left hk]
        · have hall : (f.data.drop off).take k = f.data.drop off :=
            List.take_of_length_le (by simp; omega)
          rw [Nat.min_eq_right (by omega), hall]
          rw [List.drop_eq_nil_of_le (as := List.drop off f.data) (i := f.data.length - off) (by simp),
              List.drop_eq_nil_of_le (as := List.drop off f.data) (i := k) (by simp; omega)]
      · rw [hlen]; congr 1; omega

/-- **ReadAll.** On a freshly opened file, buffers adding up to at least the size return exactly
the contents, and the next `Read` returns `io.EOF` -/
theorem read_all (f : File) (ks : List Nat) (h0 : f.offset = 0) (hsum : f.data.length ≤ ks.sum) (k : Nat) :
    concatReads (reads f ks).1 = f.data ∧ ((reads f ks).2.read k).2 = .eof := by
  obtain ⟨h1, h2, h3⟩ := reads_spec ks f 0 h0 (Nat.zero_le _)
  refine ⟨by rw [h1, List.drop_zero, List.take_of_length_le hsum], ?_⟩
  have hoff : (reads f ks).2.offset = ((reads f ks).2.data.length : Int) := by
    rw [h2, h3]; congr 1; omega
  unfold File.read
  rw [if_neg (by omega), if_pos hoff]

/-! ### the same through the handle table (`step`/`run`) -/

theorem set_self {α : Type} (l : List α) (i : Nat) (a : α) (h : l[i]? = some a) : l.set i a = l := by
  apply List.ext_getElem?
  intro j
  rw [List.getElem?_set]
  by_cases hij : i = j
  · subst hij
    have hlt : i < l.length := by
      rcases Nat.lt_or_ge i l.length with h' | h'
      · exact h'
      · rw [List.getElem?_eq_none h'] at h; cases h
    rw [if_pos rfl, if_pos hlt, h]
  · simp [hij]

def pageOut : Option (List File) → Out
  | none => .eof
  | some l => .entries l

/-- `ReadDir` calls on handle `i` of the table are `readPages` on that directory -/
theorem run_readDir (fs : FS) (ns : List Int) (hs : List Handle) (i : Nat) (f : File) (off : Nat)
    (hi : hs[i]? = some (.dir f off)) :
    (run { fs := fs, handles := hs } (ns.map (Op.readDir i))).2
        = (readPages fs f off ns).1.map pageOut ∧
    (run { fs := fs, handles := hs } (ns.map (Op.readDir i))).1.handles
        = hs.set i (.dir f (readPages fs f off ns).2) := by
  induction ns generalizing hs off with
  | nil =>
    simp only [List.map_nil, run, readPages, true_and]
    exact (set_self hs i _ hi).symm
  | cons n ns ih =>
    have hlt : i < hs.length := by
      rcases Nat.lt_or_ge i hs.length with h | h
      · exact h
      · rw [List.getElem?_eq_none h] at hi; cases hi
    have hi' : (hs.set i (.dir f (readDir fs f off n).1))[i]? = some (.dir f (readDir fs f off n).1) := by
      rw [List.getElem?_set]; simp [hlt]
    obtain ⟨h1, h2⟩ := ih (hs.set i (.dir f (readDir fs f off n).1)) (readDir fs f off n).1 hi'
    simp only [List.map_cons, run, step, hi, readPages, List.cons.injEq]
    refine ⟨⟨?_, h1⟩, ?_⟩
    · cases (readDir fs f off n).2 <;> rfl
    · rw [h2, List.set_set]

/-- **paging through the state machine**: open a directory, then `ReadDir(n₁)`, `ReadDir(n₂)`, … -/
theorem run_open_pages (fs : FS) (d : Bytes) (f : File) (ns : List Int)
    (ho : fsOpen fs d = some (.dir f 0)) :
    (run { fs := fs, handles := [] } (Op.open d :: ns.map (Op.readDir 0))).2
      = Out.opened 0 f.mode :: (readPages fs f 0 ns).1.map pageOut := by
  simp only [run, step, ho, List.nil_append, List.length_nil, Handle.f]
  rw [(run_readDir fs ns [.dir f 0] 0 f 0 rfl).1]

/-- a closed handle stays closed whatever is done next -/
theorem step_closed (s : State) (op : Op) (i : Nat) (h : Handle)
    (hi : s.handles[i]? = some h) (hc : h.f.offset < 0) :
    ∃ h', (step s op).1.handles[i]? = some h' ∧ h'.f.offset < 0 := by
  have hlt : i < s.handles.length := by
    rcases Nat.lt_or_ge i s.handles.length with h' | h'
    · exact h'
    · rw [List.getElem?_eq_none h'] at hi; cases hi
  cases op with
  | «open» name =>
    simp only [step]
    cases fsOpen s.fs name with
    | none => exact ⟨h, hi, hc⟩
    | some g => exact ⟨h, by simp only [List.getElem?_append_left hlt, hi], hc⟩
  | readDir j n =>
    simp only [step]
    rcases hj : s.handles[j]? with _ | (g | ⟨g, off⟩)
    · exact ⟨h, hi, hc⟩
    · exact ⟨h, hi, hc⟩
    · simp only [List.getElem?_set]
      by_cases hji : j = i
      · subst hji
        rw [hi] at hj; cases hj
        exact ⟨.dir g (readDir s.fs g off n).1, by simp [hlt], hc⟩
      · exact ⟨h, by simp [hji, hi], hc⟩
  | stat j =>
    simp only [step]
    cases s.handles[j]? <;> exact ⟨h, hi, hc⟩
  | read j k =>
    simp only [step]
    rcases hj : s.handles[j]? with _ | g
    · exact ⟨h, hi, hc⟩
    · simp only [List.getElem?_set]
      by_cases hji : j = i
      · subst hji
        rw [hi] at hj; cases hj
        refine ⟨h.setF (h.f.read k).1, by simp [hlt], ?_⟩
        have : (h.f.read k).1 = h.f := by simp [File.read, hc]
        rw [this]; cases h <;> exact hc
      · exact ⟨h, by simp [hji, hi], hc⟩
  | close j =>
    simp only [step]
    rcases hj : s.handles[j]? with _ | g
    · exact ⟨h, hi, hc⟩
    · simp only [List.getElem?_set]
      by_cases hji : j = i
      · subst hji
        refine ⟨g.setF g.f.close, by simp [hlt], ?_⟩
        cases g <;> simp [Handle.setF, Handle.f, File.close]
      · exact ⟨h, by simp [hji, hi], hc⟩

theorem run_closed (ops : List Op) (s : State) (i : Nat) (h : Handle)
    (hi : s.handles[i]? = some h) (hc : h.f.offset < 0) :
    ∃ h', (run s ops).1.handles[i]? = some h' ∧ h'.f.offset < 0 := by
  induction ops generalizing s h with
  | nil => exact ⟨h, hi, hc⟩
  | cons op ops ih =>
    obtain ⟨h', hi', hc'⟩ := step_closed s op i h hi hc
    exact ih (step s op).1 h' hi' hc'

/-- **Read after Close errs, through the state machine**: once handle `i` has been closed, after
any further operations whatsoever a `Read` on it fails with `ErrInvalid` -/
theorem run_read_after_close (s : State) (i : Nat) (h : Handle) (hi : s.handles[i]? = some h)
    (ops : List Op) (k : Nat) :
    (step (run (step s (.close i)).1 ops).1 (.read i k)).2 = .read .invalid := by
  have hlt : i < s.handles.length := by
    rcases Nat.lt_or_ge i s.handles.length with h' | h'
    · exact h'
    · rw [List.getElem?_eq_none h'] at hi; cases hi
  have h1 : (step s (.close i)).1.handles[i]? = some (h.setF h.f.close) := by
    simp only [step, hi]
    rw [List.getElem?_set]; simp [hlt]
  have hc : (h.setF h.f.close).f.offset < 0 := by
    cases h <;> simp [Handle.setF, Handle.f, File.close]
  obtain ⟨h', hi', hc'⟩ := run_closed ops _ i _ h1 hc
  generalize (run (step s (.close i)).1 ops).1 = s2 at hi'
  simp only [step, hi']
  simp [File.read, hc']

/-! ### Stat is a value: a function of the file system and the name only -/

/-- the fields the methods of `filesFileInfo` read (`name`, `data`, `mode`); `Stat` returns the
handle's own struct under that type, so these are what a `FileInfo` *is* -/
def File.core (f : File) : Bytes × Bytes × Bool := (f.name, f.data, f.mode)

theorem info_of_core (f g : File) (h : f.core = g.core) : f.info = g.info := by
  simp only [File.core, Prod.mk.injEq] at h
  simp [File.info, h.1, h.2.1, h.2.2]

/-- `Read` writes `offset` only -/
theorem read_core (f : File) (k : Nat) : (f.read k).1.core = f.core := by
  unfold File.read
  split
  · rfl
  · split <;> rfl

/-- `Close` writes `offset` only -/
theorem close_core (f : File) : f.close.core = f.core := rfl

theorem setF_f (h : Handle) (f : File) : (h.setF f).f = f := by cases h <;> rfl

/-- what `fs.Stat(fsys, name)` answers: `Open` a fresh handle and `Stat` it -/
def statOf (fs : FS) (name : Bytes) : Option Info := (fsOpen fs name).map (·.f.info)

/-- a handle whose `name`/`data`/`mode` are those of a fresh `Open` of its name -/
def Faithful (fs : FS) (h : Handle) : Prop :=
  ∃ h0, fsOpen fs h.f.name = some h0 ∧ h0.f.core = h.f.core

def AllFaithful (s : State) : Prop :=
  ∀ (i : Nat) (h : Handle), s.handles[i]? = some h → Faithful s.fs h

theorem step_fs (s : State) (op : Op) : (step s op).1.fs = s.fs := by
  cases op <;> simp only [step] <;> split <;> rfl

/-- every operation leaves `name`/`data`/`mode` of every handle of the table alone -/
theorem step_core (s : State) (op : Op) (i : Nat) (h : Handle) (hi : s.handles[i]? = some h) :
    ∃ h', (step s op).1.handles[i]? = some h' ∧ h'.f.core = h.f.core := by
  have hlt : i < s.handles.length := by
    rcases Nat.lt_or_ge i s.handles.length with h' | h'
    · exact h'
    · rw [List.getElem?_eq_none h'] at hi; cases hi
  cases op with
  | «open» name =>
    simp only [step]
    cases fsOpen s.fs name with
    | none => exact ⟨h, hi, rfl⟩
    | some g => exact ⟨h, by simp only [List.getElem?_append_left hlt, hi], rfl⟩
  | readDir j n =>
    simp only [step]
    rcases hj : s.handles[j]? with _ | (g | ⟨g, off⟩)
    · exact ⟨h, hi, rfl⟩
    · exact ⟨h, hi, rfl⟩
    · simp only [List.getElem?_set]
      by_cases hji : j = i
      · subst hji
        rw [hi] at hj; cases hj
        exact ⟨.dir g (readDir s.fs g off n).1, by simp [hlt], rfl⟩
      · exact ⟨h, by simp [hji, hi], rfl⟩
  | stat j =>
    simp only [step]
    cases s.handles[j]? <;> exact ⟨h, hi, rfl⟩
  | read j k =>
    simp only [step]
    rcases hj : s.handles[j]? with _ | g
    · exact ⟨h, hi, rfl⟩
    · simp only [List.getElem?_set]
      by_cases hji : j = i
      · subst hji
        rw [hi] at hj; cases hj
        exact ⟨h.setF (h.f.read k).1, by simp [hlt], by rw [setF_f, read_core]⟩
      · exact ⟨h, by simp [hji, hi], rfl⟩
  | close j =>
    simp only [step]
    rcases hj : s.handles[j]? with _ | g
    · exact ⟨h, hi, rfl⟩
    · simp only [List.getElem?_set]
      by_cases hji : j = i
      · subst hji
        rw [hi] at hj; cases hj
        exact ⟨h.setF h.f.close, by simp [hlt], by rw [setF_f, close_core]⟩
      · exact ⟨h, by simp [hji, hi], rfl⟩

/-- a handle of the table after an operation was there before, or is the one just opened -/
theorem step_origin (s : State) (op : Op) (i : Nat) (h' : Handle)
    (hi : (step s op).1.handles[i]? = some h') :
    (∃ h, s.handles[i]? = some h) ∨ (∃ name, fsOpen s.fs name = some h') := by
  rcases hs : s.handles[i]? with _ | h
  · right
    have hge : s.handles.length ≤ i := by
      rcases Nat.lt_or_ge i s.handles.length with h | h
      · rw [List.getElem?_eq_getElem h] at hs; cases hs
      · exact h
    cases op with
    | «open» name =>
      simp only [step] at hi
      cases ho : fsOpen s.fs name with
      | none => rw [ho] at hi; simp only at hi; rw [hs] at hi; cases hi
      | some g =>
        rw [ho] at hi
        simp only at hi
        rw [List.getElem?_append_right hge] at hi
        rcases hk : i - s.handles.length with _ | k
        · rw [hk] at hi; simp at hi; subst hi; exact ⟨name, ho⟩
        · rw [hk] at hi; simp at hi
    | readDir j n =>
      simp only [step] at hi
      split at hi
      · rw [hs] at hi; cases hi
      · rw [hs] at hi; cases hi
      · simp only [List.getElem?_set] at hi
        split at hi
        · split at hi
          · omega
          · cases hi
        · rw [hs] at hi; cases hi
    | stat j =>
      simp only [step] at hi
      split at hi <;> (rw [hs] at hi; cases hi)
    | read j k =>
      simp only [step] at hi
      split at hi
      · rw [hs] at hi; cases hi
      · simp only [List.getElem?_set] at hi
        split at hi
        · split at hi
          · omega
          · cases hi
        · rw [hs] at hi; cases hi
    | close j =>
      simp only [step] at hi
      split at hi
      · rw [hs] at hi; cases hi
      · simp only [List.getElem?_set] at hi
        split at hi
        · split at hi
          · omega
          · cases hi
        · rw [hs] at hi; cases hi
  · exact Or.inl ⟨h, rfl⟩

theorem step_allFaithful (s : State) (op : Op) (hs : AllFaithful s) : AllFaithful (step s op).1 := by
  intro i h' hi
  rw [step_fs]
  rcases step_origin s op i h' hi with ⟨h, hh⟩ | ⟨name, ho⟩
  · obtain ⟨h'', hi'', hc⟩ := step_core s op i h hh
    rw [hi''] at hi; cases hi
    obtain ⟨h0, ho, hc0⟩ := hs i h hh
    have hn : h'.f.name = h.f.name := congrArg Prod.fst hc
    exact ⟨h0, by rw [hn]; exact ho, hc0.trans hc.symm⟩
  · have hn : h'.f.name = name := (open_only s.fs name h' ho).2.1
    exact ⟨h', by rw [hn]; exact ho, rfl⟩

theorem run_fs (ops : List Op) (s : State) : (run s ops).1.fs = s.fs := by
  induction ops generalizing s with
  | nil => rfl
  | cons op ops ih => simp only [run]; rw [ih, step_fs]

theorem run_allFaithful (ops : List Op) (s : State) (hs : AllFaithful s) : AllFaithful (run s ops).1 := by
  induction ops generalizing s with
  | nil => exact hs
  | cons op ops ih => exact ih _ (step_allFaithful s op hs)

theorem run_core (ops : List Op) (s : State) (i : Nat) (h : Handle) (hi : s.handles[i]? = some h) :
    ∃ h', (run s ops).1.handles[i]? = some h' ∧ h'.f.core = h.f.core := by
  induction ops generalizing s h with
  | nil => exact ⟨h, hi, rfl⟩
  | cons op ops ih =>
    obtain ⟨h1, hi1, hc1⟩ := step_core s op i h hi
    obtain ⟨h2, hi2, hc2⟩ := ih (step s op).1 h1 hi1
    exact ⟨h2, hi2, hc2.trans hc1⟩

/-- **Stat is independent of the handle's state**: after any sequence of Open / ReadDir(n) / Stat /
Read(k) / Close operations on any handles, `Stat` of any handle of the table (read from, paged,
closed or not) answers exactly what `fs.Stat(fsys, name)` answers on a fresh handle of the same
name: the `FileInfo` is a function of the file system and the name only. -/
theorem stat_independent_of_handle_state (fs : FS) (ops : List Op) (i : Nat) (h : Handle)
    (hi : (run { fs := fs, handles := [] } ops).1.handles[i]? = some h) :
    (step (run { fs := fs, handles := [] } ops).1 (.stat i)).2 = .info h.f.info ∧
    statOf fs h.f.name = some h.f.info := by
  constructor
  · simp only [step, hi]
  · have hf : AllFaithful (run { fs := fs, handles := [] } ops).1 :=
      run_allFaithful ops _ (by intro i h hi; simp at hi)
    obtain ⟨h0, ho, hc⟩ := hf i h hi
    rw [run_fs] at ho
    simp only [statOf, ho, Option.map_some, info_of_core _ _ hc]

/-- **a Stat answer does not change with time**: whatever is done between two `Stat` calls on a
handle (on this or on any other handle), both answer the same -/
theorem stat_stable (s : State) (ops : List Op) (i : Nat) (h : Handle) (hi : s.handles[i]? = some h) :
    (step (run s ops).1 (.stat i)).2 = (step s (.stat i)).2 := by
  obtain ⟨h', hi', hc⟩ := run_core ops s i h hi
  simp only [step, hi, hi', info_of_core _ _ hc]

/-- **no method of files.go writes a field a FileInfo reads** (the table is regenerated from
files.go on every check): `Stat` returns the handle's own struct as `*filesFileInfo`, so this is
exactly the condition under which its answer is a value (`read_core`, `close_core` in the model) -/
theorem info_fields_never_written :
    ∀ m ∈ Gen.FilesWrites.writes, ∀ f ∈ m.2, f ∉ Gen.FilesWrites.infoReads := by decide

/-- the writes of the code are the ones the model's `step` performs (`Read`, `Close`: `offset`;
`ReadDir`: `n`), the info methods read `name`/`data`/`mode` (`File.core`), and the only address
taken is the entry's own embedded info in `filesDirEntry.Info` -/
theorem writes_as_modelled :
    Gen.FilesWrites.writes.filter (fun m => !m.2.isEmpty)
      = [("filesDir.ReadDir", ["n"]), ("filesFile.Close", ["offset"]), ("filesFile.Read", ["offset"])] ∧
    Gen.FilesWrites.infoReads = ["data", "mode", "name"] ∧
    Gen.FilesWrites.exposes = [("filesDirEntry.Info", ["filesFileInfo"])] := by decide

/-- a `Read` that consumes the content slice (`f.data = f.data[n:]`) instead of indexing it by the
offset returns the same bytes but is not `read_core`: the aliasing `Stat` then shrinks -/
def File.readConsuming (f : File) (k : Nat) : File × ReadRes :=
  if f.offset < 0 then (f, .invalid)
  else if f.data.length = 0 then (f, .eof)
  else
    let b := f.data.take k
    ({ f with data := f.data.drop b.length, offset := f.offset + b.length }, .data b)

theorem consuming_read_violates :
    let f : File := { name := [97], data := [120, 121, 122], offset := 0, mode := false }
    (f.readConsuming 1).2 = (f.read 1).2 ∧ (f.readConsuming 1).1.info ≠ f.info := by
  decide

/-! ### non-vacuity: a concrete valid map, its listing, paging, and the defect found -/

/-- `{"d/e/c.txt": "", "a.txt": "x", "d/b.txt": "yy"}` -/
def exFS : FS :=
  [([100, 47, 101, 47, 99, 46, 116, 120, 116], []), ([97, 46, 116, 120, 116], [120]), ([100, 47, 98, 46, 116, 120, 116], [121, 121])]

theorem exFS_valid : ValidFS exFS := by
  refine ⟨by decide, by decide, ?_⟩
  intro kv hkv kv' hkv'
  rw [← List.isPrefixOf_iff_prefix]
  revert kv kv'
  decide

example : (fullListing exFS [dot]).map (fun e => (e.info.name, e.info.size, e.info.isDir))
    = [([97, 46, 116, 120, 116], 1, false), ([100], 0, true)] := by decide
example : (fullListing exFS [100]).map (fun e => (e.info.name, e.info.size, e.info.isDir))
    = [([98, 46, 116, 120, 116], 2, false), ([101], 0, true)] := by decide
-- pages of 1 then 1 then 1: two entries, then io.EOF; ReadDir(-1) after that: empty, nil
example : ((run { fs := exFS, handles := [] }
    [.open [dot], .readDir 0 1, .readDir 0 1, .readDir 0 1, .readDir 0 (-1)]).2.map
      fun o => match o with | .entries l => some l.length | .eof => none | _ => some 99)
    = [some 99, some 1, some 1, none, some 0] := by decide

-- Stat of a handle that was read from, then closed, equals Stat of a second, fresh handle
example : ((run { fs := exFS, handles := [] }
    [.open [97, 46, 116, 120, 116], .stat 0, .read 0 1, .stat 0, .close 0, .stat 0,
     .open [97, 46, 116, 120, 116], .stat 1]).2.filterMap
      fun o => match o with | .info i => some i.size | _ => none)
    = [1, 1, 1, 1] := by decide
example : statOf exFS [97, 46, 116, 120, 116]
    = some { name := [97, 46, 116, 120, 116], size := 1, mode := false, isDir := false } := by decide

/-- `ReadDir` as it was before the fix (DESIGN §8 row 7): every entry `filesFileInfo{name}`, and
`n ≤ 0` ignores the offset -/
def readDirUnfixed (fs : FS) (f : File) (off : Nat) (n : Int) : Nat × Option (List File) :=
  let l := listing fs f.name
  if n > 0 then
    if l.1.length ≤ off then (off, none)
    else
      let names := l.1.drop off
      let names := if names.length > n then names.take n.toNat else names
      (off + names.length, some (names.map fun nm => { name := nm, data := [], offset := 0, mode := false }))
  else (off, some (l.1.map fun nm => { name := nm, data := [], offset := 0, mode := false }))

/-- the unfixed code breaks `entry_agrees_with_stat` (entry `d` is not a directory, `a.txt` has
size 0) and `paging_complete` (`ReadDir(-1)` at the end returns the entries again) on `exFS` -/
theorem unfixed_violates :
    (readDirUnfixed exFS { name := [dot], data := [], offset := 0, mode := true } 0 (-1)).2
        ≠ some (fullListing exFS [dot]) ∧
    (readDirUnfixed exFS { name := [dot], data := [], offset := 0, mode := true } 2 (-1)).2 ≠ some [] := by
  decide

end ScriggoV.Files
