import ScriggoV.Lemmas.EscapeHtml
import ScriggoV.Lemmas.EscapeCss
import ScriggoV.Lemmas.EscapeUrl
import ScriggoV.Lemmas.EscapeJs
import ScriggoV.Lemmas.URLQuery
import ScriggoV.Lemmas.URLAttr
import ScriggoV.Gen.ShowInURLPipe
/-! C07 — escaped values decode back to the exact original text.

Escapers: `Model/Escape.lean` (loops hand-written, tables/predicates regenerated from
escapers.go into `Gen/EscapeTables.lean`). Decoders: `Spec/Decode.lean` (from the standards,
independent of the escapers). Property theorems only; lemmas are in `Lemmas/Escape*.lean`.
All statements are over arbitrary byte strings — valid UTF-8 or not. -/
namespace ScriggoV.Escape
open ScriggoV ScriggoV.Decode

/-! ### HTML text and attribute values -/

/-- **HTML text.** For every named-reference table that knows `amp`, `lt`, `gt` (the numeric
references are decoded per the standard), decoding the output of `htmlEscape` gives `s`. -/
theorem html_roundtrip (named : Named) (hstd : Named.Std named) (s : Bytes) :
    htmlDecode named (htmlEscapeOut s) = s := by
  unfold htmlDecode htmlEscapeOut htmlEscapeChunks
  rw [html_roundtrip_of_caseFact _ htmlFact_all named hstd s]
  rfl

/-- **Attribute values**, quoted (`"…"`/`'…'`) and unquoted, for values whose entities are
escaped (`escapeEntities = true`: every type except `native.HTML` & co.). -/
theorem attribute_roundtrip (named : Named) (hstd : Named.Std named) (quoted : Bool) (s : Bytes) :
    htmlDecode named (attributeEscapeOut true quoted s) = s := by
  cases quoted with
  | true => exact html_roundtrip named hstd s
  | false =>
    unfold htmlDecode attributeEscapeOut attributeEscapeChunks
    simp only [Bool.false_eq_true, if_false]
    rw [html_roundtrip_of_caseFact _ attrFact_all named hstd s]
    rfl

/-- Scope: with `escapeEntities = false` (values of type `native.HTML` & co., which already
are HTML source) `&` is deliberately left alone, so the output decodes to the *decoded* value,
not to `s`; the round trip is not claimed there. -/
theorem attribute_noentities_keeps_references :
    htmlDecode stdNamed (attributeEscapeOut false true [38, 97, 109, 112, 59]) = [38] := by
  decide +kernel

-- the hypothesis is satisfiable: the driver's concrete table
example : Named.Std stdNamed := ⟨fun _ => rfl, fun _ => rfl, fun _ => rfl⟩
example : htmlEscapeOut [97, 60, 38, 34] = [97, 38,108,116,59, 38,97,109,112,59, 38,35,51,52,59] := by
  decide +kernel

/-! ### CSS strings -/

/-- **CSS strings**, general form: decoding gives every byte back, except that U+0000 — which
CSS cannot represent, escaped or not — comes back as U+FFFD. -/
theorem css_roundtrip_nul (s : Bytes) : cssDecode (cssStringEscapeOut s) = s.flatMap cssValue := by
  unfold cssDecode
  rw [css_decode_out]
  rfl

/-- **CSS strings.** `cssDecode (cssStringEscape s) = s` for every byte string without NUL.
Rests on `prefixFact_all`: with `prefixWithSpace` covering only `a–b`/`A–B` it is false
(`"<c"` was written `\3cc` = U+03CC). -/
theorem css_roundtrip (s : Bytes) (h : ∀ c ∈ s, c ≠ 0) : cssDecode (cssStringEscapeOut s) = s := by
  rw [css_roundtrip_nul, flatMap_cssValue_of_no_nul s h]

/-- the exception is real: NUL does not survive (language limit, not a defect of the escaper) -/
theorem css_nul_not_representable : cssDecode (cssStringEscapeOut [0]) = [0xEF, 0xBF, 0xBD] := by
  rw [css_roundtrip_nul]; rfl

example : ∀ c ∈ ([0x3C, 0x63] : Bytes), c ≠ 0 := by decide
-- the input of DESIGN §8 row 2, after the fix
example : cssStringEscapeOut [0x3C, 0x63] = [0x5C, 0x33, 0x63, 0x20, 0x63] := by decide +kernel

/-! ### URL query values -/

/-- **URL query.** Percent-decoding the output of `queryEscape` gives `s`, whether `+` is read
as a space (`url.QueryUnescape`) or not (`url.PathUnescape`). -/
theorem query_roundtrip (plusAsSpace : Bool) (s : Bytes) :
    pctDecode plusAsSpace (queryEscapeOut s) = some s :=
  query_decode_out plusAsSpace s

/-- the output uses only RFC 3986 unreserved characters and `%XX` -/
theorem query_alphabet (s : Bytes) : pctAlphabet (queryEscapeOut s) = true :=
  query_alphabet_out s

/-- `showInURL` first renders the value as HTML and undoes that with `html.UnescapeString`
before `queryEscape`: by `html_roundtrip` the detour changes nothing. -/
theorem showInURL_query (named : Named) (hstd : Named.Std named) (s : Bytes) :
    queryEscapeOut (htmlDecode named (htmlEscapeOut s)) = queryEscapeOut s := by
  rw [html_roundtrip named hstd s]

/-- `pathEscape` keeps a `%` that is followed by two `isHexDigit` bytes: that predicate is
exactly the decoder's set of hex digits (pathEscape itself is tied by correspondence and by the
harness's path oracle only; no round trip is claimed for it since it keeps `%XX` on purpose). -/
theorem isHexDigit_spec (c : UInt8) :
    Gen.EscapeTables.isHexDigit c = (hexDig? c).isSome := by
  have := hexDigitFact_all c
  simpa [hexDigitFact] using this

/-- the byte count `queryEscape` returns is the length of what it wrote -/
theorem queryEscapeN_eq (s : Bytes) : queryEscapeN s = (queryEscapeOut s).length := by
  simp [queryEscapeN, queryEscapeOut, List.length_flatten]

/-! ### JavaScript and JSON string literals
`jsStringEscape` ranges over runes. A byte that is not part of a valid UTF-8 sequence is seen
as U+FFFD of width 1 and *not* escaped, so invalid UTF-8 passes through unchanged; a string
literal cannot represent such bytes as code points, which is why the round trip is stated on
bytes: the decoder copies bytes ≥ 0x80 (on valid UTF-8 that is the code-point decoder). -/

/-- the `last`/`i` arithmetic of the range loop (`last = i + 3` after U+2028/U+2029) never
produces an out-of-range slice -/
theorem js_no_fault (s : Bytes) : ∀ f, jsStringEscapeChunksE s ≠ .error f := by
  intro f h
  obtain ⟨cs, h1, _⟩ := jsStringEscape_ok s
  rw [h1] at h
  cases h

/-- **JS strings.** The output is a valid string-literal body between `"…"` as well as `'…'`
(strict mode: no raw quote, backslash or line terminator, no octal escape) and its value
is `s`. -/
theorem js_roundtrip (s : Bytes) : jsDecode false (jsStringEscapeOut s) = some s :=
  js_decode_out false s

/-- **JSON strings.** The same output is a valid JSON string body (RFC 8259: only the JSON
escapes, no raw control character) and its value is `s`. -/
theorem json_roundtrip (s : Bytes) : jsDecode true (jsStringEscapeOut s) = some s :=
  js_decode_out true s

-- invalid UTF-8 (0xFF, a truncated E2 80) is written unchanged; U+2028 is escaped
example : jsStringEscapeOut [0xFF, 0xE2, 0x80, 0x27, 0xE2, 0x80, 0xA8]
    = [0xFF, 0xE2, 0x80, 0x5C,0x75,0x30,0x30,0x32,0x37, 0x5C,0x75,0x32,0x30,0x32,0x38] := by
  decide +kernel

end ScriggoV.Escape

/-! ### Values in URL attributes: the renderer's URL state machine
`Model/URLState.lean` (C05's model of `renderer.Text` / `showInURL` / `endURL`) says which
escaper a shown value gets; `Model/URLRender.lean` renders its tokens with the escaper models. -/
namespace ScriggoV.URLRender
open ScriggoV ScriggoV.URLState ScriggoV.Escape ScriggoV.Decode

/-- **Query values, for all call sequences.** Take any calls `pre` (no `srcset`-like `Text`)
that leave the renderer inside a URL attribute, then a literal text `txt` of that URL such that
the URL has a query by now — it had one before (`?`/`#` in an earlier text, or `?` in an earlier
value) or `txt` contains `?` or `#`. Then whatever follows inside the same attribute, every
literal text is written unchanged and every shown value is written by `queryEscape`
(`tok`), the state stays settled, and no index can fault. -/
theorem url_values_after_text_query_escaped (pre cs : List Call) (txt : Bytes)
    (r0 r1 : State) (o0 o1 : List Out)
    (hpre : ∀ c ∈ pre, notSet c = true)
    (h0 : run pre = .ok (r0, o0)) (hu : r0.inURL = true)
    (h1 : step r0 (.text txt true false) = .ok (r1, o1))
    (hq : r0.query = true ∨ hasQ txt = true)
    (hcs : ∀ c ∈ cs, urlCall c = true) :
    ∃ r2, run (pre ++ .text txt true false :: cs) = .ok (r2, o0 ++ (o1 ++ cs.flatMap tok)) ∧
      Settled r2 := by
  have hi : Inv r0 := inv_run pre {} r0 o0 inv_init hpre h0
  have hs : Settled r1 := settle_text r0 r1 o1 txt hi hu h1 hq
  obtain ⟨r2, h2, hs2⟩ := settled_run cs r1 hs hcs
  refine ⟨r2, ?_, hs2⟩
  unfold run at h0 ⊢
  rw [runFrom_append, h0]
  simp [runFrom, h1, h2, bind, Except.bind, pure, Except.pure]

/-- what such a value looks like in the output, and that it decodes back: `showInURL` passes
`html.UnescapeString(htmlEscape v)` — which is `v` — to `queryEscape` -/
theorem url_query_value_decodes (plusAsSpace : Bool) (v : Bytes) (inURL quoted : Bool) :
    render (tok (.show (shownString v) inURL quoted)) = queryEscapeOut v ∧
    pctDecode plusAsSpace (render (tok (.show (shownString v) inURL quoted))) = some v := by
  have hv : shownString v = v := html_roundtrip stdNamed ⟨fun _ => rfl, fun _ => rfl, fun _ => rfl⟩ v
  simp [tok, render, renderOut, hv, query_roundtrip]

-- non-vacuity, and the regression this guards: `<a href="{{ base }}&b={{ v }}">` with
-- base = "/p?a=1": the `?` comes from an earlier *value*, the text `&b=` settles the state,
-- and `v` is query-escaped
example : (run [.text [0x3C] false false, .show [0x2F,0x70,0x3F,0x61,0x3D,0x31] true true,
      .text [0x26,0x62,0x3D] true false, .show [0x78,0x26,0x79] true true]).toOption.map Prod.snd
    = some [.raw [0x3C], .path [0x2F,0x70,0x3F,0x61,0x3D,0x31] true, .raw [0x26,0x62,0x3D],
        .query [0x78,0x26,0x79]] := by decide +kernel

/-- The unconditional reading — "after the first `?`, from wherever, every value is
query-escaped" — is **false of the code**: a value that directly follows (no literal text in
between) the value that brought the `?` is written by `pathEscape`, which keeps `& = # +`.
Known finding `url-adjacent-values` (replayed on the real engine by the harness). -/
def EveryValueAfterQuestionMarkIsQueryEscaped : Prop :=
  ∀ (s1 s2 : Bytes) (q : Bool), s1.contains 0x3F = true →
    ∃ r o, run [.show s1 true q, .show s2 true q] = .ok (r, o ++ [.query s2])

theorem not_everyValueAfterQuestionMarkIsQueryEscaped :
    ¬ EveryValueAfterQuestionMarkIsQueryEscaped := by
  intro h
  obtain ⟨r, o, h⟩ := h [0x3F] [0x31] true rfl
  have : (run [.show [0x3F] true true, .show [0x31] true true]).toOption.map Prod.snd
      = some [.path [0x3F] true, .path [0x31] true] := by decide +kernel
  rw [h] at this
  simp [Except.toOption] at this
  have hl := congrArg List.getLast? this
  simp at hl

/-- Why `url_values_after_text_query_escaped` excludes `srcset`-like attributes: at a comma
`Text` resets only `query`; `removeQuestionMark` and `addAmpersand` left by an earlier value
with a `?` survive into the next URL of the set, whose value after `?w=` is then written by
`pathEscape` (and an `&amp;` is inserted before the next text). Known finding
`url-srcset-stale-flags`: `a?b=` `, ` `img` `?w=` `x&y` ` 2x`. -/
theorem srcset_stale_flags :
    (run [.show [0x61,0x3F,0x62,0x3D] true true, .text [0x2C,0x20] true true,
          .show [0x69,0x6D,0x67] true true, .text [0x3F,0x77,0x3D] true true,
          .show [0x78,0x26,0x79] true true, .text [0x20,0x32,0x78] true true]).toOption.map Prod.snd
      = some [.path [0x61,0x3F,0x62,0x3D] true, .raw [0x2C,0x20], .path [0x69,0x6D,0x67] true,
          .raw [0x3F,0x77,0x3D], .path [0x78,0x26,0x79] true, .amp, .raw [0x20,0x32,0x78]] := by
  decide +kernel

/-- The same defect class, second instance (known finding `url-srcset-comma-text-hides-query`):
`Text` does not look for `?`/`#` in a text that contains a comma, so when the candidate separator
and the start of the next URL's query are in one static text (`/a 1x, /b?w=`) the value after
it is written by `pathEscape`. -/
theorem srcset_comma_text_hides_query :
    (run [.text [0x2F,0x61,0x20,0x31,0x78,0x2C,0x20,0x2F,0x62,0x3F,0x77,0x3D] true true,
          .show [0x78,0x26,0x79] true true]).toOption.map Prod.snd
      = some [.raw [0x2F,0x61,0x20,0x31,0x78,0x2C,0x20,0x2F,0x62,0x3F,0x77,0x3D],
          .path [0x78,0x26,0x79] true] := by
  decide +kernel

/-- Known finding `url-lone-question-mark-text`: after a value that brought the `?`, a static
text that is exactly `?` is dropped and — being empty then — not replaced by `&amp;`, while
the flags are reset: the next value is glued to what the first value ended with
(`/q?a=1` `?` `b` writes `/q?a=1` `` `b`). -/
theorem lone_question_mark_text_dropped :
    (run [.show [0x2F,0x71,0x3F,0x61,0x3D,0x31] true true, .text [0x3F] true false,
          .show [0x62] true true]).toOption.map Prod.snd
      = some [.path [0x2F,0x71,0x3F,0x61,0x3D,0x31] true, .raw [], .query [0x62]] := by
  decide +kernel

/-- Known finding `url-value-ends-with-second-question-mark`: a `?` at the very end of the value
that brings the query counts as "the query is empty so far" also when the value has an earlier
`?`: no `&amp;` replaces the `?` removed from the following text (`/q?a=1?` `?p2=` `x` writes
`/q?a=1?` `p2=` `x`). -/
theorem value_ends_with_second_question_mark :
    (run [.show [0x2F,0x71,0x3F,0x61,0x3D,0x31,0x3F] true true, .text [0x3F,0x70,0x32,0x3D] true false,
          .show [0x78] true true]).toOption.map Prod.snd
      = some [.path [0x2F,0x71,0x3F,0x61,0x3D,0x31,0x3F] true, .raw [0x70,0x32,0x3D], .query [0x78]] := by
  decide +kernel

/-! ### The URL attribute pipeline end to end, for plain strings
The browser's side: the HTML tokenizer decodes the character references of the attribute value
(`htmlDecode`, any named-reference table that knows `amp`, `lt`, `gt`), the URL is split at its
delimiters, and the components are percent-decoded (`pctDecode`). The renderer's side:
`showInURL` writes `queryEscape (html.UnescapeString (htmlEscape v))` for a plain string `v`
(as opposed to a `native.HTML` value, whose character references are decoded first by design:
`attribute_noentities_keeps_references`). -/

/-- **The pipeline in front of the escapers is the identity on plain strings**, stated over the
two stage names regenerated from the body of `showInURL` (`Gen/ShowInURLPipe.lean`): the string
handed to `pathEscape`/`queryEscape` is the shown string itself. With `showInText` in place of
`showInHTML` (a plain string written as it is and then entity-decoded) this is false —
`&amp;` would reach the escaper as `&` — and the theorem does not build. -/
theorem showInURL_pipeline_plain_string (v : Bytes) :
    shownStringVia Gen.ShowInURLPipe.shownVia Gen.ShowInURLPipe.decodedBy v = some v := by
  have hv := html_roundtrip stdNamed ⟨fun _ => rfl, fun _ => rfl, fun _ => rfl⟩ v
  simp [shownStringVia, Gen.ShowInURLPipe.shownVia, Gen.ShowInURLPipe.decodedBy, hv]

/-- the escapers `showInURL` calls on that string are the two modelled ones -/
theorem showInURL_pipeline_escapers :
    ∀ e ∈ Gen.ShowInURLPipe.escapers, e = "pathEscape" ∨ e = "queryEscape" := by
  decide

/-- what the alternative pipeline would do (the reason for the statement above) -/
example : shownStringVia "showInText" "html.UnescapeString" [0x26,0x61,0x6D,0x70,0x3B] = some [0x26] := by
  decide +kernel

/-- **One value, both decoders composed**: entity-decoding and then percent-decoding what the
renderer writes for a plain string in a query position gives the string back. -/
theorem url_attr_value_roundtrip (named : Named) (plusAsSpace : Bool)
    (v : Bytes) (inURL quoted : Bool) :
    pctDecode plusAsSpace (htmlDecode named (render (tok (.show (shownString v) inURL quoted))))
      = some v := by
  have hv : shownString v = v := shownString_eq v
  have hs := steps_noAmp named (queryEscapeOut v) (queryEscapeOut_noAmp v)
  have hd := steps_decode named _ _ _ hs (Nat.le_refl _)
  simp [tok, render, renderOut, hv, hd, query_roundtrip]

/-- **The whole attribute value.** Static text without a bare `&`, `&amp;` separators (the
author's or the renderer's) and any number of plain strings shown in query positions: the
tokenizer's decoding acts piece by piece — no character reference of the static text reaches
into a value, none arises inside a value or across its ends. -/
theorem url_attr_entity_decode (named : Named) (hstd : Named.Std named) (ps : List Piece)
    (hok : ∀ p ∈ ps, p.ok = true) :
    htmlDecode named (ps.flatMap Piece.src) = ps.flatMap Piece.val := by
  obtain ⟨k, h, l⟩ := pieces_steps named hstd ps hok
  exact steps_decode named _ _ k h l

/-- **A value in its context, both decoders composed.** In the attribute value the browser
sees, the slot of `v` holds `queryEscape v`: bytes that are inert for the URL splitter (no
`& ; # ? = + / ,`, no white space, quote or angle bracket — so the slot is neither cut nor
joined with its neighbours, in a `srcset` either), and percent-decoding them gives `v`. -/
theorem url_attr_query_value_roundtrip (named : Named) (hstd : Named.Std named)
    (plusAsSpace : Bool) (pre post : List Piece) (v : Bytes)
    (hpre : ∀ p ∈ pre, p.ok = true) (hpost : ∀ p ∈ post, p.ok = true) :
    htmlDecode named ((pre ++ .value v :: post).flatMap Piece.src)
        = pre.flatMap Piece.val ++ queryEscapeOut v ++ post.flatMap Piece.val ∧
      (∀ c ∈ queryEscapeOut v, urlInert c = true) ∧
      pctDecode plusAsSpace (queryEscapeOut v) = some v := by
  refine ⟨?_, queryEscapeOut_inert v, query_roundtrip plusAsSpace v⟩
  rw [url_attr_entity_decode named hstd]
  · simp [List.flatMap_append, List.flatMap_cons, Piece.val]
  · intro p hp
    simp only [List.mem_append, List.mem_cons] at hp
    rcases hp with hp | rfl | hp
    · exact hpre p hp
    · rfl
    · exact hpost p hp

-- non-vacuity: `/p?a=1&amp;q=` `{{ "Q&amp;A" }}` `&amp;r=2` decodes to `/p?a=1&q=Q%26amp%3bA&r=2`
example : htmlDecode stdNamed (([.plain [0x2F,0x70,0x3F,0x61,0x3D,0x31], .amp, .plain [0x71,0x3D],
      .value [0x51,0x26,0x61,0x6D,0x70,0x3B,0x41], .amp, .plain [0x72,0x3D,0x32]] : List Piece).flatMap Piece.src)
    = [0x2F,0x70,0x3F,0x61,0x3D,0x31, 0x26, 0x71,0x3D,
       0x51,0x25,0x32,0x36,0x61,0x6D,0x70,0x25,0x33,0x62,0x41, 0x26, 0x72,0x3D,0x32] := by
  decide +kernel

end ScriggoV.URLRender
