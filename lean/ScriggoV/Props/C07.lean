import ScriggoV.Lemmas.EscapeHtml
import ScriggoV.Lemmas.EscapeCss
import ScriggoV.Lemmas.EscapeUrl
import ScriggoV.Lemmas.EscapeJs
/-! C07 — escaped values decode back to the exact original text.

Escapers: `Model/Escape.lean` (loops hand-written, tables/predicates regenerated from
escapers.go into `Gen/EscapeTables.lean`). Decoders: `Spec/Decode.lean` (from the standards,
independent of the escapers). Property theorems only; lemmas are in `Lemmas/Escape*.lean`.
All statements are over arbitrary byte strings — valid UTF-8 or not. -/
namespace ScriggoV.Escape
open ScriggoV ScriggoV.Decode

/-! ### HTML text and attribute values -/

/-- **HTML text.** For every named-reference table that knows `amp`, `lt`, `gt` (the numeric
references are decoded per the standard), decoding the output of `htmlEscape` gives `s`. -/
theorem html_roundtrip (named : Named) (hstd : Named.Std named) (s : Bytes) :
    htmlDecode named (htmlEscapeOut s) = s := by
  unfold htmlDecode htmlEscapeOut htmlEscapeChunks
  rw [html_roundtrip_of_caseFact _ htmlFact_all named hstd s]
  rfl

/-- **Attribute values**, quoted (`"…"`/`'…'`) and unquoted, for values whose entities are
escaped (`escapeEntities = true`: every type except `native.HTML` & co.). -/
theorem attribute_roundtrip (named : Named) (hstd : Named.Std named) (quoted : Bool) (s : Bytes) :
    htmlDecode named (attributeEscapeOut true quoted s) = s := by
  cases quoted with
  | true => exact html_roundtrip named hstd s
  | false =>
    unfold htmlDecode attributeEscapeOut attributeEscapeChunks
    simp only [Bool.false_eq_true, if_false]
    rw [html_roundtrip_of_caseFact _ attrFact_all named hstd s]
    rfl

/-- Scope: with `escapeEntities = false` (values of type `native.HTML` & co., which already
are HTML source) `&` is deliberately left alone, so the output decodes to the *decoded* value,
not to `s`; the round trip is not claimed there. -/
theorem attribute_noentities_keeps_references :
    htmlDecode stdNamed (attributeEscapeOut false true [38, 97, 109, 112, 59]) = [38] := by
  decide +kernel

-- the hypothesis is satisfiable: the driver's concrete table
example : Named.Std stdNamed := ⟨fun _ => rfl, fun _ => rfl, fun _ => rfl⟩
example : htmlEscapeOut [97, 60, 38, 34] = [97, 38,108,116,59, 38,97,109,112,59, 38,35,51,52,59] := by
  decide +kernel

/-! ### CSS strings -/

/-- **CSS strings**, general form: decoding gives every byte back, except that U+0000 — which
CSS cannot represent, escaped or not — comes back as U+FFFD. -/
theorem css_roundtrip_nul (s : Bytes) : cssDecode (cssStringEscapeOut s) = s.flatMap cssValue := by
  unfold cssDecode
  rw [css_decode_out]
  rfl

/-- **CSS strings.** `cssDecode (cssStringEscape s) = s` for every byte string without NUL.
Rests on `prefixFact_all`: with `prefixWithSpace` covering only `a–b`/`A–B` it is false
(`"<c"` was written `\3cc` = U+03CC). -/
theorem css_roundtrip (s : Bytes) (h : ∀ c ∈ s, c ≠ 0) : cssDecode (cssStringEscapeOut s) = s := by
  rw [css_roundtrip_nul, flatMap_cssValue_of_no_nul s h]

/-- the exception is real: NUL does not survive (language limit, not a defect of the escaper) -/
theorem css_nul_not_representable : cssDecode (cssStringEscapeOut [0]) = [0xEF, 0xBF, 0xBD] := by
  rw [css_roundtrip_nul]; rfl

example : ∀ c ∈ ([0x3C, 0x63] : Bytes), c ≠ 0 := by decide
-- the input of DESIGN §8 row 2, after the fix
example : cssStringEscapeOut [0x3C, 0x63] = [0x5C, 0x33, 0x63, 0x20, 0x63] := by decide +kernel

/-! ### URL query values -/

/-- **URL query.** Percent-decoding the output of `queryEscape` gives `s`, whether `+` is read
as a space (`url.QueryUnescape`) or not (`url.PathUnescape`). -/
theorem query_roundtrip (plusAsSpace : Bool) (s : Bytes) :
    pctDecode plusAsSpace (queryEscapeOut s) = some s :=
  query_decode_out plusAsSpace s

/-- the output uses only RFC 3986 unreserved characters and `%XX` -/
theorem query_alphabet (s : Bytes) : pctAlphabet (queryEscapeOut s) = true :=
  query_alphabet_out s

/-- `showInURL` first renders the value as HTML and undoes that with `html.UnescapeString`
before `queryEscape`: by `html_roundtrip` the detour changes nothing. -/
theorem showInURL_query (named : Named) (hstd : Named.Std named) (s : Bytes) :
    queryEscapeOut (htmlDecode named (htmlEscapeOut s)) = queryEscapeOut s := by
  rw [html_roundtrip named hstd s]

/-- `pathEscape` keeps a `%` that is followed by two `isHexDigit` bytes: that predicate is
exactly the decoder's set of hex digits (pathEscape itself is tied by correspondence and by the
harness's path oracle only; no round trip is claimed for it since it keeps `%XX` on purpose). -/
theorem isHexDigit_spec (c : UInt8) :
    Gen.EscapeTables.isHexDigit c = (hexDig? c).isSome := by
  have := hexDigitFact_all c
  simpa [hexDigitFact] using this

/-- the byte count `queryEscape` returns is the length of what it wrote -/
theorem queryEscapeN_eq (s : Bytes) : queryEscapeN s = (queryEscapeOut s).length := by
  simp [queryEscapeN, queryEscapeOut, List.length_flatten]

/-! ### JavaScript and JSON string literals
`jsStringEscape` ranges over runes. A byte that is not part of a valid UTF-8 sequence is seen
as U+FFFD of width 1 and *not* escaped, so invalid UTF-8 passes through unchanged; a string
literal cannot represent such bytes as code points, which is why the round trip is stated on
bytes: the decoder copies bytes ≥ 0x80 (on valid UTF-8 that is the code-point decoder). -/

/-- the `last`/`i` arithmetic of the range loop (`last = i + 3` after U+2028/U+2029) never
produces an out-of-range slice -/
theorem js_no_fault (s : Bytes) : ∀ f, jsStringEscapeChunksE s ≠ .error f := by
  intro f h
  obtain ⟨cs, h1, _⟩ := jsStringEscape_ok s
  rw [h1] at h
  cases h

/-- **JS strings.** The output is a valid string-literal body between `"…"` as well as `'…'`
(strict mode: no raw quote, backslash or line terminator, no octal escape) and its value
is `s`. -/
theorem js_roundtrip (s : Bytes) : jsDecode false (jsStringEscapeOut s) = some s :=
  js_decode_out false s

/-- **JSON strings.** The same output is a valid JSON string body (RFC 8259: only the JSON
escapes, no raw control character) and its value is `s`. -/
theorem json_roundtrip (s : Bytes) : jsDecode true (jsStringEscapeOut s) = some s :=
  js_decode_out true s

-- invalid UTF-8 (0xFF, a truncated E2 80) is written unchanged; U+2028 is escaped
example : jsStringEscapeOut [0xFF, 0xE2, 0x80, 0x27, 0xE2, 0x80, 0xA8]
    = [0xFF, 0xE2, 0x80, 0x5C,0x75,0x30,0x30,0x32,0x37, 0x5C,0x75,0x32,0x30,0x32,0x38] := by
  decide +kernel

end ScriggoV.Escape
