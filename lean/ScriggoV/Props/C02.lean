import ScriggoV.Lemmas.ConstIntBig
import ScriggoV.Lemmas.ConstIntPromote
/-! # C02 — compile-time integer constant arithmetic is exact

Property theorems only (helper lemmas: `Lemmas/ConstIntBits.lean`, `ConstIntFast.lean`,
`ConstIntRep.lean`).  All statements are about the definitions *generated* from
`internal/compiler/constant.go` (`Gen/ConstInt.lean`) and the hand-written specification
`Spec/GoConst.lean`; they hold for all operands (no bound, no sampling).

`a b : BitVec 64` are the two `int64Const` operands, `a.toInt` their values. -/
namespace ScriggoV.ConstEval
open ScriggoV.Spec.GoConst ScriggoV.Gen.ConstInt

/-- every operator `int64Const.binaryOp` handles is one of the nine arithmetic or six comparison
operators of the specification (nothing generated is left without a theorem below) -/
theorem ops_covered (op : Op) : (∃ a, toOp a = op) ∨ (∃ c, cmpToOp c = op) := by
  cases op
  · exact .inr ⟨.eq, rfl⟩
  · exact .inr ⟨.ne, rfl⟩
  · exact .inr ⟨.lt, rfl⟩
  · exact .inr ⟨.le, rfl⟩
  · exact .inr ⟨.gt, rfl⟩
  · exact .inr ⟨.ge, rfl⟩
  · exact .inl ⟨.add, rfl⟩
  · exact .inl ⟨.sub, rfl⟩
  · exact .inl ⟨.mul, rfl⟩
  · exact .inl ⟨.quo, rfl⟩
  · exact .inl ⟨.rem, rfl⟩
  · exact .inl ⟨.and, rfl⟩
  · exact .inl ⟨.or, rfl⟩
  · exact .inl ⟨.xor, rfl⟩
  · exact .inl ⟨.andNot, rfl⟩

/-- what the fast path does on an arithmetic operator, in one statement: division by zero is
refused; otherwise, when the exact result fits an int64 it is returned (exactly), and when it
does not the operation is handed to math/big -/
theorem fast_arith (op : Arith) (a b : BitVec 64) :
    match arith op a.toInt b.toInt with
    | none => fastBinary (toOp op) a b = .divZero
    | some v =>
      if fitsInt64 v = true then ∃ r, fastBinary (toOp op) a b = .value r ∧ r.toInt = v
      else fastBinary (toOp op) a b = .useBig := by
  have fits_toInt : ∀ r : BitVec 64, fitsInt64 r.toInt = true := fun r => by
    rw [fitsInt64_iff]; have := toInt_bounds r; omega
  cases op <;> simp only [arith, toOp]
  · by_cases h : fitsInt64 (a.toInt + b.toInt) = true
    · rw [if_pos h]; exact ⟨_, (fast_add a b).1 h⟩
    · rw [if_neg h]; exact (fast_add a b).2 (by simpa using h)
  · by_cases h : fitsInt64 (a.toInt - b.toInt) = true
    · rw [if_pos h]; exact ⟨_, (fast_sub a b).1 h⟩
    · rw [if_neg h]; exact (fast_sub a b).2 (by simpa using h)
  · by_cases h : fitsInt64 (a.toInt * b.toInt) = true
    · rw [if_pos h]; exact ⟨_, (fast_mul a b).1 h⟩
    · rw [if_neg h]; exact (fast_mul a b).2 (by simpa using h)
  · by_cases hb : b = 0#64
    · have : b.toInt = 0 := by rw [hb]; exact zero_toInt
      simp only [this, if_true]; exact (fast_quo a b).1 hb
    · have : b.toInt ≠ 0 := fun h => hb ((toInt_eq_zero_iff b).mp h)
      simp only [this, if_false]
      by_cases h : fitsInt64 (a.toInt.tdiv b.toInt) = true
      · rw [if_pos h]; exact ⟨_, ((fast_quo a b).2 hb).1 h⟩
      · rw [if_neg h]; exact ((fast_quo a b).2 hb).2 (by simpa using h)
  · by_cases hb : b = 0#64
    · have : b.toInt = 0 := by rw [hb]; exact zero_toInt
      simp only [this, if_true]; exact (fast_rem a b).1 hb
    · have : b.toInt ≠ 0 := fun h => hb ((toInt_eq_zero_iff b).mp h)
      simp only [this, if_false]
      have := (fast_rem a b).2 hb
      rw [← this.2, if_pos (fits_toInt _)]; exact ⟨_, this.1, rfl⟩
  · rw [← toInt_and64, if_pos (fits_toInt _)]; exact ⟨_, fast_and a b, rfl⟩
  · rw [← toInt_or64, if_pos (fits_toInt _)]; exact ⟨_, fast_or a b, rfl⟩
  · rw [← toInt_xor64, if_pos (fits_toInt _)]; exact ⟨_, fast_xor a b, rfl⟩
  · rw [← toInt_andNot64, if_pos (fits_toInt _)]; exact ⟨_, fast_andNot a b, rfl⟩

/-- **C02, no silent wrap.** Whenever the int64 fast path returns a value, it is the exact
result of the operation on the operands' values — for every operator and all operands. -/
theorem fast_exact (op : Arith) (a b r : BitVec 64)
    (h : fastBinary (toOp op) a b = .value r) : arith op a.toInt b.toInt = some r.toInt := by
  have := fast_arith op a b
  cases hv : arith op a.toInt b.toInt with
  | none => rw [hv] at this; simp only [] at this; rw [h] at this; cases this
  | some v =>
    rw [hv] at this; simp only [] at this
    split at this
    · obtain ⟨r', hr', hv'⟩ := this
      rw [h] at hr'; cases hr'; rw [hv']
    · rw [h] at this; cases this

/-- **C02, fall-back.** The fast path hands the operation to math/big exactly when the exact
result exists and does not fit an int64. -/
theorem fast_falls_back_iff (op : Arith) (a b : BitVec 64) :
    fastBinary (toOp op) a b = .useBig ↔
      ∃ v, arith op a.toInt b.toInt = some v ∧ fitsInt64 v = false := by
  have := fast_arith op a b
  cases hv : arith op a.toInt b.toInt with
  | none =>
    rw [hv] at this; simp only [] at this
    constructor
    · intro h; rw [h] at this; cases this
    · rintro ⟨v, h, _⟩; cases h
  | some v =>
    rw [hv] at this; simp only [] at this
    split at this
    · rename_i hf
      obtain ⟨r, hr, _⟩ := this
      constructor
      · intro h; rw [h] at hr; cases hr
      · rintro ⟨v', h, hf'⟩; cases h; rw [hf] at hf'; cases hf'
    · rename_i hf
      exact ⟨fun _ => ⟨v, rfl, by simpa using hf⟩, fun _ => this⟩

/-- division by zero is refused, and nothing else is -/
theorem fast_divZero_iff (op : Arith) (a b : BitVec 64) :
    fastBinary (toOp op) a b = .divZero ↔ arith op a.toInt b.toInt = none := by
  have := fast_arith op a b
  cases hv : arith op a.toInt b.toInt with
  | none => rw [hv] at this; exact ⟨fun _ => rfl, fun _ => this⟩
  | some v =>
    rw [hv] at this; simp only [] at this
    constructor
    · intro h
      split at this
      · obtain ⟨r, hr, _⟩ := this; rw [h] at hr; cases hr
      · rw [h] at this; cases this
    · intro h; cases h

/-- **binary arithmetic on two constants in any representation** — fast path, fall-back and
`intConst.binaryOp` together (math/big interpreted by `bigSem`): division by zero is refused;
otherwise the constant returned has exactly the exact value, unless the operator goes through
`overflow()` and the exact value exceeds 512 bits -/
theorem sArith_spec (op : Arith) (a b : SC) :
    match arith op a.val b.val with
    | none => sArith op a b = .error .divZero
    | some r =>
      if ((bigBinary (toOp op)).checksOverflow && bigOverflows r) = true then
        sArith op a b = .error .untypedOverflow
      else ∃ c, sArith op a b = .ok c ∧ c.val = r := by
  cases a with
  | big x => cases b <;> exact sBigArith_spec op _ _
  | small x =>
    cases b with
    | big y => exact sBigArith_spec op _ _
    | small y =>
      have hf := fast_arith op x y
      have hb := sBigArith_spec op x.toInt y.toInt
      simp only [SC.val]
      cases hv : arith op x.toInt y.toInt with
      | none =>
        rw [hv] at hf; simp only [] at hf ⊢
        unfold sArith; simp only [hf]
      | some r =>
        rw [hv] at hf hb; simp only [] at hf hb ⊢
        by_cases hfit : fitsInt64 r = true
        · rw [if_pos hfit] at hf
          obtain ⟨q, hq, hqv⟩ := hf
          rw [not_bigOverflows_of_fits r hfit, Bool.and_false]
          simp only [Bool.false_eq_true, if_false]
          unfold sArith; simp only [hq]
          exact ⟨_, rfl, hqv⟩
        · rw [if_neg hfit] at hf
          have : sArith op (.small x) (.small y) = sBigArith (toOp op) x.toInt y.toInt := by
            unfold sArith; simp only [hf]
          rw [this]; exact hb

/-- comparisons of the fast path are the comparisons of the values -/
theorem fast_cmp_exact (op : Cmp) (a b : BitVec 64) :
    fastBinary (cmpToOp op) a b = .bool (cmp op a.toInt b.toInt) := fast_cmp op a b

/-- the Go code of the fast path never panics (no division by zero reaches `/`, no index out of
range) and never reports "invalid operation" for an operator it handles -/
theorem fast_no_fault (op : Op) (a b : BitVec 64) :
    fastBinary op a b ≠ .goPanic ∧ fastBinary op a b ≠ .invalidOp := by
  rcases ops_covered op with ⟨o, rfl⟩ | ⟨c, rfl⟩
  · have := fast_arith o a b
    cases hv : arith o a.toInt b.toInt with
    | none => rw [hv] at this; simp only [] at this; rw [this]; exact ⟨(fun h => nomatch h), (fun h => nomatch h)⟩
    | some v =>
      rw [hv] at this; simp only [] at this
      split at this
      · obtain ⟨r, hr, _⟩ := this; rw [hr]; exact ⟨(fun h => nomatch h), (fun h => nomatch h)⟩
      · rw [this]; exact ⟨(fun h => nomatch h), (fun h => nomatch h)⟩
  · rw [fast_cmp]; exact ⟨(fun h => nomatch h), (fun h => nomatch h)⟩

/-- the right shift of the int64 path is `⌊x / 2^n⌋`, for every count -/
theorem fast_shr_exact (c sc : BitVec 64) :
    ∃ r, fastShr c sc = .value r ∧ r.toInt = c.toInt / (2 : Int) ^ sc.toNat := by
  obtain ⟨h1, h2⟩ := fast_shr c sc
  exact ⟨_, h1, by rw [h2, shiftRight_eq_floor_div]⟩

/-! ## unary operators -/

/-- kind of the type handed to `unaryOp`: `int` for an untyped constant -/
def codeOf : Option Kind → Nat
  | none => kInt
  | some k => kindCode k

theorem isSigned_kindCode (k : Kind) : isSigned (kindCode k) = k.signed := by cases k <;> decide

/-- every unsigned kind has its table entry, the maximum of the type (this is what was missing
for `uintptr`: `^uintptr(3)` made Build panic) -/
theorem maxUnsigned_kindCode (k : Kind) (h : k.signed = false) :
    maxUnsigned (kindCode k) = some (BitVec.ofNat 64 (maxOf k).toNat) ∧
      ((BitVec.ofNat 64 (maxOf k).toNat).toNat : Int) = maxOf k := by
  cases k <;> first | (exact absurd h (by decide)) | decide

/-- **unary `-`**: exact when a value is returned; math/big exactly for `-MinInt64` -/
theorem fast_neg_exact (code : Nat) (c : BitVec 64) :
    if fitsInt64 (-c.toInt) = true then ∃ r, fastUnary .neg code c = .value r ∧ r.toInt = -c.toInt
    else fastUnary .neg code c = .useBig := by
  obtain ⟨lc, hc⟩ := toInt_bounds c
  by_cases h : c.toInt = -9223372036854775808
  · rw [if_neg (by rw [fitsInt64_iff]; omega)]; exact (fast_neg code c).2 h
  · rw [if_pos (by rw [fitsInt64_iff]; omega)]; exact ⟨_, (fast_neg code c).1 h⟩

/-- **unary `^`** on an untyped constant or a typed constant of any integer kind (for an unsigned
kind the constant is non-negative, as every constant of such a type is): the specification's
complement — xor with -1, or with the maximum of the unsigned type — exactly, or math/big when
it does not fit an int64; never a fault -/
theorem fast_compl_exact (ty : Option Kind) (c : BitVec 64)
    (hc : ∀ k, ty = some k → k.signed = false → 0 ≤ c.toInt) :
    if fitsInt64 (complement ty c.toInt) = true then
      ∃ r, fastUnary .xor (codeOf ty) c = .value r ∧ r.toInt = complement ty c.toInt
    else fastUnary .xor (codeOf ty) c = .useBig := by
  have fits_toInt : ∀ r : BitVec 64, fitsInt64 r.toInt = true := fun r => by
    rw [fitsInt64_iff]; have := toInt_bounds r; omega
  have signedCase : ∀ code, isSigned code = true →
      (if fitsInt64 (bitXor (-1) c.toInt) = true then
        ∃ r, fastUnary .xor code c = .value r ∧ r.toInt = bitXor (-1) c.toInt
      else fastUnary .xor code c = .useBig) := by
    intro code hs
    rw [← toInt_not64, if_pos (fits_toInt _)]
    exact ⟨_, fast_compl_signed code hs c, rfl⟩
  cases ty with
  | none => exact signedCase kInt (by decide)
  | some k =>
    cases hs : k.signed with
    | true =>
      simp only [complement, hs, if_true, codeOf]
      exact signedCase _ (by rw [isSigned_kindCode, hs])
    | false =>
      simp only [complement, hs, codeOf]
      obtain ⟨hm, hmv⟩ := maxUnsigned_kindCode k hs
      have := fast_compl_unsigned (kindCode k) (by rw [isSigned_kindCode, hs]) _ c hm (hc k rfl hs)
      rw [hmv] at this
      simp only [Bool.false_eq_true, if_false]
      by_cases hf : fitsInt64 (bitXor (maxOf k) c.toInt) = true
      · rw [if_pos hf]; rw [fitsInt64_iff] at hf; exact ⟨_, this.1 hf.2⟩
      · rw [if_neg hf]
        apply this.2
        have hnn : 0 ≤ bitXor (maxOf k) c.toInt := by
          have h0 := hc k rfl hs
          rw [← hmv, ← Int.toNat_of_nonneg h0, bitXor_natCast]; omega
        have : ¬ (-9223372036854775808 ≤ bitXor (maxOf k) c.toInt ∧ bitXor (maxOf k) c.toInt ≤ 9223372036854775807) := by
          rw [← fitsInt64_iff]; exact hf
        omega

/-- unary operators never fault, for every integer kind (and untyped) and every operand -/
theorem fast_unary_no_fault (op : UOp) (ty : Option Kind) (c : BitVec 64) :
    fastUnary op (codeOf ty) c ≠ .goPanic := by
  cases op with
  | plus => rw [fast_plus]; intro h; cases h
  | neg =>
    have := fast_neg_exact (codeOf ty) c
    split at this
    · obtain ⟨r, hr, _⟩ := this; rw [hr]; intro h; cases h
    · rw [this]; intro h; cases h
  | xor =>
    have hcases : isSigned (codeOf ty) = true ∨ ∃ m, isSigned (codeOf ty) = false ∧ maxUnsigned (codeOf ty) = some m := by
      cases ty with
      | none => left; decide
      | some k =>
        cases hs : k.signed with
        | true => left; simp only [codeOf]; rw [isSigned_kindCode, hs]
        | false => right; exact ⟨_, by simp only [codeOf]; rw [isSigned_kindCode, hs], (maxUnsigned_kindCode k hs).1⟩
    rcases hcases with hs | ⟨m, hs, hm⟩
    · rw [fast_compl_signed _ hs]; intro h; cases h
    · simp only [fastUnary, hs, hm, Bool.false_eq_true, if_false]
      split <;> (intro h; cases h)

/-- the masks of the math/big complement agree with the specification, for every kind -/
theorem bigXorMask_spec (ty : Option Kind) :
    bigXorMask (codeOf ty) = some (match ty with
      | none => -1
      | some k => if k.signed then -1 else maxOf k) := by
  cases ty with
  | none => decide
  | some k => cases k <;> decide

/-! ## representability -/

/-- **C02, representability.** For every integer kind and every constant (in either
representation, hence for every integer value): `representedBy` succeeds iff the value lies in
the range of the kind; the constant it returns has the same value; the only error is overflow. -/
theorem representedBy_iff (k : Kind) (c : SC) :
    (∃ c', sRep (kindCode k) c = .ok c') ↔ minOf k ≤ c.val ∧ c.val ≤ maxOf k := by
  obtain ⟨h1, h2⟩ := sRep_spec k c
  rw [← representable_iff]
  constructor
  · rintro ⟨c', hc'⟩
    cases hr : representable k c.val with
    | true => rfl
    | false => rw [h2 hr] at hc'; cases hc'
  · intro hr; obtain ⟨c', hc', _⟩ := h1 hr; exact ⟨c', hc'⟩

/-- the same for an arbitrary integer `n` -/
theorem representedBy_iff_int (k : Kind) (n : Int) :
    (∃ c', sRep (kindCode k) (.big n) = .ok c') ↔ minOf k ≤ n ∧ n ≤ maxOf k :=
  representedBy_iff k (.big n)

theorem representedBy_value (k : Kind) (c c' : SC) (h : sRep (kindCode k) c = .ok c') : c'.val = c.val := by
  obtain ⟨h1, h2⟩ := sRep_spec k c
  cases hr : representable k c.val with
  | true => obtain ⟨c'', hc'', hv⟩ := h1 hr; rw [h] at hc''; cases hc''; exact hv
  | false => rw [h2 hr] at h; cases h

theorem representedBy_error (k : Kind) (c : SC) (e : Reject) (h : sRep (kindCode k) c = .error e) : e = .overflow := by
  obtain ⟨h1, h2⟩ := sRep_spec k c
  cases hr : representable k c.val with
  | true => obtain ⟨c'', hc'', _⟩ := h1 hr; rw [h] at hc''; cases hc''
  | false => rw [h2 hr] at h; cases h; rfl

/-! ## shift counts -/

/-- **shift guard.** `shiftConstError` accepts a count iff it is a non-negative value of `uint`
and, for `<<`, below the limit (512) -/
theorem shift_guard (isLeft : Bool) (c : SC) :
    sShiftGuard isLeft c = .ok () ↔
      0 ≤ c.val ∧ c.val ≤ maxUint64 ∧ (isLeft = true → c.val < shiftLeftLimit) := by
  rw [sShiftGuard_eq]
  unfold scriggoRule
  have hr := representable_iff .uint c.val
  have : minOf .uint = 0 ∧ maxOf .uint = 18446744073709551615 := by decide
  have hm : maxUint64 = 18446744073709551615 := by decide
  rw [this.1, this.2] at hr
  rw [hm]
  by_cases h0 : c.val < 0
  · simp [h0]; omega
  · by_cases h1 : representable .uint c.val = true
    · have := hr.mp h1
      cases isLeft <;> simp [h0, h1] <;> omega
    · have : ¬ (0 ≤ c.val ∧ c.val ≤ 18446744073709551615) := fun h => h1 (hr.mpr h)
      simp [h0, h1]; omega

/-- Full statement: Scriggo's rule for constant shift counts is Go's (go/types). It is false of
the code today — known findings `shift-right-count-limit`, `shift-left-count-limit`. -/
def ShiftRuleMatchesGo : Prop :=
  ∀ (isLeft : Bool) (c : Int), scriggoRule isLeft c = .ok () ↔ goRule isLeft c = .ok ()

/-- refuted by the recorded witnesses: `x >> 1075` is accepted, `x << 512` is refused -/
theorem shiftRule_differs_from_go : ¬ ShiftRuleMatchesGo := by
  intro h
  have h1 : scriggoRule false 1075 = .ok () := by rfl
  have h2 : goRule false 1075 = .error .shiftTooLarge := by rfl
  have := (h false 1075).mp h1
  rw [h2] at this; cases this

theorem shiftRule_differs_from_go_left :
    ¬ (scriggoRule true 512 = .ok () ↔ goRule true 512 = .ok ()) := by
  intro h
  have h1 : goRule true 512 = .ok () := by rfl
  have h2 : scriggoRule true 512 = .error .shiftTooLarge := by rfl
  have := h.mpr h1
  rw [h2] at this; cases this

/-- the part that holds: the two rules agree on a count exactly when it is outside the two gaps
(left shifts by 512 … 1074; right shifts by 1075 … MaxUint64) -/
theorem shiftRule_partial (isLeft : Bool) (c : Int) :
    (scriggoRule isLeft c = .ok () ↔ goRule isLeft c = .ok ()) ↔
      ¬ (isLeft = true ∧ shiftLeftLimit ≤ c ∧ c ≤ goShiftBound) ∧
      ¬ (isLeft = false ∧ goShiftBound < c ∧ c ≤ maxUint64) := by
  have hr := representable_iff .uint c
  have hmm : minOf .uint = 0 ∧ maxOf .uint = 18446744073709551615 := by decide
  rw [hmm.1, hmm.2] at hr
  have hm : maxUint64 = 18446744073709551615 := by decide
  have hb : goShiftBound = 1074 := by decide
  have hl : (shiftLeftLimit : Int) = 512 := by decide
  unfold scriggoRule goRule goShiftCountOk
  rw [hm, hb, hl]
  by_cases h0 : c < 0
  · simp [h0]; omega
  · by_cases h1 : representable .uint c = true
    · have := hr.mp h1
      cases isLeft <;> simp [h0, h1] <;> omega
    · have : ¬ (0 ≤ c ∧ c ≤ 18446744073709551615) := fun h => h1 (hr.mpr h)
      cases isLeft <;> simp [h0, h1] <;> omega

/-! ## limits -/

/-- the 512-bit limit of `intConst.overflow` is the limit of the reference -/
theorem overflow_limit (v : Int) : bigOverflows v = !fitsUntyped v := by
  unfold bigOverflows fitsUntyped
  have : overflowBits = untypedBits := by decide
  rw [this]
  by_cases h : 2 ^ untypedBits ≤ v.natAbs <;> simp [h] <;> omega

/-! ## promotion of two constants to the same implementation (`toSameConstImpl`, generated `promote`)

`NC.valid` is what each implementation can hold.  For every pair of different implementations except
`floatConst` with `ratConst` the promotion is exact for **all** values: it succeeds, changes neither
value, and both results have the same implementation.  (If a conversion that rounds — e.g.
`newFloatConst(float64(n))` for an `int64Const` `n`, which keeps 53 bits — were used, the generated
table would contain the step `i64ToF64` and this theorem would fail at `n = 2^53 + 1`.) -/

set_option exponentiation.threshold 600 in
local macro "promo" : tactic =>
  `(tactic| simp [toSame, promote, NC.impl, applySteps, applyStep, stepTarget, stepExactOn, NC.val, SC.val,
      repQ_intCast, bind, Except.bind, pure, Except.pure, *])

theorem promotion_exact (a b : NC) (ha : a.valid) (hb : b.valid) (hd : a.impl ≠ b.impl)
    (hfr : ¬ (a.impl = .bigf ∧ b.impl = .rat)) (hrf : ¬ (a.impl = .rat ∧ b.impl = .bigf)) :
    ∃ a' b', toSame a b = .ok (a', b') ∧ a'.val = a.val ∧ b'.val = b.val ∧ a'.impl = b'.impl := by
  have key : ∃ a' b', toSame a b = .ok (a', b') ∧ a'.impl = b'.impl := by
    have h53 : float64Prec ≤ bigFloatPrec := by decide
    cases a with
    | int sa =>
      cases sa with
      | small x =>
        have hx : repBits bigFloatPrec x.toInt.natAbs = true := repBits_of_lt (natAbs_toInt_lt x)
        cases b with
        | int sb =>
          cases sb with
          | small y => exact absurd rfl hd
          | big w => exact ⟨.int (.big x.toInt), .int (.big w), by promo, rfl⟩
        | f64 w =>
          have hw := repQ_mono h53 hb
          exact ⟨.bigf (x.toInt : Int), .bigf w, by promo, rfl⟩
        | bigf w => exact ⟨.bigf (x.toInt : Int), .bigf w, by promo, rfl⟩
        | rat w => exact ⟨.rat (x.toInt : Int), .rat w, by promo, rfl⟩
      | big v =>
        have hv : repBits bigFloatPrec v.natAbs = true := repBits_of_lt ha
        cases b with
        | int sb =>
          cases sb with
          | small y => exact ⟨.int (.big v), .int (.big y.toInt), by promo, rfl⟩
          | big w => exact absurd rfl hd
        | f64 w =>
          have hw := repQ_mono h53 hb
          exact ⟨.bigf (v : Int), .bigf w, by promo, rfl⟩
        | bigf w => exact ⟨.bigf (v : Int), .bigf w, by promo, rfl⟩
        | rat w => exact ⟨.rat (v : Int), .rat w, by promo, rfl⟩
    | f64 v =>
      have hv := repQ_mono h53 ha
      cases b with
      | int sb =>
        cases sb with
        | small y =>
          have hy : repBits bigFloatPrec y.toInt.natAbs = true := repBits_of_lt (natAbs_toInt_lt y)
          exact ⟨.bigf v, .bigf (y.toInt : Int), by promo, rfl⟩
        | big w =>
          have hw : repBits bigFloatPrec w.natAbs = true := repBits_of_lt hb
          exact ⟨.bigf v, .bigf (w : Int), by promo, rfl⟩
      | f64 w => exact absurd rfl hd
      | bigf w => exact ⟨.bigf v, .bigf w, by promo, rfl⟩
      | rat w => exact ⟨.rat v, .rat w, by promo, rfl⟩
    | bigf v =>
      cases b with
      | int sb =>
        cases sb with
        | small y =>
          have hy : repBits bigFloatPrec y.toInt.natAbs = true := repBits_of_lt (natAbs_toInt_lt y)
          exact ⟨.bigf v, .bigf (y.toInt : Int), by promo, rfl⟩
        | big w =>
          have hw : repBits bigFloatPrec w.natAbs = true := repBits_of_lt hb
          exact ⟨.bigf v, .bigf (w : Int), by promo, rfl⟩
      | f64 w =>
        have hw := repQ_mono h53 hb
        exact ⟨.bigf v, .bigf w, by promo, rfl⟩
      | bigf w => exact absurd rfl hd
      | rat w => exact absurd ⟨rfl, rfl⟩ hfr
    | rat v =>
      cases b with
      | int sb =>
        cases sb with
        | small y => exact ⟨.rat v, .rat (y.toInt : Int), by promo, rfl⟩
        | big w => exact ⟨.rat v, .rat (w : Int), by promo, rfl⟩
      | f64 w => exact ⟨.rat v, .rat w, by promo, rfl⟩
      | bigf w => exact absurd ⟨rfl, rfl⟩ hrf
      | rat w => exact absurd rfl hd
  obtain ⟨a', b', h, hi⟩ := key
  obtain ⟨h1, h2⟩ := toSame_val a b a' b' h
  exact ⟨a', b', h, h1, h2, hi⟩

/-- in every case: when the promotion succeeds in the model, the values are unchanged -/
theorem promotion_preserves_values (a b a' b' : NC) (h : toSame a b = .ok (a', b')) :
    a'.val = a.val ∧ b'.val = b.val := toSame_val a b a' b' h

/-- the one promotion that can round (`newFloatConst(0).setRat(r)`, 512 bits): exact iff the rational
is a binary fraction with a 512-bit mantissa; otherwise the model leaves its exact fragment -/
theorem promotion_bigf_rat (x y : Rat) :
    toSame (.bigf x) (.rat y) = (if repQ bigFloatPrec y then .ok (.bigf x, .bigf y) else .error .inexact) ∧
    toSame (.rat y) (.bigf x) = (if repQ bigFloatPrec y then .ok (.bigf y, .bigf x) else .error .inexact) := by
  constructor <;>
    (by_cases h : repQ bigFloatPrec y = true <;>
      simp [toSame, promote, NC.impl, applySteps, applyStep, stepTarget, stepExactOn, NC.val, bind, Except.bind, h])

-- non-vacuity: an integer that needs 54 bits against a float64 constant, and against a ratConst
example : toSame (.int (.small 9007199254740993#64)) (.f64 ((2 : Int) : Rat)) =
    .ok (.bigf ((9007199254740993 : Int) : Rat), .bigf ((2 : Int) : Rat)) := by rfl
example : (NC.int (.small 9007199254740993#64)).valid ∧ (NC.f64 ((2 : Int) : Rat)).valid := ⟨trivial, by rfl⟩
example : stepExactOn .i64ToF64 ((9007199254740993 : Int) : Rat) = false := by rfl

/-! ## kind of a binary operation on untyped constants (checker glue, regenerated)

`foldOpKind`, `foldAsFloat`, `foldResultKind` are regenerated from the both-constants path of
`typechecker.binaryOp` (the statements that select the kind of the operation and the type of the
result); `ukCode` gives the `reflect.Kind` of the default type of an untyped kind
(int < rune(int32) < float64 < complex128).  Go: the kind of a binary operation on untyped
constants — and with it integer vs. floating-point division — is the LARGER of the two kinds. -/

theorem binop_kind_is_max (u1 u2 : UKind) :
    foldOpKind true (ukCode u1) (ukCode u2) = ukCode (u1.max u2) ∧
    foldResultKind false false true (ukCode u1) (ukCode u2) = ukCode (u1.max u2) ∧
    foldAsFloat true (foldOpKind true (ukCode u1) (ukCode u2)) = !(u1.max u2).isInteger := by
  cases u1 <;> cases u2 <;> decide

theorem ukOfCode_ukCode (u : UKind) : ukOfCode (ukCode u) = some u := by cases u <;> decide

theorem resultTy_untyped (u1 u2 : UKind) :
    resultTy false (.untyped u1) (.untyped u2) = .ok (.untyped (u1.max u2)) := by
  simp only [resultTy, tyCode]
  rw [(binop_kind_is_max u1 u2).2.1, ukOfCode_ukCode]

/-- the both-constants path on two untyped operands, with the generated kind selection evaluated -/
theorem sBin_untyped (op : Arith) (u1 u2 : UKind) (a b : CC) :
    sBin op (.num (.untyped u1) a) (.num (.untyped u2) b) =
      ((if op == .quo && !(u1.max u2).isInteger then cAsFloatingPoint a else .ok a) >>= fun a' =>
        cArith op a' b >>= fun r => .ok (.num (.untyped (u1.max u2)) r)) := by
  have hk := binop_kind_is_max u1 u2
  have hfold : foldAsFloat (op == .quo) (foldOpKind true (ukCode u1) (ukCode u2)) =
      (op == .quo && !(u1.max u2).isInteger) := by
    cases hq : (op == Arith.quo)
    · rw [hk.1]; simp [foldAsFloat]
    · exact hk.2.2
  simp only [sBin, sConvOperands, tyIsUntyped, tyCode, bind, Except.bind, resultTy_untyped, sTyped, hfold]
  split <;> rfl

theorem except_bind_ok {ε α β : Type} (x : Except ε α) (f : α → Except ε β) (v : β)
    (h : (x >>= f) = .ok v) : ∃ y, x = .ok y ∧ f y = .ok v := by
  cases x with
  | error e => cases h
  | ok y => exact ⟨y, rfl, h⟩

theorem sBin_kind_is_max (op : Arith) (u1 u2 : UKind) (a b : CC) (ty : Ty) (c : CC)
    (h : sBin op (.num (.untyped u1) a) (.num (.untyped u2) b) = .ok (.num ty c)) :
    ty = .untyped (u1.max u2) := by
  rw [sBin_untyped] at h
  obtain ⟨a', _, h⟩ := except_bind_ok _ _ _ h
  obtain ⟨r, _, h⟩ := except_bind_ok _ _ _ h
  cases h; rfl

-- non-vacuity: 7 / real(2+0i) — an integer constant divided by a floating-point constant held as an
-- integer — goes through asFloatingPoint, so it is not the integer division
example : foldAsFloat true (foldOpKind true (ukCode .int) (ukCode .float)) = true := by decide
example : foldAsFloat true (foldOpKind true (ukCode .rune) (ukCode .int)) = false := by decide

/-! ## non-vacuity and the recorded defects -/

-- the fixed defect of §8 row 11: `MinInt64 / -1` now leaves the int64 path (before the fix the
-- generated definition returned `.value MinInt64` here, which refuted `fast_exact`)
example : fastBinary .quo (BitVec.ofInt 64 (-9223372036854775808)) (BitVec.ofInt 64 (-1)) = .useBig := by decide
example : arith .quo (-9223372036854775808) (-1) = some 9223372036854775808 := by decide
-- hypotheses of `fast_exact` are satisfiable by non-trivial operands, on every kind of arm
example : fastBinary (toOp .mul) 3037000499#64 3037000499#64 = .value 9223372030926249001#64 := by decide
example : fastBinary (toOp .mul) 3037000500#64 3037000500#64 = .useBig := by decide
example : fastBinary (toOp .add) 9223372036854775807#64 1#64 = .useBig := by decide
example : fastBinary (toOp .rem) (BitVec.ofInt 64 (-7)) 3#64 = .value (BitVec.ofInt 64 (-1)) := by decide
example : fastBinary (toOp .andNot) (BitVec.ofInt 64 (-7)) 3#64 = .value (BitVec.ofInt 64 (-8)) := by decide
-- the fixed defect of §8 row 24: `^uintptr(3)`
example : fastUnary .xor (codeOf (some .uintptr)) 3#64 = .useBig := by decide
example : fastUnary .xor (codeOf (some .uint8)) 3#64 = .value 252#64 := by decide
example : sRep (kindCode .uint8) (.big 255) = .ok (.small 255#64) := by rfl
example : sRep (kindCode .uint8) (.small 256#64) = .error .overflow := by rfl
example : sShiftGuard true (.small 511#64) = .ok () := by rfl

end ScriggoV.ConstEval
