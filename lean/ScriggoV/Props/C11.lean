import ScriggoV.Lemmas.Cancel
import ScriggoV.Lemmas.CancelDispatch
import ScriggoV.Model.CancelCode
/-! # C11 — cancelling the run context stops any execution promptly

Property theorems only. The machine is `Model/Cancel.lean`: VMs over instruction classes, an
adversarial environment that schedules VMs, decides channel readiness, cancels the context and
lets the watcher goroutine run. The theorems hold for **every** program and **every** event
sequence; they are conditional on the cancellation facts of run.go (`Facts.all`), and those are
*regenerated from /repo* (`Gen/Blocking.lean`) and discharged by `decide` at the end of this file.

Not proved (runtime, supported by the harness only): that the Go scheduler lets the watcher
goroutine and every VM run within a bounded time after the cancellation (the model counts steps,
not seconds), and that native (host) code returns. Known finding (open, replayed by the harness
in a child process): a function value that native code calls from a goroutine *of its own* and
that is interrupted by the cancellation panics with the context's error in that goroutine, where
nothing recovers it — the host process dies; the `callback` frames of the model are the
synchronous case only, where the panic crosses the native code into the calling VM. -/
namespace ScriggoV.Cancel
open ScriggoV.Gen.Blocking

theorem run_nil (F : Facts) (s : Sys) : s.run F [] = s := rfl
theorem run_cons (F : Facts) (s : Sys) (e : Ev) (es : List Ev) :
    s.run F (e :: es) = (s.apply F e).run F es := rfl

/-- generalised form of `prompt_stop`: every own step after the flag is set uses up budget -/
theorem budget_run (F : Facts) (hF : F.all = true) (i : Nat) :
    ∀ (evs : List Ev) (s : Sys) (v : VM), s.flag = true → WF s → s.vms[i]? = some v →
      ∃ v', (s.run F evs).vms[i]? = some v' ∧ budget v' ≤ budget v - ownSteps i evs := by
  intro evs
  induction evs with
  | nil => intro s v _ _ hv; exact ⟨v, hv, by simp [ownSteps]⟩
  | cons e es ih =>
    intro s v hf hw hv
    rw [run_cons]
    have hf' := flag_mono F s e hf
    have hw' := WF_apply F s e hw
    by_cases he : ∃ rdy, e = .step i rdy
    · obtain ⟨rdy, rfl⟩ := he
      have hc : s.ctxClosed = true := hw hf
      have hs := apply_vm_self F s i rdy v hv
      rw [hc, hf] at hs
      obtain ⟨v', h1, h2⟩ := ih _ _ hf' hw' hs
      refine ⟨v', h1, ?_⟩
      have := budget_step F hF s.prog rdy v
      simp only [ownSteps, if_true]
      omega
    · have hne : ∀ rdy, e ≠ .step i rdy := fun rdy h => he ⟨rdy, h⟩
      have hs := apply_vm_other F s e i v hv hne
      obtain ⟨v', h1, h2⟩ := ih _ _ hf' hw' hs
      refine ⟨v', h1, ?_⟩
      have : ownSteps i (e :: es) = ownSteps i es := by
        cases e with
        | cancel => rfl
        | watch => rfl
        | step j r =>
          have : j ≠ i := by intro h; exact hne r (by rw [h])
          simp [ownSteps, this]
      rw [this]; exact h2

theorem not_live_of_budget_zero (v : VM) (h : budget v = 0) : live v = false := by
  obtain ⟨pc, st⟩ := v
  cases st <;> simp [budget, live] at *

/-- **C11, prompt stop.** Once `env.done` is set, whatever the program and whatever the
environment does afterwards (schedule, channel readiness, goroutines), every VM that was alive
is out of its loop after at most `budget` of its own steps: 1 for a VM that is executing
instructions (it stops at its next loop head, before executing anything), 2 for a VM blocked in
a channel operation (the operation may complete if it became ready at the same moment; then the
loop head stops it), ticks+2 for a VM inside host code (not interruptible). Hypothesis: the
loop-head test exists and every blocking opcode selects on the done case. -/
theorem prompt_stop (F : Facts) (hF : F.all = true) (s : Sys) (evs : List Ev) (i : Nat) (v : VM)
    (hflag : s.flag = true) (hwf : WF s) (hv : s.vms[i]? = some v)
    (hsteps : budget v ≤ ownSteps i evs) :
    ∃ v', (s.run F evs).vms[i]? = some v' ∧ live v' = false := by
  obtain ⟨v', h1, h2⟩ := budget_run F hF i evs s v hflag hwf hv
  exact ⟨v', h1, not_live_of_budget_zero v' (by omega)⟩

/-- a VM blocked in a channel operation does not even need the flag: the closed `Done()` channel
wakes it (that is the done case), and it then sets the flag for everybody else (`vm.stop`) -/
theorem blocked_wakes_on_cancel (F : Facts) (hF : F.all = true) (s : Sys) (i : Nat) (pc : Nat)
    (b : Blocked) (fr : List CbFrame) (hc : s.ctxClosed = true)
    (hv : s.vms[i]? = some ⟨pc, .blocked b, fr⟩) (hs : F.stopSetsFlag = true) :
    (s.apply F (.step i false)).vms[i]? = some ⟨pc, .stopped, []⟩ ∧
    (s.apply F (.step i false)).flag = true := by
  have hd : F.doneCase b = true := by
    simp only [Facts.all, Bool.and_eq_true] at hF
    cases b <;> simp [Facts.doneCase, hF]
  have he : F.epilogue = true := by
    simp only [Facts.all, Bool.and_eq_true] at hF; exact hF.2
  constructor
  · rw [apply_vm_self F s i false _ hv]
    simp [stepVM, blockStep, stopVM, hd, hc, he]
  · rw [apply_step, hv]
    simp [stepAt_flag, stepVM, blockStep, stopVM, hd, hc, hs, he]

theorem stepAt_result_main (F : Facts) (s : Sys) (rdy : Bool) (v : VM) :
    (s.stepAt F 0 rdy v).result =
      if s.result.isNone then
        match (stepVM F s.prog s.ctxClosed s.flag rdy v).vm.st with
        | .stopped => some (resultOf (s.flag || ((stepVM F s.prog s.ctxClosed s.flag rdy v).stop && F.stopSetsFlag)))
        | .finished => some (resultOf (s.flag || ((stepVM F s.prog s.ctxClosed s.flag rdy v).stop && F.stopSetsFlag)))
        | _ => none
      else s.result := rfl

/-- the state of a run after the flag was set: the flag stays, and `Run` has either returned the
context's error or its main VM is still alive -/
def Cancelled (s : Sys) : Prop :=
  s.flag = true ∧ WF s ∧
    (s.result = some .ctxErr ∨ (s.result = none ∧ ∃ v, s.vms[0]? = some v ∧ live v = true))

theorem cancelled_apply (F : Facts) (s : Sys) (e : Ev) (h : Cancelled s) :
    Cancelled (s.apply F e) := by
  obtain ⟨hf, hw, hr⟩ := h
  refine ⟨flag_mono F s e hf, WF_apply F s e hw, ?_⟩
  by_cases he : ∃ rdy, e = .step 0 rdy
  · obtain ⟨rdy, rfl⟩ := he
    rcases hr with hr | ⟨hr, v, hv, hl⟩
    · left
      rw [apply_step]
      split
      · exact hr
      · simp [Sys.stepAt, hr]
    · have hvs := apply_vm_self F s 0 rdy v hv
      rw [apply_step, hv] at hvs ⊢
      simp only at hvs ⊢
      have hres := stepAt_result_main F s rdy v
      rw [hr] at hres
      simp only [Option.isNone_none, if_true] at hres
      rw [hres]
      generalize stepVM F s.prog s.ctxClosed s.flag rdy v = r at hvs
      obtain ⟨⟨rpc, rst⟩, rstop, rspawn⟩ := r
      cases rst <;> simp [hf, resultOf, live] <;> exact ⟨_, hvs, rfl⟩
  · have hne : ∀ rdy, e ≠ .step 0 rdy := fun rdy h => he ⟨rdy, h⟩
    have hres : (s.apply F e).result = s.result := by
      cases e with
      | cancel => rfl
      | watch => rw [apply_watch]; split <;> rfl
      | step j r =>
        have hj : j ≠ 0 := by intro h; exact hne r (by rw [h])
        rw [apply_step]
        split
        · rfl
        · simp [Sys.stepAt, hj]
    rw [hres]
    rcases hr with hr | ⟨hr, v, hv, hl⟩
    · exact Or.inl hr
    · exact Or.inr ⟨hr, v, apply_vm_other F s e 0 v hv hne, hl⟩

theorem cancelled_run (F : Facts) (evs : List Ev) : ∀ s, Cancelled s → Cancelled (s.run F evs) := by
  induction evs with
  | nil => intro s h; exact h
  | cons e es ih => intro s h; rw [run_cons]; exact ih _ (cancelled_apply F s e h)

/-- **C11, Run returns the context's error.** If the flag is set while `Run` has not returned,
then after at most `budget` steps of the main VM — under every interleaving with the goroutines
the program started, every channel readiness and every further event — `Run` has returned, and
what it returned is the context's error. -/
theorem run_returns_ctxErr (F : Facts) (hF : F.all = true) (s : Sys) (evs : List Ev) (v : VM)
    (hflag : s.flag = true) (hwf : WF s) (hres : s.result = none)
    (hv : s.vms[0]? = some v) (hl : live v = true) (hsteps : budget v ≤ ownSteps 0 evs) :
    (s.run F evs).result = some .ctxErr := by
  have hc : Cancelled s := ⟨hflag, hwf, Or.inr ⟨hres, v, hv, hl⟩⟩
  obtain ⟨_, _, hr⟩ := cancelled_run F evs s hc
  rcases hr with hr | ⟨_, v', hv', hl'⟩
  · exact hr
  · obtain ⟨v'', h1, h2⟩ := prompt_stop F hF s evs 0 v hflag hwf hv hsteps
    rw [h1] at hv'
    cases hv'
    rw [h2] at hl'
    cases hl'

/-! ### Finishing before the cancellation -/

/-- without a cancellation the flag is never set -/
theorem no_cancel_no_flag (F : Facts) (evs : List Ev) (hno : Ev.cancel ∉ evs) :
    ∀ s : Sys, s.ctxClosed = false → s.flag = false →
      (s.run F evs).ctxClosed = false ∧ (s.run F evs).flag = false := by
  induction evs with
  | nil => intro s h1 h2; exact ⟨h1, h2⟩
  | cons e es ih =>
    intro s h1 h2
    rw [run_cons]
    have hno' : Ev.cancel ∉ es := fun h => hno (List.mem_cons_of_mem _ h)
    apply ih hno'
    · cases e with
      | cancel => exact absurd List.mem_cons_self hno
      | watch => rw [apply_watch]; simp [h1]
      | step i rdy => rw [apply_step]; split <;> simp [stepAt_ctx, h1]
    · cases e with
      | cancel => exact absurd List.mem_cons_self hno
      | watch => rw [apply_watch]; simp [h1, h2]
      | step i rdy =>
        rw [apply_step]
        split
        · exact h2
        · rename_i v hv
          rw [stepAt_flag]
          cases hs : (stepVM F s.prog s.ctxClosed s.flag rdy v).stop
          · simp [h2]
          · rcases stepVM_stop hs with h | h
            · rw [h2] at h; cases h
            · rw [h1] at h; cases h

/-- whatever `Run` returns is decided by the flag at the moment `runFunc` re-reads it -/
theorem result_is_flag (F : Facts) (s : Sys) (e : Ev) (o : Outcome)
    (h0 : s.result = none) (h1 : (s.apply F e).result = some o) :
    o = resultOf (s.apply F e).flag := by
  cases e with
  | cancel => rw [apply_cancel] at h1; rw [h0] at h1; cases h1
  | watch => rw [apply_watch] at h1; split at h1 <;> (rw [h0] at h1; cases h1)
  | step i rdy =>
    rw [apply_step] at h1 ⊢
    split at h1
    · rw [h0] at h1; cases h1
    · rename_i v hv
      simp only [Sys.stepAt, h0, Option.isNone_none, Bool.and_true] at h1 ⊢
      split at h1
      · split at h1
        · cases h1; rfl
        · cases h1; rfl
        · cases h1
      · cases h1

/-- **C11, finished before cancel — the part that is true.** If the context is never cancelled
during the run, `Run` never returns the context's error: whenever it returns, it returns the
code's own outcome. -/
theorem finished_before_cancel_partial (F : Facts) (prog : List Instr) (evs : List Ev)
    (hno : Ev.cancel ∉ evs) : (init prog |>.run F evs).result ≠ some .ctxErr := by
  suffices h : ∀ (evs : List Ev) (s : Sys), Ev.cancel ∉ evs → s.ctxClosed = false → s.flag = false →
      s.result ≠ some .ctxErr → (s.run F evs).result ≠ some .ctxErr from
    h evs (init prog) hno rfl rfl (by simp [init])
  intro evs
  induction evs with
  | nil => intro s _ _ _ h; exact h
  | cons e es ih =>
    intro s hno h1 h2 h3
    rw [run_cons]
    have hno' : Ev.cancel ∉ es := fun h => hno (List.mem_cons_of_mem _ h)
    have hone := no_cancel_no_flag F [e] (by
      intro h; rw [List.mem_singleton] at h; exact hno (h ▸ List.mem_cons_self)) s h1 h2
    simp only [Sys.run, List.foldl_cons, List.foldl_nil] at hone
    apply ih _ hno' hone.1 hone.2
    intro hr
    cases hs : s.result with
    | some o =>
      have : (s.apply F e).result = s.result := by
        cases e with
        | cancel => rfl
        | watch => rw [apply_watch]; split <;> rfl
        | step i rdy =>
          rw [apply_step]; split
          · rfl
          · simp [Sys.stepAt, hs]
      rw [this] at hr; exact h3 hr
    | none =>
      have := result_is_flag F s e .ctxErr hs hr
      rw [hone.2] at this
      simp [resultOf] at this

/-- the full statement of the property's last clause: if the code finishes (the main VM's code
is over) before the context is cancelled, Run returns the code's own outcome -/
def FinishedBeforeCancelFull : Prop :=
  ∀ (F : Facts) (prog : List Instr) (before after : List Ev), F.all = true →
    Ev.cancel ∉ before →
    (∃ pc, (init prog |>.run F before).vms[0]? = some ⟨pc, .finishing, []⟩) →
    ((init prog |>.run F before).run F after).result ≠ some .ctxErr

/-- … which is **false** of the code as it is: `runFunc` re-reads `env.done` after the code has
finished (generated fact `rereadsDoneAfterFinish`), so a cancellation that arrives between the
last instruction and the re-read wins. Witness: the empty program; the main VM finishes, then
the context is cancelled, the watcher runs, and only then `runFunc` does its re-read. (Benign:
the caller cancelled, and gets the context's error.) -/
theorem finishedBeforeCancelFull_false : ¬ FinishedBeforeCancelFull := by
  intro h
  have := h ⟨true, true, true, true, true, true, true⟩ [.halt] [.step 0 false]
    [.cancel, .watch, .step 0 false] rfl (by decide) ⟨0, by decide⟩
  exact this (by decide)

/-! ### The hypotheses are necessary (each fact, when false, has a run that never stops) -/

/-- without the loop-head test a spinning VM survives any number of steps after the flag is set -/
theorem spin_forever_without_loop_head (n : Nat) :
    ((⟨[.jump 0], [⟨0, .running, []⟩], true, true, none⟩ : Sys).run
      ⟨false, true, true, true, true, true, true⟩ (List.replicate n (.step 0 false))).vms[0]?
      = some ⟨0, .running, []⟩ := by
  induction n with
  | zero => rfl
  | succ n ih =>
    rw [List.replicate_succ, run_cons]
    exact ih

/-- without the done case a blocked select (no default, nothing ready) stays blocked for ever -/
theorem blocked_forever_without_done_case (n : Nat) :
    ((⟨[.select false], [⟨0, .blocked .select, []⟩], true, true, none⟩ : Sys).run
      ⟨true, true, true, false, true, true, true⟩ (List.replicate n (.step 0 false))).vms[0]?
      = some ⟨0, .blocked .select, []⟩ := by
  induction n with
  | zero => rfl
  | succ n ih =>
    rw [List.replicate_succ, run_cons]
    exact ih

/-- without the epilogue for every VM (say it is made conditional on `vm.main`) a poll helper
`for !cond() {}` in native code never ends: the called-back VM stops at its loop head, its
`runFunc` returns nil, the native code sees `false` and calls again — the goroutine stays alive
for ever and `Run` does not return -/
theorem callback_polls_forever_without_epilogue (n : Nat) :
    ((⟨[.callback 2 true, .halt, .compute, .halt],
       [⟨2, .running, [⟨0, 2, true⟩]⟩], true, true, none⟩ : Sys).run
      ⟨true, true, true, true, true, true, false⟩ (List.replicate n (.step 0 false))).vms[0]?
      = some ⟨2, .running, [⟨0, 2, true⟩]⟩ ∧
    ((⟨[.callback 2 true, .halt, .compute, .halt],
       [⟨2, .running, [⟨0, 2, true⟩]⟩], true, true, none⟩ : Sys).run
      ⟨true, true, true, true, true, true, false⟩ (List.replicate n (.step 0 false))).result = none := by
  induction n with
  | zero => exact ⟨rfl, rfl⟩
  | succ n ih =>
    rw [List.replicate_succ, run_cons]
    exact ih

-- with it, the same goroutine is out after one step and Run has returned the context's error
example :
    let s := (⟨[.callback 2 true, .halt, .compute, .halt],
       [⟨2, .running, [⟨0, 2, true⟩]⟩], true, true, none⟩ : Sys).run
      ⟨true, true, true, true, true, true, true⟩ [.step 0 false]
    s.result = some .ctxErr ∧ s.vms.all (fun v => !live v) = true := by decide

-- non-vacuity: a program with a goroutine; main blocked in a receive, the goroutine spinning;
-- cancel, watcher, one step each: both are out, Run has returned the context's error
example :
    let s := (init [.go 3, .recv, .halt, .jump 3]).run ⟨true, true, true, true, true, true, true⟩
      [.step 0 false, .step 0 false, .step 1 false, .step 1 false, .cancel, .watch,
       .step 1 false, .step 0 false]
    s.result = some .ctxErr ∧ s.vms.all (fun v => !live v) = true := by decide

/-! ### The facts of run.go, regenerated on every check -/

/-- **generated fact**: the loop head tests the flag and every blocking opcode has the done case -/
theorem code_facts_all : factsOfCode.all = true := by decide

/-- **generated fact**: the opcodes that can block are exactly the four modelled instruction
classes (a new blocking opcode is an undischarged obligation) -/
theorem blocking_ops_known :
    blockingOps.map (fun o => o.op) = ["OpRange", "OpReceive", "OpSelect", "OpSend"] := by decide

/-- **generated fact**: nothing in internal/runtime blocks on a channel outside `run` -/
theorem no_blocking_outside_run : blockingCallsOutsideRun = [] := by decide

/-- **generated fact**: the extra disjunct that lets `OpSelect` skip the done case
(`done == nil || hasDefaultCase`) is never true — the variable is only ever assigned `false` — so
every select, with or without default, goes through the done-case path when a context is set -/
theorem select_always_has_done_case :
    (blockingOps.filter (fun o => o.extra != "")).map (fun o => (o.op, o.extra))
      = [("OpSelect", "hasDefaultCase")] ∧ extraDisjunctValues = ["hasDefaultCase = false"] := by
  decide

/-- **generated fact**: the watcher goroutine, the re-read after the code finished (which comes
before the panic check), and `vm.stop` storing the flag -/
theorem runFunc_shape :
    watcherSetsDone = true ∧ rereadsDoneAfterFinish = true ∧ ctxErrBeforePanic = true ∧
      stopSetsDone = true := by decide

/-- **generated fact**: watcher, `stop` channel and epilogue exist for every VM of a run that has
a cancellable context — not only for the main one: a VM started by `go`, and a VM running a
function value on behalf of native code (`callable.Value`), report the cancellation too -/
theorem epilogue_for_every_vm :
    watcherCondition = "vm.env.doneChan != nil" ∧ stopCondition = "vm.env.doneChan != nil" ∧
      epilogueCondition = "stop != nil" ∧ epilogueForEveryVM = true := by decide

/-! ### Where the instruction loop reads the flag (`Model/CancelDispatch.lean`)

`Facts.loopHead` above is "a running VM reads the flag before every instruction". The theorems of
this section say what that fact is needed for, in terms of the control flow of the instruction
set: between two looks at the flag the VM may only execute a bounded number of instructions, and
that holds iff no cycle of the control-flow relation (back edges by Goto and Select, calls and
returns, the iterations of a range statement) avoids the flag test. -/

open Dispatch in
/-- **C11, bounded run between two looks at the flag.** Whatever the program and whatever the
environment chooses (conditions, selected cases, range lengths): if the flag is read on the
dispatch of every instruction class that can move the program counter anywhere but forward in the
current function (`jump`, `call`, `ret`, `iterate`, `leave`), then with the flag set the VM
executes fewer instructions than remain in the body of its current function before it stops
(or ends): the loop is never still running after `bodyLen − pc + 1` turns. -/
theorem stops_within_body (P : Flow → Bool) (hP : ∀ c, c.forward = false → P c = true)
    (prog : Prog) : ∀ (chs : List Nat) (s : DState), bodyLen prog s.fn - s.pc < chs.length →
      ∀ s', runFlag P prog s chs ≠ .running s' := by
  intro chs
  induction chs with
  | nil => intro s h; simp at h
  | cons ch chs ih =>
    intro s hlen s'
    rw [runFlag_cons]
    unfold dispatch
    cases hf : fetch prog s with
    | none => simp
    | some i =>
      simp only
      by_cases hp : P i.cls = true
      · simp [hp]
      · have hfw : i.cls.forward = true := by
          cases hc : i.cls.forward with
          | true => rfl
          | false => exact absurd (hP _ hc) hp
        obtain ⟨s1, he, hfn, hpc, _⟩ := exec_forward (s := s) (ch := ch) hfw
        have hlt := fetch_lt hf
        simp only [hp, he]
        apply ih
        rw [hfn]
        simp only [List.length_cons] at hlen
        omega

-- non-vacuity: a placement on the five classes only; a loop with a condition and a call stops at
-- the call, after three instructions executed without a look
example : Dispatch.runFlag (Dispatch.onlyAt [.jump, .call, .ret, .iterate, .leave])
    [[.plain, .cond, .plain, .call 1, .jump [0]], [.ret]] ⟨0, 0, []⟩ [0, 0, 0, 0, 0, 0] = .stopped ∧
  Dispatch.unobserved (Dispatch.onlyAt [.jump, .call, .ret, .iterate, .leave])
    [[.plain, .cond, .plain, .call 1, .jump [0]], [.ret]] ⟨0, 0, []⟩ [0, 0, 0, 0, 0, 0] = 3 := by decide

open Dispatch in
/-- the test at the head of the loop: nothing at all is executed once the flag is set -/
theorem head_placement_stops_at_once (prog : Prog) (s : DState) (ch : Nat) (chs : List Nat) :
    ∀ s', runFlag headPlacement prog s (ch :: chs) ≠ .running s' := by
  intro s'
  rw [runFlag_cons]
  unfold dispatch
  cases fetch prog s <;> simp [headPlacement]

/-! A placement that misses a cycle never stops it. Each of the four kinds of cycle needs its own
class: a flag test that sits in one opcode ("every loop jumps back with a Goto") leaves the others
running for ever. -/

open Dispatch in
/-- recursion passes no Goto: without a look at calls `func f() { f() }` runs for ever -/
theorem recursion_never_looks (P : Flow → Bool) (hc : P .call = false) (n : Nat) :
    ∀ st, runFlag P recLoop ⟨0, 0, st⟩ (List.replicate n 0)
      = .running ⟨0, 0, List.replicate n (0, 1) ++ st⟩ := by
  induction n with
  | zero => intro st; rfl
  | succ n ih =>
    intro st
    rw [List.replicate_succ, runFlag_cons]
    have : dispatch P recLoop ⟨0, 0, st⟩ 0 = .running ⟨0, 0, (0, 1) :: st⟩ := by
      simp [dispatch, fetch, recLoop, DInstr.cls, hc, exec]
    rw [this]
    simp only
    rw [ih]
    congr 2
    rw [List.replicate_succ']
    simp

open Dispatch in
/-- … and so does tail recursion with a straight-line body -/
theorem tail_recursion_never_looks (P : Flow → Bool) (h1 : P .call = false) (h2 : P .next = false)
    (n : Nat) :
    runFlag P tailLoop ⟨0, 0, []⟩ (List.replicate n [0, 0]).flatten = .running ⟨0, 0, []⟩ := by
  induction n with
  | zero => rfl
  | succ n ih =>
    simp only [List.replicate_succ, List.flatten_cons, List.cons_append, List.nil_append, runFlag_cons]
    simp [dispatch, fetch, tailLoop, DInstr.cls, exec, h1, h2]
    exact ih

open Dispatch in
/-- one long `for range` with a straight-line body passes Range and Continue only: without a look
at one of them it runs as long as the range has elements -/
theorem range_never_looks (P : Flow → Bool) (h1 : P .iterate = false) (h2 : P .leave = false)
    (h3 : P .next = false) (n : Nat) :
    runFlag P rangeLoop ⟨0, 0, []⟩ (List.replicate n [1, 1, 1]).flatten = .running ⟨0, 0, []⟩ := by
  induction n with
  | zero => rfl
  | succ n ih =>
    simp only [List.replicate_succ, List.flatten_cons, List.cons_append, List.nil_append, runFlag_cons]
    simp [dispatch, fetch, rangeLoop, DInstr.cls, exec, h1, h2, h3]
    exact ih

open Dispatch in
/-- a `for` loop passes Goto only: a look at calls and ranges alone does not stop it -/
theorem goto_loop_never_looks (P : Flow → Bool) (h1 : P .jump = false) (h2 : P .next = false)
    (n : Nat) :
    runFlag P gotoLoop ⟨0, 0, []⟩ (List.replicate n [0, 0]).flatten = .running ⟨0, 0, []⟩ := by
  induction n with
  | zero => rfl
  | succ n ih =>
    simp only [List.replicate_succ, List.flatten_cons, List.cons_append, List.nil_append, runFlag_cons]
    simp [dispatch, fetch, gotoLoop, DInstr.cls, exec, h1, h2, pick]
    exact ih

-- the flag test in the clause of Goto alone: the `for` loop stops, recursion and the long range do not
example : Dispatch.runFlag (Dispatch.onlyAt [.jump]) Dispatch.gotoLoop ⟨0, 0, []⟩ [0, 0, 0] = .stopped := by
  decide
example (n : Nat) : Dispatch.runFlag (Dispatch.onlyAt [.jump]) Dispatch.recLoop ⟨0, 0, []⟩ (List.replicate n 0)
    = .running ⟨0, 0, List.replicate n (0, 1) ++ []⟩ := recursion_never_looks _ rfl n []
example (n : Nat) : Dispatch.runFlag (Dispatch.onlyAt [.jump]) Dispatch.rangeLoop ⟨0, 0, []⟩
    (List.replicate n [1, 1, 1]).flatten = .running ⟨0, 0, []⟩ := range_never_looks _ rfl rfl rfl n

/-- **generated fact**: the instruction loop of run.go reads the flag on the dispatch of every
opcode whose clause does anything to the program counter but advance it — assigns `vm.pc`
(Goto, Select), changes `vm.fn` (CallFunc, CallIndirect, CallMacro, TailCall, Return), runs the
loop in a nested activation (Range, RangeString) or leaves one (Continue, Break): classes from the
extracted `opFlow` table, the places of the flag test from `doneCheckSites`. A flag test moved
from the head of the loop into the clause of one opcode leaves the others unobserved and breaks
this. -/
theorem code_observes_every_back_edge :
    (∀ c : Dispatch.Flow, c.forward = false → placementOfCode c = true) ∧ unobservedBackEdges = [] := by
  refine ⟨?_, by decide⟩
  intro c; cases c <;> decide

/-- the instruction loop of the code as it is, with the flag set, never outlasts the body of the
current function (in fact nothing is executed: `headCheck`; this form survives a flag test that is
moved to the back edges) -/
theorem dispatch_stops_code (prog : Dispatch.Prog) (chs : List Nat) (s : Dispatch.DState)
    (h : Dispatch.bodyLen prog s.fn - s.pc < chs.length) :
    ∀ s', Dispatch.runFlag placementOfCode prog s chs ≠ .running s' :=
  stops_within_body placementOfCode code_observes_every_back_edge.1 prog chs s h

/-! ### What the decision "this operation cannot block" may depend on (`Model/CancelFastPath.lean`)

Every blocking opcode carries the done case (`code_facts_all`) — on the path that is taken when
the guard of the direct call is false. These theorems are about the guard. -/

open FastPath in
/-- a guard that reads the channel (`ch.Len() < ch.Cap()`: "there is room, the send does not
block") is a check-then-act race: with one free slot, the sender sees room, another goroutine
fills the slot, the sender makes the direct call and parks in it; the context is cancelled, the
receivers of the run stop — and whatever happens afterwards, the sender stays parked: `Run` never
returns. For every capacity. -/
theorem observed_room_parks_for_ever (cap : Nat) (evs : List FastPath.Ev) :
    (FastPath.run true ⟨cap, cap + 1, .idle, false⟩ ([.check, .fill, .act, .cancel] ++ evs)).ph
      = .parkedPlain := by
  have h0 : FastPath.run true ⟨cap, cap + 1, .idle, false⟩ [.check, .fill, .act, .cancel]
      = ⟨cap + 1, cap + 1, .parkedPlain, true⟩ := by
    simp [FastPath.run, FastPath.step]
  unfold FastPath.run at *
  rw [List.foldl_append, h0]
  suffices h : ∀ (evs : List FastPath.Ev) (s : FastPath.St), s.len = s.cap → s.cancelled = true → s.ph = .parkedPlain →
      (evs.foldl (FastPath.step true) s).ph = .parkedPlain from h evs _ rfl rfl rfl
  intro evs
  induction evs with
  | nil => intro s _ _ h; exact h
  | cons e es ih =>
    intro s h1 h2 h3
    simp only [List.foldl_cons]
    cases e <;> (apply ih <;> simp [FastPath.step, h1, h2, h3])

open FastPath in
/-- with the guard `done == nil` alone (false under a cancellable context) the sender never makes
the direct call, under any interleaving with the other users of the channel -/
theorem unobserved_guard_never_parks_plain (evs : List FastPath.Ev) (s : FastPath.St)
    (h : s.ph ≠ .parkedPlain ∧ s.ph ≠ .decidedFast) :
    (FastPath.run false s evs).ph ≠ .parkedPlain ∧ (FastPath.run false s evs).ph ≠ .decidedFast := by
  unfold FastPath.run
  induction evs generalizing s with
  | nil => exact h
  | cons e es ih =>
    simp only [List.foldl_cons]
    apply ih
    obtain ⟨pc, cap, ph, c⟩ := s
    cases e <;> cases ph <;> simp [FastPath.step] at h ⊢ <;> (try split) <;> (try split) <;> simp

open FastPath in
/-- … and once the context is cancelled its next step, if the buffer is still full, is `vm.stop()` -/
theorem done_case_wakes (s : FastPath.St) (hc : s.cancelled = true) (hfull : ¬ s.len < s.cap)
    (hp : s.ph = .decidedSlow ∨ s.ph = .parkedWithDone) : (FastPath.step false s .act).ph = .stopped := by
  rcases hp with hp | hp <;> simp [FastPath.step, hp, hc, hfull]

-- non-vacuity: the same four events, guard `done == nil`: the sender is stopped by the cancellation
example : (FastPath.run false ⟨0, 1, .idle, false⟩ [.check, .fill, .act, .cancel, .act]).ph = .stopped := by
  decide

/-- **generated fact**: the direct Recv / Send / reflect.Select calls of run.go stand under
`done == nil` and nothing else — except OpSelect's `|| hasDefaultCase`, a variable of the
activation that is only ever assigned `false` (`select_always_has_done_case`). In particular no
direct call is decided by what was read from the channel (Len, Cap) a moment before. -/
theorem fast_paths_decided_without_observation :
    racyFastPathOfCode = false ∧
    ScriggoV.Gen.Blocking.fastPathGuards.map (fun g => (g.1, FastPath.guardOf g.2.2)) =
      [("OpRange", .noContext), ("OpReceive", .noContext), ("OpSelect", .localFlag), ("OpSend", .noContext)] := by
  decide

/-- `prompt_stop` and `run_returns_ctxErr` for the code as it is -/
theorem prompt_stop_code (s : Sys) (evs : List Ev) (i : Nat) (v : VM)
    (hflag : s.flag = true) (hwf : WF s) (hv : s.vms[i]? = some v)
    (hsteps : budget v ≤ ownSteps i evs) :
    ∃ v', (s.run factsOfCode evs).vms[i]? = some v' ∧ live v' = false :=
  prompt_stop factsOfCode code_facts_all s evs i v hflag hwf hv hsteps

theorem run_returns_ctxErr_code (s : Sys) (evs : List Ev) (v : VM)
    (hflag : s.flag = true) (hwf : WF s) (hres : s.result = none)
    (hv : s.vms[0]? = some v) (hl : live v = true) (hsteps : budget v ≤ ownSteps 0 evs) :
    (s.run factsOfCode evs).result = some .ctxErr :=
  run_returns_ctxErr factsOfCode code_facts_all s evs v hflag hwf hres hv hl hsteps

end ScriggoV.Cancel
