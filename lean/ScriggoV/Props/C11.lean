import ScriggoV.Lemmas.Cancel
import ScriggoV.Model.CancelCode
/-! # C11 — cancelling the run context stops any execution promptly

Property theorems only. The machine is `Model/Cancel.lean`: VMs over instruction classes, an
adversarial environment that schedules VMs, decides channel readiness, cancels the context and
lets the watcher goroutine run. The theorems hold for **every** program and **every** event
sequence; they are conditional on the cancellation facts of run.go (`Facts.all`), and those are
*regenerated from /repo* (`Gen/Blocking.lean`) and discharged by `decide` at the end of this file.

Not proved (runtime, supported by the harness only): that the Go scheduler lets the watcher
goroutine and every VM run within a bounded time after the cancellation (the model counts steps,
not seconds), and that native (host) code returns. Known finding (open, replayed by the harness
in a child process): a function value that native code calls from a goroutine *of its own* and
that is interrupted by the cancellation panics with the context's error in that goroutine, where
nothing recovers it — the host process dies; the `callback` frames of the model are the
synchronous case only, where the panic crosses the native code into the calling VM. -/
namespace ScriggoV.Cancel
open ScriggoV.Gen.Blocking

theorem run_nil (F : Facts) (s : Sys) : s.run F [] = s := rfl
theorem run_cons (F : Facts) (s : Sys) (e : Ev) (es : List Ev) :
    s.run F (e :: es) = (s.apply F e).run F es := rfl

/-- generalised form of `prompt_stop`: every own step after the flag is set uses up budget -/
theorem budget_run (F : Facts) (hF : F.all = true) (i : Nat) :
    ∀ (evs : List Ev) (s : Sys) (v : VM), s.flag = true → WF s → s.vms[i]? = some v →
      ∃ v', (s.run F evs).vms[i]? = some v' ∧ budget v' ≤ budget v - ownSteps i evs := by
  intro evs
  induction evs with
  | nil => intro s v _ _ hv; exact ⟨v, hv, by simp [ownSteps]⟩
  | cons e es ih =>
    intro s v hf hw hv
    rw [run_cons]
    have hf' := flag_mono F s e hf
    have hw' := WF_apply F s e hw
    by_cases he : ∃ rdy, e = .step i rdy
    · obtain ⟨rdy, rfl⟩ := he
      have hc : s.ctxClosed = true := hw hf
      have hs := apply_vm_self F s i rdy v hv
      rw [hc, hf] at hs
      obtain ⟨v', h1, h2⟩ := ih _ _ hf' hw' hs
      refine ⟨v', h1, ?_⟩
      have := budget_step F hF s.prog rdy v
      simp only [ownSteps, if_true]
      omega
    · have hne : ∀ rdy, e ≠ .step i rdy := fun rdy h => he ⟨rdy, h⟩
      have hs := apply_vm_other F s e i v hv hne
      obtain ⟨v', h1, h2⟩ := ih _ _ hf' hw' hs
      refine ⟨v', h1, ?_⟩
      have : ownSteps i (e :: es) = ownSteps i es := by
        cases e with
        | cancel => rfl
        | watch => rfl
        | step j r =>
          have : j ≠ i := by intro h; exact hne r (by rw [h])
          simp [ownSteps, this]
      rw [this]; exact h2

theorem not_live_of_budget_zero (v : VM) (h : budget v = 0) : live v = false := by
  obtain ⟨pc, st⟩ := v
  cases st <;> simp [budget, live] at *

/-- **C11, prompt stop.** Once `env.done` is set, whatever the program and whatever the
environment does afterwards (schedule, channel readiness, goroutines), every VM that was alive
is out of its loop after at most `budget` of its own steps: 1 for a VM that is executing
instructions (it stops at its next loop head, before executing anything), 2 for a VM blocked in
a channel operation (the operation may complete if it became ready at the same moment; then the
loop head stops it), ticks+2 for a VM inside host code (not interruptible). Hypothesis: the
loop-head test exists and every blocking opcode selects on the done case. -/
theorem prompt_stop (F : Facts) (hF : F.all = true) (s : Sys) (evs : List Ev) (i : Nat) (v : VM)
    (hflag : s.flag = true) (hwf : WF s) (hv : s.vms[i]? = some v)
    (hsteps : budget v ≤ ownSteps i evs) :
    ∃ v', (s.run F evs).vms[i]? = some v' ∧ live v' = false := by
  obtain ⟨v', h1, h2⟩ := budget_run F hF i evs s v hflag hwf hv
  exact ⟨v', h1, not_live_of_budget_zero v' (by omega)⟩

/-- a VM blocked in a channel operation does not even need the flag: the closed `Done()` channel
wakes it (that is the done case), and it then sets the flag for everybody else (`vm.stop`) -/
theorem blocked_wakes_on_cancel (F : Facts) (hF : F.all = true) (s : Sys) (i : Nat) (pc : Nat)
    (b : Blocked) (fr : List CbFrame) (hc : s.ctxClosed = true)
    (hv : s.vms[i]? = some ⟨pc, .blocked b, fr⟩) (hs : F.stopSetsFlag = true) :
    (s.apply F (.step i false)).vms[i]? = some ⟨pc, .stopped, []⟩ ∧
    (s.apply F (.step i false)).flag = true := by
  have hd : F.doneCase b = true := by
    simp only [Facts.all, Bool.and_eq_true] at hF
    cases b <;> simp [Facts.doneCase, hF]
  have he : F.epilogue = true := by
    simp only [Facts.all, Bool.and_eq_true] at hF; exact hF.2
  constructor
  · rw [apply_vm_self F s i false _ hv]
    simp [stepVM, blockStep, stopVM, hd, hc, he]
  · rw [apply_step, hv]
    simp [stepAt_flag, stepVM, blockStep, stopVM, hd, hc, hs, he]

theorem stepAt_result_main (F : Facts) (s : Sys) (rdy : Bool) (v : VM) :
    (s.stepAt F 0 rdy v).result =
      if s.result.isNone then
        match (stepVM F s.prog s.ctxClosed s.flag rdy v).vm.st with
        | .stopped => some (resultOf (s.flag || ((stepVM F s.prog s.ctxClosed s.flag rdy v).stop && F.stopSetsFlag)))
        | .finished => some (resultOf (s.flag || ((stepVM F s.prog s.ctxClosed s.flag rdy v).stop && F.stopSetsFlag)))
        | _ => none
      else s.result := rfl

/-- the state of a run after the flag was set: the flag stays, and `Run` has either returned the
context's error or its main VM is still alive -/
def Cancelled (s : Sys) : Prop :=
  s.flag = true ∧ WF s ∧
    (s.result = some .ctxErr ∨ (s.result = none ∧ ∃ v, s.vms[0]? = some v ∧ live v = true))

theorem cancelled_apply (F : Facts) (s : Sys) (e : Ev) (h : Cancelled s) :
    Cancelled (s.apply F e) := by
  obtain ⟨hf, hw, hr⟩ := h
  refine ⟨flag_mono F s e hf, WF_apply F s e hw, ?_⟩
  by_cases he : ∃ rdy, e = .step 0 rdy
  · obtain ⟨rdy, rfl⟩ := he
    rcases hr with hr | ⟨hr, v, hv, hl⟩
    · left
      rw [apply_step]
      split
      · exact hr
      · simp [Sys.stepAt, hr]
    · have hvs := apply_vm_self F s 0 rdy v hv
      rw [apply_step, hv] at hvs ⊢
      simp only at hvs ⊢
      have hres := stepAt_result_main F s rdy v
      rw [hr] at hres
      simp only [Option.isNone_none, if_true] at hres
      rw [hres]
      generalize stepVM F s.prog s.ctxClosed s.flag rdy v = r at hvs
      obtain ⟨⟨rpc, rst⟩, rstop, rspawn⟩ := r
      cases rst <;> simp [hf, resultOf, live] <;> exact ⟨_, hvs, rfl⟩
  · have hne : ∀ rdy, e ≠ .step 0 rdy := fun rdy h => he ⟨rdy, h⟩
    have hres : (s.apply F e).result = s.result := by
      cases e with
      | cancel => rfl
      | watch => rw [apply_watch]; split <;> rfl
      | step j r =>
        have hj : j ≠ 0 := by intro h; exact hne r (by rw [h])
        rw [apply_step]
        split
        · rfl
        · simp [Sys.stepAt, hj]
    rw [hres]
    rcases hr with hr | ⟨hr, v, hv, hl⟩
    · exact Or.inl hr
    · exact Or.inr ⟨hr, v, apply_vm_other F s e 0 v hv hne, hl⟩

theorem cancelled_run (F : Facts) (evs : List Ev) : ∀ s, Cancelled s → Cancelled (s.run F evs) := by
  induction evs with
  | nil => intro s h; exact h
  | cons e es ih => intro s h; rw [run_cons]; exact ih _ (cancelled_apply F s e h)

/-- **C11, Run returns the context's error.** If the flag is set while `Run` has not returned,
then after at most `budget` steps of the main VM — under every interleaving with the goroutines
the program started, every channel readiness and every further event — `Run` has returned, and
what it returned is the context's error. -/
theorem run_returns_ctxErr (F : Facts) (hF : F.all = true) (s : Sys) (evs : List Ev) (v : VM)
    (hflag : s.flag = true) (hwf : WF s) (hres : s.result = none)
    (hv : s.vms[0]? = some v) (hl : live v = true) (hsteps : budget v ≤ ownSteps 0 evs) :
    (s.run F evs).result = some .ctxErr := by
  have hc : Cancelled s := ⟨hflag, hwf, Or.inr ⟨hres, v, hv, hl⟩⟩
  obtain ⟨_, _, hr⟩ := cancelled_run F evs s hc
  rcases hr with hr | ⟨_, v', hv', hl'⟩
  · exact hr
  · obtain ⟨v'', h1, h2⟩ := prompt_stop F hF s evs 0 v hflag hwf hv hsteps
    rw [h1] at hv'
    cases hv'
    rw [h2] at hl'
    cases hl'

/-! ### Finishing before the cancellation -/

/-- without a cancellation the flag is never set -/
theorem no_cancel_no_flag (F : Facts) (evs : List Ev) (hno : Ev.cancel ∉ evs) :
    ∀ s : Sys, s.ctxClosed = false → s.flag = false →
      (s.run F evs).ctxClosed = false ∧ (s.run F evs).flag = false := by
  induction evs with
  | nil => intro s h1 h2; exact ⟨h1, h2⟩
  | cons e es ih =>
    intro s h1 h2
    rw [run_cons]
    have hno' : Ev.cancel ∉ es := fun h => hno (List.mem_cons_of_mem _ h)
    apply ih hno'
    · cases e with
      | cancel => exact absurd List.mem_cons_self hno
      | watch => rw [apply_watch]; simp [h1]
      | step i rdy => rw [apply_step]; split <;> simp [stepAt_ctx, h1]
    · cases e with
      | cancel => exact absurd List.mem_cons_self hno
      | watch => rw [apply_watch]; simp [h1, h2]
      | step i rdy =>
        rw [apply_step]
        split
        · exact h2
        · rename_i v hv
          rw [stepAt_flag]
          cases hs : (stepVM F s.prog s.ctxClosed s.flag rdy v).stop
          · simp [h2]
          · rcases stepVM_stop hs with h | h
            · rw [h2] at h; cases h
            · rw [h1] at h; cases h

/-- whatever `Run` returns is decided by the flag at the moment `runFunc` re-reads it -/
theorem result_is_flag (F : Facts) (s : Sys) (e : Ev) (o : Outcome)
    (h0 : s.result = none) (h1 : (s.apply F e).result = some o) :
    o = resultOf (s.apply F e).flag := by
  cases e with
  | cancel => rw [apply_cancel] at h1; rw [h0] at h1; cases h1
  | watch => rw [apply_watch] at h1; split at h1 <;> (rw [h0] at h1; cases h1)
  | step i rdy =>
    rw [apply_step] at h1 ⊢
    split at h1
    · rw [h0] at h1; cases h1
    · rename_i v hv
      simp only [Sys.stepAt, h0, Option.isNone_none, Bool.and_true] at h1 ⊢
      split at h1
      · split at h1
        · cases h1; rfl
        · cases h1; rfl
        · cases h1
      · cases h1

/-- **C11, finished before cancel — the part that is true.** If the context is never cancelled
during the run, `Run` never returns the context's error: whenever it returns, it returns the
code's own outcome. -/
theorem finished_before_cancel_partial (F : Facts) (prog : List Instr) (evs : List Ev)
    (hno : Ev.cancel ∉ evs) : (init prog |>.run F evs).result ≠ some .ctxErr := by
  suffices h : ∀ (evs : List Ev) (s : Sys), Ev.cancel ∉ evs → s.ctxClosed = false → s.flag = false →
      s.result ≠ some .ctxErr → (s.run F evs).result ≠ some .ctxErr from
    h evs (init prog) hno rfl rfl (by simp [init])
  intro evs
  induction evs with
  | nil => intro s _ _ _ h; exact h
  | cons e es ih =>
    intro s hno h1 h2 h3
    rw [run_cons]
    have hno' : Ev.cancel ∉ es := fun h => hno (List.mem_cons_of_mem _ h)
    have hone := no_cancel_no_flag F [e] (by
      intro h; rw [List.mem_singleton] at h; exact hno (h ▸ List.mem_cons_self)) s h1 h2
    simp only [Sys.run, List.foldl_cons, List.foldl_nil] at hone
    apply ih _ hno' hone.1 hone.2
    intro hr
    cases hs : s.result with
    | some o =>
      have : (s.apply F e).result = s.result := by
        cases e with
        | cancel => rfl
        | watch => rw [apply_watch]; split <;> rfl
        | step i rdy =>
          rw [apply_step]; split
          · rfl
          · simp [Sys.stepAt, hs]
      rw [this] at hr; exact h3 hr
    | none =>
      have := result_is_flag F s e .ctxErr hs hr
      rw [hone.2] at this
      simp [resultOf] at this

/-- the full statement of the property's last clause: if the code finishes (the main VM's code
is over) before the context is cancelled, Run returns the code's own outcome -/
def FinishedBeforeCancelFull : Prop :=
  ∀ (F : Facts) (prog : List Instr) (before after : List Ev), F.all = true →
    Ev.cancel ∉ before →
    (∃ pc, (init prog |>.run F before).vms[0]? = some ⟨pc, .finishing, []⟩) →
    ((init prog |>.run F before).run F after).result ≠ some .ctxErr

/-- … which is **false** of the code as it is: `runFunc` re-reads `env.done` after the code has
finished (generated fact `rereadsDoneAfterFinish`), so a cancellation that arrives between the
last instruction and the re-read wins. Witness: the empty program; the main VM finishes, then
the context is cancelled, the watcher runs, and only then `runFunc` does its re-read. (Benign:
the caller cancelled, and gets the context's error.) -/
theorem finishedBeforeCancelFull_false : ¬ FinishedBeforeCancelFull := by
  intro h
  have := h ⟨true, true, true, true, true, true, true⟩ [.halt] [.step 0 false]
    [.cancel, .watch, .step 0 false] rfl (by decide) ⟨0, by decide⟩
  exact this (by decide)

/-! ### The hypotheses are necessary (each fact, when false, has a run that never stops) -/

/-- without the loop-head test a spinning VM survives any number of steps after the flag is set -/
theorem spin_forever_without_loop_head (n : Nat) :
    ((⟨[.jump 0], [⟨0, .running, []⟩], true, true, none⟩ : Sys).run
      ⟨false, true, true, true, true, true, true⟩ (List.replicate n (.step 0 false))).vms[0]?
      = some ⟨0, .running, []⟩ := by
  induction n with
  | zero => rfl
  | succ n ih =>
    rw [List.replicate_succ, run_cons]
    exact ih

/-- without the done case a blocked select (no default, nothing ready) stays blocked for ever -/
theorem blocked_forever_without_done_case (n : Nat) :
    ((⟨[.select false], [⟨0, .blocked .select, []⟩], true, true, none⟩ : Sys).run
      ⟨true, true, true, false, true, true, true⟩ (List.replicate n (.step 0 false))).vms[0]?
      = some ⟨0, .blocked .select, []⟩ := by
  induction n with
  | zero => rfl
  | succ n ih =>
    rw [List.replicate_succ, run_cons]
    exact ih

/-- without the epilogue for every VM (say it is made conditional on `vm.main`) a poll helper
`for !cond() {}` in native code never ends: the called-back VM stops at its loop head, its
`runFunc` returns nil, the native code sees `false` and calls again — the goroutine stays alive
for ever and `Run` does not return -/
theorem callback_polls_forever_without_epilogue (n : Nat) :
    ((⟨[.callback 2 true, .halt, .compute, .halt],
       [⟨2, .running, [⟨0, 2, true⟩]⟩], true, true, none⟩ : Sys).run
      ⟨true, true, true, true, true, true, false⟩ (List.replicate n (.step 0 false))).vms[0]?
      = some ⟨2, .running, [⟨0, 2, true⟩]⟩ ∧
    ((⟨[.callback 2 true, .halt, .compute, .halt],
       [⟨2, .running, [⟨0, 2, true⟩]⟩], true, true, none⟩ : Sys).run
      ⟨true, true, true, true, true, true, false⟩ (List.replicate n (.step 0 false))).result = none := by
  induction n with
  | zero => exact ⟨rfl, rfl⟩
  | succ n ih =>
    rw [List.replicate_succ, run_cons]
    exact ih

-- with it, the same goroutine is out after one step and Run has returned the context's error
example :
    let s := (⟨[.callback 2 true, .halt, .compute, .halt],
       [⟨2, .running, [⟨0, 2, true⟩]⟩], true, true, none⟩ : Sys).run
      ⟨true, true, true, true, true, true, true⟩ [.step 0 false]
    s.result = some .ctxErr ∧ s.vms.all (fun v => !live v) = true := by decide

-- non-vacuity: a program with a goroutine; main blocked in a receive, the goroutine spinning;
-- cancel, watcher, one step each: both are out, Run has returned the context's error
example :
    let s := (init [.go 3, .recv, .halt, .jump 3]).run ⟨true, true, true, true, true, true, true⟩
      [.step 0 false, .step 0 false, .step 1 false, .step 1 false, .cancel, .watch,
       .step 1 false, .step 0 false]
    s.result = some .ctxErr ∧ s.vms.all (fun v => !live v) = true := by decide

/-! ### The facts of run.go, regenerated on every check -/

/-- **generated fact**: the loop head tests the flag and every blocking opcode has the done case -/
theorem code_facts_all : factsOfCode.all = true := by decide

/-- **generated fact**: the opcodes that can block are exactly the four modelled instruction
classes (a new blocking opcode is an undischarged obligation) -/
theorem blocking_ops_known :
    blockingOps.map (fun o => o.op) = ["OpRange", "OpReceive", "OpSelect", "OpSend"] := by decide

/-- **generated fact**: nothing in internal/runtime blocks on a channel outside `run` -/
theorem no_blocking_outside_run : blockingCallsOutsideRun = [] := by decide

/-- **generated fact**: the extra disjunct that lets `OpSelect` skip the done case
(`done == nil || hasDefaultCase`) is never true — the variable is only ever assigned `false` — so
every select, with or without default, goes through the done-case path when a context is set -/
theorem select_always_has_done_case :
    (blockingOps.filter (fun o => o.extra != "")).map (fun o => (o.op, o.extra))
      = [("OpSelect", "hasDefaultCase")] ∧ extraDisjunctValues = ["hasDefaultCase = false"] := by
  decide

/-- **generated fact**: the watcher goroutine, the re-read after the code finished (which comes
before the panic check), and `vm.stop` storing the flag -/
theorem runFunc_shape :
    watcherSetsDone = true ∧ rereadsDoneAfterFinish = true ∧ ctxErrBeforePanic = true ∧
      stopSetsDone = true := by decide

/-- **generated fact**: watcher, `stop` channel and epilogue exist for every VM of a run that has
a cancellable context — not only for the main one: a VM started by `go`, and a VM running a
function value on behalf of native code (`callable.Value`), report the cancellation too -/
theorem epilogue_for_every_vm :
    watcherCondition = "vm.env.doneChan != nil" ∧ stopCondition = "vm.env.doneChan != nil" ∧
      epilogueCondition = "stop != nil" ∧ epilogueForEveryVM = true := by decide

/-- `prompt_stop` and `run_returns_ctxErr` for the code as it is -/
theorem prompt_stop_code (s : Sys) (evs : List Ev) (i : Nat) (v : VM)
    (hflag : s.flag = true) (hwf : WF s) (hv : s.vms[i]? = some v)
    (hsteps : budget v ≤ ownSteps i evs) :
    ∃ v', (s.run factsOfCode evs).vms[i]? = some v' ∧ live v' = false :=
  prompt_stop factsOfCode code_facts_all s evs i v hflag hwf hv hsteps

theorem run_returns_ctxErr_code (s : Sys) (evs : List Ev) (v : VM)
    (hflag : s.flag = true) (hwf : WF s) (hres : s.result = none)
    (hv : s.vms[0]? = some v) (hl : live v = true) (hsteps : budget v ≤ ownSteps 0 evs) :
    (s.run factsOfCode evs).result = some .ctxErr :=
  run_returns_ctxErr factsOfCode code_facts_all s evs v hflag hwf hres hv hl hsteps

end ScriggoV.Cancel
