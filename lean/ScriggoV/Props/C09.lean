import ScriggoV.Lemmas.ShowLift
import ScriggoV.Lemmas.ShowNode
import ScriggoV.Model.ShowDeclared
/-! C09 — a show accepted by the type checker never fails at run time for its static type.

`staticOK c t`: `checkShow` (with `checkShowJS/JSON`) accepts a show of an expression of type `t`
in context `c`; `dynOK c t`: `renderer.Show` (with `toString`, `showIn*`) does not fail for a
reason of type on a value described by `t`. Both are the hand-written recursion of
`Model/Show.lean` over the decision trees regenerated from the Go sources
(`Gen/ShowTables.lean`): an edit of either Go table changes the trees and the `table_*` facts
below are re-decided. Property theorems only; lemmas are in `Lemmas/Show*.lean`. -/
namespace ScriggoV.Show
open ScriggoV.Gen

/-! ### the table facts: symbolic exploration of the regenerated trees, one per context
(seventeen: the fourteen `ast.Context` values and the three that can stand in a URL) -/

theorem table_text : tableOK ⟨.text, false⟩ = true := by decide +kernel
theorem table_html : tableOK ⟨.html, false⟩ = true := by decide +kernel
theorem table_css : tableOK ⟨.css, false⟩ = true := by decide +kernel
theorem table_js : tableOK ⟨.js, false⟩ = true := by decide +kernel
theorem table_json : tableOK ⟨.json, false⟩ = true := by decide +kernel
theorem table_markdown : tableOK ⟨.markdown, false⟩ = true := by decide +kernel
theorem table_tag : tableOK ⟨.tag, false⟩ = true := by decide +kernel
theorem table_quotedAttr : tableOK ⟨.quotedAttr, false⟩ = true := by decide +kernel
theorem table_unquotedAttr : tableOK ⟨.unquotedAttr, false⟩ = true := by decide +kernel
theorem table_cssString : tableOK ⟨.cssString, false⟩ = true := by decide +kernel
theorem table_jsString : tableOK ⟨.jsString, false⟩ = true := by decide +kernel
theorem table_jsonString : tableOK ⟨.jsonString, false⟩ = true := by decide +kernel
theorem table_tabCodeBlock : tableOK ⟨.tabCodeBlock, false⟩ = true := by decide +kernel
theorem table_spacesCodeBlock : tableOK ⟨.spacesCodeBlock, false⟩ = true := by decide +kernel
theorem table_urlQuotedAttr : tableOK ⟨.quotedAttr, true⟩ = true := by decide +kernel
theorem table_urlUnquotedAttr : tableOK ⟨.unquotedAttr, true⟩ = true := by decide +kernel
theorem table_urlMarkdown : tableOK ⟨.markdown, true⟩ = true := by decide +kernel

/-- every context a show can stand in -/
theorem table_all : ∀ c : Ctx, c.valid = true → tableOK c = true
  | ⟨.text, false⟩, _ => table_text
  | ⟨.html, false⟩, _ => table_html
  | ⟨.css, false⟩, _ => table_css
  | ⟨.js, false⟩, _ => table_js
  | ⟨.json, false⟩, _ => table_json
  | ⟨.markdown, false⟩, _ => table_markdown
  | ⟨.tag, false⟩, _ => table_tag
  | ⟨.quotedAttr, false⟩, _ => table_quotedAttr
  | ⟨.unquotedAttr, false⟩, _ => table_unquotedAttr
  | ⟨.cssString, false⟩, _ => table_cssString
  | ⟨.jsString, false⟩, _ => table_jsString
  | ⟨.jsonString, false⟩, _ => table_jsonString
  | ⟨.tabCodeBlock, false⟩, _ => table_tabCodeBlock
  | ⟨.spacesCodeBlock, false⟩, _ => table_spacesCodeBlock
  | ⟨.text, true⟩, h => absurd h (by decide)
  | ⟨.html, true⟩, h => absurd h (by decide)
  | ⟨.css, true⟩, h => absurd h (by decide)
  | ⟨.js, true⟩, h => absurd h (by decide)
  | ⟨.json, true⟩, h => absurd h (by decide)
  | ⟨.markdown, true⟩, _ => table_urlMarkdown
  | ⟨.tag, true⟩, h => absurd h (by decide)
  | ⟨.quotedAttr, true⟩, _ => table_urlQuotedAttr
  | ⟨.unquotedAttr, true⟩, _ => table_urlUnquotedAttr
  | ⟨.cssString, true⟩, h => absurd h (by decide)
  | ⟨.jsString, true⟩, h => absurd h (by decide)
  | ⟨.jsonString, true⟩, h => absurd h (by decide)
  | ⟨.tabCodeBlock, true⟩, h => absurd h (by decide)
  | ⟨.spacesCodeBlock, true⟩, h => absurd h (by decide)

/-- **C09, general form.** In every context, for every type descriptor (basic kinds with any
combination of implemented interfaces and exact types, and all composites: arrays, slices,
pointers, maps, structs, recursive types, nested to any depth): if the checker accepts the show
and every value held in an interface — the shown value itself or inside it — is nil or has a
dynamic type that the checker would accept, then the renderer does not fail. -/
theorem show_accepted_never_fails (c : Ctx) (hc : c.valid = true) (t : TDesc) (hw : t.wf = true)
    (ha : dynAcceptedTop c t = true) : staticOK c t = true → dynOK c t = true :=
  top_sound (facts_of_table c (table_all c hc)) t hw ha

/-- **C09, first clause.** A show whose static type is not an interface, accepted by the type
checker, never fails at run time for its static type (`t.plain`: the descriptor is that of a
type — interfaces inside it hold nothing). -/
theorem static_ok_implies_dyn_ok (c : Ctx) (hc : c.valid = true) (t : TDesc) (hw : t.wf = true)
    (hp : t.plain = true) (_hni : t.isInterface = false) :
    staticOK c t = true → dynOK c t = true :=
  show_accepted_never_fails c hc t hw (dynAcceptedTop_of_plain c t hp)

/-- A value of interface type: the static type `i` and the descriptor of the dynamic type. -/
structure IfaceValue where
  staticType : TInfo
  dynType : TDesc

def IfaceValue.desc (v : IfaceValue) : TDesc := .ifaceVal v.staticType v.dynType
/-- showing `v` in context `c` fails -/
def dynFails (c : Ctx) (v : IfaceValue) : Prop := dynOK c v.desc = false

/-- **C09, second clause.** A value of interface type fails only when its dynamic type would
itself have been rejected statically. -/
theorem iface_fails_only_if_rejected (c : Ctx) (hc : c.valid = true) (v : IfaceValue)
    (hw : v.dynType.wf = true) (hni : v.dynType.isInterface = false)
    (ha : dynAccepted c v.dynType = true) :
    dynFails c v → ¬ staticOK c v.dynType = true := by
  intro hf hs
  have hd : dynOK c v.dynType = true :=
    show_accepted_never_fails c hc v.dynType hw (by
      cases hv : v.dynType <;> simp_all [dynAcceptedTop, TDesc.isInterface]) hs
  have : dynOK c v.desc = dynOK c v.dynType := by simp [IfaceValue.desc, dynOK, dynTop]
  rw [dynFails, this, hd] at hf
  cases hf

/-- … and nil held in an interface of an accepted type never fails. -/
theorem nil_iface_never_fails (c : Ctx) (hc : c.valid = true) (i : TInfo) :
    staticOK c (.ifaceNil i) = true → dynOK c (.ifaceNil i) = true :=
  show_accepted_never_fails c hc (.ifaceNil i) rfl rfl


/-! ### the whole show node: every operand of every shown expression

`{{ x default y }}` has two operands, `{% show a, b %}` two expressions; the emitted code shows the
first operand that is there (`x` when declared). The Show case of `checkNodes` is regenerated as
statements (`Gen/ShowOperands.lean`); the fact below is re-decided on every check. -/

/-- **extracted fact.** In the regenerated Show case the test of `checkShow`'s error stands inside
the loop over the operand pair: an operand that is fine leaves the state as it was, one that is
not ends the check with its own verdict, and nothing around the loops interferes (`loopOK`). -/
theorem show_loop_returns_on_first_failure : loopOK ShowOperands.showLoop = true := by decide

/-- the checker's verdict on a node is that of the first operand, over all expressions and all
members of their pairs, that is not fine -/
theorem show_node_verdict (c : Ctx) (exprs : List (List Operand)) :
    checkShowNode c exprs = specShow (exprs.map (·.map (Operand.classify c))) :=
  runShow_eq_spec _ show_loop_returns_on_first_failure _

/-- an operand the checker lets through: none there, or of a type `checkShow` accepts -/
def Operand.showable (c : Ctx) : Operand → Bool
  | .absent => true
  | .untypedNil => false
  | .typed t => staticOK c t

theorem classify_fine (c : Ctx) (o : Operand) :
    (o.classify c = .absent ∨ o.classify c = .typed .ok) ↔ o.showable c = true := by
  cases o with
  | absent => simp [Operand.classify, Operand.showable]
  | untypedNil => simp [Operand.classify, Operand.showable]
  | typed t => simp [Operand.classify, Operand.showable, staticOK]

/-- **a show is accepted iff ALL operands are showable in the context** — not the last one, not
the evaluated one: every member of every pair. -/
theorem show_accepts_iff_all_operands (c : Ctx) (exprs : List (List Operand)) :
    checkShowNode c exprs = .accepted ↔ ∀ ops ∈ exprs, ∀ o ∈ ops, o.showable c = true := by
  rw [show_node_verdict, specShow, firstFailure_accepted_iff]
  constructor
  · intro h ops hops o ho
    exact (classify_fine c o).1 (h _ (List.mem_flatten.2 ⟨ops.map (Operand.classify c),
      List.mem_map.2 ⟨ops, hops, rfl⟩, List.mem_map.2 ⟨o, ho, rfl⟩⟩))
  · intro h o ho
    obtain ⟨l, hl, hol⟩ := List.mem_flatten.1 ho
    obtain ⟨ops, hops, rfl⟩ := List.mem_map.1 hl
    obtain ⟨o', ho', rfl⟩ := List.mem_map.1 hol
    exact (classify_fine c o').2 (h ops hops o' ho')

theorem evaluated_mem : ∀ (ops : List Operand) (t : TDesc), evaluated ops = some t → Operand.typed t ∈ ops
  | [], _, h => by simp [evaluated] at h
  | .typed t' :: _, t, h => by simp [evaluated] at h; simp [h]
  | .untypedNil :: _, _, h => by simp [evaluated] at h
  | .absent :: rest, t, h => by
    simp only [evaluated] at h
    exact List.mem_cons_of_mem _ (evaluated_mem rest t h)

/-- **C09 for a whole node.** If the checker accepts the node, then whichever operand of
whichever expression is evaluated at run time (any typed one — in particular the first that is
there, which is the one the emitted code shows) is shown without a failure for its type. -/
theorem show_node_accepted_never_fails (c : Ctx) (hc : c.valid = true) (exprs : List (List Operand))
    (h : checkShowNode c exprs = .accepted) :
    ∀ ops ∈ exprs, ∀ t, Operand.typed t ∈ ops → t.wf = true → dynAcceptedTop c t = true → dynOK c t = true := by
  intro ops hops t ht hw ha
  have := (show_accepts_iff_all_operands c exprs).1 h ops hops _ ht
  exact show_accepted_never_fails c hc t hw ha this

theorem show_node_evaluated_never_fails (c : Ctx) (hc : c.valid = true) (exprs : List (List Operand))
    (h : checkShowNode c exprs = .accepted) :
    ∀ ops ∈ exprs, ∀ t, evaluated ops = some t → t.wf = true → dynAcceptedTop c t = true → dynOK c t = true :=
  fun ops hops t ht => show_node_accepted_never_fails c hc exprs h ops hops t (evaluated_mem ops t ht)

/-- the variant in which the error test stands behind the loop over the pair ("last operand only"):
the same statement about it -/
def LastOperandOnlySuffices : Prop :=
  ∀ (c : Ctx), c.valid = true → ∀ exprs : List (List Operand),
    runShow lastOperandOnlyLoop (exprs.map (·.map (Operand.classify c))) = .accepted →
    ∀ ops ∈ exprs, ∀ t, evaluated ops = some t → t.wf = true → dynAcceptedTop c t = true → dynOK c t = true

def tChan : TInfo := ⟨.chan, .none, fun _ => false⟩
def tIntInfo : TInfo := ⟨.int, .none, fun _ => false⟩
/-- `{{ ch default 0 }}` in HTML with `ch` a declared `chan int` -/
def exDefaultChan : List (List Operand) := [[.typed (.basic tChan), .typed (.basic tIntInfo)]]

/-- … is false: `{{ ch default 0 }}` would be accepted and the channel shown. -/
theorem last_operand_only_refuted : ¬ LastOperandOnlySuffices := by
  intro h
  have := h ⟨.html, false⟩ (by decide) exDefaultChan (by decide) _ (List.mem_singleton.2 rfl)
    (.basic tChan) rfl (by decide) (by decide)
  revert this
  decide

/-- and `loopOK` tells the two shapes apart -/
theorem last_operand_only_not_loopOK : loopOK lastOperandOnlyLoop = false := by decide


/-! ### types declared in the template: the method set of the static type is what is asked -/

/-- **extracted fact.** Every `Implements` method of the types a template can create passes the
receiver itself to the package-level `Implements`, which answers a `ScriggoType` by the empty
method set. -/
theorem declared_types_ask_receiver : declaredAsksReceiver = true := by decide

/-- a declared type implements none of the thirteen interfaces, whatever its underlying type does -/
theorem declared_type_method_set_empty (u : TInfo) (i : Iface) :
    (declaredInfo declaredAsksReceiver u).impl i = false := by
  simp [declaredInfo, declared_types_ask_receiver]

theorem declaredInfo_eq_runtimeInfo : declaredInfo declaredAsksReceiver = runtimeInfo := by
  funext u
  simp [declaredInfo, runtimeInfo, declared_types_ask_receiver]

/-- **C09 for declared types.** `t` describes the underlying type (any kind, any methods, any
exact type, any components); the checker decides on what it learns of the declared type, the
renderer meets the value in its method-less proxy: accepted ⇒ shown. -/
theorem declared_accepted_never_fails (c : Ctx) (hc : c.valid = true) (t : TDesc)
    (hw : (t.retop runtimeInfo).wf = true) (ha : dynAcceptedTop c (t.retop runtimeInfo) = true) :
    staticOK c (t.retop (declaredInfo declaredAsksReceiver)) = true → dynOK c (t.retop runtimeInfo) = true := by
  rw [declaredInfo_eq_runtimeInfo]
  exact show_accepted_never_fails c hc _ hw ha

/-- the variant in which the embedded underlying type is asked instead -/
def AskingUnderlyingSuffices : Prop :=
  ∀ (c : Ctx), c.valid = true → ∀ t : TDesc, (t.retop runtimeInfo).wf = true →
    dynAcceptedTop c (t.retop runtimeInfo) = true →
    staticOK c (t.retop (declaredInfo false)) = true → dynOK c (t.retop runtimeInfo) = true

/-- `{% type T Time %}` with `Time` a struct with a `String` method, shown in HTML -/
def tStructStringer : TInfo := ⟨.struct, .none, fun i => i == .stringer⟩

/-- … is false: the show would be accepted and the struct could not be shown. -/
theorem asking_underlying_refuted : ¬ AskingUnderlyingSuffices := by
  intro h
  have := h ⟨.html, false⟩ (by decide) (.struct tStructStringer .nil) (by decide) (by decide) (by decide)
  revert this
  decide

/-! ### non-vacuity: concrete accepted descriptors -/

def tInt : TInfo := ⟨.int, .none, fun _ => false⟩
def tUintptr : TInfo := ⟨.uintptr, .none, fun _ => false⟩
def tAny : TInfo := ⟨.interface, .emptyInterface, fun _ => false⟩
def tMap : TInfo := ⟨.map, .none, fun _ => false⟩
def tSlice : TInfo := ⟨.slice, .none, fun _ => false⟩
def tStruct : TInfo := ⟨.struct, .none, fun _ => false⟩
/-- `[]map[uintptr]struct{ A any; b chan int; Next *T }` with `Next` of the enclosing struct type -/
def exComposite : TDesc :=
  .elem tSlice (.map tMap (.basic tUintptr)
    (.struct tStruct (.cons true (.ifaceNil tAny) (.cons false (.basic ⟨.chan, .none, fun _ => false⟩)
      (.cons true (.elem ⟨.pointer, .none, fun _ => false⟩ (.seen tStruct)) .nil)))))

example : staticOK ⟨.html, false⟩ (.basic tUintptr) = true ∧ (TDesc.basic tUintptr).wf = true := by decide
example : staticOK ⟨.js, false⟩ exComposite = true ∧ exComposite.wf = true ∧ exComposite.plain = true ∧
    exComposite.isInterface = false := by decide
example : staticOK ⟨.json, false⟩ (.ifaceVal tAny exComposite) = true ∧
    dynAcceptedTop ⟨.json, false⟩ (.ifaceVal tAny exComposite) = true := by decide
/-- the checker does reject something, and the renderer does fail on it -/
example : staticOK ⟨.html, false⟩ exComposite = false ∧ dynOK ⟨.html, false⟩ exComposite = false := by decide
example : ∃ v : IfaceValue, dynFails ⟨.js, false⟩ v :=
  ⟨⟨tAny, .map tMap (.basic tStruct) (.basic tInt)⟩, by unfold dynFails; decide⟩

/-- the node theorems are not vacuous: a node with a default expression and two expressions is
accepted, one with an unshowable declared left operand is rejected although its right one is fine -/
example : checkShowNode ⟨.html, false⟩ [[.typed (.basic tUintptr), .typed (.basic tInt)], [.absent, .typed (.basic tInt)]] = .accepted := by decide
example : checkShowNode ⟨.html, false⟩ exDefaultChan = .cannotShow := by decide
example : checkShowNode ⟨.html, false⟩ [[.absent, .typed (.basic tInt)], [.typed (.basic tInt), .untypedNil]] = .untypedNil := by decide

/-- declared types: something is accepted (a declared type over an int kind, a declared struct in
JavaScript), and the declared type over a Stringer struct is rejected in HTML -/
example : staticOK ⟨.html, false⟩ (TDesc.retop (declaredInfo declaredAsksReceiver) (.basic tInt)) = true := by decide
example : staticOK ⟨.js, false⟩ (TDesc.retop (declaredInfo declaredAsksReceiver) (.struct tStructStringer .nil)) = true := by decide
example : staticOK ⟨.html, false⟩ (TDesc.retop (declaredInfo declaredAsksReceiver) (.struct tStructStringer .nil)) = false := by decide

end ScriggoV.Show
