import ScriggoV.Lemmas.ShowLift
/-! C09 — a show accepted by the type checker never fails at run time for its static type.

`staticOK c t`: `checkShow` (with `checkShowJS/JSON`) accepts a show of an expression of type `t`
in context `c`; `dynOK c t`: `renderer.Show` (with `toString`, `showIn*`) does not fail for a
reason of type on a value described by `t`. Both are the hand-written recursion of
`Model/Show.lean` over the decision trees regenerated from the Go sources
(`Gen/ShowTables.lean`): an edit of either Go table changes the trees and the `table_*` facts
below are re-decided. Property theorems only; lemmas are in `Lemmas/Show*.lean`. -/
namespace ScriggoV.Show
open ScriggoV.Gen

/-! ### the table facts: symbolic exploration of the regenerated trees, one per context
(seventeen: the fourteen `ast.Context` values and the three that can stand in a URL) -/

theorem table_text : tableOK ⟨.text, false⟩ = true := by decide +kernel
theorem table_html : tableOK ⟨.html, false⟩ = true := by decide +kernel
theorem table_css : tableOK ⟨.css, false⟩ = true := by decide +kernel
theorem table_js : tableOK ⟨.js, false⟩ = true := by decide +kernel
theorem table_json : tableOK ⟨.json, false⟩ = true := by decide +kernel
theorem table_markdown : tableOK ⟨.markdown, false⟩ = true := by decide +kernel
theorem table_tag : tableOK ⟨.tag, false⟩ = true := by decide +kernel
theorem table_quotedAttr : tableOK ⟨.quotedAttr, false⟩ = true := by decide +kernel
theorem table_unquotedAttr : tableOK ⟨.unquotedAttr, false⟩ = true := by decide +kernel
theorem table_cssString : tableOK ⟨.cssString, false⟩ = true := by decide +kernel
theorem table_jsString : tableOK ⟨.jsString, false⟩ = true := by decide +kernel
theorem table_jsonString : tableOK ⟨.jsonString, false⟩ = true := by decide +kernel
theorem table_tabCodeBlock : tableOK ⟨.tabCodeBlock, false⟩ = true := by decide +kernel
theorem table_spacesCodeBlock : tableOK ⟨.spacesCodeBlock, false⟩ = true := by decide +kernel
theorem table_urlQuotedAttr : tableOK ⟨.quotedAttr, true⟩ = true := by decide +kernel
theorem table_urlUnquotedAttr : tableOK ⟨.unquotedAttr, true⟩ = true := by decide +kernel
theorem table_urlMarkdown : tableOK ⟨.markdown, true⟩ = true := by decide +kernel

/-- every context a show can stand in -/
theorem table_all : ∀ c : Ctx, c.valid = true → tableOK c = true
  | ⟨.text, false⟩, _ => table_text
  | ⟨.html, false⟩, _ => table_html
  | ⟨.css, false⟩, _ => table_css
  | ⟨.js, false⟩, _ => table_js
  | ⟨.json, false⟩, _ => table_json
  | ⟨.markdown, false⟩, _ => table_markdown
  | ⟨.tag, false⟩, _ => table_tag
  | ⟨.quotedAttr, false⟩, _ => table_quotedAttr
  | ⟨.unquotedAttr, false⟩, _ => table_unquotedAttr
  | ⟨.cssString, false⟩, _ => table_cssString
  | ⟨.jsString, false⟩, _ => table_jsString
  | ⟨.jsonString, false⟩, _ => table_jsonString
  | ⟨.tabCodeBlock, false⟩, _ => table_tabCodeBlock
  | ⟨.spacesCodeBlock, false⟩, _ => table_spacesCodeBlock
  | ⟨.text, true⟩, h => absurd h (by decide)
  | ⟨.html, true⟩, h => absurd h (by decide)
  | ⟨.css, true⟩, h => absurd h (by decide)
  | ⟨.js, true⟩, h => absurd h (by decide)
  | ⟨.json, true⟩, h => absurd h (by decide)
  | ⟨.markdown, true⟩, _ => table_urlMarkdown
  | ⟨.tag, true⟩, h => absurd h (by decide)
  | ⟨.quotedAttr, true⟩, _ => table_urlQuotedAttr
  | ⟨.unquotedAttr, true⟩, _ => table_urlUnquotedAttr
  | ⟨.cssString, true⟩, h => absurd h (by decide)
  | ⟨.jsString, true⟩, h => absurd h (by decide)
  | ⟨.jsonString, true⟩, h => absurd h (by decide)
  | ⟨.tabCodeBlock, true⟩, h => absurd h (by decide)
  | ⟨.spacesCodeBlock, true⟩, h => absurd h (by decide)

/-- **C09, general form.** In every context, for every type descriptor (basic kinds with any
combination of implemented interfaces and exact types, and all composites: arrays, slices,
pointers, maps, structs, recursive types, nested to any depth): if the checker accepts the show
and every value held in an interface — the shown value itself or inside it — is nil or has a
dynamic type that the checker would accept, then the renderer does not fail. -/
theorem show_accepted_never_fails (c : Ctx) (hc : c.valid = true) (t : TDesc) (hw : t.wf = true)
    (ha : dynAcceptedTop c t = true) : staticOK c t = true → dynOK c t = true :=
  top_sound (facts_of_table c (table_all c hc)) t hw ha

/-- **C09, first clause.** A show whose static type is not an interface, accepted by the type
checker, never fails at run time for its static type (`t.plain`: the descriptor is that of a
type — interfaces inside it hold nothing). -/
theorem static_ok_implies_dyn_ok (c : Ctx) (hc : c.valid = true) (t : TDesc) (hw : t.wf = true)
    (hp : t.plain = true) (_hni : t.isInterface = false) :
    staticOK c t = true → dynOK c t = true :=
  show_accepted_never_fails c hc t hw (dynAcceptedTop_of_plain c t hp)

/-- A value of interface type: the static type `i` and the descriptor of the dynamic type. -/
structure IfaceValue where
  staticType : TInfo
  dynType : TDesc

def IfaceValue.desc (v : IfaceValue) : TDesc := .ifaceVal v.staticType v.dynType
/-- showing `v` in context `c` fails -/
def dynFails (c : Ctx) (v : IfaceValue) : Prop := dynOK c v.desc = false

/-- **C09, second clause.** A value of interface type fails only when its dynamic type would
itself have been rejected statically. -/
theorem iface_fails_only_if_rejected (c : Ctx) (hc : c.valid = true) (v : IfaceValue)
    (hw : v.dynType.wf = true) (hni : v.dynType.isInterface = false)
    (ha : dynAccepted c v.dynType = true) :
    dynFails c v → ¬ staticOK c v.dynType = true := by
  intro hf hs
  have hd : dynOK c v.dynType = true :=
    show_accepted_never_fails c hc v.dynType hw (by
      cases hv : v.dynType <;> simp_all [dynAcceptedTop, TDesc.isInterface]) hs
  have : dynOK c v.desc = dynOK c v.dynType := by simp [IfaceValue.desc, dynOK, dynTop]
  rw [dynFails, this, hd] at hf
  cases hf

/-- … and nil held in an interface of an accepted type never fails. -/
theorem nil_iface_never_fails (c : Ctx) (hc : c.valid = true) (i : TInfo) :
    staticOK c (.ifaceNil i) = true → dynOK c (.ifaceNil i) = true :=
  show_accepted_never_fails c hc (.ifaceNil i) rfl rfl

/-! ### non-vacuity: concrete accepted descriptors -/

def tInt : TInfo := ⟨.int, .none, fun _ => false⟩
def tUintptr : TInfo := ⟨.uintptr, .none, fun _ => false⟩
def tAny : TInfo := ⟨.interface, .emptyInterface, fun _ => false⟩
def tMap : TInfo := ⟨.map, .none, fun _ => false⟩
def tSlice : TInfo := ⟨.slice, .none, fun _ => false⟩
def tStruct : TInfo := ⟨.struct, .none, fun _ => false⟩
/-- `[]map[uintptr]struct{ A any; b chan int; Next *T }` with `Next` of the enclosing struct type -/
def exComposite : TDesc :=
  .elem tSlice (.map tMap (.basic tUintptr)
    (.struct tStruct (.cons true (.ifaceNil tAny) (.cons false (.basic ⟨.chan, .none, fun _ => false⟩)
      (.cons true (.elem ⟨.pointer, .none, fun _ => false⟩ (.seen tStruct)) .nil)))))

example : staticOK ⟨.html, false⟩ (.basic tUintptr) = true ∧ (TDesc.basic tUintptr).wf = true := by decide
example : staticOK ⟨.js, false⟩ exComposite = true ∧ exComposite.wf = true ∧ exComposite.plain = true ∧
    exComposite.isInterface = false := by decide
example : staticOK ⟨.json, false⟩ (.ifaceVal tAny exComposite) = true ∧
    dynAcceptedTop ⟨.json, false⟩ (.ifaceVal tAny exComposite) = true := by decide
/-- the checker does reject something, and the renderer does fail on it -/
example : staticOK ⟨.html, false⟩ exComposite = false ∧ dynOK ⟨.html, false⟩ exComposite = false := by decide
example : ∃ v : IfaceValue, dynFails ⟨.js, false⟩ v :=
  ⟨⟨tAny, .map tMap (.basic tStruct) (.basic tInt)⟩, by unfold dynFails; decide⟩

end ScriggoV.Show
