import ScriggoV.Lemmas.LinkDest
import ScriggoV.Lemmas.LinkDestScan
import ScriggoV.Lemmas.LinkDestUrl
import ScriggoV.Lemmas.LinkDestFence
import ScriggoV.Lemmas.LinkDestInline
/-! C29 — rewriting Markdown link destinations changes only link destinations.

What is proved here is the part of the property that is arithmetic on bytes: the splice of
`applyReplacements` and the round trip of the destination escaping, over the models of
`Model/LinkDest.lean` (table `isMarkdownEscapable` regenerated from mdescape.go). Which spans
*are* destinations is the hand-written scanner's decision; its agreement with CommonMark is
explored with goldmark by the harness (go/props/c29), not proved. Property theorems only;
lemmas are in `Lemmas/LinkDest.lean`. -/
namespace ScriggoV.LinkDest
open ScriggoV.Gen.LinkDestTables ScriggoV.CommonMarkDest ScriggoV.CommonMarkFence ScriggoV.CommonMarkLex
open ScriggoV.Gen.LinkDestInline ScriggoV.CommonMarkCodeSpan

/-! ### applyReplacements -/

/-- the sort gives the same replacements, in `start` order -/
theorem sort_is_sorted_permutation (rs : List Repl) :
    SortedByStart (sortByStart rs) ∧ (∀ x, x ∈ sortByStart rs ↔ x ∈ rs) ∧
      (sortByStart rs).length = rs.length :=
  ⟨sorted_sortByStart rs, fun x => mem_sortByStart x rs, length_sortByStart rs⟩

/-- **C29, `splice_preserves_outside`.** For every source and every list of replacements that
lie inside the source (`start ≤ stop ≤ len src`, what `appendReplacement` guarantees), with
`A` the replacements the loop applies (in `start` order, skipping every one that starts before
the end of the previous applied one):

* `applyReplacements` does not fault and returns the untouched source segments interleaved
  with the texts of `A` — nothing else is written, nothing is written twice;
* `A` is a chain of ranges in order (each starts at or after the end of the one before) taken
  from the given list;
* the untouched segments, concatenated, are exactly the bytes of the source whose index lies
  in no range of `A`, in order — the output restricted to the complement of the applied ranges
  equals the source there. -/
theorem splice_preserves_outside (src : Bytes) (rs : List Repl) (hv : ∀ r ∈ rs, Valid src r) :
    let A := applied 0 (sortByStart rs)
    applyReplacements src rs = .ok (weave (untouched src 0 A) (A.map (·.text))) ∧
    Chain 0 A ∧ (∀ r ∈ A, r ∈ rs) ∧
    (untouched src 0 A).flatten = outsideFrom A 0 0 src := by
  intro A
  have hv' : ∀ r ∈ sortByStart rs, Valid src r := fun r hr => hv r ((mem_sortByStart r rs).1 hr)
  have hchain : Chain 0 A := chain_applied src _ 0 hv'
  have hmem : ∀ r ∈ A, r ∈ rs := fun r hr => (mem_sortByStart r rs).1 (mem_applied _ 0 r hr)
  refine ⟨?_, hchain, hmem, ?_⟩
  · unfold applyReplacements
    cases hrs : rs with
    | nil =>
      have hA : A = [] := by simp [A, hrs, sortByStart, applied]
      simp [hA, untouched, weave]
    | cons r rs' =>
      rw [← hrs]
      have : rs.isEmpty = false := by simp [hrs]
      simp only [this, Bool.false_eq_true, if_false]
      rw [applyLoop_eq src _ 0 [] (Nat.zero_le _) hv', interleave_eq_weave]
      simp [A]
  · have := outside_eq_untouched src A 0 hchain (fun r hr => (hv r (hmem r hr)).2) (Nat.zero_le _)
    simpa using this.symm

/-- never a slice fault on replacements inside the source (the "never panics" half) -/
theorem applyReplacements_no_fault (src : Bytes) (rs : List Repl) (hv : ∀ r ∈ rs, Valid src r) :
    ∀ f, applyReplacements src rs ≠ .error f := by
  intro f h
  rw [(splice_preserves_outside src rs hv).1] at h
  cases h

/-- with nothing to rewrite the document is returned as it is (a second pass that selects no
replacement — every rewritten destination has a scheme and is skipped — changes nothing) -/
theorem rewrite_nothing_is_identity (src : Bytes) : applyReplacements src [] = .ok src := rfl

-- non-vacuity: overlapping and unsorted replacements on "abcdefgh": [5,7)→"Y", [1,3)→"XX",
-- [2,4)→"Z" (overlaps the second, skipped): "a" ++ "XX" ++ "de" ++ "Y" ++ "h"
def sampleRepls : List Repl := [⟨5, 7, [89]⟩, ⟨1, 3, [88, 88]⟩, ⟨2, 4, [90]⟩]
example : ∀ r ∈ sampleRepls, Valid [97, 98, 99, 100, 101, 102, 103, 104] r := by
  intro r hr
  simp only [sampleRepls, List.mem_cons, List.not_mem_nil, or_false] at hr
  rcases hr with h | h | h <;> subst h <;> simp [Valid]
example : applyReplacements [97, 98, 99, 100, 101, 102, 103, 104] sampleRepls
    = .ok [97, 88, 88, 100, 101, 89, 104] := by rfl
example : outsideFrom (applied 0 (sortByStart sampleRepls)) 0 0 [97, 98, 99, 100, 101, 102, 103, 104]
    = [97, 100, 101, 104] := by decide

/-! ### the destination escaping -/

/-- the full statement: the escaping applied to a destination is undone by the unescaping -/
def UnescapeEscapeFull : Prop := ∀ s : Bytes, mdUnescape (urlEscape s) = s

/-- **C29, `unescape_escape` — partial**: for every `s` without U+00A0 (bytes C2 A0).
(`…_partial`: `markdownUnescape` also turns U+00A0 into a space, which `markdownURLEscape`
never writes — `not_UnescapeEscapeFull`; known finding `md-unescape-nbsp`.) Holds whatever
the escapable set is, as long as it contains the backslash (`escapable_slash`, re-checked
against the regenerated table). -/
theorem unescape_escape_partial (s : Bytes) (h : noNbsp s = true) :
    mdUnescape (urlEscape s) = s :=
  unesc_escape s h

/-- the witness: U+00A0 alone -/
def nbspWitness : Bytes := [194, 160]

theorem not_UnescapeEscapeFull : ¬ UnescapeEscapeFull := by
  intro h
  have := h nbspWitness
  revert this
  decide

/-! ### the escapable table (regenerated from mdescape.go) against CommonMark -/

/-- only ASCII punctuation is ever unescaped: `\x` with `x` a letter, digit, space or non-ASCII
byte is left alone, as CommonMark §2.4 demands -/
theorem escapable_is_punct (c : UInt8) (h : isMarkdownEscapable c = true) : isPunct c = true := by
  have := allBytes_spec (p := fun c => !isMarkdownEscapable c || isPunct c) (by decide +kernel) c
  simpa [h] using this

/-- the bytes that delimit a destination — `(` `)` `<` `>` — and the backslash itself are
escapable, so an escaped delimiter inside a destination is read as the byte it stands for -/
theorem escapable_covers_destination_syntax :
    isMarkdownEscapable 40 = true ∧ isMarkdownEscapable 41 = true ∧ isMarkdownEscapable 60 = true ∧
    isMarkdownEscapable 62 = true ∧ isMarkdownEscapable 92 = true := by decide

/-- the full statement: exactly the ASCII punctuation is escapable (CommonMark §2.4) -/
def EscapableIsAsciiPunct : Prop := ∀ c : UInt8, isMarkdownEscapable c = isPunct c

/-- false of the code today: `"` (and `$ % ' , / : ; ? @ ^`) can be backslash-escaped in
CommonMark but is not in the table — known finding `ld-escapable-set-incomplete` -/
theorem not_EscapableIsAsciiPunct : ¬ EscapableIsAsciiPunct := by
  intro h
  have := h 34
  revert this
  decide

-- non-vacuity: backslashes before escapable and other bytes, a final backslash, a lone C2:
-- `a\)b\\c\xd` C2 `\`
def sampleDest : Bytes := [97, 92, 41, 98, 92, 92, 99, 92, 120, 100, 194, 92]
example : noNbsp sampleDest = true := by decide
example : urlEscape sampleDest = [97, 92, 92, 41, 98, 92, 92, 92, 99, 92, 120, 100, 194, 92, 92] := by decide

/-! ### the scanners: indices in bounds, spans that CommonMark accepts

The models return `Option` / `Except Fault`: every Go index and slice is guarded in the model by
a pattern match on the remaining bytes, so "no fault" is the statement that the only `error` is
the one documented (`parseTitle` called at or after the end of the line). -/

/-- **parseDestination**, for every line and every start index: the three indices are ordered,
at or after `pos` and inside the line (so `line[start:stop]` never faults); and the returned
span is a CommonMark destination for the stated classes — `<…>` form: delimited by `<` and `>`,
and, if the span has no line ending and no `<` (`noLtEol`), it is an `angleBody`; bare form: not
empty, and, if the span has no control characters (`noCtl`) and the loop stopped with all
parentheses closed (`plainEndDepth … = 0`), it is a `bareDest` (no space, balanced or escaped
parentheses, does not start with `<`). -/
theorem parseDestination_sound (line : Bytes) (pos a b e : Nat)
    (h : parseDestination line pos = some (a, b, e)) :
    pos ≤ a ∧ a ≤ b ∧ b ≤ e ∧ e ≤ line.length ∧
    ((e = b + 1 ∧ 1 ≤ a ∧ line[a - 1]? = some 60 ∧ line[b]? = some 62 ∧
        (noLtEol ((line.drop a).take (b - a)) = true →
          angleBody false ((line.drop a).take (b - a)) = true)) ∨
     (e = b ∧ a < b ∧
        (noCtl ((line.drop a).take (b - a)) = true → plainEndDepth false 0 (line.drop a) = 0 →
          bareDest ((line.drop a).take (b - a)) = true))) :=
  parseDestination_spec line pos a b e h

/-- **parseTitle**, for every line and every index: it faults (index out of range, on
`line[pos]`) exactly when `pos` is not inside the line; otherwise it returns, and a returned end
index is inside the line and after the opener and the closer -/
theorem parseTitle_bounds (line : Bytes) (pos : Nat) :
    (line.length ≤ pos → parseTitle line pos = .error .index) ∧
    (pos < line.length → ∃ r, parseTitle line pos = .ok r ∧
        ∀ e, r = some e → pos + 2 ≤ e ∧ e ≤ line.length) :=
  parseTitle_spec line pos

/-- **findLabelEnd**, for every line and every index: a returned index is inside the line, at
or after `pos`, holds a `]`, and the bytes before it have no unescaped bracket (the bracket
balance of a link label) -/
theorem findLabelEnd_sound (line : Bytes) (pos e : Nat) (h : findLabelEnd line pos = some e) :
    pos ≤ e ∧ e < line.length ∧ line[e]? = some 93 ∧
      noBareBracket false ((line.drop pos).take (e - pos)) = true :=
  findLabelEnd_spec line pos e h

-- non-vacuity: `  <a\>b> x` from 0 gives the span `a\>b`; `a(b\))c d` the span `a(b\))c`
example : parseDestination [32, 32, 60, 97, 92, 62, 98, 62, 32, 120] 0 = some (3, 7, 8) := by decide
example : parseDestination [97, 40, 98, 92, 41, 41, 99, 32, 100] 0 = some (0, 7, 7) := by decide
example : bareDest [97, 40, 98, 92, 41, 41, 99] = true := by decide
example : findLabelEnd [97, 92, 93, 98, 93] 0 = some 4 := by decide

/-! ### fenced and indented code: the scanner's line decisions against CommonMark §4.4, §4.5

The conditions tested by `isFenceStart`, `isFenceClose` and `isIndentedCode` are regenerated from
linkdestination.go on every check (`Gen/LinkDestFence.lean`), so these theorems are about the
comparisons the code makes today: a closing fence compared with anything but the length of the
opening fence, another indentation limit, another fence character make them fail. -/

/-- **isFenceStart**, for every line: it answers `(ch, n)` exactly when the line is a CommonMark
opening code fence of `n` characters `ch` — up to three spaces of indentation, a maximal run of
`n ≥ 3` backticks or tildes, and no backtick in the info string of a backtick fence -/
theorem isFenceStart_iff_openingFence (line : Bytes) (ch : UInt8) (n : Nat) :
    isFenceStart line = some (ch, n) ↔ OpeningFence ch n line :=
  ⟨isFenceStart_sound line ch n, isFenceStart_complete line ch n⟩

/-- **isFenceClose**, for every line and every open fence (`ch` a fence character, `n ≥ 1`; what
`isFenceStart` returns has `n ≥ 3`): it answers true exactly when the line is a CommonMark
closing fence for it — up to three spaces of indentation, a run of the same character at least
as long as the opening fence, then only spaces and tabs. In particular a shorter run, another
character, trailing text or four columns of indentation do not close the block. -/
theorem isFenceClose_iff_closingFence (line : Bytes) (ch : UInt8) (n : Nat)
    (hc : isFenceChar ch = true) (hn : 1 ≤ n) :
    isFenceClose line ch n = true ↔ ClosingFence ch n line :=
  ⟨isFenceClose_sound line ch n, isFenceClose_complete line ch n hc hn⟩

/-- **the extent of a fenced block**, for every opening fence and all the lines after it: the
line loop (outside HTML) skips the opening fence, the whole content of the block as CommonMark
delimits it (`BlockExtent`: the lines before the first closing fence of the same character and
at least the same length; all the lines when there is none) and the closing fence, and resumes
after it in the state "not in a fence" -/
theorem fenced_block_extent (opener : Bytes) (ch : UInt8) (n : Nat) (lines : List Bytes)
    (ho : OpeningFence ch n opener) (E : BlockExtent ch n lines) :
    fenceScan none (opener :: lines) =
      true :: (List.replicate E.content.length true ++
        (match E.closer with
         | some (_, rest) => true :: fenceScan none rest
         | none => [])) := by
  have hs := isFenceStart_complete opener ch n ho
  obtain ⟨_, _, _, _, hn3, hc, _, _⟩ := ho
  have hn : 1 ≤ n := by omega
  obtain ⟨content, closer, split, hopen, hcloses⟩ := E
  subst split
  simp only
  have hcont : ∀ l ∈ content, isFenceClose l ch n = false := by
    intro l hl
    cases h : isFenceClose l ch n with
    | false => rfl
    | true => exact absurd (isFenceClose_sound l ch n h) (hopen l hl)
  have e : ∀ ls, fenceScan none (opener :: ls) = true :: fenceScan (some (ch, n)) ls := by
    intro ls; simp [fenceScan, hs]
  rw [e, fenceScan_content ch n content _ hcont]
  cases closer with
  | none => simp [fenceScan]
  | some cr =>
    obtain ⟨c, rest⟩ := cr
    have := isFenceClose_complete c ch n hc hn (hcloses c rest rfl)
    simp [fenceScan_some_cons, this]

/-- **isIndentedCode**, for every line: true exactly when the line has four or more columns of
indentation (CommonMark §2.2 tab stops, `CommonMarkLex.indentCols`) and is not blank -/
theorem isIndentedCode_iff (line : Bytes) :
    isIndentedCode line = true ↔ 4 ≤ indentCols 0 line ∧ line.all isTrail = false := by
  unfold isIndentedCode indentWidth
  rw [indentedCode_true, indentWidthFrom_eq_indentCols, isBlank_eq]

-- non-vacuity: "````" opens a fence of four backticks; "```" (three) does not close it, "`````  "
-- does; the block "````", "```", "[a](b)", "```", "````" is skipped as a whole and "x" is not
def bt (n : Nat) : Bytes := List.replicate n 96
def linkLine : Bytes := [91, 97, 93, 40, 98, 41]
example : OpeningFence 96 4 (bt 4) := ⟨0, [], by decide, by decide, by decide, by decide, by decide, by decide⟩
example : isFenceStart (32 :: 32 :: bt 4 ++ [109, 100]) = some (96, 4) := by decide
example : isFenceStart (bt 3 ++ [32, 97, 96]) = none := by decide
example : isFenceClose (bt 3) 96 4 = false := by decide
example : isFenceClose (32 :: bt 5 ++ [32, 9]) 96 4 = true := by decide
example : isFenceClose (bt 4 ++ [120]) 96 4 = false := by decide
example : isFenceClose (List.replicate 4 126) 96 4 = false := by decide
example : isFenceClose (32 :: 32 :: 32 :: 32 :: bt 4) 96 4 = false := by decide
example : fenceScan none [bt 4, bt 3, linkLine, bt 3, bt 4, [120]]
    = [true, true, true, true, true, false] := by decide
def sampleExtent : BlockExtent 96 4 [bt 3, linkLine, bt 3, bt 4, [120]] where
  content := [bt 3, linkLine, bt 3]
  closer := some (bt 4, [[120]])
  split := by decide
  content_open := by
    intro l hl h
    have := isFenceClose_complete l 96 4 (by decide) (by decide) h
    simp only [List.mem_cons, List.not_mem_nil, or_false] at hl
    rcases hl with e | e | e <;> subst e <;> revert this <;> decide
  closer_closes := by
    intro c rest h
    cases h
    exact ⟨0, 4, [], by decide, by decide, by decide, by decide⟩

/-! ### code spans: backslashes inside them are literal (CommonMark §6.1, §2.4)

`scanInline` tries the tests of the per-byte loop of scanInlineLinks in the order the source has
them (`Gen.LinkDestInline.loopOrder`, regenerated on every check): with the backslash-escape
test moved before the code-span test these theorems no longer hold. -/

/-- **the order of the tests**: the backslash-escape test is reached only when the byte is not
inside a code span, not inside a comment / declaration / processing instruction / CDATA section,
not inside a raw text element and not inside an HTML element — the four tests that consume the
byte in those states come before it -/
theorem escape_after_literal_contexts :
    ∀ t ∈ [Test.codeSpan, Test.rawCloser, Test.rawTag, Test.inHTML],
      loopOrder.idxOf t < loopOrder.idxOf Test.escape := by decide

/-- **`codespan_content_literal`**, for every line that continues with a code span and every
state of the bracket stack: a backtick string of `n` backticks, a content in which every
backtick string is shorter than `n` (a special case of `codespan_content_literal_full` below,
kept under its name: `codeSpanContent_of_stringsBelow`), and the closing string of `n` backticks are passed
over as a whole — no destination is collected inside, and the scan goes on after the closing
string in the state it had before the opening one. Nothing is assumed about backslashes: the
content is any bytes, the right-hand side mentions only its length. In particular a content that
ends in a backslash (`` `\` ``, `` `C:\dir\` ``) does not hide the closing backtick. -/
theorem codespan_content_literal (n : Nat) (body rest : Bytes) (depth pos : Nat) (hn : 0 < n)
    (hb : body ≠ []) (hh : body.head? ≠ some 96) (hl : body.getLast? ≠ some 96)
    (hs : stringsBelow n body = true) (hr : rest.head? ≠ some 96) :
    scanInline 0 depth 0 pos (ticks n ++ (body ++ (ticks n ++ rest))) =
      scanInline 0 depth 0 (pos + (n + body.length + n)) rest :=
  scanInline_codespan n body rest depth pos hn hb hh hl (noStringOf_of_stringsBelow n body false hs) hr

/-- a content whose backtick strings are all shorter than `n` is a CommonMark code-span content
for an opening string of `n` -/
theorem codeSpanContent_of_stringsBelow (n : Nat) (body : Bytes) (hb : body ≠ [])
    (hh : body.head? ≠ some 96) (hl : body.getLast? ≠ some 96) (hs : stringsBelow n body = true) :
    CodeSpanContent n body :=
  ⟨hb, hh, hl, noStringOf_of_stringsBelow n body false hs⟩

/-- the state after a code span does not depend on what is inside it: two contents of the same
length, with backslashes or without, leave the scan in the same place -/
theorem codespan_state_independent_of_content (n : Nat) (body₁ body₂ rest : Bytes) (depth pos : Nat)
    (hn : 0 < n) (hlen : body₁.length = body₂.length)
    (hb₁ : body₁ ≠ []) (hh₁ : body₁.head? ≠ some 96) (hl₁ : body₁.getLast? ≠ some 96)
    (hs₁ : stringsBelow n body₁ = true)
    (hb₂ : body₂ ≠ []) (hh₂ : body₂.head? ≠ some 96) (hl₂ : body₂.getLast? ≠ some 96)
    (hs₂ : stringsBelow n body₂ = true) (hr : rest.head? ≠ some 96) :
    scanInline 0 depth 0 pos (ticks n ++ (body₁ ++ (ticks n ++ rest))) =
      scanInline 0 depth 0 pos (ticks n ++ (body₂ ++ (ticks n ++ rest))) := by
  rw [codespan_content_literal n body₁ rest depth pos hn hb₁ hh₁ hl₁ hs₁ hr,
    codespan_content_literal n body₂ rest depth pos hn hb₂ hh₂ hl₂ hs₂ hr, hlen]

/-- the full statement: the same for every CommonMark code-span content (no backtick string of
exactly `n`; longer and shorter ones allowed) -/
def CodespanContentLiteralFull : Prop :=
  ∀ (n : Nat) (body rest : Bytes) (depth pos : Nat), 0 < n → CodeSpanContent n body →
    rest.head? ≠ some 96 →
    scanInline 0 depth 0 pos (ticks n ++ (body ++ (ticks n ++ rest))) =
      scanInline 0 depth 0 (pos + (n + body.length + n)) rest

/-- **`codespan_content_literal` at full strength** (since fix 8b404d9: inside a code span a
backtick string is passed over as a whole, and one of another length is content): every
CommonMark code-span content — backtick strings longer than the delimiters included — is passed
over as a whole, no destination is collected inside, and the scan goes on after the closing
string in the state it had before the opening one. Before the fix the loop advanced one byte at
a time over a longer backtick string and took its last `n` backticks for the closing string
(`` `a``b` [x](y) ``: the link was not seen; `` ` ``[](a)` ``: link syntax inside the code span
was rewritten — finding `ld-code-span-closed-inside-longer-run`, cured), and this statement was
refuted by the first of those lines. -/
theorem codespan_content_literal_full : CodespanContentLiteralFull := by
  intro n body rest depth pos hn hc hr
  obtain ⟨hb, hh, hl, hs⟩ := hc
  exact scanInline_codespan n body rest depth pos hn hb hh hl hs hr

-- non-vacuity: `` `C:\dir\` `` and `` ``a\`b`` `` are code-span contents below their delimiters;
-- the link after `` `\` `` is found where it stands, link syntax inside `` `[a](b)\` `` is not
def bsl : UInt8 := 92
example : stringsBelow 1 [67, 58, bsl, 100, 105, 114, bsl] = true := by decide
example : stringsBelow 2 [97, bsl, 96, 98] = true := by decide
example : scanInlineLinks (ticks 1 ++ [bsl] ++ ticks 1 ++ [32, 91, 120, 93, 40, 121, 41]) = some [(8, 9)] := by decide
example : scanInlineLinks (ticks 1 ++ [91, 97, 93, 40, 98, 41, bsl] ++ ticks 1) = some [] := by decide
example : scanInlineLinks [bsl, 96, 91, 120, 93, 40, 121, 41, 96] = some [(6, 7)] := by decide
-- the two lines of the cured finding: `` `a``b` [x](y) `` — the link after the code span is found;
-- `` ` ``[](a)` `` — the link syntax inside the code span is not
example : CodeSpanContent 1 [97, 96, 96, 98] := ⟨by decide, by decide, by decide, by decide⟩
example : scanInlineLinks ([96, 97, 96, 96, 98, 96] ++ [32, 91, 120, 93, 40, 121, 41]) = some [(11, 12)] := by decide
example : scanInlineLinks [96, 32, 96, 96, 91, 93, 40, 97, 41, 96] = some [] := by decide

/-! ### which destinations are rewritten, with net/url as a parameter -/

/-- **`rewritten_is_absolute`**: under the laws assumed of net/url (`UrlLaws`: a parsed URL
given the base's scheme and relocated, printed and parsed again, has the base's scheme),
every text `appendReplacement` writes — when it contains no U+00A0, the
case in which the unescaping does not undo the escaping — reads back (unescape, parse) as a URL
with the base's scheme. -/
theorem rewritten_is_absolute (L : UrlLib) (b : Bytes) (laws : UrlLaws L b) (dest t : Bytes)
    (h : appendDecision L b dest = some t) (hn : noNbsp t = true) :
    ∃ w, L.parse (mdUnescape t) = some w ∧ w.scheme = b := by
  obtain ⟨u, _, _, ht⟩ := appendDecision_some h
  rw [ht] at hn ⊢
  have := unesc_escape _ (noNbsp_of_urlEscape _ hn)
  unfold mdUnescape
  rw [this]
  exact laws.relocated_reads_back u

/-- **`idempotent`** (per destination): a destination that was rewritten is left alone by a
second pass — it is absolute. With `rewrite_nothing_is_identity`: if the scanner finds the
same spans in the output, the second pass selects no replacement and returns the document as
it is. -/
theorem idempotent_destination (L : UrlLib) (b : Bytes) (laws : UrlLaws L b) (dest t : Bytes) (hb : b ≠ [])
    (h : appendDecision L b dest = some t) (hn : noNbsp t = true) :
    appendDecision L b t = none := by
  obtain ⟨w, hw, hws⟩ := rewritten_is_absolute L b laws dest t h hn
  unfold appendDecision
  rw [hw]
  have : w.scheme.isEmpty = false := by
    rw [hws]; cases b with
    | nil => exact absurd rfl hb
    | cons _ _ => rfl
  simp [this]

-- non-vacuity: the laws are satisfiable — a toy library in which the scheme is what precedes
-- the first `:` — and with it the relative destination `x` is rewritten to `https:x`, which a
-- second pass leaves alone
def toyHasColon : Bytes → Bool
  | [] => false
  | c :: rest => c == 58 || toyHasColon rest
def toyLib : UrlLib where
  parse s := some ⟨if toyHasColon s then s.takeWhile (· != 58) else [], [], s, []⟩
  str u := u.scheme ++ 58 :: u.path
  relocate u := u
def https : Bytes := [104, 116, 116, 112, 115]
example : UrlLaws toyLib https :=
  ⟨fun u => ⟨_, rfl, by simp [toyLib, https, toyHasColon]⟩⟩
example : appendDecision toyLib https [120] = some (https ++ [58, 120]) := by decide
example : appendDecision toyLib https (https ++ [58, 120]) = none := by decide

end ScriggoV.LinkDest
