import ScriggoV.Lemmas.ShowValueSort
/-! C08 — values shown as JavaScript or JSON are valid literals for the same data.
Property theorems only; the lemmas are in `Lemmas/ShowValue*.lean`.

Objects: `showInJS` / `showInJSON` (`Model/ShowValue.lean`, hand-written over the kind switches
and literals regenerated into `Gen/ShowJS.lean` and the escape table of `Gen/EscapeTables.lean`),
the RFC 8259 decoder / JS literal recogniser `parseJSON` / `parseJS` (`Spec/JSON.lean`), the data
a value stands for: `absStd` (what encoding/json defines) and `absScriggo` (`Spec/ShowAbs.lean`).

Hypotheses of every theorem (`Shaped`, `Lemmas/ShowValue.lean`): the description is one reflect
can give; **strconv.FormatFloat(f,'f',-1,bits) of a finite float is an RFC 8259 number** (the
harness checks this on every run); what `JS()`/`JSON()` of an envelope type returns is itself a
text for some data; formatted times have no quote/backslash/control byte; no non-nil
`unsafe.Pointer`; in JS the name of an unrepresentable type has no `*/`. -/
namespace ScriggoV.ShowValue
open ScriggoV ScriggoV.JSON ScriggoV.Gen.ShowJS

/-! ## the output is a literal for the value's data -/

/-- **C08, both contexts.** For every well-shaped value without non-finite floats the function
does not panic and its output is one JSON text (`m = .json`) / one JavaScript literal expression
(`m = .js`) that the decoder of `Spec/JSON.lean` takes to `absScriggo m v`: null for nil,
booleans, numbers with the digits Go prints, strings with every byte back (escapes undone),
`[]byte` as base64, arrays in order, struct members in field order under their tag names with
`-`, unexported and omitted-empty fields left out, map members sorted by key, `undefined` and
`new Date("…")` in JS. -/
theorem show_decodes (m : Mode) (v : GoVal) (hs : Shaped m v) (hf : finiteFloats v = true) :
    ∃ s, showV m v = .ok s ∧ parseTop m.isJS s = some (absScriggo m v) := by
  obtain ⟨s, h1, h2⟩ := showV_parses m v hs hf
  exact ⟨s, h1, h2.top⟩

/-- the same wherever a value may stand: inside an array or object, before `,` `]` `}` -/
theorem show_decodes_in_context (m : Mode) (v : GoVal) (hs : Shaped m v) (hf : finiteFloats v = true) :
    ∃ s, showV m v = .ok s ∧ ParsesTo m.isJS s (absScriggo m v) :=
  showV_parses m v hs hf

/-- JSON context -/
theorem showInJSON_decodes (v : GoVal) (hs : Shaped .json v) (hf : finiteFloats v = true) :
    ∃ s, showInJSON v = .ok s ∧ parseJSON s = some (absScriggo .json v) :=
  show_decodes .json v hs hf

/-- JavaScript context: recognised as a literal expression, and it denotes the data -/
theorem showInJS_recognised (v : GoVal) (hs : Shaped .js v) (hf : finiteFloats v = true) :
    ∃ s, showInJS v = .ok s ∧ recogniseJS s = true ∧ parseJS s = some (absScriggo .js v) := by
  obtain ⟨s, h1, h2⟩ := show_decodes .js v hs hf
  refine ⟨s, h1, ?_, h2⟩
  unfold recogniseJS parseJS
  have : parseTop true s = some (absScriggo .js v) := h2
  rw [this]; rfl

/-- neither function panics on such a value -/
theorem show_no_panic (m : Mode) (v : GoVal) (hs : Shaped m v) (hf : finiteFloats v = true) :
    ∀ f, showV m v ≠ .error f := by
  obtain ⟨s, h1, _⟩ := show_decodes m v hs hf
  intro f h; rw [h1] at h; cases h

/-! ## the same data encoding/json would produce -/

/-- **Full statement** of the JSON half of the property: the output decodes to the data
encoding/json defines (`absStd`: tag names, `-`, `omitempty`, the `string` option, base64 for
`[]byte`, `null` for every nil, sorted keys). -/
def FullStatement : Prop :=
  ∀ v, Shaped .json v → ∃ s, showInJSON v = .ok s ∧ parseJSON s = some (absStd .json v)

/-- **C08, JSON, partial.** What is missing from `FullStatement`, each part refuted below by a
witness that is replayed on the real library on every run (known_findings.json):
* `finiteFloats v`: NaN/±Inf are written as `NaN`, `+Inf`, `-Inf` (`nonfinite-float-not-a-literal`);
* `stdSame v`: no field carries the `,string` tag option, which is ignored
  (`json-string-option-ignored`), and no `[]byte` is nil, which is shown as `""` instead of
  `null` (`nil-byte-slice-shown-as-empty-string`).
Outside the model (harness only): embedded structs, `omitzero`, defined byte-slice types. -/
theorem showInJSON_is_encoding_json_data_partial (v : GoVal) (hs : Shaped .json v)
    (hf : finiteFloats v = true) (hd : stdSame v = true) :
    ∃ s, showInJSON v = .ok s ∧ parseJSON s = some (absStd .json v) := by
  obtain ⟨s, h1, h2⟩ := showInJSON_decodes v hs hf
  refine ⟨s, h1, ?_⟩
  rw [h2]
  unfold absScriggo absStd
  rw [abs_cfg .json ⟨false, false⟩ ⟨true, true⟩ v hd]

/-- the same for JavaScript -/
theorem showInJS_is_encoding_json_data_partial (v : GoVal) (hs : Shaped .js v)
    (hf : finiteFloats v = true) (hd : stdSame v = true) :
    ∃ s, showInJS v = .ok s ∧ parseJS s = some (absStd .js v) := by
  obtain ⟨s, h1, _, h2⟩ := showInJS_recognised v hs hf
  refine ⟨s, h1, ?_⟩
  rw [h2]
  unfold absScriggo absStd
  rw [abs_cfg .js ⟨false, false⟩ ⟨true, true⟩ v hd]

/-- `[]float64{NaN}` -/
def witnessNaN : GoVal := .slice false [.float .float64 .nan false [0x4E, 0x61, 0x4E]]
/-- `struct{ B bool "json:\"b,string\"" }{true}` -/
def witnessStringOpt : GoVal :=
  .struct [⟨[0x42], [0x62, 0x2C, 0x73, 0x74, 0x72, 0x69, 0x6E, 0x67], true⟩] [.bool true]
/-- `[]byte(nil)` -/
def witnessNilBytes : GoVal := .bytes true []

theorem witnessNaN_shaped : Shaped .json witnessNaN := by
  simp [witnessNaN, Shaped, ShapedL, KindOK, isFloatKind]

/-- `[]float64{NaN}` renders `[NaN]`, which is not JSON (DESIGN §8 row 19) -/
theorem nan_is_not_json :
    showInJSON witnessNaN = .ok [0x5B, 0x4E, 0x61, 0x4E, 0x5D] ∧
    parseJSON [0x5B, 0x4E, 0x61, 0x4E, 0x5D] = none := by
  constructor <;> rfl

/-- the full statement is false of the code today -/
theorem fullStatement_false : ¬ FullStatement := by
  intro h
  obtain ⟨s, h1, h2⟩ := h witnessNaN witnessNaN_shaped
  rw [nan_is_not_json.1] at h1
  cases h1
  rw [nan_is_not_json.2] at h2
  cases h2

/-- the `,string` option is ignored: `{"b":true}` where encoding/json's data is `{"b":"true"}`
(DESIGN §8 row 32) -/
theorem string_option_ignored :
    showInJSON witnessStringOpt = .ok [0x7B, 0x22, 0x62, 0x22, 0x3A, 0x74, 0x72, 0x75, 0x65, 0x7D] ∧
    parseJSON [0x7B, 0x22, 0x62, 0x22, 0x3A, 0x74, 0x72, 0x75, 0x65, 0x7D]
      = some (.obj [([0x62], .bool true)]) ∧
    absStd .json witnessStringOpt = .obj [([0x62], .str kwTrue)] := by
  refine ⟨rfl, rfl, rfl⟩

/-- a nil `[]byte` is shown as `""` where encoding/json's data is `null` (DESIGN §8 row 32) -/
theorem nil_bytes_not_null :
    showInJSON witnessNilBytes = .ok [0x22, 0x22] ∧
    parseJSON [0x22, 0x22] = some (.str []) ∧ absStd .json witnessNilBytes = .null := by
  refine ⟨rfl, rfl, rfl⟩

/-! ## map keys -/

/-- **keys are emitted sorted; duplicates after stringification are all kept.** The data of a
non-nil map is an object whose keys are the stringified keys in ascending byte order — a
permutation of them, so a key that occurs `n` times among the stringified keys (two `Stringer`
keys with the same `String()`) occurs `n` times, next to each other. With `show_decodes` this
is a statement about the emitted text. -/
theorem map_keys_sorted (m : Mode) (ks : List Bytes) (vs : List GoVal) (hl : ks.length = vs.length) :
    ∃ kvs, absScriggo m (.map false ks vs) = .obj kvs ∧ SortedKeys kvs ∧
      (kvs.map (·.1)).Perm ks ∧ ∀ k, (kvs.map (·.1)).count k = ks.count k := by
  refine ⟨sortByKey (ks.zip (absList cfgS m vs)), ?_, sorted_sortByKey _, ?_, ?_⟩
  · unfold absScriggo; rw [abs]; simp
  · have h1 := (perm_sortByKey (ks.zip (absList cfgS m vs))).map (·.1)
    have hlen : ∀ (l : List GoVal), (absList cfgS m l).length = l.length := by
      intro l; induction l with
      | nil => simp [absList]
      | cons a r ih => simp [absList, ih]
    have h2 : (ks.zip (absList cfgS m vs)).map (·.1) = ks := by
      rw [List.map_fst_zip]; rw [hlen]; omega
    rw [h2] at h1; exact h1
  · intro k
    have h1 := (perm_sortByKey (ks.zip (absList cfgS m vs))).map (·.1)
    have hlen : ∀ (l : List GoVal), (absList cfgS m l).length = l.length := by
      intro l; induction l with
      | nil => simp [absList]
      | cons a r ih => simp [absList, ih]
    have h2 : (ks.zip (absList cfgS m vs)).map (·.1) = ks := by
      rw [List.map_fst_zip]; rw [hlen]; omega
    rw [h2] at h1; exact h1.count_eq k

/-! ## struct tags -/

/-- `parseTagValue` never faults (its slices are always in range) and returns the name before
the first comma and whether `omitempty` is one of the options after it -/
theorem parseTagValue_spec (tag : Bytes) :
    parseTagValue tag = .ok ((specTag tag).1, (specTag tag).2.contains omitemptyLit) :=
  parseTagValue_eq tag

/-- string bodies: every byte string comes back from its escaped form -/
theorem string_body_round_trip (s rest : Bytes) :
    parseStr (jsStrEsc s ++ 0x22 :: rest) = some (s, rest) :=
  parseStr_jsStrEsc s rest

/-! ## non-vacuity -/

/-- `struct{ A []any "json:\"a,omitempty\""; B float64 }{ {nil, "<", []byte{1}}, 1.5 }` in a map
under key `k`, behind a pointer -/
def sample : GoVal :=
  .ptr false false (.map false [[0x6B]] [
    .struct [⟨[0x41], [0x61, 0x2C, 0x6F, 0x6D, 0x69, 0x74, 0x65, 0x6D, 0x70, 0x74, 0x79], true⟩, ⟨[0x42], [], true⟩]
      [.slice false [.iface .nil, .iface (.str [0x3C]), .iface (.bytes false [1])],
       .float .float64 .finite false [0x31, 0x2E, 0x35]]])

example : Shaped .json sample ∧ Shaped .js sample ∧ finiteFloats sample = true ∧ stdSame sample = true := by
  refine ⟨?_, ?_, by decide, by decide⟩ <;>
    simp [sample, Shaped, ShapedL, KindOK, isFloatKind] <;> decide

-- {"k":{"a":[null,"<","AQ=="],"B":1.5}}
example : showInJSON sample = .ok
    [0x7B,0x22,0x6B,0x22,0x3A,0x7B,0x22,0x61,0x22,0x3A,0x5B,0x6E,0x75,0x6C,0x6C,0x2C,0x22,0x5C,0x75,0x30,0x30,0x33,0x63,0x22,0x2C,
     0x22,0x41,0x51,0x3D,0x3D,0x22,0x5D,0x2C,0x22,0x42,0x22,0x3A,0x31,0x2E,0x35,0x7D,0x7D] := by rfl

end ScriggoV.ShowValue
