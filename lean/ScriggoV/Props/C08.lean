import ScriggoV.Lemmas.ShowValueSort
/-! C08 — values shown as JavaScript or JSON are valid literals for the same data.
Property theorems only; the lemmas are in `Lemmas/ShowValue*.lean`.

Objects: `showInJS` / `showInJSON` (`Model/ShowValue.lean`, hand-written over the kind switches,
literals and Sprintf layouts regenerated into `Gen/ShowJS.lean` and the escape table of
`Gen/EscapeTables.lean`), the RFC 8259 decoder / JS literal recogniser `parseJSON` / `parseJS`
(`Spec/JSON.lean`), the ECMA-262 / RFC 3339 date readers (`Spec/DateTime.lean`), the data a value
stands for: `absStd` (what encoding/json defines) and `absScriggo` (`Spec/ShowAbs.lean`).

Hypotheses (`Shaped`, `Lemmas/ShowValue.lean`): the description is one reflect can give (kinds
fit, lengths agree, every map key is of a kind toString has a case for); **strconv.FormatFloat
(f,'f',-1,bits) of a finite float is an RFC 8259 number and of NaN is `NaN`** (the harness checks
this on every run); what `JS()`/`JSON()` of an envelope type returns is itself a text for some
data; no non-nil `unsafe.Pointer`; in JS a time's year is within ±999999 and the name of an
unrepresentable type has no `*/`. -/
namespace ScriggoV.ShowValue
open ScriggoV ScriggoV.JSON ScriggoV.Gen.ShowJS ScriggoV.DateTime

/-- no NaN, no ±Inf -/
abbrev finiteFloats (v : GoVal) : Bool := floatsOK .json v
/-- no ±Inf (NaN is an expression in JavaScript) -/
abbrev noInfFloats (v : GoVal) : Bool := floatsOK .js v

/-! ## the output is a literal for the value's data -/

/-- **C08, both contexts.** For every well-shaped value (JSON: without non-finite floats; JS:
without ±Inf) the function does not panic and its output is one JSON text (`m = .json`) / one
JavaScript literal expression (`m = .js`) that the decoder of `Spec/JSON.lean` takes to
`absScriggo m v`: null for nil, booleans, numbers with the digits Go prints, strings with every
byte back (escapes undone), `[]byte` as base64, arrays in order (a slice of a defined byte type
among them), struct members in field order under their tag names with `-`, unexported and
omitted-empty fields left out and embedded structs as members named after their type, map
members sorted by the key as the key loop spells it (`String()`, decimal integers …), a time as
RFC 3339 string / `new Date("…")`, `undefined` for unrepresentable kinds in JS. -/
theorem show_decodes (m : Mode) (v : GoVal) (hs : Shaped m v) (hf : floatsOK m v = true) :
    ∃ s, showV m v = .ok s ∧ parseTop m.isJS s = some (absScriggo m v) := by
  obtain ⟨s, h1, h2⟩ := showV_parses m v hs hf
  exact ⟨s, h1, h2.top⟩

/-- the same wherever a value may stand: inside an array or object, before `,` `]` `}` -/
theorem show_decodes_in_context (m : Mode) (v : GoVal) (hs : Shaped m v) (hf : floatsOK m v = true) :
    ∃ s, showV m v = .ok s ∧ ParsesTo m.isJS s (absScriggo m v) :=
  showV_parses m v hs hf

/-- JSON context -/
theorem showInJSON_decodes (v : GoVal) (hs : Shaped .json v) (hf : finiteFloats v = true) :
    ∃ s, showInJSON v = .ok s ∧ parseJSON s = some (absScriggo .json v) :=
  show_decodes .json v hs hf

/-- **Full statement** of the JavaScript half: every value renders as one literal expression. -/
def FullStatementJS : Prop :=
  ∀ v, Shaped .js v → ∃ s, showInJS v = .ok s ∧ recogniseJS s = true

/-- **C08, JavaScript, partial**: recognised as one literal expression that denotes the data.
Missing from `FullStatementJS`: `noInfFloats` — `+Inf`/`-Inf` are written as such
(`infinity_is_not_js` below; finding `nonfinite-float-not-a-literal`). NaN, times, embedded
structs, Stringer keys, defined byte slices are covered. -/
theorem showInJS_recognised_partial (v : GoVal) (hs : Shaped .js v) (hf : noInfFloats v = true) :
    ∃ s, showInJS v = .ok s ∧ recogniseJS s = true ∧ parseJS s = some (absScriggo .js v) := by
  obtain ⟨s, h1, h2⟩ := show_decodes .js v hs hf
  refine ⟨s, h1, ?_, h2⟩
  unfold recogniseJS parseJS
  have : parseTop true s = some (absScriggo .js v) := h2
  rw [this]; rfl

/-- neither function panics on such a value -/
theorem show_no_panic (m : Mode) (v : GoVal) (hs : Shaped m v) (hf : floatsOK m v = true) :
    ∀ f, showV m v ≠ .error f := by
  obtain ⟨s, h1, _⟩ := show_decodes m v hs hf
  intro f h; rw [h1] at h; cases h

/-! ## the same data encoding/json would produce -/

/-- **Full statement** of the JSON half of the property: the output decodes to the data
encoding/json defines (`absStd`: tag names, `-`, `omitempty`, `omitzero`, the `string` option,
promoted fields of embedded structs, base64 for every slice of bytes, `null` for every nil,
sorted keys, RFC 3339 with nanoseconds). -/
def FullStatement : Prop :=
  ∀ v, Shaped .json v → ∃ s, showInJSON v = .ok s ∧ parseJSON s = some (absStd .json v)

/-- **C08, JSON, partial.** What is missing from `FullStatement`, each clause refuted below by
a witness that is replayed on the real library on every run (known_findings.json):
* `finiteFloats v`: NaN/±Inf are written as `NaN`, `+Inf`, `-Inf`;
* `stdSame .json v`: no field has the `,string` or `,omitzero` option (both ignored), no
  embedded struct whose fields encoding/json promotes (shown as a member), no nil `[]byte`
  (shown as `""`), no non-nil slice of a defined byte type (shown as an array), no time with a
  fraction of a second (dropped).
Not modelled in `absStd`: name conflicts between promoted fields, `,string` on strings and
pointers, encoding/json's own treatment of Stringer / bool / float map keys (it rejects them). -/
theorem showInJSON_is_encoding_json_data_partial (v : GoVal) (hs : Shaped .json v)
    (hf : finiteFloats v = true) (hd : stdSame .json v = true) :
    ∃ s, showInJSON v = .ok s ∧ parseJSON s = some (absStd .json v) := by
  obtain ⟨s, h1, h2⟩ := showInJSON_decodes v hs hf
  refine ⟨s, h1, ?_⟩
  rw [h2]
  unfold absScriggo absStd
  rw [abs_std .json v hd]

/-- the same for JavaScript -/
theorem showInJS_is_encoding_json_data_partial (v : GoVal) (hs : Shaped .js v)
    (hf : noInfFloats v = true) (hd : stdSame .js v = true) :
    ∃ s, showInJS v = .ok s ∧ parseJS s = some (absStd .js v) := by
  obtain ⟨s, h1, _, h2⟩ := showInJS_recognised_partial v hs hf
  refine ⟨s, h1, ?_⟩
  rw [h2]
  unfold absScriggo absStd
  rw [abs_std .js v hd]

/-! ### the witnesses -/

/-- `[]float64{NaN}` -/
def witnessNaN : GoVal := .slice false [.float .float64 .nan false kwNaN]
/-- `[]float64{+Inf}` -/
def witnessInf : GoVal := .slice false [.float .float64 .posInf false [0x2B, 0x49, 0x6E, 0x66]]
/-- `struct{ B bool "json:\"b,string\"" }{true}` -/
def witnessStringOpt : GoVal :=
  .struct [⟨[0x42], [0x62, 0x2C, 0x73, 0x74, 0x72, 0x69, 0x6E, 0x67], true, false⟩] [.bool true]
/-- `struct{ Z bool "json:\"z,omitzero\"" }{false}` -/
def witnessOmitzero : GoVal :=
  .struct [⟨[0x5A], [0x7A, 0x2C, 0x6F, 0x6D, 0x69, 0x74, 0x7A, 0x65, 0x72, 0x6F], true, false⟩] [.bool false]
/-- `struct{ Inner; C bool }{Inner{A: true}, false}` with `type Inner struct{ A bool }` -/
def witnessEmbedded : GoVal :=
  .struct [⟨[0x49, 0x6E, 0x6E, 0x65, 0x72], [], true, true⟩, ⟨[0x43], [], true, false⟩]
    [.struct [⟨[0x41], [], true, false⟩] [.bool true], .bool false]
/-- `[]byte(nil)` -/
def witnessNilBytes : GoVal := .bytes true []
/-- `NB{1}` with `type NB []byte` -/
def witnessNamedBytes : GoVal := .nbytes false [1]
/-- `time.Date(2000, 1, 1, 0, 0, 0, 500000000, time.UTC)` -/
def witnessFraction : GoVal := .time ⟨2000, 1, 1, 0, 0, 0, 500000000, true, 0⟩

theorem witnessNaN_shaped : Shaped .json witnessNaN ∧ Shaped .js witnessNaN := by
  constructor <;> simp [witnessNaN, Shaped, ShapedL, KindOK, isFloatKind]
theorem witnessInf_shaped : Shaped .js witnessInf := by
  simp [witnessInf, Shaped, ShapedL, KindOK, isFloatKind]

/-- `[]float64{NaN}` renders `[NaN]`, which is not JSON (DESIGN §8 row 19) … -/
theorem nan_is_not_json :
    showInJSON witnessNaN = .ok [0x5B, 0x4E, 0x61, 0x4E, 0x5D] ∧
    parseJSON [0x5B, 0x4E, 0x61, 0x4E, 0x5D] = none := by
  constructor <;> rfl

/-- … but is a JavaScript expression (covered by `showInJS_recognised_partial`) -/
theorem nan_is_js : noInfFloats witnessNaN = true ∧ recogniseJS [0x5B, 0x4E, 0x61, 0x4E, 0x5D] = true := by
  constructor <;> rfl

/-- `[]float64{+Inf}` renders `[+Inf]`, which is not a JavaScript literal expression -/
theorem infinity_is_not_js :
    showInJS witnessInf = .ok [0x5B, 0x2B, 0x49, 0x6E, 0x66, 0x5D] ∧
    recogniseJS [0x5B, 0x2B, 0x49, 0x6E, 0x66, 0x5D] = false := by
  constructor <;> rfl

/-- the full statements are false of the code today -/
theorem fullStatement_false : ¬ FullStatement := by
  intro h
  obtain ⟨s, h1, h2⟩ := h witnessNaN witnessNaN_shaped.1
  rw [nan_is_not_json.1] at h1
  cases h1
  rw [nan_is_not_json.2] at h2
  cases h2

theorem fullStatementJS_false : ¬ FullStatementJS := by
  intro h
  obtain ⟨s, h1, h2⟩ := h witnessInf witnessInf_shaped
  rw [infinity_is_not_js.1] at h1
  cases h1
  rw [infinity_is_not_js.2] at h2
  cases h2

/-- the `,string` option is ignored: `{"b":true}` where encoding/json's data is `{"b":"true"}`
(DESIGN §8 row 32) -/
theorem string_option_ignored :
    showInJSON witnessStringOpt = .ok [0x7B, 0x22, 0x62, 0x22, 0x3A, 0x74, 0x72, 0x75, 0x65, 0x7D] ∧
    absScriggo .json witnessStringOpt = .obj [([0x62], .bool true)] ∧
    absStd .json witnessStringOpt = .obj [([0x62], .str kwTrue)] := ⟨rfl, rfl, rfl⟩

/-- the `,omitzero` option is ignored: `{"z":false}` where encoding/json's data is `{}` -/
theorem omitzero_ignored :
    showInJSON witnessOmitzero = .ok [0x7B, 0x22, 0x7A, 0x22, 0x3A, 0x66, 0x61, 0x6C, 0x73, 0x65, 0x7D] ∧
    absScriggo .json witnessOmitzero = .obj [([0x7A], .bool false)] ∧
    absStd .json witnessOmitzero = .obj [] := ⟨rfl, rfl, rfl⟩

/-- an embedded struct is a member named after its type: `{"Inner":{"A":true},"C":false}` where
encoding/json's data is `{"A":true,"C":false}` -/
theorem embedded_not_flattened :
    absScriggo .json witnessEmbedded
      = .obj [([0x49, 0x6E, 0x6E, 0x65, 0x72], .obj [([0x41], .bool true)]), ([0x43], .bool false)] ∧
    absStd .json witnessEmbedded = .obj [([0x41], .bool true), ([0x43], .bool false)] := ⟨rfl, rfl⟩

/-- a nil `[]byte` is shown as `""` where encoding/json's data is `null` (DESIGN §8 row 32) -/
theorem nil_bytes_not_null :
    showInJSON witnessNilBytes = .ok [0x22, 0x22] ∧
    absScriggo .json witnessNilBytes = .str [] ∧ absStd .json witnessNilBytes = .null := ⟨rfl, rfl, rfl⟩

/-- a slice of a defined byte type is shown as an array of numbers, not base64 -/
theorem named_bytes_as_array :
    showInJSON witnessNamedBytes = .ok (0x5B :: (natDigits 1 ++ [0x5D])) ∧
    absScriggo .json witnessNamedBytes = .arr [.num (natDigits 1)] ∧
    absStd .json witnessNamedBytes = .str [0x41, 0x51, 0x3D, 0x3D] := ⟨rfl, rfl, rfl⟩

/-- JSON drops the fraction of a second that encoding/json (RFC3339Nano) keeps:
`"2000-01-01T00:00:00Z"` against `"2000-01-01T00:00:00.5Z"` -/
theorem time_fraction_dropped :
    absScriggo .json witnessFraction
      = .str [0x32,0x30,0x30,0x30,0x2D,0x30,0x31,0x2D,0x30,0x31,0x54,0x30,0x30,0x3A,0x30,0x30,0x3A,0x30,0x30,0x5A] ∧
    absStd .json witnessFraction
      = .str [0x32,0x30,0x30,0x30,0x2D,0x30,0x31,0x2D,0x30,0x31,0x54,0x30,0x30,0x3A,0x30,0x30,0x3A,0x30,0x30,0x2E,0x35,0x5A] :=
  ⟨rfl, rfl⟩

/-! ## map keys -/

/-- **keys are emitted sorted; duplicates after stringification are all kept.** For a non-nil map
whose keys the key loop can stringify, the emitted text decodes to an object whose keys are the
keys as the loop spells them (`keySpec`: `String()` for Stringers, decimal integers,
`true`/`false`, …) in ascending byte order — a permutation of them, so a spelling that occurs `n`
times (two Stringer keys with the same `String()`) occurs `n` times, next to each other. -/
theorem map_keys_sorted (m : Mode) (ks : List GoKey) (vs : List GoVal)
    (hs : Shaped m (.map false ks vs)) (hf : floatsOK m (.map false ks vs) = true) :
    ∃ s kvs, showV m (.map false ks vs) = .ok s ∧ parseTop m.isJS s = some (.obj kvs) ∧
      SortedKeys kvs ∧ (kvs.map (·.1)).Perm (ks.map keySpec) ∧
      ∀ k, (kvs.map (·.1)).count k = (ks.map keySpec).count k := by
  obtain ⟨s, h1, h2⟩ := show_decodes m _ hs hf
  have hl : ks.length = vs.length := by
    rw [Shaped] at hs
    rcases hs with hs | hs
    · exact absurd hs (by simp)
    · exact hs.1
  have hlen : ∀ (l : List GoVal), (absList false m l).length = l.length := by
    intro l; induction l with
    | nil => simp [absList]
    | cons a r ih => simp [absList, ih]
  have hk : ((ks.map keySpec).zip (absList false m vs)).map (·.1) = ks.map keySpec := by
    rw [List.map_fst_zip]; rw [hlen, List.length_map]; omega
  have hp := (perm_sortByKey ((ks.map keySpec).zip (absList false m vs))).map (·.1)
  rw [hk] at hp
  refine ⟨s, sortByKey ((ks.map keySpec).zip (absList false m vs)), h1, ?_, sorted_sortByKey _, hp,
    fun k => hp.count_eq k⟩
  rw [h2]; unfold absScriggo; rw [abs]; simp

/-- the key loop never fails on such keys and spells them as specified -/
theorem map_key_spelling (ks : List GoKey) (h : ks.all keyOK = true) :
    keyStrings ks = .ok (ks.map keySpec) := keyStrings_eq ks h

/-! ## time.Time -/

/-- **JavaScript: the text is `new Date("` + the ECMA-262 date-time string + `")`** for every
zone and offset, whenever showTimeInJS does not panic. -/
theorem js_date_text (t : TimeRec) (h1 : jsYearMin ≤ t.year) (h2 : t.year ≤ jsYearMax) :
    showInJS (.time t) = .ok (kwNewDate ++ ecmaDate t ++ [0x22, 0x29]) := by
  rw [showInJS, showV]
  simp only [Mode.isJS, if_true]
  exact showTimeInJS_eq t h1 h2

/-- **the Date constructor's argument denotes the value**: read with the ECMA-262 date-time
string format it gives back the calendar fields, the milliseconds and the offset in minutes … -/
theorem js_date_fields (t : TimeRec) (h : TimeOK t) : parseECMA (ecmaDate t) = some (ecmaFields t) :=
  parseECMA_ecmaDate t h

/-- … which is the value's own offset — **the same instant**, to the millisecond — when the
offset is a whole number of minutes and a zone named UTC has offset 0. Both hypotheses are
forced by the code and refuted below (findings `js-date-offset-seconds-dropped`,
`js-date-zone-named-utc-shown-as-z`). -/
theorem js_date_same_instant_partial (t : TimeRec) (hutc : t.utc = true → t.offset = 0)
    (hmin : t.offset % 60 = 0) : (ecmaFields t).offsetMin * 60 = t.offset := by
  unfold ecmaFields
  by_cases hu : t.utc = true
  · simp [hu, hutc hu]
  · have hu' : t.utc = false := by simpa using hu
    simp only [hu', Bool.false_eq_true, if_false]
    rw [tdiv60]
    split <;> omega

/-- full statement for dates, false: a zone that is only *named* UTC, an offset with seconds -/
def DateFullStatement : Prop := ∀ t, TimeOK t → (ecmaFields t).offsetMin * 60 = t.offset

theorem dateFullStatement_false : ¬ DateFullStatement := by
  intro h
  have := h ⟨2000, 1, 1, 0, 0, 0, 0, true, 3600⟩ (by constructor <;> decide)
  revert this; decide

theorem offset_seconds_dropped :
    (ecmaFields ⟨2000, 1, 1, 0, 0, 0, 0, false, -2670⟩).offsetMin * 60 ≠ -2670 := by decide

/-- the sign of a negative offset shorter than an hour is kept (the defect fixed in
fixes/C08-js-date-negative-subhour-offset.md is excluded by `js_date_fields`; an instance): -/
example : ecmaDate ⟨2058, 8, 17, 20, 58, 43, 0, false, -2700⟩
    = [0x32,0x30,0x35,0x38,0x2D,0x30,0x38,0x2D,0x31,0x37,0x54,0x32,0x30,0x3A,0x35,0x38,0x3A,0x34,0x33,0x2E,
       0x30,0x30,0x30,0x2D,0x30,0x30,0x3A,0x34,0x35] := by decide

/-- **JSON: the text of a time is an RFC 3339 date-time for the value** (years 0..9999) -/
theorem json_time_rfc3339 (t : TimeRec) (h : TimeOK t) (hy : 0 ≤ t.year ∧ t.year ≤ 9999) :
    showInJSON (.time t) = .ok ([0x22] ++ fmtRFC3339 t ++ [0x22]) ∧
    parseRFC3339 (fmtRFC3339 t) = some (rfcFields t) :=
  ⟨rfl, parseRFC3339_fmt t h hy⟩

/-! ## struct tags, strings -/

/-- `parseTagValue` never faults (its slices are always in range) and returns the name before
the first comma and whether `omitempty` is one of the options after it -/
theorem parseTagValue_spec (tag : Bytes) :
    parseTagValue tag = .ok ((specTag tag).1, (specTag tag).2.contains omitemptyLit) :=
  parseTagValue_eq tag

/-- string bodies: every byte string comes back from its escaped form -/
theorem string_body_round_trip (s rest : Bytes) :
    parseStr (jsStrEsc s ++ 0x22 :: rest) = some (s, rest) :=
  parseStr_jsStrEsc s rest

/-! ## non-vacuity -/

/-- a pointer to `map[Stringer]struct{ A []any "json:\"a,omitempty\""; B float64; T time.Time; Emb }`
with one entry: `A = {nil, "<", []byte{1}}`, `B = 1.5`, a time at -00:45, an embedded struct -/
def sample : GoVal :=
  .ptr false false (.map false [.stringer [0x6B]] [
    .struct [⟨[0x41], [0x61, 0x2C, 0x6F, 0x6D, 0x69, 0x74, 0x65, 0x6D, 0x70, 0x74, 0x79], true, false⟩,
             ⟨[0x42], [], true, false⟩, ⟨[0x54], [], true, false⟩, ⟨[0x45, 0x6D, 0x62], [], true, true⟩]
      [.slice false [.iface .nil, .iface (.str [0x3C]), .iface (.bytes false [1])],
       .float .float64 .finite false [0x31, 0x2E, 0x35],
       .time ⟨2058, 8, 17, 20, 58, 43, 0, false, -2700⟩,
       .struct [⟨[0x58], [], true, false⟩] [.bool true]]])

example : Shaped .json sample ∧ Shaped .js sample ∧ finiteFloats sample = true ∧ noInfFloats sample = true := by
  refine ⟨?_, ?_, by decide, by decide⟩ <;>
    simp [sample, Shaped, ShapedL, KindOK, isFloatKind, keyOK, Mode.isJS, jsYearMin, jsYearMax] <;> decide

example : TimeOK ⟨2058, 8, 17, 20, 58, 43, 0, false, -2700⟩ := by constructor <;> decide

end ScriggoV.ShowValue
