import ScriggoV.Spec.Slots
import ScriggoV.Model.Dispatch
import ScriggoV.Model.MacroFast
import ScriggoV.Lemmas.SlotsHtml
import ScriggoV.Lemmas.SlotsJs
import ScriggoV.Lemmas.SlotsCss
import ScriggoV.Lemmas.SlotsUrl
import ScriggoV.Lemmas.SlotsLexerWitness
import ScriggoV.Lemmas.LexCtxSim
import ScriggoV.Lemmas.LexCtxRefine
import ScriggoV.Lemmas.LexShowPreserve
import ScriggoV.Lemmas.LexCtxAllScan
import ScriggoV.Lemmas.JsCommentSpec
import ScriggoV.Gen.LexCtxCases
/-! # C06 — autoescaping confines every shown untrusted value to its syntactic slot

**Layer 1** (every escaper keeps its output inside the slot). The reference scanners of the
enclosing languages are `Spec/Slots.lean` (WHATWG tokenizer states, ECMAScript / RFC 8259 / CSS
Syntax 3 string scanners, written independently of Scriggo); the escapers are the byte-level
models of `Model/Escape.lean` over the tables regenerated from escapers.go. Every theorem is for
EVERY byte string `s`, valid UTF-8 or not; the table facts underneath are decided over all 256
bytes of the regenerated tables (`allBytes_spec` + `decide +kernel`, in `Lemmas/Slots*.lean`).

**Layer 3** (dispatch). `Gen/ShowDispatch.lean` is regenerated from renderer.go: for every
showIn* function every site that hands bytes to the writer, with the origin of the bytes and the
sink (raw write / escaper / converter / recursion). The theorems evaluate the whole table.

**Layer 2** (the lexer's context is the context a browser is in) is proved for the class `D` of
documents and for the FIRST hole of a template (`ctx_agree_partial`): `Spec/HtmlTok.lean` is a
byte-level reduction of the WHATWG tokenizer (with the JS / CSS lexical states inside script /
style), `D` is what it does not send to its `bad` state, `HtmlTok.abs` maps a tokenizer state to
the Scriggo context a value shown there needs. The proof goes through `Model/LexCtx.lean`, the
projection of C04/C21's lexer model (`Model/Lexer/*`) onto its context fields:
`Lemmas/LexCtxRefine*.lean` (the full model's `mainLoop` refines the projection; the first `{{`
token carries the projected context) and `Lemmas/LexCtxSim*.lean` (the projection simulates the
reference tokenizer on `D`). For EVERY hole: `ctx_agree_all_partial` — templates all of whose
delimiters are shows `{{identifier}}` standing at stable points (not in the Tag context, not
directly after `<`), the reference reading the template text as it is (`Lemmas/LexCtxAll*.lean`:
the relation is carried across a show, `lexShow` on `{{identifier}}` consumes exactly it, and
`show_preserves_context`: lexing ANY show changes none of the context fields). NOT proved: later
holes of templates with other delimiters (`{% %}`, `{# #}`) or with shows that are not a single
identifier, the URL flag at later holes, the `type` attribute of script/style (hence the JSON
context), Markdown files. The full statement
without the class restriction is refuted (`script_ctx_agree_false`: a quote in a regex literal, a
quote in a template literal; a string ending in an escaped backslash was the third witness until the
lexer was repaired, 8287339 — such strings are inside `D` now). The documents outside `D`
on which the lexer's context is wrong are recorded as known findings and replayed by the harness. -/
namespace ScriggoV.Props.C06
open ScriggoV ScriggoV.Slots ScriggoV.Escape ScriggoV.Dispatch ScriggoV.Gen.ShowDispatch

/-! ## Layer 1 — HTML text -/

/-- `htmlEscape`: the output never leaves the data state (no `<`), and every `&` in it starts one
of the five references `&amp; &lt; &gt; &#34; &#39;`, complete with its semicolon. -/
theorem html_text_confined (s : Bytes) :
    dataConfined (htmlEscapeOut s) = true ∧ refsClosed fiveRefs (htmlEscapeOut s) = true :=
  ⟨htmlEscape_data s, htmlEscape_refs s⟩

example : htmlEscapeOut ([60, 47, 112, 62, 60, 115, 99, 114, 105, 112, 116, 62, 38]  /- </p><script>& -/) = ([38, 108, 116, 59, 47, 112, 38, 103, 116, 59, 38, 108, 116, 59, 115, 99, 114, 105, 112, 116, 38, 103, 116, 59, 38, 97, 109, 112, 59]  /- &lt;/p&gt;&lt;script&gt;&amp; -/) := by decide

/-! ## Layer 1 — attribute values -/

/-- `attributeEscape(…, quoted = true)`, for untrusted values (`escapeEntities = true`) and for
values of the trusted HTML types shown inside an attribute (`escapeEntities = false`) alike: the
output stays inside a double-quoted AND inside a single-quoted attribute value, and contains no
`<`. -/
theorem attr_quoted_confined (escapeEntities : Bool) (s : Bytes) :
    attrDqConfined (attributeEscapeOut escapeEntities true s) = true ∧
    attrSqConfined (attributeEscapeOut escapeEntities true s) = true ∧
    dataConfined (attributeEscapeOut escapeEntities true s) = true :=
  ⟨attrQuoted_dq _ s, attrQuoted_sq _ s, attrQuoted_data _ s⟩

/-- for untrusted values every `&` of the quoted-attribute output starts one of the five references -/
theorem attr_quoted_refs (s : Bytes) : refsClosed fiveRefs (attributeEscapeOut true true s) = true :=
  attrQuoted_refs s

/-- The full statement for unquoted attribute values: for every value the tokenizer, started in
the before-attribute-value state, ends in the unquoted-value state. -/
def AttrUnquotedFull : Prop :=
  ∀ (escapeEntities : Bool) (s : Bytes), attrUnqConfined (attributeEscapeOut escapeEntities false s) = true

/-- It is false: the EMPTY value writes nothing, the tokenizer is still before the value and takes
what follows in the template (`<input value={{ s }} disabled>` → `value="disabled"`). Known
finding `unquoted-attr-empty-value`. -/
theorem attr_unquoted_full_false : ¬ AttrUnquotedFull := by
  intro h
  have := h true []
  simp [attrUnqConfined, attrUnq_empty] at this

/-- `attributeEscape(…, quoted = false)` — partial: for every NON-EMPTY value the output is one
unquoted attribute value (it does not start with a quote, contains no white space and no `>`),
contains none of the characters the unquoted state flags (`"` `'` `<` `=` `` ` ``), and every `&`
starts `&amp;`, `&lt;`, `&gt;` or a two-digit decimal reference. Missing: the empty value
(`attr_unquoted_full_false`). -/
theorem attr_unquoted_confined_partial (escapeEntities : Bool) (s : Bytes) (h : s ≠ []) :
    attrUnqConfined (attributeEscapeOut escapeEntities false s) = true ∧
    unqClean (attributeEscapeOut escapeEntities false s) = true :=
  ⟨attrUnq_confined _ s h, attrUnq_clean _ s⟩

theorem attr_unquoted_refs (s : Bytes) : refsNamedOrDec (attributeEscapeOut true false s) = true :=
  attrUnq_refs s

example : attributeEscapeOut true false ([97, 32, 98, 61, 34, 99, 34]  /- a b=\"c\" -/) = ([97, 38, 35, 51, 50, 59, 98, 38, 35, 54, 49, 59, 38, 35, 51, 52, 59, 99, 38, 35, 51, 52, 59]  /- a&#32;b&#61;&#34;c&#34; -/) := by decide

/-! ## Layer 1 — URL attribute values (`showInURL`: pathEscape / queryEscape) -/

/-- `pathEscape` / `queryEscape` stay inside a quoted attribute value (either quote), contain no
`<`, and — for a non-empty value — are one unquoted attribute value. -/
theorem url_attr_confined (s : Bytes) :
    attrDqConfined (pathEscapeOut true s) = true ∧ attrSqConfined (pathEscapeOut true s) = true ∧
    dataConfined (pathEscapeOut true s) = true ∧ dataConfined (pathEscapeOut false s) = true ∧
    attrDqConfined (queryEscapeOut s) = true ∧ attrSqConfined (queryEscapeOut s) = true ∧
    (s ≠ [] → attrUnqConfined (pathEscapeOut false s) = true ∧ attrUnqConfined (queryEscapeOut s) = true) :=
  ⟨path_dq s, path_sq s, path_data true s, path_data false s, query_dq s, query_sq s,
   fun h => ⟨path_unq s h, query_unq s h⟩⟩

/-! ## Layer 1 — JavaScript and JSON string literals -/

/-- The full statement: for either quote the scan of `jsStringEscape`'s output ends in the state
`str`. -/
def JsStringFull : Prop :=
  ∀ (q : UInt8), (q = 0x22 ∨ q = 0x27) → ∀ s : Bytes, jsStrConfined q (jsStringEscapeOut s) = true

/-- False for inputs that END in a truncated `E2` / `E2 80` (invalid UTF-8): they are copied
unchanged, so the reference scanner waits for the rest of a possible U+2028. -/
theorem js_string_full_false : ¬ JsStringFull := by
  intro h
  have := h 0x22 (Or.inl rfl) [0xE2]
  rw [jsString_confined_counterexample.1] at this
  cases this

/-- `jsStringEscape`, for EVERY byte string and either quote: the output never closes the literal,
contains no raw line terminator (LF, CR, U+2028, U+2029) and leaves no open escape at its end
(`jsString_inside`: the final state is `str`, or `e2` / `e280` after a trailing raw `E2` /
`E2 80`); the template text that follows is scanned exactly as the author wrote it unless it
begins with a UTF-8 continuation byte `80` / `A8` / `A9` (`jsString_followed`); and the output
contains no `<`, `>`, `&`, `'`, LF, CR — hence no `</script` and no `<!--`. Partial only in the
sense of `js_string_full_false`. -/
theorem js_string_confined_partial (q : UInt8) (hq : q = 0x22 ∨ q = 0x27) (s : Bytes) :
    jsInside (jsScan q (jsStringEscapeOut s)) = true ∧
    (∀ (c : UInt8) (t : Bytes), c ≠ 0x80 → c ≠ 0xA8 → c ≠ 0xA9 →
        jsScan q (jsStringEscapeOut s ++ c :: t) = jsScan q (c :: t)) ∧
    rawTextConfined (jsStringEscapeOut s) = true ∧
    (∀ c ∈ jsStringEscapeOut s, c ≠ 0x3C ∧ c ≠ 0x3E ∧ c ≠ 0x26 ∧ c ≠ 10 ∧ c ≠ 13 ∧ c ≠ 0x27) :=
  ⟨jsString_inside q hq s, fun c t h1 h2 h3 => jsString_followed q hq s c t h1 h2 h3,
   jsString_raw s, jsString_no_markup s⟩

/-- for valid UTF-8 input (and for every input not ending in `E2` / `E2 80`) the full statement holds -/
theorem js_string_confined_valid (q : UInt8) (hq : q = 0x22 ∨ q = 0x27) (s : Bytes)
    (h : Utf8.valid s = true) : jsStrConfined q (jsStringEscapeOut s) = true :=
  jsString_confined_valid q hq s h

/-- JSON strings (the JSONString context uses the same escaper): the output is the inside of one
RFC 8259 string — no `"`, no control character, only the escapes `\" \\ \b \f \n \r \t \uXXXX`. -/
theorem json_string_confined (s : Bytes) : jsonStrConfined (jsStringEscapeOut s) = true :=
  jsString_json s

example : jsStringEscapeOut ([60, 47, 115, 99, 114, 105, 112, 116, 62, 34, 39, 10]  /- </script>\"'\n -/) =
    ([92, 117, 48, 48, 51, 99, 47, 115, 99, 114, 105, 112, 116, 92, 117, 48, 48, 51, 101, 92, 34, 92, 117, 48, 48, 50, 55, 92, 110]  /- \\u003c/script\\u003e\\\"\\u0027\\n -/) := by decide

/-! ## Layer 1 — CSS strings -/

/-- `cssStringEscape`: for either quote the output stays inside the CSS string (no closing quote,
no newline, no escape left open at the end — a hex escape is always closed by its space when the
value ends), and it contains no `<`, `>`, `&`, `/`, quote or newline — hence no `</style`. -/
theorem css_string_confined (q : UInt8) (hq : q = 0x22 ∨ q = 0x27) (s : Bytes) :
    cssStrConfined q (cssStringEscapeOut s) = true ∧ rawTextConfined (cssStringEscapeOut s) = true ∧
    (∀ c ∈ cssStringEscapeOut s, c ≠ 0x3C ∧ c ≠ 0x3E ∧ c ≠ 0x26 ∧ c ≠ 0x2F ∧ c ≠ 0x22 ∧ c ≠ 0x27 ∧
      c ≠ 10 ∧ c ≠ 13 ∧ c ≠ 12) :=
  ⟨cssString_confined q hq s, cssString_raw s, cssString_no_markup s⟩

example : cssStringEscapeOut ([34, 59, 125, 60, 47, 115, 116, 121, 108, 101, 62]  /- \";}</style> -/) = ([92, 50, 50, 92, 51, 98, 92, 55, 100, 92, 51, 99, 92, 50, 102, 115, 116, 121, 108, 101, 92, 51, 101, 32]  /- \\22\\3b\\7d\\3c\\2fstyle\\3e  -/) := by decide

/-! ## Layer 1 — the Tag context (attribute names) — table level only
`showInTag`'s rune loop is not modelled; the regenerated replacement condition is. -/

/-- every ASCII byte that ends an attribute name (white space, `/`, `>`, `=`) or quotes it -/
def tagDelims : List Nat := [9, 10, 12, 13, 32, 47, 62, 61, 34, 39]

/-- The full statement: showInTag replaces every byte that ends an attribute name. -/
def TagDelimsFull : Prop := ∀ c ∈ tagDelims, tagReplaced c = true

/-- False: U+0020 is not replaced — `<div {{ s }}>` with a space in `s` adds an attribute.
Known finding `tag-context-space`. -/
theorem tag_delims_full_false : ¬ TagDelimsFull := by
  intro h
  have := h 32 (by decide)
  revert this
  decide

/-- partial: every delimiter except the space is replaced by U+FFFD (and `<`, which opens no tag
inside a tag but is flagged by the tokenizer, is not) -/
theorem tag_delims_replaced_partial : ∀ c ∈ tagDelims, c ≠ 32 → tagReplaced c = true := by decide

theorem tag_space_not_replaced : tagReplaced 32 = false ∧ tagReplaced 60 = false := by decide

/-! ## Layer 2 — the comment and string scanning of script / style content

Three links. (1) The Go clauses themselves: `Gen/LexCtxCases.lean` is the statement-by-statement
translation of the six clauses of `switch l.ctx` in lexer.scan for the contexts CSS, CSSString, JS,
JSString, JSON, JSONString (which fields a byte changes and how far `p` advances), regenerated on
every check; each is the hand-written case function of `Model/LexCtx.lean`, the model the theorems
above are about. (2) The model against the reference: `js_comment_agree`. (3) The reference against
the grammar: `js_block_comment_spec`, `js_line_comment_spec`. -/

/-- `case ast.ContextJS:` of lexer.scan — end tag, line comment up to LF / CR / U+2028 / U+2029 (the
three bytes E2 80 A8|A9 looked at from the first; repair b0a8648), block comment up to
`*/` (both bytes consumed), the openers `//` and `/*` (BOTH bytes consumed), quotes — is `caseJSP`. -/
theorem lexer_js_case_regenerated (text : Bytes) (s : LexCtx.CSt) (c : UInt8) :
    Gen.LexCtxCases.caseJS text s c = LexCtx.caseJSP text s c := rfl

/-- `case ast.ContextJSString:` / `case ast.ContextJSONString:` — escape (a backslash takes the next
byte with it when that byte is the quote or a backslash — repair 8287339; before, only the quote, so that
`"C:\\"` never ended), closing quote, end tag — are `caseJSStringP`. -/
theorem lexer_jsstring_case_regenerated (text : Bytes) (s : LexCtx.CSt) (c : UInt8) :
    Gen.LexCtxCases.caseJSString text s c = LexCtx.caseJSStringP text s c Gen.LexTables.ContextJS s.quote ∧
    Gen.LexCtxCases.caseJSONString text s c = LexCtx.caseJSStringP text s c Gen.LexTables.ContextJSON 0x22 :=
  ⟨rfl, rfl⟩

theorem lexer_json_case_regenerated (text : Bytes) (s : LexCtx.CSt) (c : UInt8) :
    Gen.LexCtxCases.caseJSON text s c = LexCtx.caseJSONP text s c := rfl

/-- `case ast.ContextCSS:` and `case ast.ContextCSSString:` are the two halves of `caseCSSP` -/
theorem lexer_css_cases_regenerated (text : Bytes) (s : LexCtx.CSt) (c : UInt8) :
    (s.ctx = Gen.LexTables.ContextCSS → Gen.LexCtxCases.caseCSS text s c = LexCtx.caseCSSP text s c) ∧
    (s.ctx ≠ Gen.LexTables.ContextCSS → Gen.LexCtxCases.caseCSSString text s c = LexCtx.caseCSSP text s c) := by
  constructor
  · intro h; unfold LexCtx.caseCSSP; rw [if_pos h]; rfl
  · intro h; unfold LexCtx.caseCSSP; rw [if_neg h]; rfl

/-- **The lexer model's comment recogniser is the reference's**, for every delimiter-free prefix
`p` of class `D`: at the hole the model is in its line-comment state exactly when the reference
tokenizer is in a JavaScript line comment, in its block-comment state exactly when the reference is
inside `/*` … (first) `*/`, in neither otherwise (`jsCommentOf`). -/
theorem js_comment_agree (U : Lexer.Unicode) (p t : Bytes) (ht : LexCtx.startsDelim t)
    (hfree : LexCtx.delimFree (p ++ t) p.length) (c : HtmlTok.Ctx) (u : Bool)
    (habs : HtmlTok.abs Lexer.containsURL (HtmlTok.run p) = some (c, u)) :
    (LexCtx.ctxAt U (p ++ t) p.length).jsComment = LexCtx.jsCommentOf (HtmlTok.run p) :=
  LexCtx.jsComment_agree U p t ht hfree c u habs

/-- **Block comment = `/*`, then the shortest text up to `*/`** (reference side, every byte string):
`/*` opens it from code; after any text in which no `*/` occurs the reference is still inside —
in particular after `/*/` —; and if `*/` does not occur in `body ++ "*"` the reference is back in
code exactly after `body ++ "*/"`. -/
theorem js_block_comment_spec (ro : Bool) (body : Bytes) :
    [0x2F, 0x2A].foldl HtmlTok.jsStep (.code ro) = .blockC ∧
    (∀ q : Bytes, HtmlTok.noClose q = true → HtmlTok.inBlock (q.foldl HtmlTok.jsStep .blockC) = true) ∧
    (HtmlTok.noClose (body ++ [0x2A]) = true →
      (body ++ [0x2A, 0x2F]).foldl HtmlTok.jsStep .blockC = .code true) :=
  ⟨(HtmlTok.comment_openers ro).1, HtmlTok.blockComment_inside, HtmlTok.blockComment_closes body⟩

example : HtmlTok.inBlock ([0x2F, 0x2A, 0x2F].foldl HtmlTok.jsStep (.code true)) = true := by decide
example : HtmlTok.noClose [0x2F, 0x20, 0x64, 0x6F, 0x6E, 0x27, 0x74, 0x20, 0x2F, 0x2A] = true := by decide

/-- **Line comment = `//` up to LF or CR** (reference side; the byte 0xE2, which starts U+2028 /
U+2029, is outside class `D`: the reference does not model the three-byte terminators — the lexer
does since b0a8648, former finding js-line-comment-ls-ps, `lexer_js_case_regenerated`) -/
theorem js_line_comment_spec (ro : Bool) (l : Bytes) (h : ∀ c ∈ l, c ≠ 10 ∧ c ≠ 13 ∧ c ≠ 0xE2) :
    [0x2F, 0x2F].foldl HtmlTok.jsStep (.code ro) = .lineC ∧ l.foldl HtmlTok.jsStep .lineC = .lineC ∧
    HtmlTok.jsStep .lineC 10 = .code true ∧ HtmlTok.jsStep .lineC 13 = .code true :=
  ⟨(HtmlTok.comment_openers ro).2, HtmlTok.lineComment_inside l h, HtmlTok.lineComment_closes.1,
    HtmlTok.lineComment_closes.2⟩

/-! ## Layer 3 — dispatch -/

/-- renderer.Show: a URL context goes to showInURL before anything else, and every other context
to its own showIn* function (quoted/unquoted passed on). -/
theorem show_dispatch_table :
    showURLFirst = true ∧
    showSwitch = [("Text", "showInText", ""), ("HTML", "showInHTML", ""), ("Tag", "showInTag", ""),
      ("QuotedAttr", "showInAttribute", "true"), ("UnquotedAttr", "showInAttribute", "false"),
      ("CSS", "showInCSS", ""), ("CSSString", "showInCSSString", ""), ("JS", "showInJS", ""),
      ("JSString", "showInJSString", ""), ("JSON", "showInJSON", ""),
      ("JSONString", "showInJSONString", ""), ("Markdown", "showInMarkdown", ""),
      ("TabCodeBlock", "showInMarkdownCodeBlock", "false"),
      ("SpacesCodeBlock", "showInMarkdownCodeBlock", "true")] := by decide

/-- The full statement: bytes of a value whose type-switch clause is untrusted (everything but the
native.HTML/CSS/JS/JSON/Markdown types and their Stringer interfaces) reach a raw write only in
the Text context, which has no enclosing language. -/
def UntrustedNeverRawFull : Prop := ∀ e ∈ rawUntrustedAll, e.1 = "showInText"

/-- False today: showInHTML writes a `[]byte` with `out.Write(v)` (known finding
`bytes-raw-in-html`), and showInTag writes the string after its own inline rune filter, not
through an escaper (see the Tag theorems above). -/
theorem untrusted_never_raw_full_false : ¬ UntrustedNeverRawFull := by
  intro h
  have := h ("showInHTML", some ["[]byte"], none) (by decide)
  revert this
  decide

/-- partial: the COMPLETE list of (function, type clause, kind clause) under which bytes of an
untrusted value reach a raw write — evaluated over every write site of every showIn* function
as regenerated from renderer.go. Outside showInText (no escaping by definition) these are exactly
the `[]byte` clause of showInHTML and the filtered string of showInTag. In particular: in no
context does a string, a named string type (kind String), a number, a bool, a Stringer, an
EnvStringer or an error reach a raw write, and toString's result is written raw only by showInCSS
for the kinds that are not String. -/
theorem untrusted_never_raw_partial :
    rawUntrustedAll =
      [("showInText", some ["fmt.Stringer"], none), ("showInText", some ["native.EnvStringer"], none),
       ("showInText", some ["error"], none), ("showInText", some ["default"], none),
       ("showInHTML", some ["[]byte"], none),
       ("showInTag", some ["fmt.Stringer"], none), ("showInTag", some ["native.EnvStringer"], none),
       ("showInTag", some ["error"], none), ("showInTag", some ["default"], none),
       ("showInTag", none, none)] := by decide

/-- per function, every sink that can receive bytes of an untrusted value: each context sends them
through its own escaper (layer 1), `escapeBytes` (base64) for `[]byte`, or recursion into the
same function for composites. -/
theorem untrusted_value_sinks :
    fns.map (fun f => (f.name, untrustedValSinks f)) =
      [("showInURL", [.recur "showInHTML", .esc "pathEscape,ctx == ast.ContextQuotedAttr", .esc "queryEscape"]),
       ("showInText", [.raw]),
       ("showInHTML", [.esc "htmlEscape", .raw]),
       ("showInTag", [.raw]),
       ("showInAttribute", [.esc "attributeEscape,escapeEntities,quoted"]),
       ("showInCSS", [.esc "escapeBytes,false", .esc "cssStringEscape"]),
       ("showInCSSString", [.esc "escapeBytes,false", .esc "cssStringEscape"]),
       ("showInJS", [.esc "jsStringEscape", .esc "escapeBytes,true", .recur "showInJS"]),
       ("showInJSON", [.esc "jsonStringEscape", .esc "escapeBytes,true", .recur "showInJSON"]),
       ("showInJSString", [.esc "jsStringEscape"]),
       ("showInJSONString", [.recur "showInJSString"]),
       ("showInMarkdown", [.esc "markdownEscape,false"]),
       ("showInMarkdownCodeBlock", [.esc "markdownCodeBlockEscape,spaces"])] := by decide

/-- showInAttribute: exactly the three trusted HTML clauses leave `escapeEntities` false; every
untrusted clause escapes `&` too. -/
theorem attr_entities_only_trusted :
    attrNoEntityClauses showInAttribute =
      [["native.HTML"], ["native.HTMLStringer"], ["native.HTMLEnvStringer"]] := by decide

/-- toString returns bytes of the value only for the kind String -/
theorem toString_val_only_string :
    (toStringTable.filter (fun e => e.2 == .val)).map (·.1) = ["String"] := by decide

/-! ## Layer 3 — the fast paths of `{{ M(…) }}` and `{{ render "f" }}`

A macro call shown directly and a `render` expression do not go through `renderer.Show`: the
callee writes to the page, with the renderer the VM picks from (context, callee format). This is
autoescaping only if, at every pair the emitter accepts, that choice does to the callee's output
what `renderer.Show` does to a value of the callee's result type: write it as it is where
`showIn<context>` writes that type raw, convert it where `showIn<context>` calls the converter.
All tables are regenerated (`Gen/ShowFastPath`: canOptimizeShowMacro's condition, the render
branch, OpCallMacro / OpCallIndirect / OpReturn; `Gen/ShowDispatch`: the write sites). -/

/-- **Every pair accepted by `canOptimizeShowMacro` is one where the generic path converts
nothing, or converts exactly as the VM does**: over all 6 × 14 (result format, context) pairs, if
the guard holds then the context is a format context, OpCallIndirect chooses like OpCallMacro, and
either the callee writes into the page's output (same renderer, or a fresh one with nothing done
at return) and `showIn<ctx>` writes the result type with a raw write only, or the callee is
buffered and converted at return and `showIn<ctx>` hands that type to the converter only.
Accepted ⊆ {(f, f)} ∪ {pairs whose conversion is the VM's}. -/
theorem macro_fast_path_sound : MacroFast.guardSound Gen.ShowFastPath.macroGuard = true := by decide

/-- pointwise form -/
theorem macro_fast_path_sound_at (f c : Nat) (hf : f ∈ MacroFast.formatCodes)
    (hc : c ∈ MacroFast.contextCodes) (h : Gen.ShowFastPath.macroGuard f c = true) :
    MacroFast.vmAgreesWithGeneric f c = true := by
  have h0 := macro_fast_path_sound
  unfold MacroFast.guardSound at h0
  have h1 := (List.all_eq_true.mp h0) f hf
  have h2 := (List.all_eq_true.mp h1) c hc
  simpa [h] using h2

/-- **Inside a URL the macro fast path is never taken**: `canOptimizeShowMacro` reads the emitter's
`inURL` flag (the one the generic branch hands to `emitShow`) and refuses every (result format,
context) pair when it is set, so a `{{ M(…) }}` in an attribute URL or a Markdown link destination
goes through `renderer.Show` and is URL-escaped like the variable form. Repair 173b2b7 of the
former finding macro-fastpath-ignores-url; `macro_fast_path_sound` is about `macroGuardU false`. -/
theorem macro_fast_path_refuses_url (f c : Nat) : Gen.ShowFastPath.macroGuardU true f c = false := by
  simp [Gen.ShowFastPath.macroGuardU]

example : Gen.ShowFastPath.macroGuardReadsInURL = true ∧
    Gen.ShowFastPath.macroGuardU false 5 5 = true ∧ Gen.ShowFastPath.macroGuardU true 5 5 = false := by decide

/-- non-vacuity: the guard accepts the same-format pairs and Markdown in HTML; there the generic
path is a raw write, respectively the converter; and HTML-escaping contexts are not identities -/
example : MacroFast.acceptedPairs Gen.ShowFastPath.macroGuard ≠ [] := by decide
example : Gen.ShowFastPath.macroGuard 5 1 = true ∧ MacroFast.genericConv 5 1 = some .converter ∧
    MacroFast.vmAgreesWithGeneric 5 1 = true := by decide
example : MacroFast.genericConv 1 1 = some .identity ∧ MacroFast.genericConv 0 1 = some .other := by decide

/-- full statement for `{{ render "f" }}`: the *ast.Render branch takes the fast path only at
sound pairs. **False of the code today** (known finding `render-fastpath-format`): the branch has
no test at all, so e.g. a text file rendered in HTML is written raw where `showInHTML` escapes. -/
def RenderFastPathSound : Prop := MacroFast.guardSound Gen.ShowFastPath.renderGuard = true

/-- as far as it holds: either the branch is unguarded and the full statement is refuted by
evaluation, or a guard has been added and it is sound. Green across the repair, red for a guard
that is present but accepts an unsound pair. -/
theorem render_fast_path_sound_partial :
    (Gen.ShowFastPath.renderGuarded = false ∧ ¬ RenderFastPathSound) ∨
    (Gen.ShowFastPath.renderGuarded = true ∧ RenderFastPathSound) := by
  first
  | exact Or.inl ⟨by decide, by unfold RenderFastPathSound; decide⟩
  | exact Or.inr ⟨by decide, by unfold RenderFastPathSound; decide⟩

/-! ## Layer 2 — refutation only -/

/-- The full statement `ScriptCtxAgree` (for every ASCII script prefix the lexer's context at the
hole abstracts the ECMAScript lexical state) is false of the lexer model: after
`var r = /"/; var x = ` and after ``var t = `"`; var x = `` the model lexer is in context JSString
where the reference scanner is in code position. Known findings js-regex-literal-quote,
js-template-literal. After `var p = "C:\\"; var x = ` (a string ending in an escaped backslash,
formerly the third witness: finding string-escaped-backslash-desync, repaired by 8287339) the model
lexer is in code position like the reference — third conjunct; such strings are inside class `D` of
the layer-2 theorems now. -/
theorem script_ctx_agree_false : ¬ LexerWitness.ScriptCtxAgree ∧
    LexerWitness.holeCtxs (LexerWitness.scriptOpen ++ LexerWitness.templateWitness ++ LexerWitness.holeClose)
      = some [Gen.LexTables.ContextJSString] ∧
    LexerWitness.holeCtxs (LexerWitness.scriptOpen ++ LexerWitness.backslashWitness ++ LexerWitness.holeClose)
      = some [LexerWitness.ctxOf (LexerWitness.jsRef LexerWitness.backslashWitness)] :=
  ⟨LexerWitness.scriptCtxAgree_false, LexerWitness.templateWitness_ctx.1,
    by rw [LexerWitness.backslashWitness_ctx.2]; exact LexerWitness.backslashWitness_ctx.1⟩

/-! ## Layer 2 — agreement on class `D`, first hole -/

/-- **The lexer's context at the first hole is the context a browser is in, for documents of
class D.** Let the template be `p ++ t` where `t` starts with `{{` and no template delimiter
starts inside `p`, and let the reference HTML tokenizer (`Spec/HtmlTok.lean`), after reading `p`,
be in a state for which the abstraction makes a claim `(c, u)` — in particular `p ∈ D`
(`HtmlTok.run p ≠ bad`: no comments / CDATA / DOCTYPE, no RCDATA or other raw-text elements,
well-formed tag and attribute names, no `type` attribute on script/style, script content without
template literals, regular-expression literals, strings holding a raw newline, the byte 0xE2 in a
line comment, style content without quotes in comments, end tags exactly `</script>` /
`</style>`). Then the full lexer model (`Model/Lexer`, C04/C21) scans the template without a
fault, the tokens before the first `{{` token are Text / StartURL / EndURL only, that `{{` token
is at offset `|p|` and carries the context `c`, and it is inside a URL (an open StartURL) exactly
when `u` says the attribute is one of the lexer's URL attributes.

Partial: (1) the FIRST hole — for every hole see `ctx_agree_all_partial` (narrower class);
(2) class `D` only — the full statement is refuted by `script_ctx_agree_false`; (3) HTML files
that do not start with a `#!` line. -/
theorem ctx_agree_partial (U : Lexer.Unicode) (p t : Bytes)
    (ht : ∃ rest, t = 0x7b :: 0x7b :: rest)
    (hfree : LexCtx.delimFree (p ++ t) p.length)
    (hsheb : ¬ ∃ rest, p ++ t = 0x23 :: 0x21 :: rest)
    (c : HtmlTok.Ctx) (u : Bool)
    (habs : HtmlTok.abs Lexer.containsURL (HtmlTok.run p) = some (c, u)) :
    ∃ pre tok post e,
      Lexer.scanTemplate U Gen.LexTables.FormatHTML false (p ++ t) = .ok (pre ++ tok :: post, e) ∧
      (∀ k ∈ pre, k.typ = Gen.LexTables.tokenText ∨ k.typ = Gen.LexTables.tokenStartURL ∨
        k.typ = Gen.LexTables.tokenEndURL) ∧
      LexCtx.urlOf pre.reverse = u ∧
      tok.typ = Gen.LexTables.tokenLeftBraces ∧ tok.ctx = LexCtx.ctxNat c ∧ tok.start = (p.length : Int) := by
  obtain ⟨rest, hrest⟩ := ht
  have hsd : LexCtx.startsDelim t := ⟨0x7b, rest, hrest, Or.inl rfl⟩
  obtain ⟨hpos, hctx, hurl⟩ := LexCtx.ctx_agree_pure U p t hsd hfree c u habs
  obtain ⟨pre, tok, post, e, h1, h2, h3, h4, h5, h6⟩ :=
    LexCtx.first_show_full U p t ⟨rest, hrest⟩ hsheb hpos
  exact ⟨pre, tok, post, e, h1, h2, by rw [h3, hurl], h4, by rw [h5, hctx], h6⟩

/-- the sub-class "HTML text, tags and attributes" (no script, no style) — a corollary, kept under
its own name: what the projection machine computes at the hole -/
theorem ctx_agree_html_partial (U : Lexer.Unicode) (p t : Bytes) (ht : LexCtx.startsDelim t)
    (hfree : LexCtx.delimFree (p ++ t) p.length) (hh : HtmlTok.htmlOnly p = true)
    (c : HtmlTok.Ctx) (u : Bool) (habs : HtmlTok.abs Lexer.containsURL (HtmlTok.run p) = some (c, u)) :
    (LexCtx.ctxAt U (p ++ t) p.length).pos = p.length ∧
    (LexCtx.ctxAt U (p ++ t) p.length).ctx = LexCtx.ctxNat c ∧ (LexCtx.ctxAt U (p ++ t) p.length).url = u :=
  LexCtx.ctx_agree_pure_html U p t ht hfree hh c u habs

/-- non-vacuity: `<a href="` is in D and the abstraction claims (quoted attribute, URL) -/
example : HtmlTok.abs Lexer.containsURL (HtmlTok.run [60, 97, 32, 104, 114, 101, 102, 61, 34]) =
    some (.quotedAttr, true) := by decide +kernel
/-- `<script>var a = "x` is in D: JavaScript string -/
example : HtmlTok.abs Lexer.containsURL
    (HtmlTok.run [60, 115, 99, 114, 105, 112, 116, 62, 118, 97, 114, 32, 97, 32, 61, 32, 34, 120]) =
    some (.jsString, false) := by decide +kernel
/-- the regex witness is outside D -/
example : HtmlTok.run (LexerWitness.scriptOpen ++ LexerWitness.regexWitness) = .bad := by decide +kernel

/-- **Every hole.** For an HTML template without shebang line that, read as it is, lies in class D
and in which every template delimiter is a show `{{identifier}}` standing at a stable point of the
reference run (`IdentTemplate`: the reference state there has an abstraction other than the Tag
context and is not the tag-open state): the full lexer model scans it without fault and without
error, EVERY `{{` token it emits starts at an offset `n` where `{{` stands in the text and carries
the context that abstracts the reference tokenizer's state after `text[0..n)`, and no show is
skipped. `AsciiU U`: the `unicode` predicates (parameters of the lexer model) classify ASCII
letters / digits as such and `}` as neither.

Partial: shows must be single identifiers (`{{s}}`, no spaces — the reference reads their bytes
as text, which is harmless only for such bytes), no `{% %}` / `{# #}`, stable points only; the
URL flag is proved for the first hole only (`ctx_agree_partial`); the unrestricted statement is
refuted (`script_ctx_agree_false`). -/
theorem ctx_agree_all_partial (U : Lexer.Unicode) (hU : LexCtx.AsciiU U) (text : Bytes)
    (hT : LexCtx.IdentTemplate text) :
    ∃ toks, Lexer.scanTemplate U Gen.LexTables.FormatHTML false text = .ok (toks, none) ∧
      (∀ t ∈ toks, t.typ = Gen.LexTables.tokenLeftBraces →
        ∃ n c u, t.start = ((n : Nat) : Int) ∧ text[n]? = some 0x7b ∧ text[n + 1]? = some 0x7b ∧
          HtmlTok.abs Lexer.containsURL (HtmlTok.run (text.take n)) = some (c, u) ∧
          t.ctx = LexCtx.ctxNat c) ∧
      (∀ a, LexCtx.delimAt text a = true →
        ∃ t ∈ toks, t.typ = Gen.LexTables.tokenLeftBraces ∧ t.start = ((a : Nat) : Int)) :=
  LexCtx.all_shows_ctx U hU text hT

/-- Lexing a show statement `{{ … }}` changes none of the fields that decide contexts (`ctx`,
`contexts`, `tagName`, `tagAttr`, `tagIndex`, `tagCtx`, and the base context `l.base`), whatever the
show contains — the fact
behind `ctx_agree_all_partial` that does not depend on the shape of the show. -/
theorem show_preserves_context (E : Lexer.Env) (st st' : Lexer.St) (e : Option Lexer.LexErr)
    (h : Lexer.lexShow E st = .ok (st', e)) : Lexer.SameCtx st st' :=
  Lexer.lexShow_sameCtx E st st' e h

end ScriggoV.Props.C06
