import ScriggoV.Lemmas.Encoding
/-! # C20 — exceeding an implementation limit is an error, never wrong code

All statements are over the *regenerated* definitions of `Gen/Encoding.lean` (encoders, decoders,
limit constants, limits table); a change of builder.go / run.go changes those definitions and the
theorems are re-checked.

* round trip of every operand encoder under the range its guard leaves (for all values);
* `guard_fits_partial`: every table that an operand indexes is appended to behind a guard, and the
  guard is at most the capacity of the narrowest operand the VM reads the index from; the one
  accepted exception is `Body` (jump targets): the guard of `end()` is 2^32-1 instructions, jump
  targets are carried in 24 bits. That gap cannot be replayed (it needs > 16 M instructions in
  one function) and is recorded, not raised: `body_gap_recorded`, `guardFitsAll_false`;
* `guarded_index_reads_back`: an index that passed the guard is read back unchanged by the VM;
  `limit_raised_exactly_at_guard`: the append that would go past the guard raises the limit error;
* `no_guard_before_lookup` + `lookup_existing_never_limit`: a program within the limits is not
  refused: no limit test runs before the de-duplication lookup, so re-using an entry of a full
  table succeeds. -/
namespace ScriggoV.Limits
open ScriggoV.Gen.Encoding

/-! ## 1. round trips -/

/-- `decodeInt16 (encodeInt16 n) = n` for every int16 (−32768 … 32767) -/
theorem int16_roundtrip (v : BitVec 16) : VM.decodeInt16 (encodeInt16 v).1 (encodeInt16 v).2 = v := by
  rw [vm_decodeInt16]; exact int16_bits v

theorem uint16_roundtrip (v : BitVec 16) : VM.decodeUint16 (encodeUint16 v).1 (encodeUint16 v).2 = v := by
  rw [vm_decodeUint16]; exact uint16_bits v

/-- jump targets below 2^24 are read back unchanged -/
theorem uint24_roundtrip (v : BitVec 32) (h : v.toNat < 2 ^ 24) :
    VM.decodeUint24 (encodeUint24 v).1 (encodeUint24 v).2.1 (encodeUint24 v).2.2 = v := by
  rw [vm_decodeUint24, uint24_bits, setWidth_setWidth_of_lt 24 v h]
example : ∃ v : BitVec 32, v.toNat < 2 ^ 24 ∧ v ≠ 0 := ⟨0xABCDEF#32, by decide, by decide⟩

/-- … and the first one that is not, is not: address 2^24 is read back as 0 -/
theorem uint24_wraps_at_two_pow_24 :
    VM.decodeUint24 (encodeUint24 (16777216#32)).1 (encodeUint24 (16777216#32)).2.1 (encodeUint24 (16777216#32)).2.2 = 0#32 := by
  decide

theorem valueIndex_roundtrip (t : BitVec 8) (i : BitVec 64) (ht : t.toNat < 2 ^ valueTypeBits)
    (hi : i.toNat < 2 ^ valueIndexBits) :
    VM.decodeValueIndex (encodeValueIndex t i).1 (encodeValueIndex t i).2 = (t, i) := by
  rw [vm_decodeValueIndex]
  apply Prod.ext
  · rw [valueIndex_bits_type]
    have h0 : BitVec.setWidth 8 (BitVec.setWidth 16 i >>> 14) = 0#8 := by
      apply BitVec.eq_of_toNat_eq
      simp only [BitVec.toNat_setWidth, BitVec.toNat_ushiftRight, Nat.shiftRight_eq_div_pow, BitVec.toNat_ofNat]
      simp only [valueIndexBits] at hi
      omega
    rw [h0, setWidth_setWidth_of_lt 2 t ht]
    simp
  · rw [valueIndex_bits_index]
    exact setWidth_setWidth_of_lt 14 i hi
example : ∃ (t : BitVec 8) (i : BitVec 64), t.toNat < 2 ^ valueTypeBits ∧ i.toNat < 2 ^ valueIndexBits ∧ t ≠ 0 ∧ i ≠ 0 :=
  ⟨3#8, 16383#64, by decide, by decide, by decide, by decide⟩

/-- the context, the inURL flag and (when in a URL) the isURLSet flag survive the Show operand -/
theorem renderContext_roundtrip (ctx : BitVec 64) (h : ctx.toNat < 2 ^ 4) (inURL isURLSet : Bool) :
    VM.decodeRenderContext (encodeRenderContext ctx inURL isURLSet) = (ctx, inURL, inURL && isURLSet) := by
  have key : ∀ n, n < 16 → ∀ a b : Bool,
      VM.decodeRenderContext (encodeRenderContext (BitVec.ofNat 64 n) a b) = (BitVec.ofNat 64 n, a, a && b) := by
    decide +kernel
  have := key ctx.toNat h inURL isURLSet
  simpa using this
example : ∃ ctx : BitVec 64, ctx.toNat < 2 ^ 4 ∧ ctx ≠ 0 := ⟨13#64, by decide, by decide⟩

theorem index8_roundtrip (r : BitVec 64) (h : r.toNat < 2 ^ 8) : decodeIndex8 (encodeIndex8 r) = r := by
  rw [index8_bits, setWidth_setWidth_of_lt 8 r h]

/-- SetVar's operands B, C carry the variable index like GetVar's A, B -/
theorem setVar_roundtrip (v : BitVec 64) (h : v.toNat < 2 ^ 15) :
    BitVec.signExtend 64 (VM.decodeInt16 (encodeSetVar v).1 (encodeSetVar v).2) = v := by
  rw [setVar_bits, int16_roundtrip]
  apply BitVec.eq_of_toInt_eq
  rw [BitVec.toInt_signExtend_of_le (by omega)]
  have h1 : (BitVec.setWidth 16 v).toNat = v.toNat := by
    simp only [BitVec.toNat_setWidth]; omega
  rw [toInt_of_lt _ (by omega), toInt_of_lt v (by omega), h1]

/-! ## 2. what the VM reads back for an entry number -/

theorem ofNat_toNat_lt {w i : Nat} (h : i < 2 ^ w) : (BitVec.ofNat w i).toNat = i := by
  simp [BitVec.toNat_ofNat, Nat.mod_eq_of_lt h]

/-- every entry number an operand of the codec can carry is read back unchanged -/
theorem readBack_of_lt (c : Codec) (t i : Nat) (hc : c ≠ .notOperand) (h : i < 2 ^ c.bits)
    (hreg : c = .reg → 0 < i) : readBack c t i = some i := by
  cases c with
  | notOperand => exact absurd rfl hc
  | u8 =>
    simp only [Codec.bits] at h
    have hn : (BitVec.ofNat 64 i).toNat = i := ofNat_toNat_lt (by omega)
    simp only [readBack]
    rw [index8_roundtrip _ (by omega), toInt_of_lt _ (by omega), hn, nonneg_ofNat]
  | u16 =>
    simp only [Codec.bits] at h
    have hn : (BitVec.ofNat 64 i).toNat = i := ofNat_toNat_lt (by omega)
    simp only [readBack]
    rw [uint16_roundtrip]
    simp only [BitVec.toNat_setWidth, hn]
    congr 1; omega
  | i16 =>
    simp only [Codec.bits] at h
    have hn : (BitVec.ofNat 64 i).toNat = i := ofNat_toNat_lt (by omega)
    have h1 : (BitVec.setWidth 16 (BitVec.ofNat 64 i)).toNat = i := by
      simp only [BitVec.toNat_setWidth, hn]; omega
    simp only [readBack]
    rw [int16_roundtrip, toInt_of_lt _ (by omega), h1, nonneg_ofNat]
  | valueIndex =>
    simp only [Codec.bits] at h
    have hn : (BitVec.ofNat 64 i).toNat = i := ofNat_toNat_lt (by omega)
    simp only [readBack]
    rw [vm_decodeValueIndex, valueIndex_bits_index, setWidth_setWidth_of_lt 14 _ (by omega),
      toInt_of_lt _ (by omega), hn, nonneg_ofNat]
  | u24 =>
    simp only [Codec.bits] at h
    have hn : (BitVec.ofNat 32 i).toNat = i := ofNat_toNat_lt (by omega)
    simp only [readBack]
    rw [uint24_roundtrip _ (by omega), hn]
  | reg =>
    simp only [Codec.bits] at h
    have hn : (BitVec.ofNat 8 i).toNat = i := ofNat_toNat_lt (by omega)
    have hpos := hreg rfl
    simp only [readBack]
    rw [toInt_of_lt _ (by omega), hn]
    simp; omega
example : readBack .valueIndex 1 16383 = some 16383 := by decide +kernel
example : readBack .reg 0 127 = some 127 := by decide +kernel

/-- the register type of a value index is read back too -/
theorem readBackType_of_lt (t i : Nat) (ht : t < 2 ^ valueTypeBits) (hi : i < 2 ^ valueIndexBits) :
    readBackType t i = t := by
  have ht' : t < 4 := by simpa [valueTypeBits] using ht
  have hi' : i < 16384 := by simpa [valueIndexBits] using hi
  have h1 : (BitVec.ofNat 8 t).toNat = t := ofNat_toNat_lt (by omega)
  have h2 : (BitVec.ofNat 64 i).toNat = i := ofNat_toNat_lt (by omega)
  simp only [readBackType]
  rw [valueIndex_roundtrip _ _ (by rw [h1]; exact ht) (by rw [h2]; exact hi)]
  exact h1

/-- SetVar reads back what GetVar reads back -/
theorem readBackSetVar_eq (i : Nat) : readBackSetVar i = readBack .i16 0 i := by
  simp only [readBackSetVar, readBack, setVar_bits]

/-! what goes wrong without a guard (the defects this property found, each replayed on the real
library by go/props/c20 before the fixes): entry 2^w is read back as entry 0 -/
example : readBack .u16 0 65536 = some 0 := by decide +kernel        -- 65 537th text chunk
example : readBack .u8 0 256 = some 0 := by decide +kernel           -- 257th called function
example : readBack .i16 0 32768 = none := by decide +kernel          -- 32 769th global: negative index

/-! ## 3. the limits table -/

/-- tables whose guard is knowingly wider than the operand (see the header): jump targets -/
def acceptedGaps : List String := ["Body"]

/-- the full statement: every row fits. False of the code today because of `Body`. -/
def GuardFitsAll : Prop := ∀ r ∈ limits, r.fits = true

/-- the guard of `end()` (2^32-1 instructions) is wider than the 24-bit jump operand -/
theorem body_gap_recorded : ∃ r ∈ limits, r.table = "Body" ∧ r.fits = false := by decide +kernel

theorem guardFitsAll_false : ¬ GuardFitsAll := by
  intro h
  obtain ⟨r, hr, _, hf⟩ := body_gap_recorded
  rw [h r hr] at hf
  exact absurd hf (by decide)

/-- **guard_fits**: every table that an operand of the VM indexes is appended to behind a guard,
and no guard lets the table grow past what the narrowest operand reading it can address.
Missing from the full statement: the row `Body` (acceptedGaps). -/
theorem guard_fits_partial : ∀ r ∈ limits, r.table ∉ acceptedGaps → r.fits = true := by
  decide +kernel

/-- a table indexed by an operand and appended to without a check never passes `guard_fits` -/
theorem unguarded_row_fails (r : Row) (w : Nat) (hw : r.width = some w) (hg : r.guard = none) :
    r.fits = false := by
  simp [Row.fits, hw, hg]
example : ∃ r : Row, r.width = some 16 ∧ r.guard = none :=
  ⟨{ table := "Text", site := "", guard := none, message := "", width := some 16, reserved := 0, codec := .u16, guardBeforeLookup := false }, rfl, rfl⟩

/-- the operand width recorded in a row is the width of the codec that carries the index -/
theorem codec_width_agree : ∀ r ∈ limits, r.codec ≠ .notOperand → r.width = some r.codec.bits := by
  decide +kernel

/-- all the places that append to one table check the same bound (an `==` guard is sound only
then: the length grows by one from zero and cannot jump over the bound) -/
theorem sites_agree : ∀ r₁ ∈ limits, ∀ r₂ ∈ limits, r₁.table = r₂.table → r₁.guard = r₂.guard := by
  decide +kernel

/-- the enumerations packed into operand bit fields (ast.Context in 4 bits of the Show operand,
registerType in 2 bits of a value index, Operation in a signed byte) have no more constants than
the field has values -/
theorem enums_fit : ∀ e ∈ enums, e.2.1 ≤ 2 ^ e.2.2 := by decide +kernel

/-- every row that has a guard reports the limit with a `… exceeded %d` message -/
theorem guards_have_messages : ∀ r ∈ limits, r.guard ≠ none → r.message ≠ "" := by decide +kernel

/-! ## 4. guarded appends -/

theorem appendAt_ok_of_lt (g len : Nat) (h : len < g) : appendAt (some g) len = .ok len := by
  have : (len == g) = false := by simp; omega
  simp [appendAt, this]

/-- the append that would make the table longer than the guard raises the limit error -/
theorem limit_raised_exactly_at_guard (g len : Nat) :
    appendAt (some g) len = .limitExceeded ↔ len = g := by
  by_cases h : len = g
  · simp [appendAt, h]
  · have : (len == g) = false := by simp [h]
    simp [appendAt, this, h]

/-- with an `==` guard the table, filled one entry at a time, never gets longer than the guard:
`k` appends succeed exactly when `k ≤ g` -/
theorem lenAfter_spec (g : Nat) : ∀ k, lenAfter (some g) k = if k ≤ g then some k else none := by
  intro k
  induction k with
  | zero => simp [lenAfter]
  | succ k ih =>
    simp only [lenAfter, ih]
    by_cases h : k + 1 ≤ g
    · have h1 : k ≤ g := by omega
      simp only [h1, h, if_true]
      rw [appendAt_ok_of_lt g k (by omega)]
    · by_cases h2 : k ≤ g
      · have : k = g := by omega
        subst this
        have : appendAt (some k) k = .limitExceeded := (limit_raised_exactly_at_guard k k).2 rfl
        simp [this]
      · simp [h, h2]
example : lenAfter (some 256) 256 = some 256 ∧ lenAfter (some 256) 257 = none := by
  rw [lenAfter_spec, lenAfter_spec]; decide

/-- without a guard nothing stops the table -/
theorem lenAfter_unguarded : ∀ k, lenAfter none k = some k := by
  intro k
  induction k with
  | zero => rfl
  | succ k ih => simp [lenAfter, ih, appendAt]

/-- **using an entry that is already in the table never raises the limit error**, however full the
table is, when the lookup comes before the guarded append … -/
theorem lookup_existing_never_limit (guard : Option Nat) (len j : Nat) :
    intern false guard len (some j) = .ok j := rfl

/-- … and a new value goes through the guarded append -/
theorem intern_new (guard : Option Nat) (len : Nat) : intern false guard len none = appendAt guard len := rfl

/-- … whereas with the test first a full table refuses even the values it holds (a program within
the limits would fail to build) -/
theorem guard_first_refuses_existing (g j : Nat) : intern true (some g) g (some j) = .limitExceeded := by
  simp [intern, appendAt]
example : intern true (some 256) 256 (some 0) = .limitExceeded := by decide

/-- no append site of the code tests the limit before the lookup that makes the append conditional:
between the limit test and the append no path leaves the function -/
theorem no_guard_before_lookup : ∀ r ∈ limits, r.guardBeforeLookup = false := by decide +kernel

/-! ## 5. immediates: counts and literal indexes cut to the width of an operand -/

/-- operands bounded only indirectly; the bound is stated here as data and exercised by the arity
sweeps of go/props/c20 (`variadic-native-arguments` …), not proved -/
def indirectlyBounded : List (String × String) :=
  [("emitter.emitCallNode: int8(numVar)",
    "number of variadic arguments of a native call (NoVariadicArgs = -1 otherwise): every argument is evaluated into its own register of the callee's frame (prepareCallParameters, predefined branch, newRegister outside enterStack/exitStack), so it is at most maxRegistersCount")]

/-- **every narrowing conversion that feeds an operand is bounded**: by a constant, an enumeration,
a guarded table, a limit check, a range test, the register limit — or, for a loop count / loop
index, by the registers each iteration of the loop keeps allocated (at least one: otherwise
nothing stops the count at 127) — or it is listed in `indirectlyBounded`. -/
theorem every_immediate_guarded :
    ∀ m ∈ immediates, (m.guard ≠ "none" ∧ (m.guard = "heldRegs" → 1 ≤ m.held))
      ∨ m.site ∈ indirectlyBounded.map (·.1) := by decide +kernel

/-- the allow-list has no stale entries -/
theorem indirectlyBounded_used : ∀ e ∈ indirectlyBounded, e.1 ∈ immediates.map (·.site) := by decide +kernel

/-- a loop that keeps `h ≥ 1` registers of one type per iteration has run at most 127 times when
`newRegister` raises the limit error, and such a count or index survives the cut to `int8` -/
theorem held_registers_bound (h n : Nat) (hh : 1 ≤ h) (hn : n * h ≤ maxRegistersCount) :
    n ≤ 127 ∧ (BitVec.ofNat 8 n).toInt = Int.ofNat n := by
  have h127 : n ≤ 127 := by
    have : n ≤ n * h := Nat.le_mul_of_pos_right n hh
    simp only [maxRegistersCount] at hn
    omega
  refine ⟨h127, ?_⟩
  rw [toInt_of_lt _ (by rw [ofNat_toNat_lt (by omega)]; omega), ofNat_toNat_lt (by omega)]
example : ∃ m ∈ immediates, m.guard = "heldRegs" ∧ 1 ≤ m.held := by decide +kernel

theorem checkCount_spec (g n : Nat) : checkCount (some g) n = if n ≤ g then .ok n else .limitExceeded := by
  by_cases h : n ≤ g
  · have : ¬ n > g := by omega
    simp [checkCount, h, this]
  · have : n > g := by omega
    simp [checkCount, h, this]

/-- **an index that passes the guard is read back unchanged.** For every row of the table whose
index travels in an operand (and that is not an accepted gap), for every entry the guard lets in
(index `i < g`, entry number `i + reserved`: registers are numbered from 1), and every register
type `t`, the VM reads the same entry number back. -/
theorem guarded_index_reads_back :
    ∀ r ∈ limits, r.table ∉ acceptedGaps → r.codec ≠ .notOperand →
      ∃ g, r.guard = some g ∧
        ∀ len i, lenAfter r.guard len ≠ none → appendAt r.guard len = .ok i →
          ∀ t, readBack r.codec t (i + r.reserved) = some (i + r.reserved) := by
  intro r hr hgap hc
  have hfit := guard_fits_partial r hr hgap
  have hw := codec_width_agree r hr hc
  have hres : r.reserved ≤ 1 ∧ (r.codec = .reg → r.reserved = 1) := by
    revert r; decide +kernel
  cases hg : r.guard with
  | none => simp [Row.fits, hw, hg] at hfit
  | some g =>
    refine ⟨g, rfl, ?_⟩
    intro len i hlen happ t
    simp only [Row.fits, hw, hg, decide_eq_true_eq] at hfit
    rw [lenAfter_spec] at hlen
    have hle : len ≤ g := by
      by_cases h : len ≤ g
      · exact h
      · simp [h] at hlen
    have hne : len ≠ g := fun h => by
      have := (limit_raised_exactly_at_guard g len).2 h
      rw [this] at happ; cases happ
    rw [appendAt_ok_of_lt g len (by omega)] at happ
    have hi : i = len := by cases happ; rfl
    have hpow : 0 < 2 ^ r.codec.bits := Nat.two_pow_pos _
    apply readBack_of_lt r.codec t _ hc
    · omega
    · intro hreg; have := hres.2 hreg; omega
example : ∃ r ∈ limits, r.table ∉ acceptedGaps ∧ r.codec ≠ .notOperand := by decide +kernel

/-! ## 6. a limit error is reported, whatever kind of function is being built -/

/-- **every function builder that can raise a limit error has a position**: at every place where
internal/compiler makes a `runtime.Function` (regenerated list: the calls of `newFunction` and
`newMacro`, the `runtime.Function` literals), the function gets a position — a node's, or a
literal `&ast.Position{}` for the synthetic `$initvars` — or nothing that can reach a limit check
is done with its builder (the two-instruction function of `defer recover()`), or
`newLimitExceededError` tests the position before reading it. -/
theorem every_limit_raising_builder_has_position :
    ∀ s ∈ builderSites, siteSafe limitErrorNilSafe limitRaising s = true := by decide +kernel

/-- hence a limit check that fires in the builder of any of these functions produces the limit
error, not a nil pointer dereference of the host -/
theorem limit_check_never_panics :
    ∀ s ∈ builderSites, canRaise limitRaising s = true →
      raiseLimit limitErrorNilSafe (hasPos s.pos) = .buildError := by
  intro s hs hc
  have h := every_limit_raising_builder_has_position s hs
  simp only [siteSafe, hc, Bool.not_true, Bool.or_false, Bool.or_eq_true] at h
  unfold raiseLimit
  cases h with
  | inl h => simp [h]
  | inr h => simp [h]

/-- the model of `newLimitExceededError`: without a position (and without a nil test) it panics -/
theorem raiseLimit_without_position : raiseLimit false false = .hostPanic := by decide

-- non-vacuity: sites whose builder can raise a limit exist, among them a synthetic function with a
-- literal position; a site without a position exists and is accepted only for what it emits; the
-- register and table guards are among the raising functions, `end` too
example : ∃ s ∈ builderSites, canRaise limitRaising s = true ∧ s.pos = .emptyLit := by decide +kernel
example : ∃ s ∈ builderSites, hasPos s.pos = false ∧ canRaise limitRaising s = false ∧ s.emits ≠ [] := by decide +kernel
example : "newRegister" ∈ limitRaising ∧ "makeStringValue" ∈ limitRaising ∧ "end" ∈ limitRaising ∧ "emitReturn" ∉ limitRaising := by decide +kernel
example : siteSafe false limitRaising { site := "x", how := "newFunction", pos := .nilLit, posSrc := "nil", openBody := true, emits := [] } = false := by decide +kernel

end ScriggoV.Limits
