import ScriggoV.Lemmas.Scopes
import ScriggoV.Lemmas.EnvPool
/-! C19 — code can reach only the host functionality the embedder supplies.

Property theorems only (model: `Model/Scopes.lean`, lemmas: `Lemmas/Scopes.lean`). The universe
block, the builtins' emitted instructions, the `go` gate and the exits of a native import are the
definitions of `Gen/Universe.lean`, regenerated from /repo on every check.

Not covered (DESIGN.md §7 C19): what a supplied *value* lets code do through its own methods, its
function-typed fields or the functions it returns — at run time `OpCallIndirect` calls whatever
function value such a supplied value yields; the model confines the *names* code can resolve, and
the harness observes the supplied functions that actually run.

Second part (`ScriggoV.EnvPool`, model: `Model/EnvPool.lean` over the run histories of
`Model/Runs.lean`): *which* print hook / context a supplied function reaches — the ones of the run
that calls it, for every history of runs of one built artefact, whatever earlier runs left in the
pooled argument slices. The way `callNative` fills a pooled slice and the way a VM gets its env are
the definitions of `Gen/NativeEnv.lean`, regenerated from /repo on every check. -/
namespace ScriggoV.Scopes
open ScriggoV.Gen.Universe

/-- **C19, confinement of names.** After any sequence of checker operations that does not fail,
every name that resolves does so to an entry with one of the four provenances, each accounted
for: a universe entry is in the (regenerated) universe block or a format type, a global is one
the embedder declared, an `importer p` entry is the package the importer returned for `p` or one
of its declarations, anything else was declared by the code itself. -/
theorem resolved_names_are_supplied (c : Cfg) (template : Bool) (ops : List Op) (st : State)
    (h : check c template ops = .ok st) (name : String) (e : Entry)
    (hl : lookup st.scopes name = some e) : Entry.Legit c name e :=
  lookup_legit (run_legit ops _ st (init_legit c template) h).scopes hl

example :
    (match check ⟨some [("p", ⟨"p", [⟨"F", .func⟩]⟩)], [], [⟨"g", .func, []⟩], false⟩ true
      [.importNative "p" .default, .enter, .declare "x" .var, .useSelector "p" "F", .useIdent "g"] with
    | .ok st => (st.natives, (lookup st.scopes "p").map (·.prov))
    | .error _ => ([], none))
    = ([⟨.global, "g"⟩, ⟨.importer "p", "p.F"⟩], some (.importer "p")) := by decide

/-- **C19, the native functions of a compiled artefact.** Every native function the emitter
records (`Function.NativeFunctions`, the only operands of `OpCallNative` / `OpLoadFunc`) is a
function among the declared globals, a function of an auto-imported package among them, or a
function of a package the importer returned — never a universe entry, never anything else. -/
theorem natives_confined (c : Cfg) (template : Bool) (ops : List Op) (st : State)
    (h : check c template ops = .ok st) : ∀ nf ∈ st.natives, NativeFn.Legit c nf :=
  (run_legit ops _ st (init_legit c template) h).natives

/-- **C19, imports.** A check that contains the import of a path for which the importer does not
return a package — nil importer, nil package or an error — fails, whatever the form of the
import and whatever else the code does. -/
theorem unprovided_import_fails (c : Cfg) (template : Bool) (ops : List Op) (path : String)
    (form : ImportForm) (hp : ∀ p, c.importPath path ≠ some (.pkg p))
    (hmem : .importNative path form ∈ ops) : ∃ e, check c template ops = .error e := by
  refine run_fails_of_mem ?_ ops hmem _
  intro st
  simp only [step, importNative]
  cases hi : c.importPath path with
  | none => exact ⟨_, rfl⟩
  | some r =>
    cases r with
    | err => exact ⟨_, rfl⟩
    | nilPkg => exact ⟨_, rfl⟩
    | pkg p => exact absurd hi (hp p)

example : check ⟨some [("p", ⟨"p", []⟩)], [], [], false⟩ false [.importNative "os" .default]
    = .error (.cannotFindPackage "os") := rfl

/-- **C19, the `go` gate.** Unless `AllowGoStmt` is set, a check that contains a `go` statement —
at top level, in a function, in a function literal, anywhere — fails. -/
theorem go_rejected_unless_allowed (c : Cfg) (template : Bool) (ops : List Op)
    (hgo : c.allowGo = false) (hmem : .goStmt ∈ ops) : ∃ e, check c template ops = .error e := by
  refine run_fails_of_mem ?_ ops hmem _
  intro st
  exact ⟨.goNotAvailable, by simp [step, hgo]⟩

/-- the model's gate is the code's: the regenerated gate is an unconditional statement of the
`*ast.Go` clause -/
theorem go_gate_unconditional : goGateUnconditional = true := rfl

/-- **C19, the universe.** The builtin functions of the regenerated universe block are exactly
these fifteen … -/
theorem universe_builtins :
    (universeBlock.filter fun x => x.2 == .builtin).map Prod.fst =
      ["append", "cap", "close", "complex", "copy", "delete", "imag", "len", "make", "new", "panic",
       "print", "println", "real", "recover"] := by decide

/-- … each has a clause in `emitBuiltin`, and no other name has … -/
theorem builtins_all_emitted :
    builtinEmits.map Prod.fst = (universeBlock.filter fun x => x.2 == .builtin).map Prod.fst := by
  decide

/-- … and the only ones whose emission contains an instruction that leaves the VM for the host
are `print` and `println` (the environment's print hook). Nothing in the universe is a native
function or a package (`universe_kinds`, used by `natives_confined`). -/
theorem host_builtins : hostBuiltins = ["print", "println"] := by decide

/-- a more local declaration shadows the globals, and the globals shadow the universe: the
universe is consulted last -/
theorem globals_shadow_universe (c : Cfg) (template : Bool) (g : GlobalDecl)
    (hfirst : (globalScope c).lookup g.name = some ⟨g.kind, .global, g.members⟩) :
    lookup (State.init c template).scopes g.name = some ⟨g.kind, .global, g.members⟩ := by
  simp [State.init, lookup, hfirst]

example : lookup (State.init ⟨none, [], [⟨"len", .func, []⟩], false⟩ true).scopes "len"
    = some ⟨.func, .global, []⟩ := by decide

end ScriggoV.Scopes

namespace ScriggoV.EnvPool
open ScriggoV.Gen.NativeEnv
open ScriggoV.Runs

/-- **C19, the code's treatment of per-run data on the way to a native call** (decide over the
regenerated facts): in `callNative` each of the three classes of slots of the pooled argument
slice — `native.Env`, ordinary, variadic — is written on every path through its branch of the fill
loop; what goes into an env slot is `vm.envArg`; `envArg` is `reflect.ValueOf` of the VM's `env`
at each of the places that assign either, and no VM literal sets them; every `create` gives the
new VM the env of the VM creating it (`NewVM` alone makes a new one, `(*callable).Value` is only
ever handed `vm.env`); the `Call`/`CallSlice` come after the fill loop and are handed the slice. -/
theorem code_rules_sound : codeRules.Sound := by decide

/-- **C19, every pooled slot that holds per-run data is overwritten before use.** Under sound
rules what the callee is handed does not depend on what the pooled slice held. -/
theorem every_pooled_slot_overwritten (R : Rules) (hR : R.Sound) (e : Nat) (input : Int)
    (sig : List SlotClass) (old old' : List Slot) (as : List Int) :
    fillSlice R e input sig old as = fillSlice R e input sig old' as := by
  rw [fillSlice_always R hR.fillOf, fillSlice_always R hR.fillOf]

/-- **C19, the env a native call observes in run `i` is the env of run `i`** — for every history:
any artefact (any native signatures, any sequence of native calls from the run's VM, from goroutine
VMs and from callback VMs, synchronous or started with `go`), any contents of the pools (whatever
earlier runs left there), any number of runs with any envs and inputs, any schedule. Every
observation `(i, o)` of the trace was made by a callee that found exactly the arguments run `i`
passes (`got = want`), and every `native.Env` among them is the env of run `i`. -/
theorem native_env_is_run_env (R : Rules) (hR : R.Sound) (s : Sys (machine R))
    (htr : s.trace = []) (hpend : ∀ l ∈ s.ls, ∀ p ∈ l.inflight, Seen.Good l.env p)
    (sched : List Nat) :
    ∀ p ∈ (runSched sched s).trace, ∃ l₀ : EnvPool.Run,
      s.ls[p.1]? = some l₀ ∧ p.2.got = p.2.want ∧ ∀ e ∈ envsOf p.2.got, e = l₀.env := by
  have h0 : Inv R s s := by
    refine ⟨fun i l hl => ⟨l, hl, rfl, hpend l (List.mem_of_getElem? hl)⟩, fun p hp => ?_⟩
    rw [htr] at hp; cases hp
  intro p hp
  obtain ⟨l₀, hl₀, hg, he⟩ := (inv_runSched hR s sched s h0).2 p hp
  exact ⟨l₀, hl₀, hg, by rw [hg]; exact he⟩

/-- … and so for the code as it is -/
theorem code_native_env_is_run_env (s : Sys (machine codeRules))
    (htr : s.trace = []) (hpend : ∀ l ∈ s.ls, ∀ p ∈ l.inflight, Seen.Good l.env p)
    (sched : List Nat) :
    ∀ p ∈ (runSched sched s).trace, ∃ l₀ : EnvPool.Run,
      s.ls[p.1]? = some l₀ ∧ p.2.got = p.2.want ∧ ∀ e ∈ envsOf p.2.got, e = l₀.env :=
  native_env_is_run_env codeRules code_rules_sound s htr hpend sched

def soundRules : Rules := ⟨.always, .always, .always, true, true, true, true⟩

/-- non-vacuity: two runs, a pool holding the env of some run 7, an interleaved schedule, a
synchronous call and one started with `go` from a callback VM — each callee is handed its own
run's env and arguments -/
example :
    (runSched [1, 0, 1, 0, 1, 0]
      (⟨⟨[[.env, .reg]], [⟨0, .main, false, [0, 10]⟩, ⟨0, .callback, true, [0, 20]⟩], [[[.env 7, .val 0]]]⟩,
        [{ env := 0, input := 0 }, { env := 1, input := 1 }], []⟩ : Sys (machine soundRules))).trace
    = [(1, ⟨0, [.env 1, .val 11], [.env 1, .val 11]⟩), (0, ⟨0, [.env 0, .val 10], [.env 0, .val 10]⟩),
       (1, ⟨0, [.env 1, .val 21], [.env 1, .val 21]⟩), (0, ⟨0, [.env 0, .val 20], [.env 0, .val 20]⟩)] := by
  decide

/-- **the hypothesis is needed (1).** If the env slot is written only while it is still empty —
"the env does not change during the execution" — the second run of a built artefact calls its
native function with the env of the first run: its print hook, its context. -/
theorem env_written_only_if_empty_is_stale :
    (runSched [0, 1] (freshSys { soundRules with envFill := .ifEmpty } [[.env, .reg]]
      [⟨0, .main, false, [0, 5]⟩] 2)).trace
    = [(0, ⟨0, [.env 0, .val 5], [.env 0, .val 5]⟩), (1, ⟨0, [.env 0, .val 6], [.env 1, .val 6]⟩)] := by
  decide

/-- **the hypothesis is needed (2).** The same for an ordinary argument that is not rewritten, … -/
theorem arg_not_rewritten_is_stale :
    ((runSched [0, 1] (freshSys { soundRules with regFill := .never } [[.env, .reg]]
      [⟨0, .main, false, [0]⟩] 2)).trace.map fun p => (p.1, p.2.got))
    = [(0, [.env 0, .empty]), (1, [.env 1, .empty])] := by
  decide

/-- **(3)** … for a callback VM that would not inherit the env of the VM calling the native
function that calls back, … -/
theorem spawned_vm_with_other_env_is_foreign :
    ((runSched [0] (freshSys { soundRules with spawnInherits := false } [[.env]]
      [⟨0, .callback, false, []⟩] 1)).trace.map fun p => (p.1, p.2.got))
    = [(0, [.env 1])] := by
  decide

/-- **(4)** … and for a call made before the slice is filled. -/
theorem call_before_fill_is_stale :
    ((runSched [0, 1] (freshSys { soundRules with fillBeforeCall := false } [[.env]]
      [⟨0, .main, false, []⟩] 2)).trace.map fun p => (p.1, p.2.got))
    = [(0, []), (1, [.env 0])] := by
  decide

end ScriggoV.EnvPool
