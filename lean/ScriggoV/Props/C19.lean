import ScriggoV.Lemmas.Scopes
/-! C19 — code can reach only the host functionality the embedder supplies.

Property theorems only (model: `Model/Scopes.lean`, lemmas: `Lemmas/Scopes.lean`). The universe
block, the builtins' emitted instructions, the `go` gate and the exits of a native import are the
definitions of `Gen/Universe.lean`, regenerated from /repo on every check.

Not covered (DESIGN.md §7 C19): what a supplied *value* lets code do through its own methods, its
function-typed fields or the functions it returns — at run time `OpCallIndirect` calls whatever
function value such a supplied value yields; the model confines the *names* code can resolve, and
the harness observes the supplied functions that actually run. -/
namespace ScriggoV.Scopes
open ScriggoV.Gen.Universe

/-- **C19, confinement of names.** After any sequence of checker operations that does not fail,
every name that resolves does so to an entry with one of the four provenances, each accounted
for: a universe entry is in the (regenerated) universe block or a format type, a global is one
the embedder declared, an `importer p` entry is the package the importer returned for `p` or one
of its declarations, anything else was declared by the code itself. -/
theorem resolved_names_are_supplied (c : Cfg) (template : Bool) (ops : List Op) (st : State)
    (h : check c template ops = .ok st) (name : String) (e : Entry)
    (hl : lookup st.scopes name = some e) : Entry.Legit c name e :=
  lookup_legit (run_legit ops _ st (init_legit c template) h).scopes hl

example :
    (match check ⟨some [("p", ⟨"p", [⟨"F", .func⟩]⟩)], [], [⟨"g", .func, []⟩], false⟩ true
      [.importNative "p" .default, .enter, .declare "x" .var, .useSelector "p" "F", .useIdent "g"] with
    | .ok st => (st.natives, (lookup st.scopes "p").map (·.prov))
    | .error _ => ([], none))
    = ([⟨.global, "g"⟩, ⟨.importer "p", "p.F"⟩], some (.importer "p")) := by decide

/-- **C19, the native functions of a compiled artefact.** Every native function the emitter
records (`Function.NativeFunctions`, the only operands of `OpCallNative` / `OpLoadFunc`) is a
function among the declared globals, a function of an auto-imported package among them, or a
function of a package the importer returned — never a universe entry, never anything else. -/
theorem natives_confined (c : Cfg) (template : Bool) (ops : List Op) (st : State)
    (h : check c template ops = .ok st) : ∀ nf ∈ st.natives, NativeFn.Legit c nf :=
  (run_legit ops _ st (init_legit c template) h).natives

/-- **C19, imports.** A check that contains the import of a path for which the importer does not
return a package — nil importer, nil package or an error — fails, whatever the form of the
import and whatever else the code does. -/
theorem unprovided_import_fails (c : Cfg) (template : Bool) (ops : List Op) (path : String)
    (form : ImportForm) (hp : ∀ p, c.importPath path ≠ some (.pkg p))
    (hmem : .importNative path form ∈ ops) : ∃ e, check c template ops = .error e := by
  refine run_fails_of_mem ?_ ops hmem _
  intro st
  simp only [step, importNative]
  cases hi : c.importPath path with
  | none => exact ⟨_, rfl⟩
  | some r =>
    cases r with
    | err => exact ⟨_, rfl⟩
    | nilPkg => exact ⟨_, rfl⟩
    | pkg p => exact absurd hi (hp p)

example : check ⟨some [("p", ⟨"p", []⟩)], [], [], false⟩ false [.importNative "os" .default]
    = .error (.cannotFindPackage "os") := rfl

/-- **C19, the `go` gate.** Unless `AllowGoStmt` is set, a check that contains a `go` statement —
at top level, in a function, in a function literal, anywhere — fails. -/
theorem go_rejected_unless_allowed (c : Cfg) (template : Bool) (ops : List Op)
    (hgo : c.allowGo = false) (hmem : .goStmt ∈ ops) : ∃ e, check c template ops = .error e := by
  refine run_fails_of_mem ?_ ops hmem _
  intro st
  exact ⟨.goNotAvailable, by simp [step, hgo]⟩

/-- the model's gate is the code's: the regenerated gate is an unconditional statement of the
`*ast.Go` clause -/
theorem go_gate_unconditional : goGateUnconditional = true := rfl

/-- **C19, the universe.** The builtin functions of the regenerated universe block are exactly
these fifteen … -/
theorem universe_builtins :
    (universeBlock.filter fun x => x.2 == .builtin).map Prod.fst =
      ["append", "cap", "close", "complex", "copy", "delete", "imag", "len", "make", "new", "panic",
       "print", "println", "real", "recover"] := by decide

/-- … each has a clause in `emitBuiltin`, and no other name has … -/
theorem builtins_all_emitted :
    builtinEmits.map Prod.fst = (universeBlock.filter fun x => x.2 == .builtin).map Prod.fst := by
  decide

/-- … and the only ones whose emission contains an instruction that leaves the VM for the host
are `print` and `println` (the environment's print hook). Nothing in the universe is a native
function or a package (`universe_kinds`, used by `natives_confined`). -/
theorem host_builtins : hostBuiltins = ["print", "println"] := by decide

/-- a more local declaration shadows the globals, and the globals shadow the universe: the
universe is consulted last -/
theorem globals_shadow_universe (c : Cfg) (template : Bool) (g : GlobalDecl)
    (hfirst : (globalScope c).lookup g.name = some ⟨g.kind, .global, g.members⟩) :
    lookup (State.init c template).scopes g.name = some ⟨g.kind, .global, g.members⟩ := by
  simp [State.init, lookup, hfirst]

example : lookup (State.init ⟨none, [], [⟨"len", .func, []⟩], false⟩ true).scopes "len"
    = some ⟨.func, .global, []⟩ := by decide

end ScriggoV.Scopes
