import ScriggoV.Lemmas.Scopes
import ScriggoV.Lemmas.EnvPool
import ScriggoV.Lemmas.ImporterPolicy
/-! C19 — code can reach only the host functionality the embedder supplies.

Property theorems only (model: `Model/Scopes.lean`, lemmas: `Lemmas/Scopes.lean`). The universe
block, the builtins' emitted instructions, the `go` gate and the exits of a native import are the
definitions of `Gen/Universe.lean`, regenerated from /repo on every check.

Not covered (DESIGN.md §7 C19): what a supplied *value* lets code do through its own methods, its
function-typed fields or the functions it returns — at run time `OpCallIndirect` calls whatever
function value such a supplied value yields; the model confines the *names* code can resolve, and
the harness observes the supplied functions that actually run.

Second part (`ScriggoV.EnvPool`, model: `Model/EnvPool.lean` over the run histories of
`Model/Runs.lean`): *which* print hook / context a supplied function reaches — the ones of the run
that calls it, for every history of runs of one built artefact, whatever earlier runs left in the
pooled argument slices. The way `callNative` fills a pooled slice and the way a VM gets its env are
the definitions of `Gen/NativeEnv.lean`, regenerated from /repo on every check.

Third part (`ScriggoV.ImporterPolicy`, model: `Model/ImporterPolicy.lean` over the importer values
of `Model/Packages.lean`): the configured importer as a tree of members (`Packages`, importers of
the embedder's own, `CombinedImporter` at any nesting) — a path is supplied by the first member
with a decisive answer, and a refusal is decisive. The stop condition of `CombinedImporter.Import`
is the definition of `Gen/Importers.lean`, regenerated from /repo on every check. -/
namespace ScriggoV.Scopes
open ScriggoV.Gen.Universe

/-- **C19, confinement of names.** After any sequence of checker operations that does not fail,
every name that resolves does so to an entry with one of the four provenances, each accounted
for: a universe entry is in the (regenerated) universe block or a format type, a global is one
the embedder declared, an `importer p` entry is the package the importer returned for `p` or one
of its declarations, anything else was declared by the code itself. -/
theorem resolved_names_are_supplied (c : Cfg) (template : Bool) (ops : List Op) (st : State)
    (h : check c template ops = .ok st) (name : String) (e : Entry)
    (hl : lookup st.scopes name = some e) : Entry.Legit c name e :=
  lookup_legit (run_legit ops _ st (init_legit c template) h).scopes hl

example :
    (match check ⟨some [("p", ⟨"p", [⟨"F", .func⟩]⟩)], [], [⟨"g", .func, []⟩], false⟩ true
      [.importNative "p" .default, .enter, .declare "x" .var, .useSelector "p" "F", .useIdent "g"] with
    | .ok st => (st.natives, (lookup st.scopes "p").map (·.prov))
    | .error _ => ([], none))
    = ([⟨.global, "g"⟩, ⟨.importer "p", "p.F"⟩], some (.importer "p")) := by decide

/-- **C19, the native functions of a compiled artefact.** Every native function the emitter
records (`Function.NativeFunctions`, the only operands of `OpCallNative` / `OpLoadFunc`) is a
function among the declared globals, a function of an auto-imported package among them, or a
function of a package the importer returned — never a universe entry, never anything else. -/
theorem natives_confined (c : Cfg) (template : Bool) (ops : List Op) (st : State)
    (h : check c template ops = .ok st) : ∀ nf ∈ st.natives, NativeFn.Legit c nf :=
  (run_legit ops _ st (init_legit c template) h).natives

/-- **C19, imports.** A check that contains the import of a path for which the importer does not
return a package — nil importer, nil package or an error — fails, whatever the form of the
import and whatever else the code does. -/
theorem unprovided_import_fails (c : Cfg) (template : Bool) (ops : List Op) (path : String)
    (form : ImportForm) (hp : ∀ p, c.importPath path ≠ some (.pkg p))
    (hmem : .importNative path form ∈ ops) : ∃ e, check c template ops = .error e := by
  refine run_fails_of_mem ?_ ops hmem _
  intro st
  simp only [step, importNative]
  cases hi : c.importPath path with
  | none => exact ⟨_, rfl⟩
  | some r =>
    cases r with
    | err => exact ⟨_, rfl⟩
    | nilPkg => exact ⟨_, rfl⟩
    | pkg p => exact absurd hi (hp p)

example : check ⟨some [("p", ⟨"p", []⟩)], [], [], false⟩ false [.importNative "os" .default]
    = .error (.cannotFindPackage "os") := rfl

/-- **C19, the `go` gate.** Unless `AllowGoStmt` is set, a check that contains a `go` statement —
at top level, in a function, in a function literal, anywhere — fails. -/
theorem go_rejected_unless_allowed (c : Cfg) (template : Bool) (ops : List Op)
    (hgo : c.allowGo = false) (hmem : .goStmt ∈ ops) : ∃ e, check c template ops = .error e := by
  refine run_fails_of_mem ?_ ops hmem _
  intro st
  exact ⟨.goNotAvailable, by simp [step, hgo]⟩

/-- the model's gate is the code's: the regenerated gate is an unconditional statement of the
`*ast.Go` clause -/
theorem go_gate_unconditional : goGateUnconditional = true := rfl

/-- **C19, the universe.** The builtin functions of the regenerated universe block are exactly
these fifteen … -/
theorem universe_builtins :
    (universeBlock.filter fun x => x.2 == .builtin).map Prod.fst =
      ["append", "cap", "close", "complex", "copy", "delete", "imag", "len", "make", "new", "panic",
       "print", "println", "real", "recover"] := by decide

/-- … each has a clause in `emitBuiltin`, and no other name has … -/
theorem builtins_all_emitted :
    builtinEmits.map Prod.fst = (universeBlock.filter fun x => x.2 == .builtin).map Prod.fst := by
  decide

/-- … and the only ones whose emission contains an instruction that leaves the VM for the host
are `print` and `println` (the environment's print hook). Nothing in the universe is a native
function or a package (`universe_kinds`, used by `natives_confined`). -/
theorem host_builtins : hostBuiltins = ["print", "println"] := by decide

/-- a more local declaration shadows the globals, and the globals shadow the universe: the
universe is consulted last -/
theorem globals_shadow_universe (c : Cfg) (template : Bool) (g : GlobalDecl)
    (hfirst : (globalScope c).lookup g.name = some ⟨g.kind, .global, g.members⟩) :
    lookup (State.init c template).scopes g.name = some ⟨g.kind, .global, g.members⟩ := by
  simp [State.init, lookup, hfirst]

example : lookup (State.init ⟨none, [], [⟨"len", .func, []⟩], false⟩ true).scopes "len"
    = some ⟨.func, .global, []⟩ := by decide

end ScriggoV.Scopes

namespace ScriggoV.EnvPool
open ScriggoV.Gen.NativeEnv
open ScriggoV.Runs

/-- **C19, the code's treatment of per-run data on the way to a native call** (decide over the
regenerated facts): in `callNative` each of the three classes of slots of the pooled argument
slice — `native.Env`, ordinary, variadic — is written on every path through its branch of the fill
loop; what goes into an env slot is `vm.envArg`; `envArg` is `reflect.ValueOf` of the VM's `env`
at each of the places that assign either, and no VM literal sets them; every `create` gives the
new VM the env of the VM creating it (`NewVM` alone makes a new one, `(*callable).Value` is only
ever handed `vm.env`); the `Call`/`CallSlice` come after the fill loop and are handed the slice. -/
theorem code_rules_sound : codeRules.Sound := by decide

/-- **C19, every pooled slot that holds per-run data is overwritten before use.** Under sound
rules what the callee is handed does not depend on what the pooled slice held. -/
theorem every_pooled_slot_overwritten (R : Rules) (hR : R.Sound) (e : Nat) (input : Int)
    (sig : List SlotClass) (old old' : List Slot) (as : List Int) :
    fillSlice R e input sig old as = fillSlice R e input sig old' as := by
  rw [fillSlice_always R hR.fillOf, fillSlice_always R hR.fillOf]

/-- **C19, the env a native call observes in run `i` is the env of run `i`** — for every history:
any artefact (any native signatures, any sequence of native calls from the run's VM, from goroutine
VMs and from callback VMs, synchronous or started with `go`), any contents of the pools (whatever
earlier runs left there), any number of runs with any envs and inputs, any schedule. Every
observation `(i, o)` of the trace was made by a callee that found exactly the arguments run `i`
passes (`got = want`), and every `native.Env` among them is the env of run `i`. -/
theorem native_env_is_run_env (R : Rules) (hR : R.Sound) (s : Sys (machine R))
    (htr : s.trace = []) (hpend : ∀ l ∈ s.ls, ∀ p ∈ l.inflight, Seen.Good l.env p)
    (sched : List Nat) :
    ∀ p ∈ (runSched sched s).trace, ∃ l₀ : EnvPool.Run,
      s.ls[p.1]? = some l₀ ∧ p.2.got = p.2.want ∧ ∀ e ∈ envsOf p.2.got, e = l₀.env := by
  have h0 : Inv R s s := by
    refine ⟨fun i l hl => ⟨l, hl, rfl, hpend l (List.mem_of_getElem? hl)⟩, fun p hp => ?_⟩
    rw [htr] at hp; cases hp
  intro p hp
  obtain ⟨l₀, hl₀, hg, he⟩ := (inv_runSched hR s sched s h0).2 p hp
  exact ⟨l₀, hl₀, hg, by rw [hg]; exact he⟩

/-- … and so for the code as it is -/
theorem code_native_env_is_run_env (s : Sys (machine codeRules))
    (htr : s.trace = []) (hpend : ∀ l ∈ s.ls, ∀ p ∈ l.inflight, Seen.Good l.env p)
    (sched : List Nat) :
    ∀ p ∈ (runSched sched s).trace, ∃ l₀ : EnvPool.Run,
      s.ls[p.1]? = some l₀ ∧ p.2.got = p.2.want ∧ ∀ e ∈ envsOf p.2.got, e = l₀.env :=
  native_env_is_run_env codeRules code_rules_sound s htr hpend sched

def soundRules : Rules := ⟨.always, .always, .always, true, true, true, true⟩

/-- non-vacuity: two runs, a pool holding the env of some run 7, an interleaved schedule, a
synchronous call and one started with `go` from a callback VM — each callee is handed its own
run's env and arguments -/
example :
    (runSched [1, 0, 1, 0, 1, 0]
      (⟨⟨[[.env, .reg]], [⟨0, .main, false, [0, 10]⟩, ⟨0, .callback, true, [0, 20]⟩], [[[.env 7, .val 0]]]⟩,
        [{ env := 0, input := 0 }, { env := 1, input := 1 }], []⟩ : Sys (machine soundRules))).trace
    = [(1, ⟨0, [.env 1, .val 11], [.env 1, .val 11]⟩), (0, ⟨0, [.env 0, .val 10], [.env 0, .val 10]⟩),
       (1, ⟨0, [.env 1, .val 21], [.env 1, .val 21]⟩), (0, ⟨0, [.env 0, .val 20], [.env 0, .val 20]⟩)] := by
  decide

/-- **the hypothesis is needed (1).** If the env slot is written only while it is still empty —
"the env does not change during the execution" — the second run of a built artefact calls its
native function with the env of the first run: its print hook, its context. -/
theorem env_written_only_if_empty_is_stale :
    (runSched [0, 1] (freshSys { soundRules with envFill := .ifEmpty } [[.env, .reg]]
      [⟨0, .main, false, [0, 5]⟩] 2)).trace
    = [(0, ⟨0, [.env 0, .val 5], [.env 0, .val 5]⟩), (1, ⟨0, [.env 0, .val 6], [.env 1, .val 6]⟩)] := by
  decide

/-- **the hypothesis is needed (2).** The same for an ordinary argument that is not rewritten, … -/
theorem arg_not_rewritten_is_stale :
    ((runSched [0, 1] (freshSys { soundRules with regFill := .never } [[.env, .reg]]
      [⟨0, .main, false, [0]⟩] 2)).trace.map fun p => (p.1, p.2.got))
    = [(0, [.env 0, .empty]), (1, [.env 1, .empty])] := by
  decide

/-- **(3)** … for a callback VM that would not inherit the env of the VM calling the native
function that calls back, … -/
theorem spawned_vm_with_other_env_is_foreign :
    ((runSched [0] (freshSys { soundRules with spawnInherits := false } [[.env]]
      [⟨0, .callback, false, []⟩] 1)).trace.map fun p => (p.1, p.2.got))
    = [(0, [.env 1])] := by
  decide

/-- **(4)** … and for a call made before the slice is filled. -/
theorem call_before_fill_is_stale :
    ((runSched [0, 1] (freshSys { soundRules with fillBeforeCall := false } [[.env]]
      [⟨0, .main, false, []⟩] 2)).trace.map fun p => (p.1, p.2.got))
    = [(0, []), (1, [.env 0])] := by
  decide

end ScriggoV.EnvPool

namespace ScriggoV.ImporterPolicy
open ScriggoV.Packages ScriggoV.Scopes
open ScriggoV.Gen.Importers

/-- **C19, when a combination of importers stops asking** (the regenerated facts): the loop of
`CombinedImporter.Import` returns a member's answer when it carries a package **or an error**, … -/
theorem code_stop_rule : codeRule = ⟨true, true⟩ := by decide

/-- … returns it as it is, answers (nil, nil) when no member is decisive, and `Packages.Import` is
the map lookup. -/
theorem code_importers_shape :
    stopReturnsAnswer = true ∧ fallThroughNilNil = true ∧ packagesImportExact = true := by decide

/-- the checker looks at the importer's error before it looks at the package (`toResult`) -/
theorem import_exits_order :
    ScriggoV.Gen.Universe.importExits = ["nil-importer", "importer-error", "nil-package"] := by decide

/-- **C19, `combined_import_first_decisive`.** For every importer tree — `Packages`, importers of
the embedder's own with any answers, `CombinedImporter` at any nesting — `Import(path)` is the
answer of the first non-combined member, in order, that is not (nil, nil): a package supplies the
path, an error refuses it, and in both cases no later member has a say. -/
theorem combined_import_first_decisive (t : Tree) (path : String) :
    eval codeRule t path = firstDecisive t.leaves path := by
  rw [code_stop_rule]; exact eval_aux t path

theorem toResult_pkg {a : Answer} {k : NativePkg} (h : toResult a = .pkg k) : a = (some k, none) := by
  rcases a with ⟨_ | p, _ | e⟩ <;> simp [toResult] at h
  rw [h]

/-- **C19, everything reachable of a path comes from the first decisive member.** After a check
under an importer tree that does not fail, every native function recorded for a path `p` is a
function of the package that the first decisive member of the tree supplied for `p` (with no
error), … -/
theorem natives_from_first_decisive (t : Tree) (globals : List GlobalDecl) (allowGo template : Bool)
    (ops : List Op) (st : State) (h : checkTree codeRule (some t) globals allowGo template ops = .ok st)
    (nf : NativeFn) (hnf : nf ∈ st.natives) (p : String) (hp : nf.prov = .importer p) :
    ∃ pkg, firstDecisive t.leaves p = (some pkg, none) ∧ ∃ d ∈ pkg.decls, d.kind = .func ∧
      (nf.name = d.name ∨ ∃ q, nf.name = q ++ "." ++ d.name) := by
  have hl := natives_confined _ template ops st h nf hnf
  simp only [NativeFn.Legit, hp] at hl
  obtain ⟨pkg, hpkg, hd⟩ := hl
  obtain ⟨t', ht', hres⟩ := flat_importPath_pkg hpkg
  cases ht'
  exact ⟨pkg, by rw [← combined_import_first_decisive]; exact toResult_pkg hres, hd⟩

/-- … and so is every name that resolves to something of `p`: the package itself or one of its
declarations (functions, variables, constants, types). -/
theorem names_from_first_decisive (t : Tree) (globals : List GlobalDecl) (allowGo template : Bool)
    (ops : List Op) (st : State) (h : checkTree codeRule (some t) globals allowGo template ops = .ok st)
    (name : String) (e : Entry) (hl : lookup st.scopes name = some e) (p : String)
    (hp : e.prov = .importer p) :
    ∃ pkg, firstDecisive t.leaves p = (some pkg, none) ∧
      ((e.kind = .pkg ∧ e.members = pkg.decls) ∨ (⟨name, e.kind⟩ ∈ pkg.decls ∧ e.members = [])) := by
  have hleg := resolved_names_are_supplied _ template ops st h name e hl
  simp only [Entry.Legit, hp] at hleg
  obtain ⟨pkg, hpkg, hd⟩ := hleg
  obtain ⟨t', ht', hres⟩ := flat_importPath_pkg hpkg
  cases ht'
  exact ⟨pkg, by rw [← combined_import_first_decisive]; exact toResult_pkg hres, hd⟩

/-- **C19, `refused_path_unreachable`.** If a member refuses a path (answers with an error) before
any member supplies it, nothing of that path is reachable, whatever later members offer: no native
function of the path is recorded and no name resolves to the path's package or declarations … -/
theorem refused_path_unreachable (t : Tree) (path : String)
    (href : RefusedBeforeSupplied t.leaves path) (globals : List GlobalDecl)
    (allowGo template : Bool) (ops : List Op) (st : State)
    (h : checkTree codeRule (some t) globals allowGo template ops = .ok st) :
    (∀ nf ∈ st.natives, nf.prov ≠ .importer path) ∧
    (∀ name e, lookup st.scopes name = some e → e.prov ≠ .importer path) := by
  have herr := firstDecisive_refused href
  refine ⟨fun nf hnf hp => ?_, fun name e hl hp => ?_⟩
  · obtain ⟨pkg, hfd, _⟩ := natives_from_first_decisive t globals allowGo template ops st h nf hnf path hp
    rw [hfd] at herr; cases herr
  · obtain ⟨pkg, hfd, _⟩ := names_from_first_decisive t globals allowGo template ops st h name e hl path hp
    rw [hfd] at herr; cases herr

/-- … and a check that imports the path fails, in every form of import. -/
theorem refused_import_fails (t : Tree) (path : String)
    (href : RefusedBeforeSupplied t.leaves path) (globals : List GlobalDecl)
    (allowGo template : Bool) (ops : List Op) (form : ImportForm)
    (hmem : .importNative path form ∈ ops) :
    ∃ e, checkTree codeRule (some t) globals allowGo template ops = .error e := by
  refine unprovided_import_fails _ template ops path form (fun p hp => ?_) hmem
  obtain ⟨t', ht', hres⟩ := flat_importPath_pkg hp
  cases ht'
  have herr := firstDecisive_refused href
  rw [← combined_import_first_decisive, toResult_pkg hres] at herr
  cases herr

/-- a policy importer that refuses `p`, combined with a `Packages` that has `p` -/
def denyThenSupply : Tree :=
  .combined [.custom 0 (fun path => if path = "p" then (none, some 7) else (none, none)),
    .combined [.packages [("q", some ⟨"q", []⟩)], .packages [("p", some ⟨"p", [⟨"F", .func⟩]⟩)]]]

example : RefusedBeforeSupplied denyThenSupply.leaves "p" := by
  refine ⟨[], .custom 0 (fun path => if path = "p" then (none, some 7) else (none, none)),
    [.packages [("q", some ⟨"q", []⟩)], .packages [("p", some ⟨"p", [⟨"F", .func⟩]⟩)]], rfl, ?_, rfl⟩
  intro a h; cases h

/-- with the code's rule the import of the refused path is the importer's error … -/
example : (match checkTree codeRule (some denyThenSupply) [] false false
      [.importNative "p" .default, .enter, .useSelector "p" "F"] with
    | .ok st => some st.natives | .error _ => none) = none := by decide

/-- … **and the hypothesis is needed**: under a stop rule that drops a member's error and carries
on (`if p != nil`), the later member's package is imported and its function is reachable. -/
theorem dropped_error_reaches_later_member :
    (match checkTree ⟨true, false⟩ (some denyThenSupply) [] false false
      [.importNative "p" .default, .enter, .useSelector "p" "F"] with
    | .ok st => some st.natives | .error _ => none) = some [⟨.importer "p", "p.F"⟩] := by decide

end ScriggoV.ImporterPolicy
