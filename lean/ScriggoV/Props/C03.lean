import ScriggoV.Lemmas.TypeCheckStmt
import ScriggoV.Lemmas.Terminating
import ScriggoV.Model.Assignable
import ScriggoV.Lemmas.TypeIdent
import ScriggoV.Gen.TypeIdentical
/-! # C03 — what is proved about the Go typing rules of the fragment

The *model* is `Model/TypeCheck.lean` (the Go specification's typing of expressions and
statements over the fifteen basic types, validated against `go/types` on every run of the
check); the *reference evaluator* is `Spec/TypeCheckEval.lean`.

1. **Type soundness** (`eval_sound`, `exec_sound`, `program_sound`): a term the checker accepts
   evaluates to a value of its static type in canonical representation (integers within the
   range of their type; constants to exactly the value the checker computed) or to one of the
   two run-time panics of the fragment; it is never `stuck` — nothing ill-typed reaches
   evaluation. For every interpretation of run-time `float64` arithmetic (`FloatSem`).
2. **Decision logic**, stated outright for all operands.

Equivalence of Scriggo's `Build` with `go/types` on the whole language is *not* a theorem; the
model is tied to both only by the differential runs of `go/props/c03`. -/
namespace ScriggoV.Props.C03
open ScriggoV.TypeCheck

variable {F : Type} (fs : FloatSem F)

/-- the checker accepts `e` in `Γ` as an operand `o` that has a type -/
def WellTyped (Γ : Env) (e : Expr) (o : Operand) : Prop := checkExpr Γ e = .ok o ∧ o.ty ≠ .nil

/-! ## 1. Type soundness -/

/-- **Soundness of expressions.** -/
theorem eval_sound {Γ : Env} {ρ : DEnv F} {e : Expr} {o : Operand}
    (hw : WellTyped Γ e o) (he : EnvOK Γ ρ) : ResultOK o (eval fs ρ e) :=
  checkExpr_sound fs he e hw.1 hw.2

/-- what `ResultOK` gives for an expression of integer type `k`: a value of type `k` within the
range of `k`, or a panic; a constant evaluates to exactly its static value and never panics -/
theorem eval_sound_int {Γ : Env} {ρ : DEnv F} {e : Expr} {k : IKind} {c : Option CVal}
    (hw : WellTyped Γ e ⟨.typed (.int k), c⟩) (he : EnvOK Γ ρ) :
    (∃ n, eval fs ρ e = .ok (.int k n) ∧ inRange k n = true ∧ (∀ m, c = some (.int m) → n = m)) ∨
    (c = none ∧ ∃ p, eval fs ρ e = .panic p) := by
  have h := eval_sound fs hw he
  cases hr : eval fs ρ e with
  | ok v =>
    rw [hr] at h
    have hv := vok_of_valOK h
    cases hv with
    | intC _ n hn => exact .inl ⟨n, rfl, hn, by intro m hm; injection hm with hm; injection hm with hm⟩
    | intV _ n hn => exact .inl ⟨n, rfl, hn, by intro m hm; cases hm⟩
  | panic p => rw [hr] at h; exact .inr ⟨h, p, rfl⟩
  | stuck => rw [hr] at h; exact h.elim

/-- **Soundness of statements**: executing an accepted statement list in a matching environment
ends in an environment matching the new static environment, or in a run-time panic. -/
theorem exec_sound {Γ Γ' : Env} {ρ : DEnv F} {ss : List Stmt}
    (h : checkStmts Γ ss = .ok Γ') (he : EnvOK Γ ρ) : StmtOK Γ' (execAll fs ρ ss) :=
  checkStmts_sound fs he ss h

/-- **Soundness of a function body** accepted by the model. -/
theorem program_sound {Γ : Env} {ss : List Stmt} (h : checkProgram ss = .ok Γ) :
    StmtOK Γ (execAll fs ([] : DEnv F) ss) := by
  unfold checkProgram at h
  obtain ⟨Γ₁, h1, h2⟩ := (bind_ok_iff _ _ _).1 h
  split at h2
  · simp at h2; subst h2
    exact checkStmts_sound fs (by simp [EnvOK]) ss h1
  · cases h2

/-! non-vacuity: `var x int8 = 100; x += 27` is accepted, and so is the expression `x + 27` -/
example : ∃ Γ, checkProgram [.varDecl 0 (some (.int .int8)) (some (.intLit 100)),
    .opAssign .add 0 (.intLit 27)] = .ok Γ := ⟨[(0, .var (.int .int8))], rfl⟩
example : WellTyped [(0, .var (.int .int8))] (.binary .add (.ident 0) (.intLit 27)) ⟨.typed (.int .int8), none⟩ :=
  ⟨rfl, by decide⟩
example : EnvOK (F := F) [(0, .var (.int .int8))] [(0, false, .int .int8 100)] := by
  simp [EnvOK, Entry.isConst, Entry.operand, ValOK, HasType]; decide

/-! ## 2. Decision logic -/

/-- typed operands of different types: every arithmetic, comparison and logical operator rejects
them as mismatched, whatever their values -/
theorem binop_mismatched_typed_rejected (op : BinOp) (hop : op.cls ≠ .shift) (s t : BType) (hst : s ≠ t)
    (a b : Option CVal) :
    checkBinary op ⟨.typed s, a⟩ ⟨.typed t, b⟩ = .error .mismatched := by
  have hm : matchTypes ⟨.typed s, a⟩ ⟨.typed t, b⟩ = .ok (⟨.typed s, a⟩, ⟨.typed t, b⟩) := by
    simp [matchTypes, Ty.isTyped]
  have hne : (Ty.typed s) ≠ (Ty.typed t) := by intro h; injection h with h; exact hst h
  unfold checkBinary
  cases hcls : op.cls
  · simp [hm, bind, Except.bind, checkArith, hne]
  · exact (hop hcls).elim
  · simp [hm, bind, Except.bind, checkComparison, hne]
  · simp [hm, bind, Except.bind, checkArith, hne]

example : checkBinary .add ⟨.typed (.int .int8), none⟩ ⟨.typed (.int .int16), none⟩ = .error .mismatched :=
  binop_mismatched_typed_rejected .add (by decide) _ _ (by decide) _ _

/-- the specification's "representable": the constant is an integer (an integer constant or a
floating-point constant with integral value) within the range of the integer type; a number
below the float64 overflow threshold; a string; a boolean -/
def Representable (c : CVal) (t : BType) : Prop :=
  match t with
  | .int k => ∃ n, c.toInt? = some n ∧ k.minVal ≤ n ∧ n ≤ k.maxVal
  | .float64 => ∃ q, c.toRat? = some q ∧ ¬ (q ≥ f64Overflow ∨ q ≤ -f64Overflow)
  | .string => ∃ s, c = .str s
  | .bool => ∃ b, c = .bool b

theorem representable_ok_iff (c : CVal) (t : BType) :
    (∃ v, representable c t false = .ok v) ↔ Representable c t := by
  cases t with
  | int k =>
    cases c <;> simp [Representable, CVal.toInt?, inRange]
    rename_i q
    by_cases hd : q.den = 1 <;> simp [hd]
  | float64 =>
    cases c <;> simp [Representable, CVal.toRat?, F64OK]
  | string => cases c <;> simp [Representable]
  | bool => cases c <;> simp [Representable]

/-- **an untyped constant can be assigned to a variable of typed basic type `t` exactly when it
is representable in `t`** -/
theorem untyped_const_to_typed_iff_representable (u : UKind) (c : CVal) (t : BType) :
    (∃ o', assignTo ⟨.untyped u, some c⟩ t false = .ok o') ↔ Representable c t := by
  rw [← representable_ok_iff]
  simp only [assignTo, bind_ok_iff, pure_ok_iff]
  constructor
  · rintro ⟨o', v, hv, _⟩; exact ⟨v, hv⟩
  · rintro ⟨v, hv⟩; exact ⟨_, v, hv, rfl⟩

/-- the same rule where the constant meets a typed non-constant operand in an arithmetic
operation (`x + c`): accepted only if `c` is representable in the type of `x` -/
theorem untyped_const_operand_representable (op : BinOp) (hop : op.cls = .arith) (t : BType) (u : UKind)
    (c : CVal) (z : Operand) (h : checkBinary op ⟨.typed t, none⟩ ⟨.untyped u, some c⟩ = .ok z) :
    Representable c t := by
  rw [← representable_ok_iff]
  cases t <;> cases u <;>
    simp [checkBinary, hop, matchTypes, convertTo, Ty.isTyped, Ty.isBoolean, Ty.isString, bind_ok_iff,
      map_ok_iff, checkArith, -representable_string, -representable_bool] at h
  all_goals (
    obtain ⟨_, ⟨v1, hv1, _⟩, _⟩ := h
    exact ⟨v1, hv1⟩)

/-- 127 is representable in `int8`, 128 and 1.5 are not -/
example : Representable (.int 127) (.int .int8) := ⟨127, rfl, by decide, by decide⟩
example : ¬ Representable (.int 128) (.int .int8) := by
  rintro ⟨n, h, _, h2⟩; injection h with h; subst h; revert h2; decide
example : ¬ Representable (.str "a") (.int .int8) := by
  rintro ⟨n, h, _⟩; simp [CVal.toInt?] at h

/-- the count of an accepted shift has integer type, or is an untyped constant whose value is a
non-negative integer representable as `uint` (nothing else: no floats, strings, booleans, no
typed constants of other types — the language specification's rule) -/
theorem shift_count_must_be_integer (op : BinOp) (x y z : Operand) (h : checkShift op x y = .ok z) :
    (∃ k, y.ty = .typed (.int k)) ∨
    (∃ u c n, y.ty = .untyped u ∧ y.val = some c ∧ c.toInt? = some n ∧ 0 ≤ n ∧ n ≤ IKind.uint.maxVal) := by
  simp only [checkShift, ite_error_left] at h
  obtain ⟨hnil, _, h⟩ := h
  obtain ⟨cnt, hc, _⟩ := (bind_ok_iff _ _ _).1 h
  obtain ⟨ty, val⟩ := y
  have hny : ty ≠ .nil := fun hn => hnil (.inr hn)
  cases ty with
  | nil => exact (hny rfl).elim
  | typed t =>
    cases t with
    | int k => exact .inl ⟨k, rfl⟩
    | float64 => cases val <;> simp [shiftCountOf, Ty.isTyped, Ty.isInteger] at hc; split at hc <;> (try split at hc) <;> simp at hc
    | string => cases val <;> simp [shiftCountOf, Ty.isTyped, Ty.isInteger] at hc; split at hc <;> (try split at hc) <;> simp at hc
    | bool => cases val <;> simp [shiftCountOf, Ty.isTyped, Ty.isInteger] at hc; split at hc <;> (try split at hc) <;> simp at hc
  | untyped u =>
    right
    cases val with
    | none => simp [shiftCountOf, Ty.isTyped] at hc
    | some c =>
      simp only [shiftCountOf, Ty.isTyped, Bool.false_eq_true, if_false] at hc
      cases hci : c.toInt? with
      | none => simp only [hci] at hc; split at hc <;> cases hc
      | some n =>
        simp only [hci, ite_error_left, ite_error_right] at hc
        obtain ⟨hn, hr, _⟩ := hc
        refine ⟨u, c, n, rfl, rfl, hci, by omega, ?_⟩
        simp [inRange] at hr
        exact hr.2

/-- a string count, a floating-point variable and the constant 1.5 are rejected; 2.0 is accepted -/
example : checkShift .shl ⟨.typed (.int .int), none⟩ ⟨.untyped .string, some (.str "1")⟩ = .error .shiftCount := rfl
example : checkShift .shl ⟨.typed (.int .int), none⟩ ⟨.typed .float64, none⟩ = .error .shiftCount := rfl
example : checkShift .shl ⟨.typed (.int .int), none⟩ ⟨.untyped .int, some (.int 3)⟩ = .ok ⟨.typed (.int .int), none⟩ := rfl

/-- `nil` is not assignable to a variable or constant of any basic type -/
theorem nil_not_assignable_to_basic (v : Option CVal) (t : BType) (s : Bool) :
    assignTo ⟨.nil, v⟩ t s = .error .nilUse := rfl

/-- `nil` cannot be an operand of any operator or conversion of the fragment, cannot initialise
a variable whose type is inferred, and cannot be assigned to `_` -/
theorem nil_operand_rejected (v : Option CVal) :
    (∀ op, checkUnary op ⟨.nil, v⟩ = .error .nilUse) ∧
    (∀ op y, checkBinary op ⟨.nil, v⟩ y = .error .nilUse) ∧
    (∀ op x, checkBinary op x ⟨.nil, v⟩ = .error .nilUse) ∧
    (∀ t, checkConv t ⟨.nil, v⟩ = .error .nilUse) ∧
    inferType ⟨.nil, v⟩ = .error .nilUse := by
  refine ⟨?_, ?_, ?_, ?_, rfl⟩
  · intro op; simp [checkUnary]
  · intro op y; cases hc : op.cls <;> simp [checkBinary, hc, checkShift, matchTypes, bind, Except.bind]
  · intro op x; cases hc : op.cls <;> simp [checkBinary, hc, checkShift, matchTypes, bind, Except.bind]
  · intro t; cases v <;> rfl

/-- a comparison that is accepted yields an untyped boolean, whatever the operands -/
theorem comparison_result_untyped_bool (op : BinOp) (hop : op.cls = .cmp) (x y z : Operand)
    (h : checkBinary op x y = .ok z) : z.ty = .untyped .bool := by
  unfold checkBinary at h
  simp only [hop] at h
  obtain ⟨⟨x', y'⟩, _, hc⟩ := (bind_ok_iff _ _ _).1 h
  simp only [checkComparison, ite_error_left] at hc
  obtain ⟨_, _, hc⟩ := hc
  split at hc
  · split at hc
    · injection hc with hc; subst hc; rfl
    · cases hc
  · injection hc with hc; subst hc; rfl

example : checkBinary .lt ⟨.typed (.int .int8), none⟩ ⟨.untyped .int, some (.int 3)⟩ = .ok ⟨.untyped .bool, none⟩ := rfl

/-- **constant overflow**: an arithmetic operation on two constants of integer type `k` whose
exact result is outside the range of `k` is rejected as overflow -/
theorem const_overflow_rejected (op : BinOp) (hop : op.cls = .arith) (k : IKind) (a b r : Int)
    (hr : arithInt op a b = some r) (hout : inRange k r = false) :
    checkBinary op ⟨.typed (.int k), some (.int a)⟩ ⟨.typed (.int k), some (.int b)⟩ = .error .overflow := by
  have hdef : opDefined op (.typed (.int k)) = true := by
    cases op <;> simp [arithInt] at hr <;> simp [opDefined, Ty.isNumeric, Ty.isInteger]
  have hb : (op = .quo ∨ op = .rem) → b ≠ 0 := by
    intro ho hb0; subst hb0
    rcases ho with rfl | rfl <;> simp [arithInt] at hr
  unfold checkBinary
  simp only [hop, matchTypes, Ty.isTyped, bind, Except.bind, checkArith]
  simp [hdef, arithConst, hr, CVal.isZero, checkOverflow, representable, CVal.toInt?, hout, bind, Except.bind,
    Ty.isInteger]
  intro ho hb0; exact (hb ho hb0).elim

/-- … and is accepted, with the exact result as value, when it is inside -/
theorem const_in_range_accepted (op : BinOp) (hop : op.cls = .arith) (k : IKind) (a b r : Int)
    (hr : arithInt op a b = some r) (hin : inRange k r = true) :
    checkBinary op ⟨.typed (.int k), some (.int a)⟩ ⟨.typed (.int k), some (.int b)⟩ =
      .ok ⟨.typed (.int k), some (.int r)⟩ := by
  have hdef : opDefined op (.typed (.int k)) = true := by
    cases op <;> simp [arithInt] at hr <;> simp [opDefined, Ty.isNumeric, Ty.isInteger]
  have hb : (op = .quo ∨ op = .rem) → b ≠ 0 := by
    intro ho hb0; subst hb0
    rcases ho with rfl | rfl <;> simp [arithInt] at hr
  unfold checkBinary
  simp only [hop, matchTypes, Ty.isTyped, bind, Except.bind, checkArith]
  simp [hdef, arithConst, hr, CVal.isZero, checkOverflow, representable, CVal.toInt?, hin, bind, Except.bind,
    Ty.isInteger, pure, Except.pure]
  intro ho hb0; exact (hb ho hb0).elim

/-- `int8(100) + int8(28)` overflows, `int8(100) + int8(27)` is the constant 127 -/
example : checkBinary .add ⟨.typed (.int .int8), some (.int 100)⟩ ⟨.typed (.int .int8), some (.int 28)⟩ = .error .overflow :=
  const_overflow_rejected .add rfl .int8 100 28 128 rfl (by decide)
example : checkBinary .add ⟨.typed (.int .int8), some (.int 100)⟩ ⟨.typed (.int .int8), some (.int 27)⟩ =
    .ok ⟨.typed (.int .int8), some (.int 127)⟩ :=
  const_in_range_accepted .add rfl .int8 100 27 127 rfl (by decide)

/-- a constant conversion `T(c)` of an untyped integer constant to an integer type is accepted
exactly when the value is in the range of the type -/
theorem const_conversion_iff_in_range (k : IKind) (n : Int) :
    (∃ z, checkConv (.int k) ⟨.untyped .int, some (.int n)⟩ = .ok z) ↔ inRange k n = true := by
  simp only [checkConv, convConst, representable, CVal.toInt?]
  by_cases h : inRange k n = true <;> simp [h, bind, Except.bind, pure, Except.pure]

/-- a constant divisor zero is rejected (integer operands, or a constant dividend) -/
theorem const_division_by_zero_rejected (op : BinOp) (hop : op = .quo ∨ op = .rem) (k : IKind) (a : Option CVal) :
    checkBinary op ⟨.typed (.int k), a⟩ ⟨.typed (.int k), some (.int 0)⟩ = .error .divByZero := by
  rcases hop with rfl | rfl <;>
    simp [checkBinary, BinOp.cls, matchTypes, Ty.isTyped, bind, Except.bind, checkArith, opDefined, Ty.isNumeric,
      Ty.isInteger, CVal.isZero]

/-! ### declaration/use bookkeeping -/

/-- a name redeclared by a multi-name `:=` is assigned, not used: the statement uses exactly the
identifiers of its right-hand sides -/
theorem redeclaration_is_not_a_use (x y : Nat) (e₁ e₂ : Expr) :
    (Stmt.shortDecl2 x y e₁ e₂).uses = e₁.idents ++ e₂.idents := rfl

/-- a plain assignment does not use its left-hand side either -/
theorem assignment_is_not_a_use (x : Nat) (e : Expr) : (Stmt.assign x e).uses = e.idents := rfl

/-- **a variable that is only declared, assigned or redeclared — never read — makes the body
rejected** ("declared and not used"), however many times it is assigned -/
theorem assigned_only_variable_rejected (ss : List Stmt) (Γ : Env) (h : checkStmts [] ss = .ok Γ)
    (x : Nat) (t : BType) (hx : (x, Entry.var t) ∈ Γ) (hu : x ∉ ss.flatMap Stmt.uses) :
    checkProgram ss = .error .unusedVar := by
  unfold checkProgram
  simp only [h, bind, Except.bind]
  have hmem : x ∈ unusedVars Γ ss := by
    simp only [unusedVars, List.mem_map, List.mem_filter]
    refine ⟨(x, Entry.var t), ⟨hx, ?_⟩, rfl⟩
    simp [hu]
  cases hl : unusedVars Γ ss with
  | nil => rw [hl] at hmem; cases hmem
  | cons a l => simp

/-- `a, b := 1, 2; _ = b; a, c := 3, 4; _ = c`: `a` is declared and redeclared but never read -/
example : checkProgram [.shortDecl2 0 1 (.intLit 1) (.intLit 2), .assignBlank (.ident 1),
    .shortDecl2 0 2 (.intLit 3) (.intLit 4), .assignBlank (.ident 2)] = .error .unusedVar := rfl
/-- … and with a read of `a` it is accepted -/
example : ∃ Γ, checkProgram [.shortDecl2 0 1 (.intLit 1) (.intLit 2), .assignBlank (.ident 1),
    .shortDecl2 0 2 (.intLit 3) (.intLit 4), .assignBlank (.binary .add (.ident 2) (.ident 0))] = .ok Γ :=
  ⟨_, rfl⟩
/-- a multi-name `:=` without a new name is rejected -/
example : checkProgram [.shortDecl2 0 1 (.intLit 1) (.intLit 2), .shortDecl2 0 1 (.intLit 3) (.intLit 4)]
    = .error .noNewVars := rfl

/-- a constant is a constant exactly when all its operands are -/
theorem binary_constant_iff_operands_constant (op : BinOp) (x y z : Operand) (h : checkBinary op x y = .ok z) :
    z.val.isSome = (x.val.isSome && y.val.isSome) := checkBinary_const h

/-! ## 3. Terminating statements ("missing return")

`Model/Terminating.lean` transcribes the specification's definition of a terminating statement
for a skeleton of return / goto / panic / block / if / for / expression switch / type switch /
select / labeled statements with break, continue and fallthrough. -/
section Terminating
open ScriggoV.Terminating

/-- **a terminating statement never completes normally**: whichever way its conditions go,
control does not fall off its end (reference semantics `outs`: return, panic, goto, a break or
continue that leaves it — never `normal`). This is what makes "the function body ends in a
terminating statement" a sound reason not to demand a final `return`. -/
theorem terminating_never_completes_normally (s : TStmt) (label : Option Nat)
    (h : terminating s label = true) : Out.normal ∉ outs s label :=
  terminating_no_normal s label h

theorem terminating_list_never_completes_normally (ss : TList) (h : terminatingL ss = true) :
    Out.normal ∉ outsL ss :=
  terminatingL_no_normal ss h

/-- the rule for `for`: no condition, no range clause, no break referring to it -/
theorem for_terminating_iff (c r : Bool) (body : TList) (label : Option Nat) :
    terminating (.forS c r body) label = true ↔ c = false ∧ r = false ∧ hasBreakL body label true = false := by
  simp [terminating, and_assoc]

/-- the rule for `switch`, type switch and `select`: a default case (not needed for `select`),
no break referring to it, every clause ending in a terminating statement (or `fallthrough`) -/
theorem switch_terminating_iff (k : SwKind) (d : Bool) (cs : TClauses) (label : Option Nat) :
    terminating (.sw k d cs) label = true ↔
      (k = .select ∨ d = true) ∧ hasBreakC cs label true = false ∧ terminatingC k cs = true := by
  simp [terminating, and_assoc]

/-- the rule for `if`: an `else` branch, both branches terminating -/
theorem if_terminating_iff (t : TList) (e : TStmt) (label : Option Nat) :
    terminating (.ifElse t e) label = true ↔ terminatingL t = true ∧ terminating e none = true := by
  simp [terminating]
theorem if_without_else_not_terminating (t : TList) (label : Option Nat) :
    terminating (.ifOnly t) label = false := by
  simp [terminating]

/-- **a break referring to a switch, type switch, select or for statement makes it
non-terminating**, wherever the break is: unlabeled in a clause, inside an `if`, or `break L`
from a nested loop -/
theorem break_makes_switch_nonterminating (k : SwKind) (d : Bool) (cs : TClauses) (label : Option Nat)
    (h : hasBreakC cs label true = true) : terminating (.sw k d cs) label = false := by
  simp [terminating, h]
theorem break_makes_for_nonterminating (c r : Bool) (body : TList) (label : Option Nat)
    (h : hasBreakL body label true = true) : terminating (.forS c r body) label = false := by
  simp [terminating, h]

/-- `L1: switch v.(type) { default: for { break L1 } }` is not terminating (the `break L1` of the
nested loop refers to the type switch); without the break it is -/
example : terminating (.labeled 1 (.sw .type true (.cons (.cons (.forS false false
    (.cons (.brk (some 1)) .nil)) .nil) .nil))) none = false := by decide
example : terminating (.labeled 1 (.sw .type true (.cons (.cons (.forS false false
    (.cons .simple .nil)) .nil) .nil))) none = true := by decide
/-- `switch v.(type) { default: if c { break }; return }`: the unlabeled break inside the `if` refers to the switch -/
example : terminating (.sw .type true (.cons (.cons (.ifOnly (.cons (.brk none) .nil))
    (.cons .ret .nil)) .nil)) none = false := by decide
/-- an unlabeled break inside a nested loop refers to that loop, not to the switch -/
example : terminating (.sw .expr true (.cons (.cons (.forS true false (.cons (.brk none) .nil))
    (.cons .ret .nil)) .nil)) none = true := by decide

end Terminating

section Assignability
/-! ## Assignability into interface types (`Model/Assignable.lean`)

The specification's method sets, `implements` and assignability for the universe of the
assignability matrix (`go/props/c03/assign_matrix.go`), validated against `go/types` on every run
(`spec_validation: assignability-model-vs-go/types`). What decides whether a comparison result
may be used where an interface is expected — the rule the seeded regression
`C03-untyped-bool-to-method-interface` broke in `typechecker.convert` — is stated outright.
Tied to `scriggo.Build` by the differential matrix only. -/
open ScriggoV.Assignable

theorem bool_has_no_methods : ATy.bool.methods = [] := rfl

/-- `implements v i` is the specification's clause: `i` is an interface and every method of `i` is
in the method set of `v`. -/
theorem implements_iff (v i : ATy) :
    implements v i = true ↔ ∃ ms, i.underlying = .iface ms ∧ ∀ m ∈ ms, m ∈ v.methods := by
  unfold implements
  cases h : i.underlying <;> simp [List.all_eq_true]

/-- A non-constant untyped boolean value (the result of a comparison) may be used exactly where a
boolean type or an interface type WITHOUT methods is expected. -/
theorem untyped_bool_assignable_iff (t : ATy) :
    AVal.untypedBool.assignableTo t = true ↔ t.underlying = .bool ∨ t.underlying = .iface [] := by
  unfold AVal.assignableTo implements
  cases h : t.underlying with
  | iface ms => cases ms <;> simp [h, bool_has_no_methods]
  | _ => simp [h]

/-- … in particular never where an interface type with a method (`error`) is expected. -/
theorem untyped_bool_not_assignable_to_method_interface (t : ATy) (m : String) (ms : List String)
    (h : t.underlying = .iface (m :: ms)) : AVal.untypedBool.assignableTo t = false := by
  cases hb : AVal.untypedBool.assignableTo t
  · rfl
  · rcases (untyped_bool_assignable_iff t).1 hb with h' | h' <;> simp [h] at h'

/-- A type defined over an interface type has the methods of that interface. -/
theorem defined_interface_keeps_methods (id : Nat) (ms vms pms : List String) :
    (ATy.named id (.iface ms) vms pms).methods = ms := rfl

/-- `error`, and `type MyErr error` -/
def errorT : ATy := .named 0 (.iface ["Error"]) [] []
def myErr : ATy := .named 1 errorT [] []

example : AVal.untypedBool.assignableTo errorT = false := by decide
example : AVal.untypedBool.assignableTo (.iface []) = true := by decide
example : AVal.untypedBool.assignableTo (.named 2 .bool [] []) = true := by decide
example : AVal.untypedBool.assignableTo .int = false := by decide
example : errorT.underlying = .iface ("Error" :: []) := rfl
/-- a pointer-receiver method is in the method set of *T only -/
example : implements (.ptr (.named 3 (.lit 0) [] ["String"])) (.iface ["String"]) = true
    ∧ implements (.named 3 (.lit 0) [] ["String"]) (.iface ["String"]) = false := by decide

/-- The full statement "the rule the code applies is the specification's" is FALSE of the code
today (recorded finding `defined-interface-type-methods-ignored`; `implementsAsCoded` is a
hand-written transcription of `types.Implements`, the witnesses are replayed on the real Build by
the harness on every run). -/
def CodedImplementsIsSpec : Prop :=
  ∀ (scriggo : ATy → Bool) (v i : ATy), implementsAsCoded scriggo v i = implements v i

theorem codedImplementsIsSpec_false : ¬ CodedImplementsIsSpec := by
  intro h
  have := h (fun t => t == myErr) .int myErr
  revert this
  decide

/-- the two directions of the finding: `int` "implements" MyErr, MyErr does not "implement" error -/
example : implementsAsCoded (fun t => t == myErr) .int myErr = true ∧ implements .int myErr = false := by decide
example : implementsAsCoded (fun t => t == myErr) myErr errorT = false ∧ implements myErr errorT = true := by decide

end Assignability

end ScriggoV.Props.C03

namespace ScriggoV.Props.C03

section TypeIdentity
/-! ## Type identity of composite types (`Model/TypeIdent.lean`)

The specification's "Type identity", "Assignability" and "Conversions" over a structural type
syntax, validated against `go/types`' `Identical` / `AssignableTo` / `ConvertibleTo` on every
pair of the type-identity matrix (`go/props/c03/identity.go`: pairs of types that differ in ONE
structural feature at some nesting level) on every run (`spec_validation:
identity-model-vs-go/types`). Identity is an equivalence relation, every structural feature —
variadic-ness, parameter and result counts, channel direction, array length, field names, tags,
embedded-ness, method names, which declaration a defined type is — is a projection it respects,
and corresponding parameters / results / fields / elements of identical types are identical. What
the seeded regression `C03-variadic-func-identical` broke in `types.identical` (a function type
`func(...T)` identical to `func([]T)`) is stated outright, for identity, assignability and
convertibility; the comparisons the code's `identical` makes are re-read from the source
(`Gen/TypeIdentical.lean`) and must cover every feature. Tied to `scriggo.Build` by the
differential matrix. -/
open ScriggoV.TypeIdent

/-- **Identity is equality of normal forms** (a defined type is its declaration; tags are erased
when they are ignored). -/
theorem identical_iff_norm_eq (ig : Bool) (a b : Ty) :
    identical ig a b = true ↔ norm ig a = norm ig b := identical_iff ig a b

/-- **Identity is an equivalence relation.** -/
theorem identical_refl (ig : Bool) (a : Ty) : identical ig a a = true :=
  (identical_iff ig a a).2 rfl
theorem identical_symm (ig : Bool) (a b : Ty) (h : identical ig a b = true) : identical ig b a = true :=
  (identical_iff ig b a).2 ((identical_iff ig a b).1 h).symm
theorem identical_trans (ig : Bool) (a b c : Ty) (h₁ : identical ig a b = true)
    (h₂ : identical ig b c = true) : identical ig a c = true :=
  (identical_iff ig a c).2 (((identical_iff ig a b).1 h₁).trans ((identical_iff ig b c).1 h₂))

/-- identical types are identical ignoring struct tags (what conversions use is coarser) -/
theorem identical_ignoring_tags (a b : Ty) (h : identical false a b = true) : identical true a b = true := by
  rw [identical_iff] at h ⊢
  rw [← norm_true_norm_false a, ← norm_true_norm_false b, h]

/-- a feature read off the normal form is respected by identity -/
theorem respects_of_norm {α : Type} (f : Ty → α) (ig : Bool) (hf : ∀ t, f (norm ig t) = f t)
    (a b : Ty) (h : identical ig a b = true) : f a = f b := by
  rw [← hf a, ← hf b, (identical_iff ig a b).1 h]

/-- **Each structural feature is a projection identity respects.** -/
theorem identical_respects_kind (ig : Bool) (a b : Ty) (h : identical ig a b = true) : a.kind = b.kind :=
  respects_of_norm Ty.kind ig (by intro t; cases t <;> simp [norm, Ty.kind]) a b h
theorem identical_respects_variadic (ig : Bool) (a b : Ty) (h : identical ig a b = true) :
    a.variadic? = b.variadic? :=
  respects_of_norm Ty.variadic? ig (by intro t; cases t <;> simp [norm, Ty.variadic?]) a b h
theorem identical_respects_numIn (ig : Bool) (a b : Ty) (h : identical ig a b = true) : a.numIn? = b.numIn? :=
  respects_of_norm Ty.numIn? ig (by intro t; cases t <;> simp [norm, Ty.numIn?, normL_length]) a b h
theorem identical_respects_numOut (ig : Bool) (a b : Ty) (h : identical ig a b = true) : a.numOut? = b.numOut? :=
  respects_of_norm Ty.numOut? ig (by intro t; cases t <;> simp [norm, Ty.numOut?, normL_length]) a b h
theorem identical_respects_chanDir (ig : Bool) (a b : Ty) (h : identical ig a b = true) : a.chanDir? = b.chanDir? :=
  respects_of_norm Ty.chanDir? ig (by intro t; cases t <;> simp [norm, Ty.chanDir?]) a b h
theorem identical_respects_arrayLen (ig : Bool) (a b : Ty) (h : identical ig a b = true) : a.arrayLen? = b.arrayLen? :=
  respects_of_norm Ty.arrayLen? ig (by intro t; cases t <;> simp [norm, Ty.arrayLen?]) a b h
theorem identical_respects_fieldNames (ig : Bool) (a b : Ty) (h : identical ig a b = true) :
    a.fieldNames? = b.fieldNames? :=
  respects_of_norm Ty.fieldNames? ig (by intro t; cases t <;> simp [norm, Ty.fieldNames?, normF_names]) a b h
theorem identical_respects_fieldEmbedded (ig : Bool) (a b : Ty) (h : identical ig a b = true) :
    a.fieldEmbedded? = b.fieldEmbedded? :=
  respects_of_norm Ty.fieldEmbedded? ig (by intro t; cases t <;> simp [norm, Ty.fieldEmbedded?, normF_embedded]) a b h
/-- tags: unless they are ignored -/
theorem identical_respects_fieldTags (a b : Ty) (h : identical false a b = true) : a.fieldTags? = b.fieldTags? :=
  respects_of_norm Ty.fieldTags? false (by intro t; cases t <;> simp [norm, Ty.fieldTags?, normF_tags]) a b h
theorem identical_respects_methodNames (ig : Bool) (a b : Ty) (h : identical ig a b = true) :
    a.methodNames? = b.methodNames? :=
  respects_of_norm Ty.methodNames? ig (by intro t; cases t <;> simp [norm, Ty.methodNames?, normM_names]) a b h
/-- "a named type is always different from any other type": a defined type is identical to the
same declaration only -/
theorem identical_respects_namedId (ig : Bool) (a b : Ty) (h : identical ig a b = true) : a.namedId? = b.namedId? :=
  respects_of_norm Ty.namedId? ig (by intro t; cases t <;> simp [norm, Ty.namedId?]) a b h
theorem identical_named_iff (ig : Bool) (i j : Nat) (u w : Ty) :
    identical ig (.named i u) (.named j w) = true ↔ i = j := by simp [identical]

/-- **corresponding parts of identical types are identical**: element / base types … -/
theorem identical_ptr_iff (ig : Bool) (a b : Ty) : identical ig (.ptr a) (.ptr b) = identical ig a b := by
  simp [identical]
theorem identical_slice_iff (ig : Bool) (a b : Ty) : identical ig (.slice a) (.slice b) = identical ig a b := by
  simp [identical]
theorem identical_array_iff (ig : Bool) (n m : Nat) (a b : Ty) :
    identical ig (.array n a) (.array m b) = true ↔ n = m ∧ identical ig a b = true := by simp [identical]
theorem identical_map_iff (ig : Bool) (k l a b : Ty) :
    identical ig (.map k a) (.map l b) = true ↔ identical ig k l = true ∧ identical ig a b = true := by
  simp [identical]
theorem identical_chan_iff (ig : Bool) (d e : Dir) (a b : Ty) :
    identical ig (.chan d a) (.chan e b) = true ↔ d = e ∧ identical ig a b = true := by simp [identical]
/-- … function types: "both functions are variadic or neither is", the same number of parameters
and of results, corresponding ones identical … -/
theorem identical_func_iff (ig : Bool) (ps rs qs ss : TyList) (v w : Bool) :
    identical ig (.func ps rs v) (.func qs ss w) = true ↔
      v = w ∧ identicalL ig ps qs = true ∧ identicalL ig rs ss = true := by
  simp [identical, and_assoc]
theorem identical_func_params (ig : Bool) (ps rs qs ss : TyList) (v w : Bool)
    (h : identical ig (.func ps rs v) (.func qs ss w) = true) :
    ps.length = qs.length ∧ rs.length = ss.length ∧
    (∀ i a b, ps.get? i = some a → qs.get? i = some b → identical ig a b = true) ∧
    (∀ i a b, rs.get? i = some a → ss.get? i = some b → identical ig a b = true) := by
  obtain ⟨_, hp, hr⟩ := (identical_func_iff ig ps rs qs ss v w).1 h
  exact ⟨identicalL_length ig ps qs hp, identicalL_length ig rs ss hr,
    identicalL_get ig ps qs hp, identicalL_get ig rs ss hr⟩
/-- … struct types: corresponding fields have identical types. -/
theorem identical_struct_fields (ig : Bool) (fs gs : Fields) (h : identical ig (.struct fs) (.struct gs) = true) :
    ∀ i a b, fs.get? i = some a → gs.get? i = some b → identical ig a b = true := by
  simp only [identical] at h
  exact identicalF_get ig fs gs h

/-- **`func(...T)` and `func([]T)` are different types** — whatever the parameters and results. -/
theorem variadic_func_not_identical_to_slice_func (ig : Bool) (ps rs qs ss : TyList) :
    identical ig (.func ps rs true) (.func qs ss false) = false := by simp [identical]

/-! ### Assignability and convertibility decide by identity -/

theorem assignable_of_identical (v t : Ty) (h : identical false v t = true) : assignable v t = true := by
  simp [assignable, h]

theorem underlying_not_named : (t : Ty) → t.underlying.namedId? = none
  | .named _ u => by simp only [Ty.underlying]; exact underlying_not_named u
  | .basic _ | .ptr _ | .slice _ | .array .. | .map .. | .chan .. | .func .. | .struct _ | .iface _ => by
    simp [Ty.underlying, Ty.namedId?]

/-- the two types, when they are the same declaration `named i _`, carry the same underlying type
(a well-formed program declares a type once) -/
def SameDecl (v t : Ty) : Prop := ∀ i u w, v = .named i u → t = .named i w → u = w

/-- a value can be assigned to a variable of a FUNCTION type only if the underlying types are
identical: the same variadic-ness, the same counts, identical parameters and results -/
theorem assignable_to_func (v t : Ty) (qs ss : TyList) (w : Bool) (hd : SameDecl v t)
    (ht : t.underlying = .func qs ss w)
    (h : assignable v t = true) : identical false v.underlying t.underlying = true := by
  have hi : implements v t = false := by simp [implements, ht]
  have hc : chanRule v t = false := by
    unfold chanRule; rw [ht]; split <;> simp_all
  simp only [assignable, hi, hc, Bool.or_false, Bool.or_eq_true, Bool.and_eq_true] at h
  rcases h with h | h
  · -- identical types: the same declaration, or both their own underlying type
    cases t with
    | named j w' =>
      cases v with
      | named i u =>
        have hij : i = j := by simpa [identical] using h
        subst hij
        have := hd i u w' rfl rfl
        subst this
        exact identical_refl false _
      | _ => simp [identical] at h
    | func qs' ss' w' =>
      cases v <;> simp [identical] at h
      simpa [Ty.underlying, identical] using h
    | _ => simp [Ty.underlying] at ht
  · exact h.1

/-- **a `func([]T)` value is not assignable to a `func(...T)` variable, nor the other way round**
(variable declaration, assignment, argument, return value, struct field, channel send) -/
theorem assignable_func_same_variadic (v t : Ty) (ps rs qs ss : TyList) (x w : Bool) (hd : SameDecl v t)
    (hv : v.underlying = .func ps rs x) (ht : t.underlying = .func qs ss w)
    (h : assignable v t = true) : x = w := by
  have := assignable_to_func v t qs ss w hd ht h
  rw [hv, ht] at this
  exact ((identical_func_iff false ps rs qs ss x w).1 this).1

/-- … nor convertible: `T(x)` between function types needs identical underlying types, up to
struct tags -/
theorem convertible_func_same_variadic (v t : Ty) (ps rs qs ss : TyList) (x w : Bool) (hd : SameDecl v t)
    (hv : v.underlying = .func ps rs x) (ht : t.underlying = .func qs ss w)
    (h : convertible v t = true) : x = w := by
  have hb : ∀ p, isBasicWith p t = false := by intro p; simp [isBasicWith, ht]
  have hbr : isBytesOrRunes t = false := by simp [isBytesOrRunes, ht]
  have hsa : sliceToArray v t = false := by
    unfold sliceToArray; rw [hv, ht]
  have hp : ptrRule v t = false := by
    cases v <;> cases t <;> simp_all [ptrRule, Ty.underlying]
  simp only [convertible, hb, hbr, hsa, hp, Bool.and_false, Bool.or_false, Bool.or_eq_true] at h
  rcases h with h | h
  · exact assignable_func_same_variadic v t ps rs qs ss x w hd hv ht h
  · rw [hv, ht] at h
    exact ((identical_func_iff true ps rs qs ss x w).1 h).1

/-! `var f func(...int) = func(a []int) {}`, `type V func(...int); V(g)` with `g func([]int)`,
a bidirectional channel to a directional one and not back, struct tags in conversions only -/
def intT : Ty := .basic .int
def fVariadic : Ty := .func (.cons (.slice intT) .nil) .nil true
def fSlice : Ty := .func (.cons (.slice intT) .nil) .nil false
example : SameDecl fSlice fVariadic := by intro i u w h; cases h
example : assignable fSlice fVariadic = false ∧ assignable fVariadic fSlice = false := by decide +kernel
example : convertible fSlice (.named 7 fVariadic) = false ∧ convertible fVariadic (.named 7 fVariadic) = true := by decide +kernel
example : assignable fVariadic (.named 7 fVariadic) = true ∧ assignable (.named 8 fVariadic) (.named 7 fVariadic) = false := by decide +kernel
example : assignable (.chan .both intT) (.chan .recv intT) = true ∧ assignable (.chan .recv intT) (.chan .both intT) = false := by decide +kernel
example : let s := fun tag => Ty.struct (.cons "A" tag false intT .nil)
    assignable (s "") (s "k") = false ∧ convertible (s "") (s "k") = true := by decide +kernel
example : identical false (.func (.cons intT (.cons (.slice intT) .nil)) .nil true)
    (.func (.cons intT (.cons (.slice intT) .nil)) .nil true) = true := by decide +kernel
/-- an interface value goes to an interface with fewer methods, not to one with more -/
example : let m := fun n => Ty.func .nil .nil false |> fun f => (n, f)
    let i1 := Ty.iface (.cons (m "M").1 (m "M").2 .nil)
    let i2 := Ty.iface (.cons (m "M").1 (m "M").2 (.cons (m "N").1 (m "N").2 .nil))
    assignable i2 i1 = true ∧ assignable i1 i2 = false := by decide +kernel

/-- **The code compares every feature** (regenerated fact): for each `reflect.Kind`, the
comparisons found in `types.identical` (`Gen/TypeIdentical.lean`) include every one the
specification requires (`required`: counts, `IsVariadic`, `ChanDir`, `Len`, field `Name`,
`PkgPath`, `Tag` unless ignored, `Anonymous`, method `Name`, `PkgPath`, and the recursive
identity of elements, keys, parameters, results, field and method types). -/
theorem coded_identical_compares_every_feature :
    coversRequired ScriggoV.Gen.TypeIdentical.compared = true := by decide

/-- the list is not vacuous: without `IsVariadic` it is not covered -/
example : coversRequired [(.Func, [.cmp .NumIn, .cmp .NumOut, .eachIdn .In, .eachIdn .Out])] = false := by decide +kernel

end TypeIdentity

end ScriggoV.Props.C03
