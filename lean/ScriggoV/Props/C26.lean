import ScriggoV.Lemmas.MarkdownEscape
/-! C26 — Markdown escaping neutralises Markdown syntax.

`markdownEscapeText s` models `markdownEscape(w, s, false)` (what `{{ v }}` writes for a string in
a Markdown paragraph context), `cbEscape spaces s` models `markdownCodeBlockEscape(w, s, spaces)`;
the punctuation table is regenerated from escapers.go (`Gen/MdTables.lean`). `inert`,
`staysInCodeBlock` are the lexical CommonMark specification of `Spec/CommonMarkLex.lean`.
Property theorems only; inductions are in `Lemmas/MarkdownEscape*.lean`. -/
namespace ScriggoV.MarkdownEscape
open ScriggoV.Gen.MdTables ScriggoV.CommonMarkLex

/-- the public entry in text mode is the modelled function and never fails -/
theorem markdownEscape_text (s : Bytes) : markdownEscape s false = .ok (markdownEscapeText s) := rfl

/-! ### the clauses of `inert`, each for every byte string -/

/-- **every Markdown-active punctuation byte of the output is backslash-escaped**: lexing the
output as CommonMark does (§2.4, left to right) gives only escape pairs and literal bytes that
are not active — no emphasis/link/code-span delimiter, no entity or autolink opener, no lone
backslash (so no backslash hard break). -/
theorem active_bytes_escaped (s : Bytes) : activeEscaped (markdownEscapeText s) = true :=
  activeEscaped_escText true s

/-- **no line of the output begins a block construct** (ATX heading, block quote, bullet or
ordered list marker, fence, thematic break, setext underline, HTML block, table row), whatever
precedes the value on its first line. -/
theorem no_block_start (s : Bytes) (ls : Bool) :
    noBlockStartFrom ls (markdownEscapeText s) = true :=
  noBlockStartFrom_escText s ls true

/-- **no hard break**: the output never has two consecutive spaces (and, by
`active_bytes_escaped`, no backslash before a line ending). -/
theorem no_hard_break (s : Bytes) : noDoubleSpace (markdownEscapeText s) = true :=
  noDoubleSpaceFrom_escText s false true (by simp)

/-- **the content is the source**: removing the backslash escapes from the output gives `s`
back, except that some spaces and tabs have become U+00A0 (the white-space normalisation). -/
theorem unescape_gives_source (s : Bytes) :
    wsRel s (unescape (markdownEscapeText s)) = true :=
  wsRel_escText true s

/-- **no indented code block** — *partial*: for `s` without a TAB directly after a line ending
(LF or CR). Missing part: a TAB that directly follows a line ending is kept as it is (only the
first byte of the value, its last byte, and a space/tab followed by another are replaced by
U+00A0), so after a blank line it indents the line by 4 columns; see `not_InertFull`. Holds in
every scanner state, i.e. whatever precedes the value. -/
theorem no_indented_code_partial (s : Bytes) (h : noTabAfterEol s = true) (pb cb ls cr : Bool) :
    noIndentedCodeFrom pb cb ls cr (markdownEscapeText s) = true :=
  noIndentedCodeFrom_escText s pb cb ls cr true h (fun _ => Or.inl rfl)

/-! ### `inert` -/

/-- the full statement of the property's first half -/
def InertFull : Prop := ∀ s : Bytes, inert s (markdownEscapeText s) = true

/-- **C26, paragraph context — partial**: for every `s` without a TAB directly after a line
ending, the escaped string is inert. (`…_partial`: the TAB case is a defect of the code today,
`not_InertFull`; known finding `md-tab-after-blank-line`.) -/
theorem inert_partial (s : Bytes) (h : noTabAfterEol s = true) :
    inert s (markdownEscapeText s) = true := by
  unfold inert
  rw [active_bytes_escaped, no_hard_break, unescape_gives_source]
  have h1 := no_block_start s true
  have h2 := no_indented_code_partial s h true true true false
  unfold noBlockStart noIndentedCode
  rw [h1, h2]; rfl

/-- the witness of the defect: `"a\n\n\tx"` (the TAB stays, the line is indented code) -/
def tabWitness : Bytes := [97, 10, 10, 9, 120]

/-- the full statement is false of the code today -/
theorem not_InertFull : ¬ InertFull := by
  intro h
  have := h tabWitness
  revert this
  decide

/-- exactly the indented-code clause fails on the witness; the others hold -/
theorem tabWitness_clause : noIndentedCode (markdownEscapeText tabWitness) = false := by decide

-- non-vacuity: a non-trivial string in the class of `inert_partial` (active punctuation, line
-- starts that would open blocks, a hard break, a blank line followed by four spaces):
-- b'# a *b*  \n1. [c](d) <e> &amp;\n\n    - f\\'
def sampleText : Bytes := [35, 32, 97, 32, 42, 98, 42, 32, 32, 10, 49, 46, 32, 91, 99, 93, 40, 100, 41, 32, 60, 101, 62, 32, 38, 97, 109, 112, 59, 10, 10, 32, 32, 32, 32, 45, 32, 102, 92]
example : noTabAfterEol sampleText = true := by decide
-- its escape: '\\# a \\*b\\*\xa0 \n1\\. \\[c\\]\\(d\\) \\<e\\> \\&amp;\n\n\xa0\xa0\xa0 \\- f\\\\'
example : markdownEscapeText sampleText = [92, 35, 32, 97, 32, 92, 42, 98, 92, 42, 194, 160, 32, 10, 49, 92, 46, 32, 92, 91, 99, 92, 93, 92, 40, 100, 92, 41, 32, 92, 60, 101, 92, 62, 32, 92, 38, 97, 109, 112, 59, 10, 10, 194, 160, 194, 160, 194, 160, 32, 92, 45, 32, 102, 92, 92] := by decide
example : inert sampleText (markdownEscapeText sampleText) = true := by decide

/-! ### allowHTML mode (`markdownEscape(w, s, true)`: values of type HTML shown in Markdown) -/

/-- the full statement for input without `<` (no tags, comments, CDATA): text-mode escaping,
except that `&` passes through so that the value's character references stay references -/
def HtmlModeFull : Prop :=
  ∀ s : Bytes, noLt s = true → markdownEscape s true = .ok (escAmpThrough true s)

/-- **allowHTML mode — partial**: for `s` without `<` and without `&` the output is exactly the
text-mode output, so every clause above (`active_bytes_escaped` … `inert_partial`) applies to it.
(`…_partial`: before an `&` the code writes whatever the variable `esc` — declared outside the
loop and not assigned by `case '&'` when `allowHTML` is true — still holds from an earlier
iteration: a backslash or U+00A0. `not_HtmlModeFull`; known finding
`md-html-stale-esc-before-amp`. Independently of that, the `#` of a numeric character reference
is escaped like any `#` — `&#35;` is written `&\\#35;` — in the code and in `escAmpThrough`
alike: known finding `md-html-numeric-reference-escaped`, seen by the harness with goldmark.) -/
theorem html_mode_partial (s : Bytes) (h : noLtAmp s = true) :
    markdownEscape s true = .ok (markdownEscapeText s) := by
  unfold markdownEscape markdownEscapeHTML markdownEscapeText
  simp only [if_true]
  exact escHTML_noLtAmp s _ true [] (by omega) h

/-- the witness: `*&` — written `\*\&`; the backslash before `&` turns a following character
reference of the HTML value into literal text (`2*3 &lt; 7` is shown as `2*3 &lt; 7`) -/
def staleWitness : Bytes := [42, 38]

theorem staleWitness_output : markdownEscape staleWitness true = .ok [92, 42, 92, 38] := by rfl

theorem not_HtmlModeFull : ¬ HtmlModeFull := by
  intro h
  have h1 := h staleWitness (by decide)
  rw [staleWitness_output] at h1
  have h2 : ([92, 42, 92, 38] : Bytes) = escAmpThrough true staleWitness := Except.ok.inj h1
  revert h2
  decide

-- non-vacuity: an HTML-free value with active punctuation and spaces
example : noLtAmp [35, 32, 97, 32, 42, 98, 42, 32, 32, 10, 49, 46] = true := by decide

/-! ### code block -/

/-- the full statement of the property's second half, for both indentations -/
def StaysFull : Prop :=
  ∀ (spaces : Bool) (s : Bytes), staysInCodeBlock (indentOf spaces) (cbEscape spaces s) = true

/-- **C26, code-block context — partial**: for every `s` in which every CR is directly followed
by an LF or directly follows one, after every line ending of the output (LF, CR, CR LF) comes
the block's indentation or another line ending, and the output does not end on a line ending.
(`…_partial`: a lone CR — a CommonMark line ending — gets no indentation, `not_StaysFull`;
known finding `md-codeblock-lone-cr`.) -/
theorem stays_in_code_block_partial (spaces : Bool) (s : Bytes) (h : noLoneCR s = true) :
    staysInCodeBlock (indentOf spaces) (cbEscape spaces s) = true :=
  (staysIn_cbGo spaces s).1 h

/-- the witness of the defect: `"a\rb"` -/
def crWitness : Bytes := [97, 13, 98]

theorem not_StaysFull : ¬ StaysFull := by
  intro h
  have := h false crWitness
  revert this
  decide

-- non-vacuity: LF, CR LF and LF CR line endings, an empty line, a final line ending:
-- b'a\nb\r\nc\n\rd\n\n e\n'
def sampleCode : Bytes := [97, 10, 98, 13, 10, 99, 10, 13, 100, 10, 10, 32, 101, 10]
example : noLoneCR sampleCode = true := by decide
-- its escape (tab): b'a\n\tb\r\n\tc\n\r\td\n\t\n\t e\n\t'
example : cbEscape false sampleCode = [97, 10, 9, 98, 13, 10, 9, 99, 10, 13, 9, 100, 10, 9, 10, 9, 32, 101, 10, 9] := by decide
example : staysInCodeBlock (indentOf true) (cbEscape true sampleCode) = true := by decide

end ScriggoV.MarkdownEscape
