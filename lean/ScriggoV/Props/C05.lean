import ScriggoV.Model.Faults
import ScriggoV.Lemmas.URLState
import ScriggoV.Lemmas.RegStack
import ScriggoV.Model.CallableValue
/-! C05 — running compiled code never panics into the host.

Property theorems only. Four parts (the fourth: function values stored as Go values, at the end):

* **classification** (`Gen/ConvertPanic.lean`, regenerated from `errors.go:convertPanic` and
  `vm.go:VM.Run`; `Model/Faults.lean`, hand-written): no fault that an operation can raise is
  classified as fatal, and only a fatal error leaves `Run` as a host panic;
* **renderer** (`Model/URLState.lean`): the URL state machine never indexes out of range;
* **register stacks** (`Model/RegStack.lean` over `Gen/GrowthGuards.lean`, regenerated from the
  growth guards of `run.go` and `vm.go`): for every sequence of calls, defers, returns, panics,
  recovers and go statements, every register access stays inside the stack, `swapStack` moves
  exactly the two blocks it rotates and `startGoroutine`'s window copy stays in bounds.

Helper lemmas are in `Lemmas/URLState.lean` and `Lemmas/RegStack.lean`. -/
namespace ScriggoV.C05
open ScriggoV.Gen.ConvertPanic ScriggoV.Faults
set_option linter.unusedSimpArgs false

/-! ## 1. classification -/

theorem scriggo_runtimeError_never_fatal (op : Op) (neg nat : Bool) (m : List UInt8) :
    classifyOp op neg nat (.scriggoRuntimeError m) ≠ .fatal := by
  cases op <;> cases neg <;>
    simp only [classifyOp, tail, Payload.isRuntimeError, Payload.isString, Payload.isScriggoRuntimeError,
      Payload.isFatalError, Payload.isError, passErr, Payload.msg, if_true, if_false, Bool.false_eq_true,
      Bool.or_eq_true, Bool.false_and] <;>
    (repeat' split) <;> simp

/-- a Scriggo run-time error recovered while no function is running (a deferred native call
made while unwinding) becomes a PanicError -/
theorem noFn_scriggoRuntimeError_is_panicError (p : Payload) (h : p.isScriggoRuntimeError = true) :
    classifyNoFn p = .panicError := by
  cases p <;> simp_all [classifyNoFn, Payload.isScriggoRuntimeError, Payload.isFatalError]

/-- … and so it does at every operation but OpGo (which returns the error values it recovers
as they are) -/
theorem scriggo_runtimeError_is_panicError (op : Op) (neg nat : Bool) (m : List UInt8)
    (hop : op ≠ .OpGo) : classifyOp op neg nat (.scriggoRuntimeError m) = .panicError := by
  cases op <;> cases neg <;>
    simp only [classifyOp, tail, Payload.isRuntimeError, Payload.isString, Payload.isScriggoRuntimeError,
      Payload.isFatalError, Payload.isError, passErr, Payload.msg, if_true, if_false, Bool.false_eq_true,
      Bool.or_eq_true, Bool.false_and] <;>
    first | (exact absurd rfl hop) | ((repeat' split) <;> simp)

/-- **C05, classification.** Whatever an operation can raise on compiled code (`canRaise`),
`convertPanic` does not turn into a fatal error — for every operation, with or without a
running function, for every message. -/
theorem canRaise_not_fatal (hasFn : Bool) (op : Op) (neg nat : Bool) (p : Payload)
    (h : canRaise hasFn op neg nat p = true) : classify hasFn op neg nat p ≠ .fatal := by
  cases p with
  | stopError => simp [classify, Payload.isStopError]
  | outError => simp [classify, Payload.isStopError, Payload.isOutError]
  | fatalError => simp [canRaise] at h
  | scriggoRuntimeError m =>
    cases hasFn
    · simp [classify, Payload.isStopError, Payload.isOutError, classifyNoFn, Payload.isFatalError,
        Payload.isScriggoRuntimeError]
    · simp only [classify, Payload.isStopError, Payload.isOutError, Bool.false_eq_true, if_false, if_true]
      exact scriggo_runtimeError_never_fatal op neg nat m
  | goRuntimeError m =>
    cases hasFn
    · simp [canRaise] at h
    · simp only [canRaise, Bool.true_and] at h
      simp only [classify, Payload.isStopError, Payload.isOutError, Bool.false_eq_true, if_false, if_true]
      cases op <;> cases neg <;> simp only [goRuntime, Bool.false_eq_true] at h <;>
        simp_all [classifyOp, tail, Payload.isRuntimeError, Payload.isString, Payload.isScriggoRuntimeError,
          Payload.isFatalError, Payload.isError, passErr, Payload.msg, unhashable]
  | str m =>
    cases hasFn
    · simp [classify, Payload.isStopError, Payload.isOutError, classifyNoFn, Payload.isFatalError,
        Payload.isScriggoRuntimeError, Payload.isRuntimeError]
    · simp only [canRaise, Bool.true_and, nativeCtx, Bool.not_true, Bool.false_eq_true, if_false,
        Bool.or_eq_true] at h
      simp only [classify, Payload.isStopError, Payload.isOutError, Bool.false_eq_true, if_false, if_true]
      cases op <;> cases neg <;> simp only [reflectStr, Bool.false_eq_true, or_false, false_or] at h <;>
        first
        | (simp_all [classifyOp, tail, Payload.isRuntimeError, Payload.isString, Payload.isScriggoRuntimeError,
            Payload.isFatalError, Payload.isError, passErr, Payload.msg]; done)
        | (simp only [Bool.or_eq_true, beq_iff_eq] at h
           rcases h with (h | h) | h <;> subst h <;> decide +revert)
  | err =>
    cases hasFn
    · simp [classify, Payload.isStopError, Payload.isOutError, classifyNoFn, Payload.isFatalError,
        Payload.isScriggoRuntimeError, Payload.isRuntimeError]
    · simp only [classify, Payload.isStopError, Payload.isOutError, Bool.false_eq_true, if_false, if_true]
      cases op <;> cases neg <;>
        simp_all [canRaise, nativeCtx, classifyOp, tail, Payload.isRuntimeError, Payload.isString,
          Payload.isScriggoRuntimeError, Payload.isFatalError, Payload.isError, passErr, Payload.msg]
  | other =>
    cases hasFn
    · simp [classify, Payload.isStopError, Payload.isOutError, classifyNoFn, Payload.isFatalError,
        Payload.isScriggoRuntimeError, Payload.isRuntimeError]
    · simp only [classify, Payload.isStopError, Payload.isOutError, Bool.false_eq_true, if_false, if_true]
      cases op <;> cases neg <;>
        simp_all [canRaise, nativeCtx, classifyOp, tail, Payload.isRuntimeError, Payload.isString,
          Payload.isScriggoRuntimeError, Payload.isFatalError, Payload.isError, passErr, Payload.msg]

-- non-vacuity: division by zero at `OpDiv`, an index fault at `-OpIndexString`, a deferred
-- native function panicking with a value while no function is running
example : canRaise true .OpDiv false false (.goRuntimeError divZero) = true := by decide
example : canRaise true .OpIndexString true false (.goRuntimeError (indexPfx ++ [32, 91, 53, 93])) = true := by decide
example : canRaise false .OpNone false false .other = true := by decide
example : classify true .OpDiv false false (.goRuntimeError divZero) = .panicError := by decide

/-- what `convertPanic` returns, as `runFunc` hands it to `VM.Run` (`isOut`: the PanicError's
message is an outError) -/
def toRunErr (isOut : Bool) : Outcome → RunErr
  | .panicError => .panicError isOut
  | .fatal => .fatalError
  | .stop => .stopError
  | .passthrough => .other

/-- **VM.Run's unwrapping is total and panics for fatal errors only.** -/
theorem runUnwrap_hostPanic_iff (e : RunErr) : runUnwrap e = .hostPanic ↔ e = .fatalError := by
  cases e with
  | panicError b => cases b <;> simp [runUnwrap]
  | _ => simp [runUnwrap]

/-- … so no fault that can be raised leaves `Run` as a host panic -/
theorem canRaise_not_hostPanic (hasFn : Bool) (op : Op) (neg nat isOut : Bool) (p : Payload)
    (h : canRaise hasFn op neg nat p = true) :
    runUnwrap (toRunErr isOut (classify hasFn op neg nat p)) ≠ .hostPanic := by
  intro hp
  rw [runUnwrap_hostPanic_iff] at hp
  have := canRaise_not_fatal hasFn op neg nat p h
  cases hc : classify hasFn op neg nat p <;> simp_all [toRunErr]

/-- the documented exception is exactly the other direction: a `*fatalError` (`env.Fatal`)
raised by a native function does leave `Run` as a host panic -/
theorem fatal_is_hostPanic (isOut : Bool) :
    runUnwrap (toRunErr isOut (classify true .OpCallNative false false .fatalError)) = .hostPanic := by
  cases isOut <;> rfl

/-! ## 1b. one level of nesting: Scriggo functions called back by native code -/

/-- the values the wrapper of a Scriggo function called by native code (callable.Value) can
re-panic with in the native caller, when the inner virtual machine's convertPanic has made a
*PanicError of the payload p: the message of that PanicError -/
def Repanics (hasFn : Bool) (op : Op) (neg nat : Bool) (p q : Payload) : Prop :=
  match panicMsg hasFn op neg nat p with
  | .none => False
  | .scriggo => ∃ m, q = .scriggoRuntimeError m
  | .same => q = p

/-- where the outer virtual machine recovers what a native function panics with -/
def outerNotFatal (q : Payload) : Prop :=
  classify true .OpCallNative false false q ≠ .fatal ∧ classify true .OpCallIndirect false true q ≠ .fatal ∧
  classify true .OpReturn false false q ≠ .fatal ∧ classify false .OpNone false false q ≠ .fatal

theorem outer_scriggo (m : List UInt8) : outerNotFatal (.scriggoRuntimeError m) := by
  refine ⟨?_, ?_, ?_, ?_⟩ <;> simp [classify, classifyOp, classifyNoFn, tail, Payload.isStopError, Payload.isOutError, Payload.isScriggoRuntimeError, Payload.isFatalError, Payload.isRuntimeError]

theorem outer_of_not_goRuntime (q : Payload) (h1 : q ≠ .fatalError) (h2 : ∀ m, q ≠ .goRuntimeError m) : outerNotFatal q := by
  cases q <;> simp_all [outerNotFatal, classify, classifyOp, classifyNoFn, tail, Payload.isStopError, Payload.isOutError, Payload.isScriggoRuntimeError, Payload.isFatalError, Payload.isRuntimeError]

/-- the full statement: the classification is closed under one level of nesting -/
def NestedClosed : Prop :=
  ∀ hasFn op neg nat p q, canRaise hasFn op neg nat p = true → Repanics hasFn op neg nat p q → outerNotFatal q

/-- it is false of the code today: `panic(nil)` inside a Scriggo function called back by native code
raises a *runtime.PanicNilError, a runtime.Error that OpPanic keeps as the message, and the outer
virtual machine makes a fatal error of any runtime.Error that is not Scriggo's own
(known finding C05/callback-panic-nil) -/
theorem nestedClosed_false : ¬ NestedClosed := by
  intro h
  have := (h true .OpPanic false false (.goRuntimeError []) (.goRuntimeError []) (by decide) (by simp [Repanics, panicMsg, panicMsgOp, Payload.isStopError, Payload.isOutError])).1
  exact this (by decide)

/-- **C05, nesting.** Whatever an operation of a Scriggo function called back by native code can
raise, the value its wrapper re-panics with in the native caller (the message of the inner
*PanicError, whose TYPE is regenerated: `panicMsg`) is not classified fatal by the outer virtual
machine — at OpCallNative, at OpCallIndirect with a native callee, at OpReturn (a deferred native)
and while no function is running. Missing part: a Go runtime.Error kept as the message by OpPanic
(`nestedClosed_false`). -/
theorem nested_not_fatal_partial (hasFn : Bool) (op : Op) (neg nat : Bool) (p q : Payload)
    (hc : canRaise hasFn op neg nat p = true) (hr : Repanics hasFn op neg nat p q)
    (hx : ¬ (op = .OpPanic ∧ ∃ m, p = .goRuntimeError m)) : outerNotFatal q := by
  unfold Repanics at hr
  split at hr
  · exact hr.elim
  · obtain ⟨m, rfl⟩ := hr; exact outer_scriggo m
  · subst hr
    rename_i hs
    cases q with
    | fatalError => simp [canRaise] at hc
    | goRuntimeError m =>
      exfalso
      cases hasFn
      · simp [canRaise] at hc
      · simp only [canRaise, Bool.true_and] at hc
        cases op <;> cases neg <;> simp only [goRuntime, Bool.false_eq_true] at hc <;>
          simp_all [panicMsg, panicMsgOp, tailMsg, Payload.isRuntimeError, Payload.isString, Payload.isScriggoRuntimeError,
            Payload.isFatalError, Payload.isError, Payload.isStopError, Payload.isOutError, Payload.msg, unhashable]
    | _ => apply outer_of_not_goRuntime <;> simp

-- non-vacuity: an index fault of a typed store inside a callback re-panics Scriggo's runtimeError
example : Repanics true .OpSetSlice false false (.goRuntimeError (indexPfx ++ [32, 91, 51, 93])) (.scriggoRuntimeError []) := by
  simp [Repanics, panicMsg, panicMsgOp, Payload.isStopError, Payload.isOutError, Payload.isRuntimeError, Payload.msg, isPrefix, indexPfx]

/-! ## 2. the renderer's URL state machine -/
open ScriggoV.URLState in
/-- **C05, renderer.** For every sequence of `Text` and `Show` calls the emitter can produce
(no empty `Text`), with arbitrary shown strings — empty ones included — the URL state machine
raises no index fault. -/
theorem url_no_fault (calls : List Call) (h : ∀ c ∈ calls, c.wellFormed = true) :
    ∀ f, run calls ≠ .error f := by
  intro f
  obtain ⟨x, hx⟩ := runFrom_ok calls {} h
  unfold run
  rw [hx]
  intro hc
  cases hc

open ScriggoV.URLState in
-- non-vacuity and regression (DESIGN §8 row 6): `href="{{ "x?y" }}{{ "" }}"`
example : run [.show [120, 63, 121] true true, .show [] true true]
    = .ok ({ inURL := true, query := true, addAmpersand := true, removeQuestionMark := true },
           [.path [120, 63, 121] true, .path [] true]) := by rfl

open ScriggoV.URLState in
/-- the hypothesis of `url_no_fault` is needed: an empty `Text` (which the emitter never emits)
after a value containing `?` does index `txt[0]` out of range -/
theorem url_empty_text_faults :
    run [.show [120, 63, 121] true true, .text [] true false] = .error .index := by rfl

/-! ## 3. the register stacks -/
open ScriggoV.RegStack

/-- the configuration regenerated from the code satisfies what the invariant needs: every
growth guard compares with `≥`, the stacks double, OpDefer and nextCall grow the stack for the
frame they activate, and startGoroutine bounds its copy by the stack length -/
theorem code_good (k : Nat) (hk : k < 4) : Good (codeConfig k) := by
  have h : k = 0 ∨ k = 1 ∨ k = 2 ∨ k = 3 := by omega
  rcases h with h | h | h | h <;> subst h <;> constructor <;> rfl

/-- **C05, `regs_in_bounds`.** On each of the four stacks, for every sequence of events of a
run (calls of the three kinds, tail calls, defers, returns including the deferred calls made by
`nextCall`, panics, recovers, native calls, go statements, register accesses) starting from a
new virtual machine: no slice or index expression of `swapStack`, `startGoroutine` or a register
access faults, and after each event the running function's registers are inside the stack:
`fp + NumReg < len`. -/
theorem regs_in_bounds (k : Nat) (hk : k < 4) (n0 : Nat) (h0 : n0 ≤ 127) (evs : List Event) :
    ∃ st, run (codeConfig k) n0 evs = .ok st ∧ (st.halted = false → st.fp + st.n < st.len) := by
  obtain ⟨st, hr, hi⟩ := runFrom_inv (code_good k hk) evs _ (init_inv (code_good k hk) n0 h0)
  refine ⟨st, hr, fun hh => ?_⟩
  rcases hi with hi | ⟨_, _, hm, _⟩
  · rw [hi] at hh; cases hh
  · exact hm

/-- … so no register access of the running function can fault, whatever was executed before -/
theorem register_access_in_bounds (k : Nat) (hk : k < 4) (n0 : Nat) (h0 : n0 ≤ 127)
    (evs : List Event) (r : Nat) : ∀ f, run (codeConfig k) n0 (evs ++ [.access r]) ≠ .error f := by
  intro f
  obtain ⟨st, hr, _⟩ := regs_in_bounds k hk n0 h0 (evs ++ [.access r])
  rw [hr]
  intro hc
  cases hc

/-- **`go_copy_in_bounds`.** `startGoroutine`'s window copy never faults, at any call depth. -/
theorem go_copy_in_bounds (k : Nat) (hk : k < 4) (n0 : Nat) (h0 : n0 ≤ 127)
    (evs : List Event) (off : Nat) : ∀ f, run (codeConfig k) n0 (evs ++ [.go off]) ≠ .error f := by
  intro f
  obtain ⟨st, hr, _⟩ := regs_in_bounds k hk n0 h0 (evs ++ [.go off])
  rw [hr]
  intro hc
  cases hc

-- non-vacuity: a recursion six deep with 100-register frames crosses the first stack size
-- (the run does not end early and the stack has grown)
example : (run (codeConfig 0) 100 (List.replicate 6 (.call .func 100 100))).map (fun st => (st.len, st.fp, st.halted))
    = .ok (1024, 600, false) := by rfl

/-! The same statement is *false* of the code as it was: each of the four changes is needed.
The configurations below differ from the regenerated one in one respect; each has a run that
faults (DESIGN §8 rows 22 and 23, and the two defer paths found while proving this). -/

/-- all guards with `>` (the code before the fix) -/
def gtConfig : Config := { codeConfig 0 with cmp := fun s => ((codeConfig 0).cmp s).map fun _ => .gt }

/-- plain recursion: `fp + NumReg = len` slips through `>` and register `NumReg` is out of range -/
theorem regs_in_bounds_false_with_gt : ∃ evs, run gtConfig 127 evs = .error .index :=
  ⟨List.replicate 3 (.call .func 127 127) ++ [.call .func 127 4, .access 4], by rfl⟩

/-- OpDefer without the growth step: deferring in a loop walks the frame out of the stack -/
theorem regs_in_bounds_false_without_defer_growth :
    ∃ evs, run { codeConfig 0 with deferGrows := false } 127 evs = .error .index :=
  ⟨List.replicate 4 (.defer 0 127 1 false 0) ++ [.access 127], by rfl⟩

/-- nextCall without the growth step: a deferred function with a large frame, started near the
top of the stack -/
theorem regs_in_bounds_false_without_nextCall_growth :
    ∃ evs, run { codeConfig 0 with nextCallGrows := false } 100 evs = .error .index :=
  ⟨List.replicate 4 (.call .func 100 100) ++ [.call .func 100 2, .defer 0 0 127 false 0, .ret, .access 127],
    by rfl⟩

/-- startGoroutine slicing `regs[fp+off : fp+127]` regardless of the stack length -/
theorem go_copy_in_bounds_false_unbounded :
    ∃ evs, run { codeConfig 0 with goUpper := .fpPlus 127 } 100 evs = .error .slice :=
  ⟨List.replicate 4 (.call .func 100 100) ++ [.go 0], by rfl⟩

/-- **`swapStack` moves exactly the two blocks it rotates** (restated from
`Lemmas/RegStack.lean`): on registers `pre ++ A ++ B ++ rest`, with the pointers at the ends of
`pre` and `A` and `|B|` further registers present, the result is `pre ++ B ++ A ++ …`, nothing
below `A` changes, nothing above the `|B|` scratch registers changes, and the pointers become
`a + |B|` and `a`. -/
theorem swapStack_moves_exactly_two_blocks {α} (pre A B rest : List α) (a : Nat)
    (ha : pre.length = a + 1) (hA : 0 < A.length) (hB : 0 < B.length) (h : B.length ≤ rest.length) :
    swapRegs (pre ++ A ++ B ++ rest) a (a + A.length) B.length
      = .ok (a + B.length, a, pre ++ B ++ A ++ B ++ rest.drop B.length) :=
  swapRegs_spec pre A B rest a ha hA hB h

example : swapRegs [0, 1, 2, 3, 4, 5, 6, 7, 8] 1 4 2 = .ok (3, 1, [0, 1, 5, 6, 2, 3, 4, 5, 6]) := by rfl

/-- OpTailCall is modelled without its `tailed` frame because nothing emits it -/
theorem tailCall_not_emitted : Gen.GrowthGuards.tailCallEmitters = 0 := rfl

/-! ## 4. function values as Go values

A function value that leaves the registers — captured by a closure, kept in a package-level
variable, in a composite value, an interface or a channel, passed to native code — is converted by
`callable.Value`, and `reflect.Value.Set` panics in the host unless the converted value has the
static type of the location, which is the type the checker computed with `removeEnvArg`
(`Model/CallableValue.lean`; what `callable.Value` does, the store sites and the reads of
`NativeFunction.function` are regenerated: `Gen/CallableValue.lean`). -/
section FunctionValues
open ScriggoV.CallableValue ScriggoV.Gen.CallableValue

/-- **C05, function values.** `callable.Value` returns, for every callable, a value of the static
type of the expression — so that no store of a function value can make `reflect.Value.Set` panic —
exactly when both its branches for Go functions adapt the function to the type without the
environment parameter. -/
theorem callable_value_storable_iff (cv cn : Conv) :
    (∀ c, storable cv cn c = true) ↔ (cv = .adapted ∧ cn = .adapted) := by
  constructor
  · intro h
    have h1 := h (.value [.env])
    have h2 := h (.native [.env] false)
    cases cv <;> cases cn <;> simp_all [storable, valueType, visible, adapt, removeEnvArg]
  · rintro ⟨rfl, rfl⟩ c
    cases c <;> simp [storable, valueType, visible, adapt]

/-- whatever the two branches do, a callable without an environment parameter (Scriggo functions,
macros, plain native functions and methods) is handed out with its static type -/
theorem callable_value_storable_partial (cv cn : Conv) (c : Callable) (h : hasEnv c = false) :
    storable cv cn c = true := by
  cases c <;> cases cv <;> cases cn <;> simp_all [storable, valueType, visible, adapt, hasEnv]

/-- … and with a branch that hands out the Go function as it is, every native function with an
environment parameter is refused by `Set` -/
theorem env_native_not_storable_raw (cv : Conv) (ins : List Ty) (r : Bool)
    (h : hasEnv (.native ins r) = true) : storable cv .raw (.native ins r) = false := by
  simp_all [storable, valueType, visible, adapt, hasEnv]
  intro h2; exact h h2.symm

theorem env_method_value_not_storable_raw (cn : Conv) (ins : List Ty)
    (h : hasEnv (.value ins) = true) : storable .raw cn (.value ins) = false := by
  simp_all [storable, valueType, visible, adapt, hasEnv]
  intro h2; exact h h2.symm

-- non-vacuity: func(native.Env, string) int as a value; a method expression T.M with
-- func (T) M(native.Env); a bound method value; a Scriggo function
example : storable .raw .raw (.native [.env, .other 0] false) = false := by decide
example : storable .raw .raw (.native [.other 0, .env] true) = false := by decide
example : storable .raw .adapted (.value [.env]) = false := by decide
example : storable .adapted .adapted (.native [.other 0, .env, .other 1] true) = true := by decide
example : hasEnv (.scriggo [.other 0]) = false ∧ hasEnv (.native [.other 0, .env] false) = false := by decide

/-- the full statement about the code as it is: every callable is handed out with its static
type, every switch over reflect.Kind that stores general registers converts function values with
`callable.Value`, and nothing else reads `NativeFunction.function` -/
def FuncValuesWellTyped : Prop :=
  (∀ c, codeStorable c = true) ∧ sitesConvert storeSites = true ∧ rawFunctionReads = 0

/-- the full statement, decided on the regenerated facts (the driver reports which side holds,
the harness ties it to what the real code does with the family "callables as first-class
values"; today it is false: fixes/C05-native-env-func-as-value.NOT-APPLIED.md,
fixes/C05-append-func-value.NOT-APPLIED.md) -/
theorem funcValues_wellTyped_iff :
    FuncValuesWellTyped ↔
      (valueConv = .adapted ∧ nativeConv = .adapted ∧ sitesConvert storeSites = true ∧ rawFunctionReads = 0) := by
  unfold FuncValuesWellTyped codeStorable
  rw [callable_value_storable_iff]
  constructor
  · rintro ⟨⟨a, b⟩, c, d⟩; exact ⟨a, b, c, d⟩
  · rintro ⟨a, b, c, d⟩; exact ⟨⟨a, b⟩, c, d⟩

instance : Decidable FuncValuesWellTyped := decidable_of_iff _ funcValues_wellTyped_iff.symm

/-- what holds of the code whatever `callable.Value` does with Go functions: callables without
an environment parameter are handed out with their static type (the missing part: natives with an
environment parameter, and the store sites — see `funcValues_wellTyped_iff`) -/
theorem funcValues_wellTyped_partial (c : Callable) (h : hasEnv c = false) : codeStorable c = true :=
  callable_value_storable_partial _ _ c h

/-- `callable.Value` is the only place that turns a native function into a Go value -/
theorem single_conversion_point : rawFunctionReads = 0 := rfl

end FunctionValues

end ScriggoV.C05
