import ScriggoV.Model.Order
import ScriggoV.Model.DeclOrder
import ScriggoV.Model.History
import ScriggoV.Gen.MapRanges
import ScriggoV.Gen.MapRangeCalls
import ScriggoV.Spec.MapRangeClasses
import ScriggoV.Spec.MapRangeCallsReview
import ScriggoV.Gen.CompilerGlobals
import ScriggoV.Spec.CompilerGlobalsReview
/-! C30 — building is deterministic.

Go's map iteration order is unspecified and differs from run to run, so every
`for … := range <map>` of the compiler is a place where two builds of the same sources could
diverge. `Gen/MapRanges.lean` lists all of them (go/types, regenerated on every check, with
the SHA-256 of each loop body). Here every site is assigned — by reading its body — to a class
of `Model/Order.lean`, each of which comes with a proof that the fold over the entries does not
depend on their order (under the data invariant written next to the site, where one is needed).
`sites_covered` forces the hand-written table to be exactly the regenerated list: a new map
range, a removed one or an edited body breaks it until someone re-reads the loop.

What is *not* proved: that the abstract step of a class is the loop body (read by hand, the body
hash pins what was read), the per-site data invariants, and determinism of everything that is not
a map range (see props.d/C30.json). Those are covered by the build-many-times oracle of
go/props/c30 on the real compiler. -/
namespace ScriggoV.C30
open ScriggoV.Order ScriggoV.Spec.MapRangeClasses

/-! ### the table is the regenerated list -/

/-- **Every map range of the compiler is classified, and its body is the one that was read.**
A new `range` over a map, a removed one, or any edit of a loop body changes the regenerated
side and leaves this undischarged. -/
theorem sites_covered :
    Gen.MapRanges.sites.map (·.key) = Classified.sites.map (·.key) := by
  decide +kernel

/-- for collect-then-sort sites the statement after the loop (the sort and its comparison) is
pinned too -/
theorem sort_statements_covered :
    (Gen.MapRanges.sites.zip Classified.sites).all
      (fun p => p.2.cls != .collectThenSort || p.1.next == p.2.next) = true := by
  decide +kernel

/-- **No map range of the compiler is an order-sensitive emission.** (The one there was —
`emitter.emitPackage`, `for name, reg := range pkgVarRegs { em.fb.emitSetVar(…) }` — is gone
with fix C30-setvar-order: the loop now ranges over the slice `n.Lhs`.) -/
theorem no_order_sensitive_site :
    ∀ s ∈ Classified.sites, s.cls ≠ .orderSensitiveEmission := by
  decide

/-! ### what each class guarantees (instances of the generic theorem) -/

/-- the statement proved for the sites of a class: for every permutation of the entries the
loop ends in the same state (with the class's data invariant as hypothesis where it has one) -/
def Deterministic : Class → Prop
  | .distinctKeyUpdate =>
      ∀ (f : Nat → Nat → Nat → Nat) (l l' : List (Nat × Nat)) (s : Nat → Nat),
        (l.map Prod.fst).Nodup → l.Perm l' →
        l.foldl (stepDistinctKey f) s = l'.foldl (stepDistinctKey f) s
  | .existence =>
      ∀ (p : Nat × Nat → Bool) (l l' : List (Nat × Nat)) (s : Bool), l.Perm l' →
        l.foldl (stepExists p) s = l'.foldl (stepExists p) s
  | .uniqueMatch =>
      ∀ (p : Nat × Nat → Bool) (r : Nat × Nat → Nat) (l l' : List (Nat × Nat)) (s : Option Nat),
        l.Perm l' → UniqueResult p r l →
        l.foldl (stepLastMatch p r) s = l'.foldl (stepLastMatch p r) s ∧
        l.foldl (stepFirstMatch p r) s = l'.foldl (stepFirstMatch p r) s
  | .minMaxSelect =>
      (∀ (ok : Nat × Nat → Bool) (m : Nat × Nat → Nat) (l l' : List (Nat × Nat))
          (s : Option (Nat × Nat)), l.Perm l' →
          (∀ a, a ∈ l → ∀ b, b ∈ l → a ≠ b → m a ≠ m b) →
          l.foldl (stepArgMin ok m) s = l'.foldl (stepArgMin ok m) s) ∧
      (∀ (v : Nat × Nat → Nat) (l l' : List (Nat × Nat)) (s : Nat), l.Perm l' →
          l.foldl (stepMax v) s = l'.foldl (stepMax v) s)
  | .collectThenSort =>
      ∀ (le : Nat → Nat → Prop) (sort : List Nat → List Nat),
        (∀ l, (sort l).Perm l) → (∀ l, (sort l).Pairwise le) →
        ∀ (l l' : List Nat), l.Perm l' →
        (∀ a b, a ∈ l → b ∈ l → le a b → le b a → a = b) →
        sort (l.foldl stepCollect []) = sort (l'.foldl stepCollect [])
  | .commutativeAccumulate =>
      ∀ (l l' : List (Nat × Bool)) (s : Nat → Option Bool), l.Perm l' →
        l.foldl stepAndAcc s = l'.foldl stepAndAcc s
  | .disjointUnion =>
      ∀ (l l' : List (Nat → Option Nat)) (s : Nat → Option Nat), l.Perm l' →
        (∀ a, a ∈ l → ∀ b, b ∈ l → a ≠ b → Disjoint a b) →
        l.foldl stepUnion s = l'.foldl stepUnion s
  | .orderSensitiveEmission => False

/-- **Every class used in the table is order-independent.** (Keys, values and states are
natural numbers here only to have a closed statement; the theorems of `Model/Order.lean` are
polymorphic.) -/
theorem class_deterministic : ∀ c : Class, c ≠ .orderSensitiveEmission → Deterministic c := by
  intro c hc
  cases c with
  | distinctKeyUpdate => intro f l l' s nd h; exact foldl_distinctKey f nd h s
  | existence => intro p l l' s h; exact foldl_exists p h s
  | uniqueMatch => intro p r l l' s h u; exact ⟨foldl_lastMatch p r h u s, foldl_firstMatch p r h u s⟩
  | minMaxSelect =>
    exact ⟨fun ok m l l' s h inj => foldl_argMin ok m h inj s, fun v l l' s h => foldl_max v h s⟩
  | collectThenSort =>
    intro le sort sp ss l l' h anti; exact collect_then_sort le sort sp ss h anti
  | commutativeAccumulate => intro l l' s h; exact foldl_andAcc h s
  | disjointUnion => intro l l' s h d; exact foldl_union h d s
  | orderSensitiveEmission => exact absurd rfl hc

/-- **Every map range of the compiler belongs to a class whose fold is order-independent.** -/
theorem every_site_deterministic : ∀ s ∈ Classified.sites, Deterministic s.cls :=
  fun s hs => class_deterministic s.cls (no_order_sensitive_site s hs)

/-! ### the defect that was there: emission in map order -/

/-- **Full statement for an emitting loop**: the emitted instruction sequence does not depend
on the order of the entries. -/
def EmitDeterministic (instr : String × Nat → String) : Prop :=
  ∀ l l' : List (String × Nat), (l.map Prod.fst).Nodup → l.Perm l' →
    l.foldl (stepEmit instr) [] = l'.foldl (stepEmit instr) []

/-- the body of the old loop of `emitter.emitPackage`: one `SetVar reg index` per entry -/
def setVarInstr (e : String × Nat) : String := "SetVar " ++ e.1 ++ " " ++ toString e.2

/-- `var a, b = f()` at package level: two entries, two different instructions, two possible
instruction sequences (what 200 builds of the real compiler showed before fix C30-setvar-order) -/
theorem setVar_emission_not_deterministic : ¬ EmitDeterministic setVarInstr := by
  intro h
  have := h [("a", 1), ("b", 2)] [("b", 2), ("a", 1)] (by decide) (List.Perm.swap _ _ _)
  revert this
  decide

/-! ### a second, mechanical reading of every loop; the callers of the by-name search

`Gen/MapRangeCalls.lean` (go/types, regenerated): the *shape* of every map range as a syntactic
recogniser sees it, the calls of the helpers whose search tests a parameter, and how
`sortDeclarations` fetches the dependencies of a declaration. The hash of a loop body does not
change when a *new caller* hands the loop data on which its uniqueness invariant is false — that
is a change of these facts. -/

open ScriggoV.Spec.MapRangeCallsReview in
/-- the recogniser looked at the same sites, in the same order -/
theorem shapes_same_sites :
    Gen.MapRangeCalls.shapes.map (fun s => (s.file, s.fn, s.ord))
      = Gen.MapRanges.sites.map (fun s => (s.file, s.fn, s.ord)) := by
  decide +kernel

open ScriggoV.Spec.MapRangeCallsReview in
/-- **The recognised shape of every loop is one its class explains**: no append without a sort,
no emission-like call under a selection class, no search where a store was read. -/
theorem shapes_agree_with_classes :
    (Classified.sites.zip Gen.MapRangeCalls.shapes).all
      (fun p => compatible p.1.cls p.2.shape) = true := by
  decide +kernel

/-- the searches that are *not* by key (their determinism is a uniqueness property of the data) -/
theorem by_field_searches :
    (Gen.MapRangeCalls.shapes.filter (·.shape == "selectByField")).map (fun s => (s.fn, s.test, s.testParams))
      = [("deps.nodeDeps", "slices.Contains(v, d.analyzingVarExprWithItea)", []),
         ("emitter.canOptimizeShowMacro", "t == typ", [])] := by
  decide +kernel

/-- the selections by an order (arg-min / arg-max) and the filter each applies to the entries
before comparing them: their determinism is injectivity of the measure on the entries the filter
lets through. One filter tests a parameter — `depsOf`, by name (since fix 89d8011 the first
declaration in the source with that name; before it, a search by field that returned at the first
key met) — so that its callers are listed by `helper_calls_reviewed`. -/
theorem filtered_selections :
    (Gen.MapRangeCalls.shapes.filter (fun s => s.shape == "minMax" && s.test != "")).map
        (fun s => (s.fn, s.test, s.testParams))
      = [("depsOf", "g.Name == name", ["name"]),
         ("scopes.DeclareLabel", "n.ti.Addressable()", []),
         ("scopes.Exit", "lbl.node == nil", []),
         ("scopes.Exit", "!lbl.used", []),
         ("scopes.Exit", "n.used || n.ti.IsConstant() || n.ti.IsType()", []),
         ("scopes.UnusedImport", "ok", [])] := by
  decide +kernel

open ScriggoV.Spec.MapRangeCallsReview in
/-- **Every call of a by-name selection helper is a reviewed one** (callee, caller, arguments as
written; a helper is a function whose search by field, or whose filter of a selection by order,
tests a parameter, and the functions that pass their parameters on to one). A new call —
`depsOf(c.Lhs[0].Name, deps)` where the name can be `_` — leaves this undischarged. -/
theorem helper_calls_reviewed :
    Gen.MapRangeCalls.helperCalls.map (fun c => (c.callee, c.caller, c.args))
      = helperCalls.map (fun c => (c.1, c.2.1, c.2.2.1)) := by
  decide +kernel

open ScriggoV.Spec.MapRangeCallsReview in
/-- **`sortDeclarations` fetches the dependencies of the declaration it places by identifier, in
each of its three groups** — the lookup `DeclOrder.byId` of the model, for which the ordering is
proved independent of the map's enumeration. -/
theorem sort_lookups_by_identifier :
    Gen.MapRangeCalls.sortLookups.map (fun l => lookupOf l.2) = [some .byId, some .byId, some .byId] := by
  decide +kernel

/-- **The ordering of the package-level declarations is a function of the declaration list
only**: for the lookup the source uses (previous theorem), two enumerations of the dependency
map — any permutation of its entries, keys distinct — give the same order. -/
theorem declaration_order_deterministic (es es' : DeclOrder.Entries)
    (nd : (es.map (·.1.id)).Nodup) (h : es.Perm es') (ds : List DeclOrder.Decl) :
    DeclOrder.sortDeclarations (DeclOrder.byId es) ds = DeclOrder.sortDeclarations (DeclOrder.byId es') ds :=
  DeclOrder.sortDeclarations_perm_invariant nd h ds

/-- **The by-name lookup of the loop detection** (`depsOf(last.Name, deps)`, since fix 89d8011
the first declaration in the source with that name): a function of the dependency map as a set
of entries, *also when a name is declared twice* — the statement that was false for the
first-key-met search (`not_byNameOrderDeterministic` below; finding dup-name-loop-report, cured). -/
theorem byNameFirst_deterministic (es es' : DeclOrder.Entries)
    (nd : (es.map (·.1.id)).Nodup) (h : es.Perm es') (d : DeclOrder.Decl) :
    DeclOrder.byNameFirst es d = DeclOrder.byNameFirst es' d :=
  DeclOrder.byNameFirst_perm nd h d

/-- **Full statement for the first-key-met lookup by name** (`depsOf` as it was before fix
89d8011, called as `depsOf(c.Lhs[0].Name, deps)`): false, the blank declarations share their
name. -/
def ByNameOrderDeterministic : Prop :=
  ∀ (es es' : DeclOrder.Entries), (es.map (·.1.id)).Nodup → es.Perm es' → ∀ ds,
    DeclOrder.sortDeclarations (DeclOrder.byName es) ds = DeclOrder.sortDeclarations (DeclOrder.byName es') ds

theorem not_byNameOrderDeterministic : ¬ ByNameOrderDeterministic :=
  DeclOrder.byName_not_perm_invariant

/-- `_partial`: by name it is deterministic exactly as far as the names are distinct -/
theorem byName_order_deterministic_partial (es es' : DeclOrder.Entries)
    (nd : (es.map (·.1.name)).Nodup) (h : es.Perm es') (ds : List DeclOrder.Decl) :
    DeclOrder.sortDeclarations (DeclOrder.byName es) ds = DeclOrder.sortDeclarations (DeclOrder.byName es') ds :=
  DeclOrder.sortDeclarations_byName_perm_of_distinct_names nd h ds

/-- sorting loses and invents nothing -/
theorem sort_group_is_permutation (deps : DeclOrder.Decl → List String) (extra : List String)
    (pending : List DeclOrder.Decl) :
    (DeclOrder.sortLoop deps extra pending.length pending []).Perm pending := by
  simpa using DeclOrder.sortLoop_perm deps extra pending.length pending []

/-! ### state that survives a build: package-level variables of the compiler

Builds in one process are independent only if nothing written during a build is read by the next.
Such state can only sit in package-level variables (or behind them). Regenerated with go/types:
all of them, and every direct write outside initialisers. Not covered: writes through an alias
(`ti := universe["true"].ti; ti.setValue(…)`) — the finding `history-universe-bool` was one
(cured by bb933ad: every use of a constant gets a copy of its type info);
the build-A, build-B, build-A oracle of go/props/c30 is what looks for those. -/

open ScriggoV.Spec.CompilerGlobalsReview in
/-- **No function of the compiler assigns to a package-level variable** (assignment, `++`,
`delete`, pointer-receiver call on it, or `&v`), scalar ones included: a counter or cache kept
in a package-level variable across builds breaks this. -/
theorem no_direct_write_to_globals : Gen.CompilerGlobals.directWrites = [] := by
  decide

open ScriggoV.Spec.CompilerGlobalsReview in
/-- **Every package-level variable that can hold a reference to mutable memory has been
reviewed** (name and type equal to the regenerated list): a new one is an obligation. -/
theorem reference_globals_reviewed :
    (Gen.CompilerGlobals.vars.filter (·.refs)).map (fun v => (v.name, v.typ))
      = reviewed.map (fun r => (r.1, r.2.1)) := by
  decide +kernel

open ScriggoV.Spec.CompilerGlobalsReview in
/-- **The variables from which a build can reach, by pointer, a struct whose fields functions of the
compiler assign are exactly the two reviewed as shared state** (type-based over-approximation of
"mutated through an alias", regenerated): `universe` and `untypedBoolTypeInfo`, through `*typeInfo`. -/
theorem pointer_reach_is_reviewed_shared_state :
    Gen.CompilerGlobals.pointerReach
      = (reviewed.filter (fun r => r.2.2 == .sharedTypeInfo)).map (fun r => (r.1, ["typeInfo"])) := by
  decide +kernel

open ScriggoV.Spec.CompilerGlobalsReview in
/-- **Who writes the fields of a `typeInfo`** (field, function): the reviewed list. The two that
write through a `*typeInfo` a node of the tree maps to are `typeInfo.setValue` and `emitter.ti`
(for `true` / `false` that was the universe's own: finding `history-universe-bool`, cured by
bb933ad); a new writer is an obligation. -/
theorem typeInfo_field_writers_reviewed :
    Gen.CompilerGlobals.fieldWrites = [("typeInfo", typeInfoWriters)] := by
  decide +kernel

/-! ### history independence: which state makes the history visible

`Model/History.lean`: builds that change only the components `W` of the surviving state and do
not read them give, after any history, what they give in a fresh process. The components a
build of this compiler can change are (regenerated) the package-level variables some function
writes directly — a cache, registry or pool: `containers`, `writtenVars` — and those from which a
written struct is reachable by pointer (`pointerReach`). -/

/-- the build-surviving state the compiler can write: the names of its components -/
def writtenState : List String :=
  Gen.CompilerGlobals.writtenVars ++ Gen.CompilerGlobals.pointerReach.map (·.1)

/-- **No package-level container is written by a function of the compiler** (map, slice, chan,
sync.Map, sync.Pool; assignment, index assignment, delete, append, method with pointer receiver):
a cache keyed by a Go value that outlives the build — `var nativeFunctions sync.Map` filled by
`predefFunc` — breaks this, and is named by it. -/
theorem no_container_written_by_builds :
    (Gen.CompilerGlobals.containers.filter (fun c => c.writers != [])).map (fun c => (c.name, c.kind)) = [] := by
  decide +kernel

/-- **The state a build can leave behind is the reviewed one**: nothing written directly, and the
two variables reaching `*typeInfo` values — by type: the over-approximation cannot tell the copy
that `checkIdentifier` records for a constant since bb933ad from the shared value, so the two
stay listed although the histories that showed them written (findings history-universe-bool*)
are cured. A new component is an undischarged obligation that names it. -/
theorem written_state_reviewed : writtenState = ["universe", "untypedBoolTypeInfo"] := by
  decide +kernel

/-- **History independence**, as far as it is proved: for every build function that changes at
most the reviewed written state and whose result does not read it, the result of building `i`
after any history is the result of building `i` in a fresh process. (Since bb933ad no history is
known on which the compiler writes that state; `Blind` stays a hypothesis because the type-based
reach of `written_state_reviewed` cannot exclude it.) -/
theorem history_independence_partial {ι ο : Type} (build : History.State → ι → ο × History.State)
    (fr : History.Frame writtenState build) (bl : History.Blind writtenState build)
    (s0 : History.State) (hist : List ι) (i : ι) :
    (build (History.after build s0 hist) i).1 = (build s0 i).1 :=
  History.history_independent_of_frame writtenState build fr bl s0 hist i

/-- **Full statement**: the compiler has no build-surviving writable state, so that (by
`History.history_independent_of_no_written_state`) the result of a build is a function of its
inputs alone. Not provable from the regenerated facts, which over-approximate by type
(`written_state_reviewed`: two variables reach `*typeInfo`): refuted *for that approximation*,
not by a behaviour of the compiler — the histories that did show it are cured by bb933ad. -/
def NoBuildSurvivingWritableState : Prop := writtenState = []

theorem history_independent_if_no_written_state (h : NoBuildSurvivingWritableState)
    {ι ο : Type} (build : History.State → ι → ο × History.State)
    (fr : History.Frame writtenState build) (s0 : History.State) (hist : List ι) (i : ι) :
    (build (History.after build s0 hist) i).1 = (build s0 i).1 := by
  unfold NoBuildSurvivingWritableState at h
  rw [h] at fr
  exact History.history_independent_of_no_written_state build fr s0 hist i

theorem not_noBuildSurvivingWritableState : ¬ NoBuildSurvivingWritableState := by
  unfold NoBuildSurvivingWritableState
  rw [written_state_reviewed]
  decide

open ScriggoV.Spec.CompilerGlobalsReview in
/-- **Full statement**: no reviewed variable can carry state from one build to the next. False
for the review as it stands: two hold `*typeInfo` values of a type that builds mutate (the
mutation of the universe's `true` / `false`, finding `history-universe-bool`, is cured by
bb933ad; that nothing else writes a shared type info is not proved). -/
def NoSharedBuildState : Prop := ∀ r ∈ reviewed, r.2.2 ≠ .sharedTypeInfo

open ScriggoV.Spec.CompilerGlobalsReview in
theorem not_noSharedBuildState : ¬ NoSharedBuildState := by
  intro h
  exact absurd rfl (h ("universe", "map[string]compiler.scopeName", .sharedTypeInfo) (by decide))

open ScriggoV.Spec.CompilerGlobalsReview in
/-- `_partial`: every reviewed variable except the two holding shared `*typeInfo` values is
read-only data (for those two: see `Verdict.sharedTypeInfo`) -/
theorem shared_build_state_partial :
    (reviewed.filter (fun r => r.2.2 == .sharedTypeInfo)).map (·.1) = ["universe", "untypedBoolTypeInfo"] := by
  decide

/-! ### non-vacuity -/

example : [(1, 10), (2, 20)].foldl (stepDistinctKey (fun _ v _ => v)) (fun _ => 0) 2 = 20 := by decide
example : UniqueResult (fun e : Nat × Nat => e.1 == 2) (fun e => e.2) [(1, 10), (2, 20), (3, 30)] := by
  intro a ha b hb pa pb
  simp at pa pb
  have := eq_of_key_eq [(1, 10), (2, 20), (3, 30)] (by decide) a b ha hb (by omega)
  rw [this]
example : [(1, 10), (2, 5), (3, 7)].foldl (stepArgMin (fun _ => true) (fun e => e.2)) none = some (2, 5) := by
  decide
/-- a build that does not touch the state satisfies the frame condition for any `W` -/
example : History.Frame writtenState (fun (s : History.State) (i : Nat) => (i + s "x", s)) :=
  fun _ _ _ _ => rfl
/-- a forward reference is sorted: `var a = b`, `var b = c`, `const c = 1` -/
example : (DeclOrder.sortDeclarations
    (DeclOrder.byId [(⟨0, .var, "a"⟩, ["b"]), (⟨1, .var, "b"⟩, ["c"]), (⟨2, .const, "c"⟩, [])])
    [⟨0, .var, "a"⟩, ⟨1, .var, "b"⟩, ⟨2, .const, "c"⟩]).map (·.id) = [2, 1, 0] := by decide

end ScriggoV.C30
