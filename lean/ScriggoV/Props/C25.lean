import ScriggoV.Lemmas.BuiltinsJSON
import ScriggoV.Lemmas.BuiltinsQuery
import ScriggoV.Lemmas.BuiltinsAbbr
/-! C25 — builtin functions honour their documentation and never panic instead of erroring.
Property theorems only, for all inputs; loop invariants and table facts are in
`Lemmas/Builtins*.lean`, `Lemmas/Runes.lean`. The table `lookupJSONSpace` (with its length),
the loop conditions / initial values / slice bounds of `trimJSONSpace`, the condition of
`onlyJSONWhitespace`, `QueryEscape`'s unreserved test and `hexchars`, and `Abbreviate`'s
`spaces` are regenerated from builtin.go on every check (`Gen/BuiltinTables.lean`). -/
namespace ScriggoV.Builtins
open ScriggoV.Gen.BuiltinTables ScriggoV.Percent ScriggoV.Runes

/-! ### QueryEscape -/

/-- **QueryEscape, functional correctness.** For every byte string the two-pass algorithm
(`last`, `numHex`, the pre-sized buffer, the final `copy`) returns, without any index or slice
fault, the string in which every byte outside `0-9 a-z A-Z - . _` is replaced by `%` and its two
lower-case hex digits. -/
theorem queryEscape_eq_spec (s : Bytes) : queryEscape s = .ok (qSpec s) := queryEscape_ok s

/-- **QueryEscape, the property.** The output percent-decodes (`net/url.QueryUnescape`'s
algorithm, `Spec/Percent.lean`) to the input, and consists only of RFC 3986 unreserved bytes
and `%xx` escapes. -/
theorem queryEscape_roundtrip (s : Bytes) :
    ∃ out, queryEscape s = .ok out ∧ pctDecode out = some s ∧ onlyUnreservedAndEscapes out = true :=
  ⟨qSpec s, queryEscape_ok s, pctDecode_qSpec s _ (Nat.le_refl _), alphabet_qSpec s _ (Nat.le_refl _)⟩

theorem queryEscape_no_fault (s : Bytes) : ∀ f, queryEscape s ≠ .error f := by
  intro f; rw [queryEscape_ok]; intro h; cases h

/-- every byte `QueryEscape` leaves unescaped is RFC-unreserved (the converse fails only for `~`) -/
theorem unreserved_sound (c : UInt8) (h : unreserved c = true) : rfcUnreserved c = true :=
  (plain_of_unreserved c h).1

example : unreserved 97 = true := by decide
example : queryEscape [97, 32, 98, 47, 255, 126, 43, 37, 99]
    = .ok [97, 37,50,48, 98, 37,50,102, 37,102,102, 37,55,101, 37,50,98, 37,50,53, 99] := by rfl
example : pctDecode [97, 37,50,48, 98, 43] = some [97, 32, 98, 32] := by decide
example : pctDecode [37, 50] = none := by decide

/-! ### lookupJSONSpace / onlyJSONWhitespace / trimJSONSpace -/

/-- the table can be indexed by every byte value (it was declared with 255 entries) -/
theorem lookupJSONSpace_covers_all_bytes : lookupJSONSpace.length = 256 ∧ lookupJSONSpaceLen = 256 := by
  decide +kernel

/-- **onlyJSONWhitespace**: no index fault for any string (any byte 0..255), and the result says
whether all bytes are JSON whitespace (RFC 8259: space, TAB, LF, CR). -/
theorem onlyJSONWhitespace_eq_spec (s : Bytes) : onlyJSONWhitespace s = .ok (s.all isWS) := by
  have := onlyWSFrom_spec s []
  simp only [List.nil_append, List.length_nil] at this
  unfold onlyJSONWhitespace
  rw [List.range_eq_range', this]

theorem onlyJSONWhitespace_no_fault (s : Bytes) : ∀ f, onlyJSONWhitespace s ≠ .error f := by
  intro f; rw [onlyJSONWhitespace_eq_spec]; intro h; cases h

/-- **trimJSONSpace**: no index or slice fault and no fuel exhaustion for any input (in particular
all-whitespace input), and the result is `trimSpec data`. -/
theorem trimJSONSpace_eq_spec (data : Bytes) : trimJSONSpace data = .ok (trimSpec data) :=
  trimJSONSpace_ok data

theorem trimJSONSpace_no_fault (data : Bytes) : ∀ f, trimJSONSpace data ≠ .error f := by
  intro f; rw [trimJSONSpace_ok]; intro h; cases h

/-- `trimSpec data` is exactly `data` with its leading and trailing JSON whitespace removed:
`data = a ++ trimSpec data ++ b`, `a` and `b` all whitespace, and the result neither begins nor
ends with whitespace. -/
theorem trimSpec_characterisation (data : Bytes) :
    ∃ a b, data = a ++ trimSpec data ++ b ∧ a.all isWS = true ∧ b.all isWS = true ∧
      (∀ x, (trimSpec data).head? = some x → isWS x = false) ∧
      (∀ x, (trimSpec data).getLast? = some x → isWS x = false) := by
  refine ⟨data.takeWhile isWS, ((data.dropWhile isWS).reverse.takeWhile isWS).reverse, ?_,
    List.all_takeWhile, by rw [List.all_reverse]; exact List.all_takeWhile, ?_, ?_⟩
  · unfold trimSpec
    rw [List.append_assoc, ← List.reverse_append, List.takeWhile_append_dropWhile,
      List.reverse_reverse, List.takeWhile_append_dropWhile]
  · -- head: the result is a prefix of `dropWhile isWS data`
    intro x hx
    unfold trimSpec at hx
    have hd := List.head?_dropWhile_not isWS data
    have hR : data.dropWhile isWS =
        ((data.dropWhile isWS).reverse.dropWhile isWS).reverse ++
        ((data.dropWhile isWS).reverse.takeWhile isWS).reverse := by
      rw [← List.reverse_append, List.takeWhile_append_dropWhile, List.reverse_reverse]
    cases hq : ((data.dropWhile isWS).reverse.dropWhile isWS).reverse with
    | nil => rw [hq] at hx; cases hx
    | cons y ys =>
      rw [hq] at hx hR
      rw [hR] at hd
      simp only [List.cons_append, List.head?_cons] at hd hx
      cases hx; exact hd
  · intro x hx
    unfold trimSpec at hx
    rw [List.getLast?_reverse] at hx
    have := List.head?_dropWhile_not isWS (data.dropWhile isWS).reverse
    rw [hx] at this
    exact this

example : trimJSONSpace [32, 10] = .ok [] := by rfl
example : trimJSONSpace [32, 123, 32, 125, 9, 13] = .ok [123, 32, 125] := by rfl
example : onlyJSONWhitespace [32, 255] = .ok false := by rfl

/-! ### Abbreviate

Documentation (builtin.go): "Abbreviate abbreviates s to almost n runes. If s is longer than n
runes, the abbreviated string terminates with "..."." Trailing ASCII whitespace is always
removed first (`trimRight`). -/

/-- **never longer than requested, never a fault**: for every byte string (valid UTF-8 or not)
and every `int` `n`, the result has at most `max n 0` runes (`utf8.RuneCountInString`). -/
theorem abbreviate_bound (s : Bytes) (n : Int) (hn : InRange n) :
    ∃ out, abbreviate s n = .ok out ∧ ((runeCount out : Nat) : Int) ≤ max n 0 := by
  obtain ⟨h1, h2, h3⟩ := abbreviate_cases s n hn
  by_cases hfit : ((runeCount (trimRight s) : Nat) : Int) ≤ n
  · exact ⟨_, h1 hfit, by omega⟩
  · by_cases hs : n < 3
    · refine ⟨[], h2 (by omega) hs, ?_⟩
      have : runeCount ([] : Bytes) = 0 := rfl
      omega
    · obtain ⟨t, ht, hc⟩ := h3 (by omega) (by omega)
      refine ⟨_, ht, ?_⟩
      rw [runeCount_append t dots dots_asciiHead, runeCount_dots]
      omega

theorem abbreviate_no_fault (s : Bytes) (n : Int) (hn : InRange n) : ∀ f, abbreviate s n ≠ .error f := by
  intro f h
  obtain ⟨out, ho, _⟩ := abbreviate_bound s n hn
  rw [ho] at h; cases h

/-- **a string that fits is returned unchanged** (up to the trailing whitespace that is always
removed): at most `n` runes → no abbreviation. False of the code before
fixes/C25-abbreviate-exact-fit.md (`Abbreviate("héllo wörld", 11) = "héllo..."`). -/
theorem abbreviate_fits (s : Bytes) (n : Int) (hn : InRange n)
    (h : ((runeCount (trimRight s) : Nat) : Int) ≤ n) : abbreviate s n = .ok (trimRight s) :=
  (abbreviate_cases s n hn).1 h

/-- **a longer string is abbreviated and ends with `...`** when there is room for the dots -/
theorem abbreviate_dots (s : Bytes) (n : Int) (hn : InRange n) (h3 : 3 ≤ n)
    (h : n < ((runeCount (trimRight s) : Nat) : Int)) : ∃ t, abbreviate s n = .ok (t ++ dots) := by
  obtain ⟨t, ht, _⟩ := (abbreviate_cases s n hn).2.2 h h3
  exact ⟨t, ht⟩

/-- with no room for the dots (`n < 3`) a longer string becomes the empty string -/
theorem abbreviate_small (s : Bytes) (n : Int) (hn : InRange n) (h3 : n < 3)
    (h : n < ((runeCount (trimRight s) : Nat) : Int)) : abbreviate s n = .ok [] :=
  (abbreviate_cases s n hn).2.1 h h3

example : InRange 11 := by decide
-- "héllo wörld" has 11 runes in 13 bytes: fits
example : runeCount [104,195,169,108,108,111,32,119,195,182,114,108,100] = 11 := by decide
example : abbreviate [104,195,169,108,108,111,32,119,195,182,114,108,100] 11
    = .ok [104,195,169,108,108,111,32,119,195,182,114,108,100] := by rfl
-- "Lorem ipsum d", 12 → "Lorem..."
example : abbreviate [76,111,114,101,109,32,105,112,115,117,109,32,100] 12
    = .ok [76,111,114,101,109,46,46,46] := by rfl
example : abbreviate [195,169,195,169] 1 = .ok [] := by rfl

/-! ### Abs / Max / Min -/

/-- **Abs** on 64-bit `int`: the absolute value, except that — as documented — the smallest
negative integer is returned unchanged (`-x` wraps). -/
theorem goAbs_spec (x : Int) (hx : InRange x) :
    (x ≠ minInt64 → goAbs x = (x.natAbs : Int)) ∧ (x = minInt64 → goAbs x = x) ∧ InRange (goAbs x) := by
  unfold goAbs wrap64 Int.bmod InRange minInt64 maxInt64 at *
  simp only []
  refine ⟨?_, ?_, ?_⟩
  · intro h; split <;> (try split) <;> omega
  · intro h; subst h; decide
  · split <;> (try split) <;> omega

theorem goMax_spec (x y : Int) : goMax x y = max x y := by
  unfold goMax; split <;> omega

theorem goMin_spec (x y : Int) : goMin x y = min x y := by
  unfold goMin; split <;> omega

example : InRange minInt64 ∧ goAbs minInt64 = minInt64 ∧ goAbs (-5) = 5 := by decide

end ScriggoV.Builtins
