import ScriggoV.Lemmas.BuiltinsJSON
import ScriggoV.Lemmas.BuiltinsQuery
import ScriggoV.Lemmas.BuiltinsAbbr
import ScriggoV.Lemmas.BuiltinsText
import ScriggoV.Gen.ReflectGuards
/-! C25 — builtin functions honour their documentation and never panic instead of erroring.
Property theorems only, for all inputs; loop invariants and table facts are in
`Lemmas/Builtins*.lean`, `Lemmas/Runes.lean`. The table `lookupJSONSpace` (with its length),
the loop conditions / initial values / slice bounds of `trimJSONSpace`, the condition of
`onlyJSONWhitespace`, `QueryEscape`'s unreserved test and `hexchars`, and `Abbreviate`'s
`spaces` are regenerated from builtin.go on every check (`Gen/BuiltinTables.lean`). -/
namespace ScriggoV.Builtins
open ScriggoV.Gen.BuiltinTables ScriggoV.Percent ScriggoV.Runes

/-! ### QueryEscape -/

/-- **QueryEscape, functional correctness.** For every byte string the two-pass algorithm
(`last`, `numHex`, the pre-sized buffer, the final `copy`) returns, without any index or slice
fault, the string in which every byte outside `0-9 a-z A-Z - . _` is replaced by `%` and its two
lower-case hex digits. -/
theorem queryEscape_eq_spec (s : Bytes) : queryEscape s = .ok (qSpec s) := queryEscape_ok s

/-- **QueryEscape, the property.** The output percent-decodes (`net/url.QueryUnescape`'s
algorithm, `Spec/Percent.lean`) to the input, and consists only of RFC 3986 unreserved bytes
and `%xx` escapes. -/
theorem queryEscape_roundtrip (s : Bytes) :
    ∃ out, queryEscape s = .ok out ∧ pctDecode out = some s ∧ onlyUnreservedAndEscapes out = true :=
  ⟨qSpec s, queryEscape_ok s, pctDecode_qSpec s _ (Nat.le_refl _), alphabet_qSpec s _ (Nat.le_refl _)⟩

theorem queryEscape_no_fault (s : Bytes) : ∀ f, queryEscape s ≠ .error f := by
  intro f; rw [queryEscape_ok]; intro h; cases h

/-- every byte `QueryEscape` leaves unescaped is RFC-unreserved (the converse fails only for `~`) -/
theorem unreserved_sound (c : UInt8) (h : unreserved c = true) : rfcUnreserved c = true :=
  (plain_of_unreserved c h).1

example : unreserved 97 = true := by decide
example : queryEscape [97, 32, 98, 47, 255, 126, 43, 37, 99]
    = .ok [97, 37,50,48, 98, 37,50,102, 37,102,102, 37,55,101, 37,50,98, 37,50,53, 99] := by rfl
example : pctDecode [97, 37,50,48, 98, 43] = some [97, 32, 98, 32] := by decide
example : pctDecode [37, 50] = none := by decide

/-! ### lookupJSONSpace / onlyJSONWhitespace / trimJSONSpace -/

/-- the table can be indexed by every byte value (it was declared with 255 entries) -/
theorem lookupJSONSpace_covers_all_bytes : lookupJSONSpace.length = 256 ∧ lookupJSONSpaceLen = 256 := by
  decide +kernel

/-- **onlyJSONWhitespace**: no index fault for any string (any byte 0..255), and the result says
whether all bytes are JSON whitespace (RFC 8259: space, TAB, LF, CR). -/
theorem onlyJSONWhitespace_eq_spec (s : Bytes) : onlyJSONWhitespace s = .ok (s.all isWS) := by
  have := onlyWSFrom_spec s []
  simp only [List.nil_append, List.length_nil] at this
  unfold onlyJSONWhitespace
  rw [List.range_eq_range', this]

theorem onlyJSONWhitespace_no_fault (s : Bytes) : ∀ f, onlyJSONWhitespace s ≠ .error f := by
  intro f; rw [onlyJSONWhitespace_eq_spec]; intro h; cases h

/-- **trimJSONSpace**: no index or slice fault and no fuel exhaustion for any input (in particular
all-whitespace input), and the result is `trimSpec data`. -/
theorem trimJSONSpace_eq_spec (data : Bytes) : trimJSONSpace data = .ok (trimSpec data) :=
  trimJSONSpace_ok data

theorem trimJSONSpace_no_fault (data : Bytes) : ∀ f, trimJSONSpace data ≠ .error f := by
  intro f; rw [trimJSONSpace_ok]; intro h; cases h

/-- `trimSpec data` is exactly `data` with its leading and trailing JSON whitespace removed:
`data = a ++ trimSpec data ++ b`, `a` and `b` all whitespace, and the result neither begins nor
ends with whitespace. -/
theorem trimSpec_characterisation (data : Bytes) :
    ∃ a b, data = a ++ trimSpec data ++ b ∧ a.all isWS = true ∧ b.all isWS = true ∧
      (∀ x, (trimSpec data).head? = some x → isWS x = false) ∧
      (∀ x, (trimSpec data).getLast? = some x → isWS x = false) := by
  refine ⟨data.takeWhile isWS, ((data.dropWhile isWS).reverse.takeWhile isWS).reverse, ?_,
    List.all_takeWhile, by rw [List.all_reverse]; exact List.all_takeWhile, ?_, ?_⟩
  · unfold trimSpec
    rw [List.append_assoc, ← List.reverse_append, List.takeWhile_append_dropWhile,
      List.reverse_reverse, List.takeWhile_append_dropWhile]
  · -- head: the result is a prefix of `dropWhile isWS data`
    intro x hx
    unfold trimSpec at hx
    have hd := List.head?_dropWhile_not isWS data
    have hR : data.dropWhile isWS =
        ((data.dropWhile isWS).reverse.dropWhile isWS).reverse ++
        ((data.dropWhile isWS).reverse.takeWhile isWS).reverse := by
      rw [← List.reverse_append, List.takeWhile_append_dropWhile, List.reverse_reverse]
    cases hq : ((data.dropWhile isWS).reverse.dropWhile isWS).reverse with
    | nil => rw [hq] at hx; cases hx
    | cons y ys =>
      rw [hq] at hx hR
      rw [hR] at hd
      simp only [List.cons_append, List.head?_cons] at hd hx
      cases hx; exact hd
  · intro x hx
    unfold trimSpec at hx
    rw [List.getLast?_reverse] at hx
    have := List.head?_dropWhile_not isWS (data.dropWhile isWS).reverse
    rw [hx] at this
    exact this

example : trimJSONSpace [32, 10] = .ok [] := by rfl
example : trimJSONSpace [32, 123, 32, 125, 9, 13] = .ok [123, 32, 125] := by rfl
example : onlyJSONWhitespace [32, 255] = .ok false := by rfl

/-! ### Abbreviate

Documentation (builtin.go): "Abbreviate abbreviates s to almost n runes. If s is longer than n
runes, the abbreviated string terminates with "..."." Trailing ASCII whitespace is always
removed first (`trimRight`). -/

/-- **never longer than requested, never a fault**: for every byte string (valid UTF-8 or not)
and every `int` `n`, the result has at most `max n 0` runes (`utf8.RuneCountInString`). -/
theorem abbreviate_bound (s : Bytes) (n : Int) (hn : InRange n) :
    ∃ out, abbreviate s n = .ok out ∧ ((runeCount out : Nat) : Int) ≤ max n 0 := by
  obtain ⟨h1, h2, h3⟩ := abbreviate_cases s n hn
  by_cases hfit : ((runeCount (trimRight s) : Nat) : Int) ≤ n
  · exact ⟨_, h1 hfit, by omega⟩
  · by_cases hs : n < 3
    · refine ⟨[], h2 (by omega) hs, ?_⟩
      have : runeCount ([] : Bytes) = 0 := rfl
      omega
    · obtain ⟨t, ht, hc⟩ := h3 (by omega) (by omega)
      refine ⟨_, ht, ?_⟩
      rw [runeCount_append t dots dots_asciiHead, runeCount_dots]
      omega

theorem abbreviate_no_fault (s : Bytes) (n : Int) (hn : InRange n) : ∀ f, abbreviate s n ≠ .error f := by
  intro f h
  obtain ⟨out, ho, _⟩ := abbreviate_bound s n hn
  rw [ho] at h; cases h

/-- **a string that fits is returned unchanged** (up to the trailing whitespace that is always
removed): at most `n` runes → no abbreviation. False of the code before
fixes/C25-abbreviate-exact-fit.md (`Abbreviate("héllo wörld", 11) = "héllo..."`). -/
theorem abbreviate_fits (s : Bytes) (n : Int) (hn : InRange n)
    (h : ((runeCount (trimRight s) : Nat) : Int) ≤ n) : abbreviate s n = .ok (trimRight s) :=
  (abbreviate_cases s n hn).1 h

/-- **a longer string is abbreviated and ends with `...`** when there is room for the dots -/
theorem abbreviate_dots (s : Bytes) (n : Int) (hn : InRange n) (h3 : 3 ≤ n)
    (h : n < ((runeCount (trimRight s) : Nat) : Int)) : ∃ t, abbreviate s n = .ok (t ++ dots) := by
  obtain ⟨t, ht, _⟩ := (abbreviate_cases s n hn).2.2 h h3
  exact ⟨t, ht⟩

/-- with no room for the dots (`n < 3`) a longer string becomes the empty string -/
theorem abbreviate_small (s : Bytes) (n : Int) (hn : InRange n) (h3 : n < 3)
    (h : n < ((runeCount (trimRight s) : Nat) : Int)) : abbreviate s n = .ok [] :=
  (abbreviate_cases s n hn).2.1 h h3

example : InRange 11 := by decide
-- "héllo wörld" has 11 runes in 13 bytes: fits
example : runeCount [104,195,169,108,108,111,32,119,195,182,114,108,100] = 11 := by decide
example : abbreviate [104,195,169,108,108,111,32,119,195,182,114,108,100] 11
    = .ok [104,195,169,108,108,111,32,119,195,182,114,108,100] := by rfl
-- "Lorem ipsum d", 12 → "Lorem..."
example : abbreviate [76,111,114,101,109,32,105,112,115,117,109,32,100] 12
    = .ok [76,111,114,101,109,46,46,46] := by rfl
example : abbreviate [195,169,195,169] 1 = .ok [] := by rfl

/-! ### Abs / Max / Min -/

/-- **Abs** on 64-bit `int`: the absolute value, except that — as documented — the smallest
negative integer is returned unchanged (`-x` wraps). -/
theorem goAbs_spec (x : Int) (hx : InRange x) :
    (x ≠ minInt64 → goAbs x = (x.natAbs : Int)) ∧ (x = minInt64 → goAbs x = x) ∧ InRange (goAbs x) := by
  unfold goAbs wrap64 Int.bmod InRange minInt64 maxInt64 at *
  simp only []
  refine ⟨?_, ?_, ?_⟩
  · intro h; split <;> (try split) <;> omega
  · intro h; subst h; decide
  · split <;> (try split) <;> omega

theorem goMax_spec (x y : Int) : goMax x y = max x y := by
  unfold goMax; split <;> omega

theorem goMin_spec (x y : Int) : goMin x y = min x y := by
  unfold goMin; split <;> omega

example : InRange minInt64 ∧ goAbs minInt64 = minInt64 ∧ goAbs (-5) = 5 := by decide

/-! ### IndentJSON / MarshalJSONIndent: the prefix/indent rule

`MarshalJSONIndent` documents "prefix and indent can only contain whitespace: ' ', '\t', '\n' and
'\r'" — exactly `onlyJSONWhitespace_eq_spec`. `IndentJSON` documents "panics … if prefix or indent
contain characters other than ' ' or '\t'", which the shared validation loop does not implement:
LF and CR are accepted too (known finding `indentjson-doc-newline`, a documentation imprecision:
`json.Indent` itself accepts any prefix). -/

def spaceOrTab (c : UInt8) : Bool := c == 32 || c == 9

/-- `IndentJSON`'s documented rule, at full strength: false of the code -/
def IndentJSONDocRule : Prop := ∀ s : Bytes, onlyJSONWhitespace s = .ok (s.all spaceOrTab)

theorem indentJSON_doc_rule_refuted : ¬ IndentJSONDocRule := by
  intro h
  have := h [10]
  rw [onlyJSONWhitespace_eq_spec] at this
  exact absurd (Except.ok.inj this) (by decide)

/-- the part of `IndentJSON`'s rule that holds: everything the documentation allows is accepted,
and whatever is accepted is JSON whitespace (missing: LF and CR are accepted although the
documentation of `IndentJSON` — not of `MarshalJSONIndent` — excludes them) -/
theorem indentJSON_doc_rule_partial (s : Bytes) :
    (s.all spaceOrTab = true → onlyJSONWhitespace s = .ok true) ∧
    (onlyJSONWhitespace s = .ok true → s.all isWS = true) := by
  rw [onlyJSONWhitespace_eq_spec]
  constructor
  · intro h
    congr 1
    rw [List.all_eq_true] at h ⊢
    intro x hx
    have := h x hx
    unfold spaceOrTab at this
    unfold isWS
    simp only [Bool.or_eq_true] at this ⊢
    rcases this with h | h
    · exact Or.inl (Or.inl (Or.inl h))
    · exact Or.inl (Or.inl (Or.inr h))
  · intro h; exact Except.ok.inj h

example : [32, 9, 32].all spaceOrTab = true := by decide

/-! ### the source text every hand-written control flow was modelled against -/

/-- the normalised source of each hand-modelled function in builtin.go is the text its model
was written against (Model/BuiltinsText.lean); any edit of one of them breaks this obligation
until the model has been re-read -/
theorem hand_modelled_sources_pinned :
    Gen.BuiltinFuncs.srcIsSeparator = expectedSrcIsSeparator ∧
    Gen.BuiltinFuncs.srcCapitalize = expectedSrcCapitalize ∧
    Gen.BuiltinFuncs.srcCapitalizeAll = expectedSrcCapitalizeAll ∧
    Gen.BuiltinFuncs.srcToKebab = expectedSrcToKebab ∧
    Gen.BuiltinFuncs.srcReverse = expectedSrcReverse ∧
    Gen.BuiltinFuncs.srcAbbreviate = expectedSrcAbbreviate ∧
    Gen.BuiltinFuncs.srcAbs = expectedSrcAbs ∧
    Gen.BuiltinFuncs.srcMax = expectedSrcMax ∧
    Gen.BuiltinFuncs.srcMin = expectedSrcMin ∧
    Gen.BuiltinFuncs.srcQueryEscape = expectedSrcQueryEscape ∧
    Gen.BuiltinFuncs.srcIndentJSON = expectedSrcIndentJSON ∧
    Gen.BuiltinFuncs.srcMarshalJSONIndent = expectedSrcMarshalJSONIndent :=
  ⟨rfl, rfl, rfl, rfl, rfl, rfl, rfl, rfl, rfl, rfl, rfl, rfl⟩

/-! ### Capitalize

Documentation: "Capitalize returns a copy of the string s with the first non-separator in upper
case." `U` stands for package unicode (IsUpper, ToUpper, IsLetter, IsDigit, IsSpace). -/
open ScriggoV.Utf8

/-- **no fault and byte-for-byte preservation, for every byte string and whatever package unicode
answers**: the result is `s` itself, or `s` with exactly one rune — the first non-separator one,
not upper case — replaced by the encoding of its upper case; all bytes before (a run of whole
separator runes) and after it are unchanged. (The class of fixes/C25-capitalize-rune-width.md:
`s[i+size:]` can never be out of range.) -/
theorem capitalize_structure (U : UnicodeFns) (s : Bytes) :
    ∃ out, capitalize U s = .ok out ∧ CapResult U [] s out := by
  have := capLoop_spec U s.length s [] (Nat.le_refl _)
  simpa [capitalize] using this

theorem capitalize_no_fault (U : UnicodeFns) (s : Bytes) : ∀ f, capitalize U s ≠ .error f := by
  intro f h
  obtain ⟨out, ho, _⟩ := capitalize_structure U s
  rw [ho] at h; cases h

/-- **idempotence** under what is assumed of package unicode (`CapUnicodeOK`: ToUpper∘ToUpper =
ToUpper, ToUpper keeps separator-ness and validity, U+FFFD is not a separator — checked over all
runes by the harness) -/
theorem capitalize_idempotent (U : UnicodeFns) (hU : CapUnicodeOK U) (s out : Bytes)
    (h : capitalize U s = .ok out) : capitalize U out = .ok out := by
  obtain ⟨out', ho, hres⟩ := capitalize_structure U s
  rw [ho] at h
  have : out' = out := Except.ok.inj h
  subst this
  exact capitalize_idem_aux U hU s out' hres ho

/-- a non-vacuous instance of the unicode parameter (ASCII only), used by the examples -/
def asciiUnicode : UnicodeFns where
  isLower r := decide (97 ≤ r ∧ r ≤ 122)
  isUpper r := decide (65 ≤ r ∧ r ≤ 90)
  isDigit r := decide (48 ≤ r ∧ r ≤ 57)
  isLetter r := decide ((97 ≤ r ∧ r ≤ 122) ∨ (65 ≤ r ∧ r ≤ 90))
  isSpace r := decide (r = 32 ∨ (9 ≤ r ∧ r ≤ 13) ∨ r = 0x85 ∨ r = 0xA0)
  toUpper r := if 97 ≤ r ∧ r ≤ 122 then r - 32 else r
  toLower r := if 65 ≤ r ∧ r ≤ 90 then r + 32 else r

example : capitalize asciiUnicode [32, 255, 97] = .ok [32, 0xEF, 0xBF, 0xBD, 97] := by rfl
example : capitalize asciiUnicode [32, 45, 97, 98, 32, 99] = .ok [32, 45, 65, 98, 32, 99] := by rfl
example : capitalize asciiUnicode [0xC9, 0x90] = .ok [0xC9, 0x90] := by rfl

/-! ### CapitalizeAll

Documentation: "CapitalizeAll returns a copy of the string s with the first letter of each word
in upper case." No index arithmetic (`strings.Map`); the model cannot fault. -/

/-- **only first letters change**: rune `k` of the result is rune `k` of `s`, upper-cased exactly
when the rune before it (a space before the first) is a separator; nothing else changes -/
theorem capitalizeAll_structure (U : UnicodeFns) (s : Bytes) :
    capitalizeAll U s =
      (List.zipWith (capAllStep U) (32 :: runeVals s) (runeVals s)).flatMap encodeRune := by
  rw [capitalizeAll_eq, capAllRunes_zipWith]

/-- **idempotence**, on bytes, under `UpperStable` and validity-preservation of ToUpper -/
theorem capitalizeAll_idempotent (U : UnicodeFns) (hU : UpperStable U)
    (hV : ∀ r, ValidRune r → ValidRune (U.toUpper r)) (s : Bytes) :
    capitalizeAll U (capitalizeAll U s) = capitalizeAll U s := by
  rw [capitalizeAll_eq U s, capitalizeAll_eq U]
  rw [runeVals_flatMap_encode _ (capAllRunes_valid U hV _ _ (runeVals_valid s))]
  rw [capAllRunes_idem U hU _ 32 32 rfl]

example : capitalizeAll asciiUnicode [97, 98, 32, 99, 255, 45, 100]
    = [65, 98, 32, 67, 0xEF, 0xBF, 0xBD, 45, 68] := by rfl

/-! ### ToKebab

Documentation: "ToKebab returns a copy of the string s in kebab case form." -/

/-- **no index fault** (`runes[i-1]`, `runes[i+1]`) for any string, whatever package unicode answers -/
theorem toKebab_no_fault (U : UnicodeFns) (s : Bytes) : ∀ f, toKebab U s ≠ .error f := by
  intro f h
  obtain ⟨res, hr⟩ := kebabLoop_no_fault U (runeVals s) (runeVals s).length 0 false [] (by omega)
    (fun h => by cases h)
  unfold toKebab toKebabRunes at h
  rw [List.range_eq_range', hr] at h
  cases h

/-- **kebab shape**: the result (as runes) does not begin or end with a dash, has no two adjacent
dashes, and every rune of it is a dash, a lower-case letter or digit of `s`, or the lower case of
an upper-case letter of `s` — under `KebabUnicodeOK` (the dash is neither lower case, a digit nor
the lower case of an upper-case letter) -/
theorem toKebab_shape (U : UnicodeFns) (hU : KebabUnicodeOK U) (s : Bytes) :
    ∃ res, toKebab U s = .ok (res.flatMap encodeRune) ∧ res.head? ≠ some 45 ∧ res.getLast? ≠ some 45 ∧
      noDoubleDash res = true ∧ ∀ x ∈ res, KebabFrom U (runeVals s) x := by
  obtain ⟨res, hr, h1, h2, h3, h4⟩ := toKebabRunes_spec U hU (runeVals s)
  exact ⟨res, by unfold toKebab; rw [hr], h1, h2, h3, h4⟩

example : KebabUnicodeOK asciiUnicode := by
  constructor
  · intro r h; unfold Gen.BuiltinFuncs.kebabCase1 asciiUnicode at h; simp at h; omega
  · intro r h; unfold Gen.BuiltinFuncs.kebabCase2 asciiUnicode at h
    simp only [asciiUnicode, decide_eq_true_eq] at h ⊢
    rw [if_pos h]; omega
-- "fooBarBAZ x!" -> "foo-bar-baz-x"
example : toKebab asciiUnicode [102,111,111,66,97,114,66,65,90,32,120,33]
    = .ok [102,111,111,45,98,97,114,45,98,97,122,45,120] := by rfl

/-! ### Reverse, FormatFloat -/

/-- **Reverse** (the swap loop with `i`, `j`): no index fault, and the result is the reversed slice -/
theorem goReverse_eq_reverse {α : Type} (xs : List α) : goReverse xs = .ok xs.reverse :=
  goReverse_ok xs

/-- **FormatFloat**: `format[0]` is only reached for the one-byte formats "e", "f", "g"; every
other format is the documented panic -/
theorem formatFloatVerb_spec (format : Bytes) :
    (formatFloatVerb format = .ok none ∧ format ≠ [101] ∧ format ≠ [102] ∧ format ≠ [103]) ∨
    (∃ b, format = [b] ∧ (b = 101 ∨ b = 102 ∨ b = 103) ∧ formatFloatVerb format = .ok (some b)) := by
  unfold formatFloatVerb
  by_cases h : Gen.BuiltinFuncs.formatFloatFormats.contains format = true
  · right
    rw [if_pos h]
    have : format = [101] ∨ format = [102] ∨ format = [103] := by
      simpa [Gen.BuiltinFuncs.formatFloatFormats] using h
    rcases this with rfl | rfl | rfl
    · exact ⟨101, rfl, Or.inl rfl, rfl⟩
    · exact ⟨102, rfl, Or.inr (Or.inl rfl), rfl⟩
    · exact ⟨103, rfl, Or.inr (Or.inr rfl), rfl⟩
  · left
    rw [if_neg h]
    refine ⟨rfl, ?_⟩
    have : ¬ (format = [101] ∨ format = [102] ∨ format = [103]) := by
      simpa [Gen.BuiltinFuncs.formatFloatFormats] using h
    exact ⟨fun e => this (Or.inl e), fun e => this (Or.inr (Or.inl e)), fun e => this (Or.inr (Or.inr e))⟩

example : goReverse [1, 2, 3, 4, 5] = .ok [5, 4, 3, 2, 1] := by rfl

/-! ### Argument kinds: the builtins that apply package reflect to an argument of type `any`

`Gen/ReflectGuards.lean` is the body of every such function (today UnmarshalJSON, UnmarshalYAML,
Reverse, Sort) as regenerated from builtin.go: its checks, its reflect operations in evaluation
order, its returns and documented panics. `outcomes prog a` is everything that can happen when it
is called with the abstract argument `a` (the nil interface, or a value of one of the 27 kinds,
zero or not), the conditions that are not about the argument being followed both ways; a reflect
operation whose documented precondition (`Spec/Reflect.lean`) fails is the outcome `panic`. -/
section ArgumentKinds
open ScriggoV.Reflect ScriggoV.Gen.ReflectGuards

/-- **Every reflect operation is dominated by the checks that establish its precondition**: in
none of the functions, for no argument (of any kind, nil or not, zero or not) and whatever the
other conditions evaluate to, does a reflect operation panic — `rv.Type()` only after `v == nil`
has returned, `rt.Elem()` / `rv.Elem()` / `Set` only after `rv.Kind() != reflect.Pointer` and
`rv.IsZero()` have returned, `rv.Len()` / `reflect.Swapper` / `sort.Slice` / `v.Index` only after
the non-slice panic. -/
theorem reflect_ops_guarded (p : String × List Stmt) (hp : p ∈ progs) (a : Arg) :
    ∀ o ∈ outcomes p.2 a, o.isPanic = false := by
  have h : progs.all (fun p => Arg.all.all (fun a => neverPanics p.2 a)) = true := by decide
  have h1 := Arg.forall_of_all _ (List.all_eq_true.mp h p hp) a
  intro o ho
  have := List.all_eq_true.mp h1 o ho
  simpa using this

/-- the statement is about these functions -/
theorem reflect_progs_names :
    progs.map (·.1) = ["Reverse", "Sort", "UnmarshalJSON", "UnmarshalYAML"] := by decide

/-- **UnmarshalJSON, documented errors** ("If v is nil or not a pointer, UnmarshalJSON returns an
error"; also for a nil pointer): for exactly these arguments every path returns an error; for a
non-nil pointer no path panics and the outcome is that of `json.Unmarshal` (error or nil). -/
theorem unmarshalJSON_error_iff (a : Arg) :
    (outcomes progUnmarshalJSON a).all Outcome.isErr = (a == .nilIface || !a.isPointer || a.isZero) ∧
    (outcomes progUnmarshalJSON a).all (fun o => o.isErr || o.isOk) = true ∧
    ((a.isPointer && !a.isZero) = true → (outcomes progUnmarshalJSON a).any Outcome.isOk = true) := by
  refine ⟨?_, ?_, ?_⟩
  · exact of_decide_eq_true (Arg.forall_of_all (fun a => decide
      ((outcomes progUnmarshalJSON a).all Outcome.isErr = (a == .nilIface || !a.isPointer || a.isZero))) (by decide) a)
  · exact Arg.forall_of_all (fun a => (outcomes progUnmarshalJSON a).all (fun o => o.isErr || o.isOk)) (by decide) a
  · exact of_decide_eq_true (Arg.forall_of_all (fun a => decide
      ((a.isPointer && !a.isZero) = true → (outcomes progUnmarshalJSON a).any Outcome.isOk = true)) (by decide) a)

/-- **UnmarshalYAML, documented errors**: as for UnmarshalJSON. -/
theorem unmarshalYAML_error_iff (a : Arg) :
    (outcomes progUnmarshalYAML a).all Outcome.isErr = (a == .nilIface || !a.isPointer || a.isZero) ∧
    (outcomes progUnmarshalYAML a).all (fun o => o.isErr || o.isOk) = true ∧
    ((a.isPointer && !a.isZero) = true → (outcomes progUnmarshalYAML a).any Outcome.isOk = true) := by
  refine ⟨?_, ?_, ?_⟩
  · exact of_decide_eq_true (Arg.forall_of_all (fun a => decide
      ((outcomes progUnmarshalYAML a).all Outcome.isErr = (a == .nilIface || !a.isPointer || a.isZero))) (by decide) a)
  · exact Arg.forall_of_all (fun a => (outcomes progUnmarshalYAML a).all (fun o => o.isErr || o.isOk)) (by decide) a
  · exact of_decide_eq_true (Arg.forall_of_all (fun a => decide
      ((a.isPointer && !a.isZero) = true → (outcomes progUnmarshalYAML a).any Outcome.isOk = true)) (by decide) a)

/-- **Reverse / Sort, documented panic** ("If slice is not a slice, it panics"): for a non-nil
argument that is not a slice every path ends in the function's own `panic("reverse: …")` /
`panic("sort: …")`; for a slice (nil or not) and for the nil interface no path panics at all. -/
theorem reverse_sort_docPanic_iff (a : Arg) :
    (outcomes progReverse a).all Outcome.isDocPanic = (a != .nilIface && !a.isSlice) ∧
    (outcomes progSort a).all Outcome.isDocPanic = (a != .nilIface && !a.isSlice) ∧
    ((a == .nilIface || a.isSlice) = true →
      (outcomes progReverse a ++ outcomes progSort a).all (fun o => !o.isDocPanic && !o.isPanic) = true) := by
  refine ⟨?_, ?_, ?_⟩
  · exact of_decide_eq_true (Arg.forall_of_all (fun a => decide
      ((outcomes progReverse a).all Outcome.isDocPanic = (a != .nilIface && !a.isSlice))) (by decide) a)
  · exact of_decide_eq_true (Arg.forall_of_all (fun a => decide
      ((outcomes progSort a).all Outcome.isDocPanic = (a != .nilIface && !a.isSlice))) (by decide) a)
  · exact of_decide_eq_true (Arg.forall_of_all (fun a => decide
      ((a == .nilIface || a.isSlice) = true →
        (outcomes progReverse a ++ outcomes progSort a).all (fun o => !o.isDocPanic && !o.isPanic) = true)) (by decide) a)

/-- the model tells the orders apart: with `rt.Elem()` evaluated before the kind check, an `int`
argument reaches it and panics (`Type.Elem` of a type that has no element type) -/
def elemBeforeKindCheck : List Stmt := [
  .ite (.argNil 0 false) "v == nil" [.ret .err] [],
  .op 1 (.valueOf 0) "reflect.ValueOf(v)",
  .op 2 (.vType 1) "rv.Type()",
  .op 3 (.tElem 2) "rt.Elem()",
  .ite (.kindIs 1 .pointer true) "rv.Kind() != reflect.Pointer" [.ret .err] [],
  .ret .ok]
example : neverPanics elemBeforeKindCheck (.dyn .int false) = false := by decide
example : neverPanics elemBeforeKindCheck (.dyn .slice false) = true := by decide
example : outcomeNames elemBeforeKindCheck (.dyn .struct true) = ["panic:rt.Elem()"] := by decide
example : outcomeNames progUnmarshalJSON (.dyn .pointer false) = ["left:err", "left:ok"] := by decide
example : outcomeNames progReverse (.dyn .map false) = ["left:docpanic"] := by decide
/-- without the nil check `rv.Type()` panics on the nil interface, and `Set` on a nil pointer -/
example : neverPanics [.op 1 (.valueOf 0) "", .op 2 (.vType 1) ""] .nilIface = false := by decide
example : neverPanics [.op 1 (.valueOf 0) "", .op 2 (.vElem 1) "", .op 3 (.new (2)) ""] (.dyn .pointer true) = false := by decide

end ArgumentKinds

end ScriggoV.Builtins
