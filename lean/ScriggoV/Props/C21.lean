import ScriggoV.Model.Lexer
import ScriggoV.Spec.Position
/-! # C21 — build errors point at a real location (placeholder; theorems follow) -/
namespace ScriggoV.Props.C21
open ScriggoV ScriggoV.Lexer

theorem placeholder : True := trivial

end ScriggoV.Props.C21
