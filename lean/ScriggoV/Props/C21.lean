import ScriggoV.Lemmas.LexerPosCode
import ScriggoV.Lemmas.PositionSpec
import ScriggoV.Lemmas.LexAdvance
import ScriggoV.Gen.LexAdvance
import ScriggoV.Lemmas.ErrorPaths
import ScriggoV.Props.C04
/-! # C21 — build errors point at a real location in the reported file

The part of the property that lives in the lexer: the line and column the lexer attaches to a
token (and to its own errors) are those of the token's start offset, as specified by
`Spec.Position.lineCol`. Offsets are covered by C04's `spans_partition` (re-exported here as
`offsets_in_range`).

Proved for all inputs:
* `positions_consistent_partial`  every token of the template layer (text, delimiters, comments, URL
                             marks, EOF) and the lexer's own error carry the line and column of their start
                             offset — main loop with all contexts, tags, attributes, CDATA, end tags, Markdown,
                             comments, raw content — under the hypotheses listed at the theorem (no leading BOM,
                             no LF CR, well-formed characters, no shebang line, and `lexCode` by hypothesis);
and, without any hypothesis on the bytes (`_partial`: the sub-scanners named in each theorem):
* `walk_positions`           the byte walk shared by `lexComment`, `skipRawContent`, CDATA sections
                             and `/* */` comments advances line and column exactly as the specification;
* `lexComment_positions`     a `{# … #}` comment (nested, multi-line, any bytes) gets the position of
                             its start offset and leaves the lexer at the position of its end;
* `skipRawContent_positions` the content of `{% raw %}` leaves the lexer at the right position;
* `blockComment_positions`   a `/* … */` comment in a code region (a first piece of `CodePosSpec`).
Over the position bookkeeping *extracted from lexer.go* (`Gen/LexAdvance`, regenerated on every
check: every path through one iteration of `scan`'s main loop, through `scanCodeBlock`, `scanTag` and
`scanAttribute` (with every path through one iteration of their loops) and through one iteration of the byte
walks of `lexComment`, `skipRawContent` and CDATA sections, as a guard on the bytes and the statements
that move `p`, `l.column`, `l.line`):
* `skips_account_for_bytes`  on every path, under the path's guard, the statements move line and column
                             exactly as the specification does over the bytes the path steps over —
                             a byte stepped over without being looked at must be pinned by the guard
                             (`\\` + quote, `</script`, `<![CDA`, `https://`, four spaces, …); the one
                             exception is the CR after LF (`lfcr_segment_refuted`, known finding);
* `rune_steps_not_newline`   a rune stepped over as a whole does not start with a newline;
* `quote_values`             `quote` is only ever 0, `"` or `'`.
Over the stores of file names *extracted from internal/compiler* (`Gen/ErrorPaths`):
* `error_paths_from_loader`  no `path` field of the checker, the scopes, the builder or an error type (and no
                             argument flowing into one) takes the path as written in a statement node — every
                             name is one the loader produced (exception `cycle_error_path_is_written`, known finding);
* `checker_path_is_checked_tree`  the extends-swap loop of `typecheck()` over any chain of extends nodes leaves
                             `tc.path` equal to the path of the tree that is checked, a loaded name of the chain.
The specification in closed form: `lineCol_spec` (line = 1 + newlines before the offset, column = 1 +
characters since the last newline), and `token_lines_count_newlines`.
Covered by the correspondence harness and the Go oracles only: `lexCode` and its literal lexers
(hypothesis `CodePosSpec` of the main theorem), the shebang line.

The full statement (every token of every scan) is false of the code: `FullStatement` is refuted
by `"\n\r{{a}}"` (LF CR is read as one line terminator, known finding `lf-cr-column`). -/
namespace ScriggoV.Props.C21
open ScriggoV ScriggoV.Lexer ScriggoV.Gen.LexTables ScriggoV.Spec.Position ScriggoV.Lexer.Advance

/-- the position of a token is the position of its start offset -/
def TokPosOK (src : Bytes) (t : Tok) : Bool := (t.line, t.col) == lineCol src t.start.toNat

/-- every non-empty token of every template scan carries the line and column of its start offset -/
def FullStatement : Prop :=
  ∀ (U : Unicode) (format : Nat) (nps : Bool) (src : Bytes) (toks : List Tok) (e : Option LexErr),
    scanTemplate U format nps src = .ok (toks, e) → ∀ t ∈ toks, 0 < t.txtLen → TokPosOK src t = true

/-- LF CR `{{a}}`: the `{{` at offset 2 is reported at 2:1, its offset is 2:2 -/
def lfcr : Bytes := [0x0a, 0x0d, 0x7b, 0x7b, 0x61, 0x7d, 0x7d]

def allTokPos (src : Bytes) (r : Except Fault (List Tok × Option LexErr)) : Bool :=
  match r with
  | .ok (toks, _) => toks.all fun t => t.txtLen == 0 || TokPosOK src t
  | .error _ => false

theorem lfcr_bad : allTokPos lfcr (scanTemplate C04.asciiUnicode FormatHTML false lfcr) = false := by decide +kernel

theorem fullStatement_false : ¬ FullStatement := by
  intro h
  have hb := lfcr_bad
  obtain ⟨toks, e, hs⟩ := C04.scanWith_total { text := lfcr, tmpl := true, noParseShow := false, U := C04.asciiUnicode } FormatHTML
  have hs' : scanTemplate C04.asciiUnicode FormatHTML false lfcr = .ok (toks, e) := hs
  rw [hs'] at hb
  simp only [allTokPos] at hb
  have : toks.all (fun t => t.txtLen == 0 || TokPosOK lfcr t) = true := by
    rw [List.all_eq_true]
    intro t ht
    rcases Nat.eq_zero_or_pos t.txtLen with hz | hp
    · simp [hz]
    · simp [h _ _ _ _ _ _ hs' t ht hp]
  rw [this] at hb; cases hb

/-- offsets: every token of a scan lies inside the source (C04 `spans_partition`) -/
theorem offsets_in_range (U : Unicode) (format : Nat) (nps : Bool) (src : Bytes) :
    ∃ toks e, scanTemplate U format nps src = .ok (toks, e) ∧ C04.SpansOK src.length toks :=
  C04.spans_partition U format nps src

/-- the specification's position of an offset, for a text without a leading BOM, is the
`advance` of the bytes before it -/
theorem lineCol_eq_advance {src : Bytes} (h : hasBOM src = false) (off : Nat) :
    lineCol src off = advance (src.take off) (1, 1) := lineCol_of_noBOM h off

/-- `walk_positions` (partial: the byte walk): if the lexer's line and column are those of
offset `base + i`, after walking `n` bytes they are those of offset `base + i + n` — for every
byte string, whatever the bytes (newlines, multi-byte characters, invalid UTF-8) -/
theorem walk_positions_partial (E : Env) (n i : Nat) (st st' : St) (h : walk E n i st = .ok st')
    (hpos : PosAt E st (st.base + i)) : PosAt E st' (st.base + i + n) :=
  walkCode_posAt n i st st' h hpos

/-- `lexComment_positions` (partial: `lexComment`): entered at `{#` with the lexer's position
right, the comment token carries the line and column of its start offset and the lexer's
position is right after the comment -/
theorem lexComment_positions_partial (E : Env) (st st' : St) (hb : st.base ≤ E.text.length)
    (h0 : peek E st 0 = some 0x7b) (h1 : peek E st 1 = some 0x23) (hpos : PosAt E st st.base)
    (h : lexComment E st = .ok (st', none)) :
    PosAt E st' st'.base ∧
    ∃ tok, st'.toks = tok :: st.toks ∧ (tok.line, tok.col) = advance (E.text.take st.base) (1, 1) ∧ tok.start = st.base :=
  lexComment_posAt hb h0 h1 hpos h

/-- `skipRawContent_positions` (partial: `skipRawContent` with `endRawIndex`) -/
theorem skipRawContent_positions_partial (E : Env) (st st' : St) (m : Bytes) (p : Nat) (hpos : PosAt E st st.base)
    (h : skipRawContent E st m = .ok (st', p)) : PosAt E st' (st'.base + p) :=
  skipRawContent_posAt hpos h

/-- `positions_consistent` (partial: the whole template layer — main loop with all its contexts,
tags, attributes, CDATA, `</script>`/`</style>`, Markdown URLs and code blocks, comments, raw
content, delimiters — for every byte string; `lexCode` by hypothesis `CodePosSpec`).

Every token other than an inserted semicolon, and the lexer's own error, carries the line and
column `Spec.Position.lineCol` gives to its start offset, provided that
* `hbom`  the source has no leading byte order mark (known finding `template-leading-bom-column`),
* `hno`   no LF is directly followed by CR (known finding `lf-cr-column`),
* `hal`   characters are well formed where runes are decoded (`Aligned`; valid UTF-8 is),
* `hns`   the source does not start with a `#!` line,
* `hC`    `lexCode` keeps positions right in code regions (`CodePosSpec`: not proved, covered by the
          correspondence harness and the Go oracles). -/
theorem positions_consistent_partial (U : Unicode) (format : Nat) (nps : Bool) (src : Bytes) (toks : List Tok)
    (e : Option LexErr) (h : scanTemplate U format nps src = .ok (toks, e))
    (hbom : hasBOM src = false) (hno : NoLFCR src) (hal : Aligned src) (hns : NoShebang src)
    (hC : CodePosSpec { text := src, tmpl := true, noParseShow := nps, U := U }) :
    (∀ t ∈ toks, t.typ ≠ tokenSemicolon → (t.line, t.col) = lineCol src t.start.toNat) ∧
    (∀ err, e = some err → (err.line, err.col) = lineCol src err.start) := by
  unfold scanTemplate at h
  obtain ⟨h1, h2⟩ := scanWith_pos (E := { text := src, tmpl := true, noParseShow := nps, U := U }) hal hno hns hC format h
  refine ⟨fun t hm hne => ?_, fun err he => ?_⟩
  · rw [lineCol_of_noBOM hbom]; exact h1 t hm hne
  · rw [lineCol_of_noBOM hbom]; exact h2 err he

/-- `blockComment_positions` (partial: the `/* … */` branch of `lexCode`, a first discharged piece of
`CodePosSpec`): after a block comment in a code region — any bytes, any number of newlines,
multi-byte characters — the lexer's line and column are those of the offset after the comment:
columns are counted per character, not per byte -/
theorem blockComment_positions_partial (E : Env) (st st' : St) (loc loc' : CodeLoc)
    (h : codeSlash E st loc (some 0x2a) = .ok (.cont st' loc')) (hp : PosAt E st st.base) : PosAt E st' st'.base :=
  blockComment_pos h hp

/-- the specification in closed form: the line of an offset is 1 + the number of `'\n'` before it; the
column is 1 + the number of characters (bytes that are not UTF-8 continuation bytes) since the last
`'\n'` before it — on the first line of a file that starts with a byte order mark the mark is not
counted -/
theorem lineCol_spec (src : Bytes) (off : Nat) :
    (lineCol src off).1 = 1 + (src.take off).count 0x0a ∧
    (lineCol src off).2 =
      if (src.take off).count 0x0a = 0 then (if 3 ≤ off ∧ hasBOM src then 0 else 1) + chars (src.take off)
      else 1 + chars (lastLine (src.take off)) :=
  Spec.Position.lineCol_spec src off

/-- the line a token carries is 1 + the number of newlines before its start offset (corollary of
`positions_consistent_partial` and `lineCol_spec`, same hypotheses) -/
theorem token_lines_count_newlines (U : Unicode) (format : Nat) (nps : Bool) (src : Bytes) (toks : List Tok)
    (e : Option LexErr) (h : scanTemplate U format nps src = .ok (toks, e))
    (hbom : hasBOM src = false) (hno : NoLFCR src) (hal : Aligned src) (hns : NoShebang src)
    (hC : CodePosSpec { text := src, tmpl := true, noParseShow := nps, U := U }) :
    ∀ t ∈ toks, t.typ ≠ tokenSemicolon → t.line = 1 + (src.take t.start.toNat).count 0x0a := by
  intro t ht hne
  have := (positions_consistent_partial U format nps src toks e h hbom hno hal hns hC).1 t ht hne
  have h1 : t.line = (lineCol src t.start.toNat).1 := by rw [← this]
  rw [h1, (lineCol_spec src t.start.toNat).1]

/-! ## the bookkeeping extracted from lexer.go -/
/-- every extracted segment passes the checker, except the CR-after-LF step -/
theorem segments_checked : Gen.LexAdvance.segs.all (fun s => s.check || s.isLFCR) = true := by decide +kernel

/-- `skips_account_for_bytes`: for every path through one iteration of the main loop of `scan`, through
`scanCodeBlock`, `scanTag`, `scanAttribute` (and one iteration of their loops) and through one iteration of
the byte walks of `lexComment`, `skipRawContent` and CDATA sections, as extracted from lexer.go, whatever the source, the offset `p` the path starts
at and the value of `quote`: if the conditions the path took hold, then the bytes the path advanced
over are in the source and its `p`/`l.column`/`l.line` statements move (line, column) exactly as
`Spec.Position.advance` does over those bytes. In particular no path steps over a newline without
`l.newline()`, and `l.column += k` is only ever applied to `k` characters that are not newlines.
Excluded: the step over the CR that follows a LF (`Seg.isLFCR`; known finding `lf-cr-column`). -/
theorem skips_account_for_bytes (s : Seg) (hs : s ∈ Gen.LexAdvance.segs) (hn : s.isLFCR = false)
    (src : Bytes) (p : Nat) (q : UInt8) (hq : q ∈ quotes) (hg : GuardHolds s.guard src p q) (lc : Nat × Nat) :
    s.base ≤ (run s.evs (lc, s.base)).2 ∧
    ((src.drop (p + s.base)).take ((run s.evs (lc, s.base)).2 - s.base)).length = (run s.evs (lc, s.base)).2 - s.base ∧
    (run s.evs (lc, s.base)).1 = advance ((src.drop (p + s.base)).take ((run s.evs (lc, s.base)).2 - s.base)) lc := by
  have h := List.all_eq_true.mp segments_checked s hs
  rw [hn, Bool.or_false] at h
  exact Seg.check_sound s h hq hg lc

/-- the excluded shape does break the specification: after `"\n\r"` the statements leave the column at 1,
the specification says 2 -/
theorem lfcr_segment_refuted :
    ∃ s : Seg, s.isLFCR = true ∧ GuardHolds s.guard [0x0a, 0x0d] 0 0 ∧
      (run s.evs ((1, 1), s.base)).1 ≠ advance (([0x0a, 0x0d] : Bytes).take ((run s.evs ((1, 1), s.base)).2 - s.base)) (1, 1) := by
  refine ⟨{ name := "", base := 0, guard := [.is 0 [.byte 0x0a] true, .is 1 [.byte 0x0d] true],
            evs := [.adv 1, .newline, .adv 1], handOver := false }, by decide, ?_, by decide⟩
  intro lit hl
  simp only [List.mem_cons, List.not_mem_nil, or_false] at hl
  rcases hl with rfl | rfl
  · exact ⟨0x0a, rfl, by decide⟩
  · exact ⟨0x0d, rfl, by decide⟩

theorem runes_checked : Gen.LexAdvance.runeSteps.all RuneStep.check = true := by decide +kernel

/-- `rune_steps_not_newline`: where the main loop steps over a whole rune (`p += size; l.column++`), the
conditions on the path make its first byte a byte other than a newline -/
theorem rune_steps_not_newline (r : RuneStep) (hr : r ∈ Gen.LexAdvance.runeSteps)
    (src : Bytes) (p : Nat) (q : UInt8) (hq : q ∈ quotes) (hg : GuardHolds r.guard src p q) :
    ∃ c, src[p + r.off]? = some c ∧ c ≠ 0x0a :=
  RuneStep.check_sound r (List.all_eq_true.mp runes_checked r hr) hq hg

theorem quotes_checked : Gen.LexAdvance.quoteAssigns.all QuoteAssign.check = true := by decide +kernel

/-- `quote_values`: every assignment to `quote` in `scan` assigns 0, `'"'`, or a byte the path's
conditions make `'"'` or `'\''` (the hypothesis `q ∈ quotes` of the theorems above is an invariant) -/
theorem quote_values (a : QuoteAssign) (ha : a ∈ Gen.LexAdvance.quoteAssigns)
    (src : Bytes) (p : Nat) (q : UInt8) (hq : q ∈ quotes) (hg : GuardHolds a.guard src p q) :
    match a.rhs with
    | .zero => True
    | .dq => True
    | .byte => ∃ c, src[p + a.off]? = some c ∧ c ∈ quotes :=
  QuoteAssign.check_sound a (List.all_eq_true.mp quotes_checked a ha) hq hg

/-- the guard of the path
`case '\\': if p+1 < len(l.src) && (l.src[p+1] == quote || l.src[p+1] == '\\') { p++; l.column++ }`
followed by the tail of the iteration for a character start: in a JS or CSS string a backslash
escapes the quote AND another backslash (an escaped backslash does not escape the closing quote) -/
def escGuard : List Lit :=
  [.inb 0, .is 0 [.byte 0x5c] true, .inb 1, .is 1 [.quote, .byte 0x5c] true, .is 0 [.byte 0x0a] false,
   .is 0 [.pred .isStartChar] true]

/-- non-vacuity: that path is in the extracted table, is not the excluded shape, its guard holds of
`\"a` at 0 with `quote = '"'` and of `\\"` (an escaped backslash before the closing quote: the two
backslashes are stepped over as a pair, the quote is left for the next iteration), and it advances
two bytes and two columns -/
example : ∃ s ∈ Gen.LexAdvance.segs, s.isLFCR = false ∧ GuardHolds s.guard [0x5c, 0x22, 0x61] 0 0x22 ∧
    GuardHolds s.guard [0x5c, 0x5c, 0x22] 0 0x22 ∧
    run s.evs ((1, 5), s.base) = ((1, 7), 2) := by
  have h : Gen.LexAdvance.segs.any (fun s => s.guard == escGuard && s.evs == [.adv 1, .col 1, .adv 1, .col 1] &&
      s.base == 0 && !s.isLFCR) = true := by decide +kernel
  obtain ⟨s, hs, hc⟩ := List.any_eq_true.mp h
  simp only [Bool.and_eq_true, beq_iff_eq, Bool.not_eq_true'] at hc
  obtain ⟨⟨⟨hg, he⟩, hb⟩, hl⟩ := hc
  refine ⟨s, hs, hl, ?_, ?_, by rw [he, hb]; decide⟩
  · rw [hg]
    intro lit hm
    simp only [escGuard, List.mem_cons, List.not_mem_nil, or_false] at hm
    rcases hm with rfl | rfl | rfl | rfl | rfl | rfl
    · show 0 + 0 < 3; decide
    · exact ⟨0x5c, rfl, by decide⟩
    · show 0 + 1 < 3; decide
    · exact ⟨0x22, rfl, by decide⟩
    · exact ⟨0x5c, rfl, by decide⟩
    · exact ⟨0x5c, rfl, by decide⟩
  · rw [hg]
    intro lit hm
    simp only [escGuard, List.mem_cons, List.not_mem_nil, or_false] at hm
    rcases hm with rfl | rfl | rfl | rfl | rfl | rfl
    · show 0 + 0 < 3; decide
    · exact ⟨0x5c, rfl, by decide⟩
    · show 0 + 1 < 3; decide
    · exact ⟨0x5c, rfl, by decide⟩
    · exact ⟨0x5c, rfl, by decide⟩
    · exact ⟨0x5c, rfl, by decide⟩

/-- ASCII text is aligned -/
theorem aligned_of_ascii {t : Bytes} (h : ∀ b ∈ t, b < 0x80) : Aligned t := by
  intro i c hc _
  have hlt : c < 0x80 := h c (List.mem_of_getElem? hc)
  rw [decodeRune_ascii_size hc hlt]
  refine ⟨fun k h0 h1 => by omega, fun d hd => ?_⟩
  have hd' : d < 0x80 := h d (List.mem_of_getElem? hd)
  have hb := allBytes_spec (p := fun c => !decide (c < 0x80) || isStartChar c) (by decide +kernel) d
  simpa [hd'] using hb

/-- non-vacuity of the hypotheses: the empty source satisfies them all (`CodePosSpec` included) -/
example : CodePosSpec { text := [], tmpl := true, noParseShow := false, U := C04.asciiUnicode } := by
  constructor
  intro endT st st' e h hp ha
  unfold lexCode at h
  have h0 : srcLen ({ text := [], tmpl := true, noParseShow := false, U := C04.asciiUnicode } : Env) st = 0 := by
    unfold srcLen; simp
  simp only [h0, if_true] at h
  split at h
  · simp only [fail_ok] at h
    cases h
    exact ⟨ha, (fun err he => by cases he; exact errorf_pos _ hp), (fun hh => by cases hh)⟩
  · rename_i hne
    simp only [pure_eq_ok] at h
    cases h
    have heof : endT = tokenEOF := Decidable.byContradiction (fun hn => hne hn)
    exact ⟨ha, (fun err he => by cases he), fun _ => ⟨hp, fun hn => absurd heof hn⟩⟩

theorem noLFCR_of_no_lf {t : Bytes} (h : ∀ b ∈ t, b ≠ 0x0a) : NoLFCR t := by
  intro i hi _
  exact h _ (List.mem_of_getElem? hi) rfl

/-- non-vacuity of the hypotheses on the bytes: a one-line ASCII template with a tag, a URL
attribute and a comment satisfies `hbom`, `hno`, `hal`, `hns` -/
def plainSample : Bytes := strBytes "<a href=\"x\">y</a>{# c #}"

example : hasBOM plainSample = false ∧ NoLFCR plainSample ∧ Aligned plainSample ∧ NoShebang plainSample := by
  refine ⟨by decide +kernel, noLFCR_of_no_lf ?_, aligned_of_ascii ?_, ?_⟩
  · have : plainSample.all (· != 0x0a) = true := by decide +kernel
    intro b hb; simpa using List.all_eq_true.mp this b hb
  · have : plainSample.all (· < 0x80) = true := by decide +kernel
    intro b hb; simpa using List.all_eq_true.mp this b hb
  · intro h
    have : (plainSample[0]? == some 0x23) = false := by decide +kernel
    rw [h.1] at this; simp at this

/-- non-vacuity: a multi-line nested comment followed by a show; the comment is at 1:1 and the
`{{` after it at 3:4 — the positions of offsets 0 and 17 -/
def sample : Bytes := strBytes "{# a\n{# b #}\nc #}{{ x }}"

example : (match scanTemplate C04.asciiUnicode FormatHTML false sample with
    | .ok (toks, _) => toks.map (fun t => (t.typ, t.start, t.line, t.col))
    | .error _ => []) =
    [(tokenComment, 0, 1, 1), (tokenLeftBraces, 17, 3, 5), (tokenIdentifier, 20, 3, 8),
     (tokenRightBraces, 22, 3, 10), (tokenEOF, 24, 3, 12)] := by decide +kernel

example : lineCol sample 17 = (3, 5) := by decide +kernel

example : allTokPos sample (scanTemplate C04.asciiUnicode FormatHTML false sample) = true := by decide +kernel

/-! ## The file name of a build error is a name the loader produced

Over `Gen/ErrorPaths` (regenerated from internal/compiler on every check): every store into a `path`
field of the checker, the scopes, the function builder and the error types, into a tree's `Path`, and
every argument that flows into one, with the kind of expression stored. -/
section ErrorPaths
open ScriggoV.Gen.ErrorPaths ScriggoV.Model.ErrorPaths

/-- No store of a file name takes the path AS WRITTEN in a statement node (`extends.Path`, `n.Path`),
with one exception: the `CycleError` of `ParseProgram` (known finding import-cycle-path-is-package,
`cycle_error_path_is_written`). Every other name is a tree's `Path`, the result of `rooted`, a
parameter (whose arguments are rows of the same table), another stored name, a literal or a name from
a directory listing. -/
theorem error_paths_from_loader :
    ∀ s ∈ sites, s.owner ≠ .cycleError → Site.fromLoader s = true := by
  have h : sites.all (fun s => s.owner == .cycleError || Site.fromLoader s) = true := by decide
  intro s hs hne
  have := List.all_eq_true.mp h s hs
  simp only [Bool.or_eq_true, beq_iff_eq] at this
  exact this.resolve_left hne

/-- the names the type checker, its scopes and the function builders hold: never a written path -/
theorem checker_scopes_builder_paths_from_loader :
    ∀ s ∈ sites, (s.owner = .checker ∨ s.owner = .scopes ∨ s.owner = .builder) → s.src ≠ .nodePath := by
  intro s hs ho hn
  have hne : s.owner ≠ .cycleError := by
    rcases ho with h | h | h <;> (rw [h]; decide)
  have := error_paths_from_loader s hs hne
  simp [Site.fromLoader, Src.written, hn] at this

/-- the full statement (no exception) is false of the code today: the import-cycle error of a
program stores the import path of a node -/
def ErrorPathsFullStatement : Prop := ∀ s ∈ sites, Site.fromLoader s = true

theorem cycle_error_path_is_written : ¬ ErrorPathsFullStatement := by
  intro h
  have hx : sites.any (fun s => !Site.fromLoader s) = true := by decide
  obtain ⟨s, hs, hb⟩ := List.any_eq_true.mp hx
  rw [h s hs] at hb
  exact absurd hb (by decide)

/-- The loop of `typecheck()` that swaps a template with the file it extends, with the two stores as
extracted from checker.go: for every chain of extends nodes (whatever the paths as written), the path the
checker reports its errors with is the path of the tree it checks, and it is the loaded name of a file of the
chain — never a path as written. -/
theorem checker_path_is_checked_tree (chain : List Ext) (st st' : Model.ErrorPaths.St)
    (h : swapLoop typecheckTreePathSrc typecheckTcPathSrc chain st = some st')
    (h0 : st.tcPath = st.treePath) :
    st'.tcPath = st'.treePath ∧ (chain ≠ [] → ∃ e ∈ chain, st'.tcPath = e.loaded) :=
  swapLoop_treePath chain st st' h h0

/-- non-vacuity: the table has the stores of the checker (among them `tc.path = …` in typecheck), of the
scopes and of the builder; and the loop runs on a chain whose written paths differ from the loaded names -/
example : (sites.filter (fun s => s.owner == .checker)).length ≥ 10 ∧
    (sites.filter (fun s => s.owner == .scopes)).length ≥ 2 ∧
    (sites.filter (fun s => s.owner == .builder)).length ≥ 6 ∧
    (sites.filter (fun s => s.sink == .treeField)).length ≥ 3 ∧ sites.length ≥ 50 := by decide

example : (swapLoop typecheckTreePathSrc typecheckTcPathSrc
    [⟨"base.html", "layouts/base.html"⟩, ⟨"/root.html", "root.html"⟩] ⟨"layouts/page.html", "layouts/page.html"⟩).map
      (fun s => (s.treePath, s.tcPath)) = some ("root.html", "root.html") := rfl

end ErrorPaths

end ScriggoV.Props.C21
