import ScriggoV.Basic.Kind
import ScriggoV.Basic.Utf8
/-! Go's fixed-width integer operators that have no one-to-one `BitVec` primitive, and the
representation of integer values in the VM's `int64` registers. Core Lean only.

The translator (`go/cmd/extract/gen_vmint.go`) maps Go's `x << n`, `x >> n` (unsigned count `n`)
to `goShl`, `goShrS` (signed `x`), `goShrU` (unsigned `x`). They are `BitVec.shiftLeft`,
`sshiftRight`, `ushiftRight` by `n.toNat` (`goShl_eq` … in `Lemmas/BvInt.lean`), written so that
executing them never materialises a `2^63`-bit number when the count is astronomically large. -/
namespace ScriggoV

/-- decidable equality of outcomes (own name: other modules derive the generic instance) -/
def exceptDecEq {ε α : Type} [DecidableEq ε] [DecidableEq α] : DecidableEq (Except ε α)
  | .ok a, .ok b => if h : a = b then isTrue (h ▸ rfl) else isFalse (fun h' => h (Except.ok.inj h'))
  | .error a, .error b =>
    if h : a = b then isTrue (h ▸ rfl) else isFalse (fun h' => h (Except.error.inj h'))
  | .ok _, .error _ => isFalse (fun h => nomatch h)
  | .error _, .ok _ => isFalse (fun h => nomatch h)

instance instDecEqOutcomeBV : DecidableEq (Except Fault (BitVec 64)) := exceptDecEq
instance instDecEqOutcomeInt : DecidableEq (Except Fault Int) := exceptDecEq

/-- Go `x << n` for an unsigned count: zero once every bit is shifted out -/
def goShl {w v : Nat} (x : BitVec w) (n : BitVec v) : BitVec w :=
  if w ≤ n.toNat then 0#w else x <<< n.toNat

/-- Go `x >> n` for unsigned `x` (logical shift) -/
def goShrU {w v : Nat} (x : BitVec w) (n : BitVec v) : BitVec w :=
  if w ≤ n.toNat then 0#w else x >>> n.toNat

/-- Go `x >> n` for signed `x` (arithmetic shift): all sign bits once `n ≥ w` -/
def goShrS {w v : Nat} (x : BitVec w) (n : BitVec v) : BitVec w :=
  if w ≤ n.toNat then (if x.msb then BitVec.allOnes w else 0#w) else x.sshiftRight n.toNat

/-- Go `string(r)` for a rune `r` (an `int32`): the UTF-8 encoding of the code point, and
"\uFFFD" for an invalid one (negative, surrogate half, above `unicode.MaxRune`) -/
def goStringOfRune (r : BitVec 32) : Bytes :=
  if r.toInt < 0 then Utf8.encodeRune Utf8.runeError else Utf8.encodeRune r.toInt.toNat

/-- the canonical register content for the low `k.bits` bits of `v`: their sign extension
(signed kinds) or zero extension (unsigned kinds) to 64 bits -/
def canon (k : Kind) (v : BitVec 64) : BitVec 64 :=
  if k.signed then (v.setWidth k.bits).signExtend 64 else (v.setWidth k.bits).setWidth 64

/-- **Representation invariant of `vm.regs.int`**: a register holding a value of kind `k` holds the
sign- or zero-extension to 64 bits of a `k.bits`-wide value -/
def Canon (k : Kind) (v : BitVec 64) : Prop := canon k v = v

instance (k : Kind) (v : BitVec 64) : Decidable (Canon k v) := by unfold Canon; exact inferInstance

/-- the mathematical integer a canonical register content of kind `k` stands for -/
def val (k : Kind) (v : BitVec 64) : Int := if k.signed then v.toInt else (v.toNat : Int)

/-- the register content for a mathematical integer (canonical when the integer is in range) -/
def reg (z : Int) : BitVec 64 := BitVec.ofInt 64 z

end ScriggoV
