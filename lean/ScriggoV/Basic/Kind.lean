import ScriggoV.Basic.Bytes
/-! The eleven Go integer kinds (amd64: `int`, `uint`, `uintptr` are 64 bits wide), shared by the
generated VM terms (`Gen/VMInt.lean`), the Go specification (`Spec/GoInt.lean`) and the
evaluator (`Model/Eval.lean`). Core Lean only. -/
namespace ScriggoV

/-- `reflect.Kind` restricted to the integer kinds -/
inductive Kind
  | int | int8 | int16 | int32 | int64
  | uint | uint8 | uint16 | uint32 | uint64 | uintptr
  deriving DecidableEq, Repr, Inhabited

namespace Kind

/-- width in bits on amd64 -/
def bits : Kind → Nat
  | int8 | uint8 => 8
  | int16 | uint16 => 16
  | int32 | uint32 => 32
  | int | int64 | uint | uint64 | uintptr => 64

def signed : Kind → Bool
  | int | int8 | int16 | int32 | int64 => true
  | _ => false

/-- Go spelling, also the protocol token -/
def name : Kind → String
  | int => "int" | int8 => "int8" | int16 => "int16" | int32 => "int32" | int64 => "int64"
  | uint => "uint" | uint8 => "uint8" | uint16 => "uint16" | uint32 => "uint32"
  | uint64 => "uint64" | uintptr => "uintptr"

def all : List Kind :=
  [int, int8, int16, int32, int64, uint, uint8, uint16, uint32, uint64, uintptr]

def ofName (s : String) : Option Kind := all.find? (fun k => k.name == s)

theorem bits_le (k : Kind) : k.bits ≤ 64 := by cases k <;> decide
theorem bits_pos (k : Kind) : 0 < k.bits := by cases k <;> decide

end Kind
end ScriggoV
