/-! Bytes, faults, checked slice operations, hex codec, whole-byte-range table facts.
Core Lean only (the driver links against this). -/
namespace ScriggoV

abbrev Bytes := List UInt8

/-- run-time faults the Go code can raise; models never use `get!`/`getD` for a Go index -/
inductive Fault
  | index      -- index out of range
  | slice      -- slice bounds out of range
  | nilDeref
  | divZero
  | negShift
  | other
  deriving DecidableEq, Repr, Inhabited

def Fault.name : Fault → String
  | .index => "index" | .slice => "slice" | .nilDeref => "nil" | .divZero => "divzero"
  | .negShift => "negshift" | .other => "other"

/-- Go `b[j] = c` -/
def setAt (b : Bytes) (j : Nat) (c : UInt8) : Except Fault Bytes :=
  if j < b.length then .ok (b.set j c) else .error .index

/-- Go `s[i]` -/
def getAt (b : Bytes) (i : Nat) : Except Fault UInt8 :=
  match b[i]? with
  | some c => .ok c
  | none => .error .index

/-- Go `copy(b[j:], src)`: faults when `j > len b`, silently truncates otherwise -/
def copyAt (b : Bytes) (j : Nat) (src : Bytes) : Except Fault Bytes :=
  if j ≤ b.length then
    let m := min src.length (b.length - j)
    .ok (b.take j ++ src.take m ++ b.drop (j + m))
  else .error .slice

/-- Go `s[lo:hi]` on a string/slice of length = capacity -/
def sliceOf (s : Bytes) (lo hi : Nat) : Except Fault Bytes :=
  if lo ≤ hi ∧ hi ≤ s.length then .ok ((s.take hi).drop lo) else .error .slice

theorem copyAt_zeros (out src : Bytes) (k : Nat) (h : src.length ≤ k) :
    copyAt (out ++ List.replicate k 0) out.length src
      = .ok (out ++ src ++ List.replicate (k - src.length) 0) := by
  unfold copyAt
  have h1 : out.length ≤ (out ++ List.replicate k (0:UInt8)).length := by simp
  simp only [h1, if_true]
  have hm : min src.length ((out ++ List.replicate k (0:UInt8)).length - out.length) = src.length := by
    simp; omega
  rw [hm]
  simp [List.take_of_length_le, List.drop_append, List.drop_replicate]

theorem setAt_zeros (out : Bytes) (c : UInt8) (k : Nat) (h : 0 < k) :
    setAt (out ++ List.replicate k 0) out.length c
      = .ok (out ++ [c] ++ List.replicate (k - 1) 0) := by
  unfold setAt
  have h1 : out.length < (out ++ List.replicate k (0:UInt8)).length := by simp; omega
  simp only [h1, if_true]
  congr 1
  cases k with
  | zero => omega
  | succ k =>
    simp [List.replicate_succ]

/-! ### whole-table facts over all 256 bytes -/
def allBytes (p : UInt8 → Bool) : Bool := (List.range 256).all (fun n => p n.toUInt8)

theorem allBytes_spec {p : UInt8 → Bool} (h : allBytes p = true) (c : UInt8) : p c = true := by
  unfold allBytes at h
  rw [List.all_eq_true] at h
  have := h c.toNat (by simp [List.mem_range]; exact c.toNat_lt)
  simpa using this

/-! ### hex codec for the line protocol -/
def hexDigit (n : Nat) : Char :=
  if n < 10 then Char.ofNat (48 + n) else Char.ofNat (87 + n)

def toHex (b : Bytes) : String :=
  if b.isEmpty then "-" else
  String.ofList (b.flatMap fun c => [hexDigit (c.toNat / 16), hexDigit (c.toNat % 16)])

def hexVal? (c : Char) : Option Nat :=
  if '0' ≤ c ∧ c ≤ '9' then some (c.toNat - 48)
  else if 'a' ≤ c ∧ c ≤ 'f' then some (c.toNat - 87)
  else none

def fromHexList : List Char → Option Bytes
  | [] => some []
  | [_] => none
  | a :: b :: rest => do
    let x ← hexVal? a
    let y ← hexVal? b
    let r ← fromHexList rest
    pure ((x * 16 + y).toUInt8 :: r)

def fromHex (s : String) : Option Bytes :=
  if s == "-" then some [] else fromHexList s.toList

def strBytes (s : String) : Bytes := s.toUTF8.toList

end ScriggoV
