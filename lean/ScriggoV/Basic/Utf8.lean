import ScriggoV.Basic.Bytes
/-! Minimal UTF-8 codec with Go's semantics: `decodeRune` is `utf8.DecodeRuneInString`
(what `for i, c := range s` uses: an invalid or truncated sequence yields U+FFFD of width 1;
overlong forms, surrogates and values above U+10FFFF are invalid), `encodeRune` is
`utf8.AppendRune` (invalid code points are encoded as U+FFFD). Core Lean only. -/
namespace ScriggoV.Utf8

def runeError : Nat := 0xFFFD

/-- continuation byte `10xxxxxx` -/
def isCont (b : UInt8) : Bool := decide (0x80 ≤ b.toNat) && decide (b.toNat ≤ 0xBF)

/-- Go's `first`/`acceptRanges` tables: for a lead byte its sequence length and the accepted
range of the second byte; `none` for ASCII, stray continuation bytes and invalid leads -/
def leadInfo (p0 : Nat) : Option (Nat × Nat × Nat) :=
  if 0xC2 ≤ p0 ∧ p0 ≤ 0xDF then some (2, 0x80, 0xBF)
  else if p0 = 0xE0 then some (3, 0xA0, 0xBF)
  else if 0xE1 ≤ p0 ∧ p0 ≤ 0xEC then some (3, 0x80, 0xBF)
  else if p0 = 0xED then some (3, 0x80, 0x9F)
  else if 0xEE ≤ p0 ∧ p0 ≤ 0xEF then some (3, 0x80, 0xBF)
  else if p0 = 0xF0 then some (4, 0x90, 0xBF)
  else if 0xF1 ≤ p0 ∧ p0 ≤ 0xF3 then some (4, 0x80, 0xBF)
  else if p0 = 0xF4 then some (4, 0x80, 0x8F)
  else none

/-- `utf8.DecodeRuneInString`: (rune, width); width 0 only for the empty string -/
def decodeRune : Bytes → Nat × Nat
  | [] => (runeError, 0)
  | p0 :: rest =>
    if p0.toNat < 0x80 then (p0.toNat, 1) else
    match leadInfo p0.toNat with
    | none => (runeError, 1)
    | some (sz, lo, hi) =>
      match rest with
      | [] => (runeError, 1)
      | b1 :: r1 =>
        if b1.toNat < lo ∨ hi < b1.toNat then (runeError, 1)
        else if sz = 2 then ((p0.toNat % 32) * 64 + b1.toNat % 64, 2)
        else
          match r1 with
          | [] => (runeError, 1)
          | b2 :: r2 =>
            if !isCont b2 then (runeError, 1)
            else if sz = 3 then ((p0.toNat % 16) * 4096 + (b1.toNat % 64) * 64 + b2.toNat % 64, 3)
            else
              match r2 with
              | [] => (runeError, 1)
              | b3 :: _ =>
                if !isCont b3 then (runeError, 1)
                else ((p0.toNat % 8) * 262144 + (b1.toNat % 64) * 4096 + (b2.toNat % 64) * 64
                        + b3.toNat % 64, 4)

def isSurrogate (r : Nat) : Bool := decide (0xD800 ≤ r) && decide (r ≤ 0xDFFF)

/-- `utf8.AppendRune(nil, r)` -/
def encodeRune (r : Nat) : Bytes :=
  if r < 0x80 then [r.toUInt8]
  else if r < 0x800 then [(0xC0 + r / 64).toUInt8, (0x80 + r % 64).toUInt8]
  else if r > 0x10FFFF || isSurrogate r then [0xEF, 0xBF, 0xBD]
  else if r < 0x10000 then
    [(0xE0 + r / 4096).toUInt8, (0x80 + r / 64 % 64).toUInt8, (0x80 + r % 64).toUInt8]
  else
    [(0xF0 + r / 262144).toUInt8, (0x80 + r / 4096 % 64).toUInt8, (0x80 + r / 64 % 64).toUInt8,
     (0x80 + r % 64).toUInt8]

/-- `utf8.Valid`, by repeated decoding (fuel = length) -/
def validF : Nat → Bytes → Bool
  | _, [] => true
  | 0, _ :: _ => false
  | f+1, c :: s =>
    let (r, w) := decodeRune (c :: s)
    if r == runeError && w == 1 then false else validF f ((c :: s).drop w)
def valid (s : Bytes) : Bool := validF s.length s

end ScriggoV.Utf8
