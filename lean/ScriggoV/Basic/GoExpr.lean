import ScriggoV.Basic.Bytes
/-! Checked Go expressions: the combinators the translator (`go/cmd/extract`) emits for
conditions that index strings/tables (every index is a checked access that can fault),
plus `Int`-indexed access to byte strings. Core Lean only. -/
namespace ScriggoV

/-- Go `s[i]` with `i` an `int` -/
def getAtI (b : Bytes) (i : Int) : Except Fault UInt8 :=
  if i < 0 then .error .index else getAt b i.toNat

/-- Go `s[lo:hi]` with `int` bounds, on a string (length = capacity) -/
def sliceOfI (s : Bytes) (lo hi : Int) : Except Fault Bytes :=
  if 0 ≤ lo ∧ lo ≤ hi ∧ hi ≤ (s.length : Int) then .ok ((s.take hi.toNat).drop lo.toNat)
  else .error .slice

/-- Go `runes[i]` on a `[]rune` (code points as `Nat`) with an `int` index -/
def getAtIR (rs : List Nat) (i : Int) : Except Fault Nat :=
  if i < 0 then .error .index else
  match rs[i.toNat]? with
  | some r => .ok r
  | none => .error .index

/-- the functions of package `unicode` that builtin.go calls: parameters of the models (their
tables are not modelled); theorems state the facts they need about them as hypotheses -/
structure UnicodeFns where
  isLower : Nat → Bool
  isUpper : Nat → Bool
  isDigit : Nat → Bool
  isLetter : Nat → Bool
  isSpace : Nat → Bool
  toUpper : Nat → Nat
  toLower : Nat → Nat

namespace GoExpr

def gInt (k : Int) : Except Fault Int := .ok k
def gByte (k : UInt8) : Except Fault UInt8 := .ok k
def gBool (b : Bool) : Except Fault Bool := .ok b

/-- `runes[e]` -/
def gIdxR (runes : List Nat) (e : Except Fault Int) : Except Fault Nat :=
  match e with
  | .ok k => getAtIR runes k
  | .error f => .error f

/-- `unicode.F(e)` -/
def gU (f : Nat → Bool) (e : Except Fault Nat) : Except Fault Bool :=
  match e with
  | .ok r => .ok (f r)
  | .error f => .error f

def gLen (data : Bytes) : Except Fault Int := .ok (data.length : Int)

/-- `data[e]` -/
def gIdx (data : Bytes) (e : Except Fault Int) : Except Fault UInt8 :=
  match e with
  | .ok k => getAtI data k
  | .error f => .error f

/-- `table[b]`, `b` a byte -/
def gTbl (t : List UInt8) (e : Except Fault UInt8) : Except Fault UInt8 :=
  match e with
  | .ok c => getAt t c.toNat
  | .error f => .error f

def gBin {α β : Type} (op : α → α → β) (a b : Except Fault α) : Except Fault β :=
  match a with
  | .error f => .error f
  | .ok x =>
    match b with
    | .error f => .error f
    | .ok y => .ok (op x y)

def gEqB : Except Fault UInt8 → Except Fault UInt8 → Except Fault Bool := gBin (· == ·)
def gEqI : Except Fault Int → Except Fault Int → Except Fault Bool := gBin (· == ·)
def gLeI : Except Fault Int → Except Fault Int → Except Fault Bool := gBin (fun x y => decide (x ≤ y))
def gLtI : Except Fault Int → Except Fault Int → Except Fault Bool := gBin (fun x y => decide (x < y))
/-- `+`/`-` on `int`; no wrap-around is modelled (operands are bounded by a string length) -/
def gAdd : Except Fault Int → Except Fault Int → Except Fault Int := gBin (· + ·)
def gSub : Except Fault Int → Except Fault Int → Except Fault Int := gBin (· - ·)

def gNot (a : Except Fault Bool) : Except Fault Bool :=
  match a with
  | .ok x => .ok (!x)
  | .error f => .error f

/-- short-circuit `&&`: the right operand is not evaluated (cannot fault) when the left is false -/
def gAnd (a b : Except Fault Bool) : Except Fault Bool :=
  match a with
  | .error f => .error f
  | .ok false => .ok false
  | .ok true => b

/-- short-circuit `||` -/
def gOr (a b : Except Fault Bool) : Except Fault Bool :=
  match a with
  | .error f => .error f
  | .ok true => .ok true
  | .ok false => b

end GoExpr
end ScriggoV
