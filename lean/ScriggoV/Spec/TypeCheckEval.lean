import ScriggoV.Model.TypeCheck
/-! # Reference evaluation of the C03 fragment (for the type-soundness theorem)

A dynamically checked evaluator of the *source* expressions and statements of
`Model/TypeCheck.lean`: values carry their own type; an operation applied to operands it is not
defined on is `stuck`. The soundness theorem (`Props/C03.lean`) says that a term the checker
accepts never gets stuck: it evaluates to a value of its static type, within the range of that
type, or to one of Go's two run-time panics of the fragment (integer division by zero, negative
shift count), and constants evaluate to exactly the value the checker computed.

Go's rules made explicit here:
* constant expressions are evaluated exactly (unbounded integers, rationals); an untyped
  constant takes the type of the typed operand it meets, and must be representable in it;
* operations on values of integer type `k` wrap to `k`; `/` truncates, `%` has the sign of the
  dividend; `>>` on signed values is arithmetic;
* run-time `float64` arithmetic is a parameter (`FloatSem`): the theorem holds whatever the
  floating-point operations compute. `float64` *constants* are exact rationals.

Core Lean only. -/
namespace ScriggoV.TypeCheck

/-- run-time float64 arithmetic: any interpretation -/
structure FloatSem (F : Type) where
  ofRat : Rat → F
  ofInt : Int → F
  toInt : F → Int
  neg : F → F
  arith : BinOp → F → F → F
  cmp : BinOp → F → F → Bool

inductive Val (F : Type)
  | int (k : IKind) (n : Int)      -- a value of the integer type `k`
  | float (f : F)                  -- a run-time float64
  | fconst (q : Rat)               -- a float64 constant (exact)
  | str (s : String)
  | bool (b : Bool)
  | uint (u : UKind) (n : Int)     -- an untyped integer or rune constant
  | ufloat (q : Rat)               -- an untyped floating-point constant

inductive Panic | divByZero | negShift
  deriving DecidableEq, Repr

inductive Res (α : Type)
  | ok (v : α) | panic (p : Panic) | stuck

def Res.bind {α β : Type} (r : Res α) (f : α → Res β) : Res β :=
  match r with
  | .ok v => f v
  | .panic p => .panic p
  | .stuck => .stuck

instance : Monad Res where
  pure := Res.ok
  bind := Res.bind

/-- wrap-around of a mathematical integer into the integer type `k` -/
def wrap (k : IKind) (n : Int) : Int :=
  if k.signed then (n + 2 ^ (k.bits - 1)) % 2 ^ k.bits - 2 ^ (k.bits - 1) else n % 2 ^ k.bits

variable {F : Type} (fs : FloatSem F)

/-! ## Unary operators -/

def evalUnary (op : UnOp) (v : Val F) : Res (Val F) :=
  match op, v with
  | .plus, .int k n => .ok (.int k (wrap k n))
  | .minus, .int k n => .ok (.int k (wrap k (-n)))
  | .xor, .int k n => .ok (.int k (wrap k (bitNot n)))
  | .plus, .float f => .ok (.float f)
  | .minus, .float f => .ok (.float (fs.neg f))
  | .plus, .fconst q => .ok (.fconst q)
  | .minus, .fconst q => .ok (.fconst (-q))
  | .plus, .uint u n => .ok (.uint u n)
  | .minus, .uint u n => .ok (.uint u (-n))
  | .xor, .uint u n => .ok (.uint u (bitNot n))
  | .plus, .ufloat q => .ok (.ufloat q)
  | .minus, .ufloat q => .ok (.ufloat (-q))
  | .not, .bool b => .ok (.bool (!b))
  | _, _ => .stuck

/-! ## Binary operators -/

/-- an untyped constant takes the type of the other operand (it must be representable in it) -/
def matchVals (v w : Val F) : Option (Val F × Val F) :=
  match v, w with
  | .uint u a, .uint u' b => some (.uint (u.max u') a, .uint (u.max u') b)
  | .uint _ a, .ufloat q => some (.ufloat (a : Rat), .ufloat q)
  | .ufloat q, .uint _ b => some (.ufloat q, .ufloat (b : Rat))
  | .uint _ a, .int k b => if inRange k a then some (.int k a, .int k b) else none
  | .int k a, .uint _ b => if inRange k b then some (.int k a, .int k b) else none
  | .ufloat q, .int k b => if q.den = 1 ∧ inRange k q.num then some (.int k q.num, .int k b) else none
  | .int k a, .ufloat q => if q.den = 1 ∧ inRange k q.num then some (.int k a, .int k q.num) else none
  | .uint _ a, .float f => some (.fconst (a : Rat), .float f)
  | .float f, .uint _ b => some (.float f, .fconst (b : Rat))
  | .uint _ a, .fconst p => some (.fconst (a : Rat), .fconst p)
  | .fconst p, .uint _ b => some (.fconst p, .fconst (b : Rat))
  | .ufloat q, .float f => some (.fconst q, .float f)
  | .float f, .ufloat q => some (.float f, .fconst q)
  | .ufloat q, .fconst p => some (.fconst q, .fconst p)
  | .fconst p, .ufloat q => some (.fconst p, .fconst q)
  | v, w => some (v, w)

/-- the four operators of floating-point arithmetic -/
def BinOp.isFloatArith : BinOp → Bool
  | .add | .sub | .mul | .quo => true
  | _ => false

/-- integer operation on values of type `k`: exact result wrapped to `k`; division by zero panics -/
def intOp (k : IKind) (op : BinOp) (a b : Int) : Res (Val F) :=
  if (op = .quo ∨ op = .rem) ∧ b = 0 then .panic .divByZero
  else match arithInt op a b with
    | some r => .ok (.int k (wrap k r))
    | none => .stuck

def evalArith (op : BinOp) (v w : Val F) : Res (Val F) :=
  match v, w with
  | .int k a, .int k' b => if k = k' then intOp k op a b else .stuck
  | .uint u a, .uint _ b =>
    match arithInt op a b with
    | some r => .ok (.uint u r)
    | none => .stuck
  | .ufloat p, .ufloat q =>
    match arithRat op p q with
    | some r => .ok (.ufloat r)
    | none => .stuck
  | .fconst p, .fconst q =>
    match arithRat op p q with
    | some r => .ok (.fconst r)
    | none => .stuck
  | .float f, .float g => if op.isFloatArith then .ok (.float (fs.arith op f g)) else .stuck
  | .float f, .fconst q => if op.isFloatArith then .ok (.float (fs.arith op f (fs.ofRat q))) else .stuck
  | .fconst p, .float g => if op.isFloatArith then .ok (.float (fs.arith op (fs.ofRat p) g)) else .stuck
  | .str s, .str t => if op = .add then .ok (.str (s ++ t)) else .stuck
  | .bool p, .bool q =>
    match op with
    | .land => .ok (.bool (p && q))
    | .lor => .ok (.bool (p || q))
    | _ => .stuck
  | _, _ => .stuck

def evalCmp (op : BinOp) (v w : Val F) : Res (Val F) :=
  match v, w with
  | .int k a, .int k' b => if k = k' then .ok (.bool (cmpInt op a b)) else .stuck
  | .uint _ a, .uint _ b => .ok (.bool (cmpInt op a b))
  | .ufloat p, .ufloat q => .ok (.bool (cmpRat op p q))
  | .fconst p, .fconst q => .ok (.bool (cmpRat op p q))
  | .float f, .float g => .ok (.bool (fs.cmp op f g))
  | .float f, .fconst q => .ok (.bool (fs.cmp op f (fs.ofRat q)))
  | .fconst p, .float g => .ok (.bool (fs.cmp op (fs.ofRat p) g))
  | .str s, .str t => .ok (.bool (cmpStr op s t))
  | .bool p, .bool q =>
    match cmpBool op p q with
    | some r => .ok (.bool r)
    | none => .stuck
  | _, _ => .stuck

/-- the shift count: a non-negative integer; a negative run-time count panics -/
def shiftCount (w : Val F) : Res Nat :=
  match w with
  | .int _ n => if n < 0 then .panic .negShift else .ok n.toNat
  | .uint _ n => if n < 0 then .stuck else .ok n.toNat
  | .ufloat q => if q.den = 1 ∧ 0 ≤ q.num then .ok q.num.toNat else .stuck
  | _ => .stuck

/-- shifting `v` by the count `r` (exact shift, wrapped to the type for typed integers) -/
def shiftWith (left : Bool) (v : Val F) (r : Res Nat) : Res (Val F) :=
  match v with
  | .int k a => r.bind fun s => .ok (.int k (wrap k (shiftInt left a s)))
  | .uint u a => r.bind fun s => .ok (.uint u (shiftInt left a s))
  | .ufloat q =>
    if q.den = 1 then r.bind fun s => .ok (.uint .int (shiftInt left q.num s)) else .stuck
  | _ => .stuck

def evalShift (left : Bool) (v w : Val F) : Res (Val F) := shiftWith left v (shiftCount w)

def evalBinary (op : BinOp) (v w : Val F) : Res (Val F) :=
  match op.cls with
  | .shift => evalShift (op = .shl) v w
  | .cmp =>
    match matchVals v w with
    | some (v', w') => evalCmp fs op v' w'
    | none => .stuck
  | _ =>
    match matchVals v w with
    | some (v', w') => evalArith fs op v' w'
    | none => .stuck

/-! ## Conversions -/

/-- `isConst`: the operand is a constant expression (then the conversion is exact) -/
def evalConv (isConst : Bool) (t : BType) (v : Val F) : Res (Val F) :=
  match t, v with
  | .int k, .int _ a => .ok (.int k (wrap k a))
  | .int k, .uint _ a => if inRange k a then .ok (.int k a) else .stuck
  | .int k, .ufloat q => if q.den = 1 ∧ inRange k q.num then .ok (.int k q.num) else .stuck
  | .int k, .fconst q => if q.den = 1 ∧ inRange k q.num then .ok (.int k q.num) else .stuck
  | .int k, .float f => .ok (.int k (wrap k (fs.toInt f)))
  | .float64, .int _ a => if isConst then .ok (.fconst (a : Rat)) else .ok (.float (fs.ofInt a))
  | .float64, .uint _ a => .ok (.fconst (a : Rat))
  | .float64, .ufloat q => .ok (.fconst q)
  | .float64, .fconst q => .ok (.fconst q)
  | .float64, .float f => .ok (.float f)
  | .string, .int _ a => .ok (.str (codePointString a))
  | .string, .uint _ a => .ok (.str (codePointString a))
  | .string, .str s => .ok (.str s)
  | .bool, .bool b => .ok (.bool b)
  | _, _ => .stuck

/-! ## Expressions -/

/-- run-time environment: for each name, whether it is a constant, and its value -/
abbrev DEnv (F : Type) := List (Nat × Bool × Val F)

def dlookup (ρ : DEnv F) (x : Nat) : Option (Bool × Val F) :=
  match ρ with
  | [] => none
  | (y, e) :: rest => if x = y then some e else dlookup rest x

/-- constant expressions, syntactically: literals, declared constants, and operators and
conversions applied to constant expressions -/
def isConstExpr (ρ : DEnv F) : Expr → Bool
  | .nilLit => false
  | .ident x => match dlookup ρ x with | some (c, _) => c | none => false
  | .unary _ e => isConstExpr ρ e
  | .binary _ a b => isConstExpr ρ a && isConstExpr ρ b
  | .conv _ e => isConstExpr ρ e
  | _ => true

def eval (ρ : DEnv F) : Expr → Res (Val F)
  | .intLit n => .ok (.uint .int n)
  | .floatLit q => .ok (.ufloat q)
  | .runeLit n => .ok (.uint .rune n)
  | .strLit s => .ok (.str s)
  | .boolLit b => .ok (.bool b)
  | .nilLit => .stuck
  | .ident x => match dlookup ρ x with | some (_, v) => .ok v | none => .stuck
  | .unary op e => (eval ρ e).bind (evalUnary fs op)
  | .binary op a b => (eval ρ a).bind (fun v => (eval ρ b).bind (fun w => evalBinary fs op v w))
  | .conv t e => (eval ρ e).bind (evalConv fs (isConstExpr ρ e) t)

/-! ## Statements -/

def Val.btype? : Val F → Option BType
  | .int k _ => some (.int k)
  | .float _ | .fconst _ => some .float64
  | .str _ => some .string
  | .bool _ => some .bool
  | .uint u _ => some u.default
  | .ufloat _ => some .float64

/-- the value stored in a variable of type `t` -/
def assignVal (t : BType) (v : Val F) : Res (Val F) :=
  match t, v with
  | .int k, .int k' _ => if k = k' then .ok v else .stuck
  | .int k, .uint _ a => if inRange k a then .ok (.int k a) else .stuck
  | .int k, .ufloat q => if q.den = 1 ∧ inRange k q.num then .ok (.int k q.num) else .stuck
  | .float64, .float f => .ok (.float f)
  | .float64, .fconst q => .ok (.float (fs.ofRat q))
  | .float64, .uint _ a => .ok (.float (fs.ofRat (a : Rat)))
  | .float64, .ufloat q => .ok (.float (fs.ofRat q))
  | .string, .str s => .ok (.str s)
  | .bool, .bool b => .ok (.bool b)
  | _, _ => .stuck

/-- the value of a constant declared with type `t` -/
def constVal (t : BType) (v : Val F) : Res (Val F) :=
  match t, v with
  | .int k, .int k' _ => if k = k' then .ok v else .stuck
  | .int k, .uint _ a => if inRange k a then .ok (.int k a) else .stuck
  | .int k, .ufloat q => if q.den = 1 ∧ inRange k q.num then .ok (.int k q.num) else .stuck
  | .float64, .fconst q => .ok (.fconst q)
  | .float64, .uint _ a => .ok (.fconst (a : Rat))
  | .float64, .ufloat q => .ok (.fconst q)
  | .string, .str s => .ok (.str s)
  | .bool, .bool b => .ok (.bool b)
  | _, _ => .stuck

def zeroVal (t : BType) : Val F :=
  match t with
  | .int k => .int k 0
  | .float64 => .float (fs.ofRat 0)
  | .string => .str ""
  | .bool => .bool false

def dupdate (ρ : DEnv F) (x : Nat) (v : Val F) : DEnv F :=
  match ρ with
  | [] => []
  | (y, c, w) :: rest => if x = y then (y, c, v) :: rest else (y, c, w) :: dupdate rest x v

/-- one name on the left of a multi-name `:=` (names are resolved in `ρ₀`, the environment before
the statement): an existing variable is assigned, a new one is pushed -/
def storeShort (ρ₀ ρ : DEnv F) (x : Nat) (v : Val F) : Res (DEnv F) :=
  match dlookup ρ₀ x with
  | some (_, old) =>
    match old.btype? with
    | some t => (assignVal fs t v).bind fun v' => .ok (dupdate ρ x v')
    | none => .stuck
  | none =>
    match v.btype? with
    | some t => (assignVal fs t v).bind fun v' => .ok ((x, false, v') :: ρ)
    | none => .stuck

def exec (ρ : DEnv F) : Stmt → Res (DEnv F)
  | .varDecl x (some t) (some e) =>
    (eval fs ρ e).bind fun v => (assignVal fs t v).bind fun v' => .ok ((x, false, v') :: ρ)
  | .varDecl x none (some e) | .shortDecl x e =>
    (eval fs ρ e).bind fun v =>
      match v.btype? with
      | some t => (assignVal fs t v).bind fun v' => .ok ((x, false, v') :: ρ)
      | none => .stuck
  | .shortDecl2 x y e₁ e₂ =>
    (eval fs ρ e₁).bind fun v₁ => (eval fs ρ e₂).bind fun v₂ =>
      (storeShort fs ρ ρ x v₁).bind fun ρ₁ => storeShort fs ρ ρ₁ y v₂
  | .varDecl x (some t) none => .ok ((x, false, zeroVal fs t) :: ρ)
  | .varDecl _ none none => .stuck
  | .constDecl x (some t) e => (eval fs ρ e).bind fun v => (constVal t v).bind fun v' => .ok ((x, true, v') :: ρ)
  | .constDecl x none e => (eval fs ρ e).bind fun v => .ok ((x, true, v) :: ρ)
  | .assign x e =>
    (eval fs ρ e).bind fun v =>
      match dlookup ρ x with
      | some (_, old) =>
        match old.btype? with
        | some t => (assignVal fs t v).bind fun v' => .ok (dupdate ρ x v')
        | none => .stuck
      | none => .stuck
  | .assignBlank e =>
    (eval fs ρ e).bind fun v =>
      match v.btype? with
      | some t => (assignVal fs t v).bind fun _ => .ok ρ
      | none => .stuck
  | .opAssign op x e =>
    match dlookup ρ x with
    | some (_, old) =>
      (eval fs ρ e).bind fun w => (evalBinary fs op old w).bind fun r =>
        match old.btype? with
        | some t => (assignVal fs t r).bind fun v' => .ok (dupdate ρ x v')
        | none => .stuck
    | none => .stuck
  | .incDec inc x =>
    match dlookup ρ x with
    | some (_, old) =>
      (evalBinary fs (if inc then .add else .sub) old (.uint .int 1)).bind fun r =>
        match old.btype? with
        | some t => (assignVal fs t r).bind fun v' => .ok (dupdate ρ x v')
        | none => .stuck
    | none => .stuck

def execAll (ρ : DEnv F) : List Stmt → Res (DEnv F)
  | [] => .ok ρ
  | s :: rest => (exec fs ρ s).bind fun ρ' => execAll ρ' rest

/-! ## What "a value of its static type" means (used by the statements of `Props/C03.lean`) -/

/-- `v` is a run-time value of the typed basic type `t` (integers within the range of the type) -/
def HasType (t : BType) (v : Val F) : Prop :=
  match t, v with
  | .int k, .int k' n => k = k' ∧ inRange k n = true
  | .float64, .float _ => True
  | .string, .str _ => True
  | .bool, .bool _ => True
  | _, _ => False

/-- the value a constant `c` of type `ty` has at run time -/
def constValue (ty : Ty) (c : CVal) : Option (Val F) :=
  match ty, c with
  | .typed (.int k), .int n => if inRange k n then some (.int k n) else none
  | .typed .float64, .rat q => some (.fconst q)
  | .typed .string, .str s => some (.str s)
  | .typed .bool, .bool b => some (.bool b)
  | .untyped .int, .int n => some (.uint .int n)
  | .untyped .rune, .int n => some (.uint .rune n)
  | .untyped .float, .rat q => some (.ufloat q)
  | .untyped .bool, .bool b => some (.bool b)
  | .untyped .string, .str s => some (.str s)
  | _, _ => none

/-- the value `v` is what the static operand `o` promises: exactly the constant's value for a
constant, a value of the type otherwise -/
def ValOK (o : Operand) (v : Val F) : Prop :=
  match o.val with
  | some c => constValue o.ty c = some v
  | none =>
    match o.ty with
    | .typed t => HasType t v
    | .untyped .bool => ∃ b, v = Val.bool b
    | _ => False

/-- an evaluation result is acceptable for the static operand `o`: a value that is `ValOK`, or a
run-time panic of a non-constant expression; never `stuck` -/
def ResultOK (o : Operand) (r : Res (Val F)) : Prop :=
  match r with
  | .ok v => ValOK o v
  | .panic _ => o.val = none
  | .stuck => False

def Entry.isConst : Entry → Bool
  | .const _ _ => true
  | .var _ => false

/-- the run-time environment matches the static one, name by name -/
def EnvOK : Env → DEnv F → Prop
  | [], [] => True
  | (x, ent) :: Γ, (y, c, v) :: ρ => x = y ∧ c = ent.isConst ∧ ValOK ent.operand v ∧ EnvOK Γ ρ
  | _, _ => False

end ScriggoV.TypeCheck
