import ScriggoV.Basic.Kind
import ScriggoV.Basic.Utf8
/-! # The Go specification of integer arithmetic, on mathematical integers

Hand-written from "The Go Programming Language Specification" (Arithmetic operators, Integer
operators, Integer overflow, Conversions between numeric types), for the eleven integer kinds on
amd64. A value of kind `k` is a mathematical integer in `Range k`; every operator computes the
exact result and wraps it to the operand type ("the operators +, -, *, and << may legally overflow
and the resulting value exists and is deterministically defined by the signed integer
representation, the operation, and its operands"). Independent of the VM and of `BitVec`:
it is validated against the gc compiler by the harness (`spec_validation` in the evidence).
Core Lean only. -/
namespace ScriggoV.GoInt

/-- `2 ^ bits` -/
def modulus (k : Kind) : Nat := 2 ^ k.bits

/-- wrap an exact result to kind `k`: signed kinds to `[-2^(n-1), 2^(n-1))`, unsigned to `[0, 2^n)` -/
def wrap (k : Kind) (z : Int) : Int :=
  if k.signed then Int.bmod z (modulus k) else z % (modulus k : Nat)

def minOf (k : Kind) : Int := if k.signed then -(2 ^ (k.bits - 1) : Nat) else 0
def maxOf (k : Kind) : Int := if k.signed then (2 ^ (k.bits - 1) : Nat) - 1 else (2 ^ k.bits : Nat) - 1

/-- the values of kind `k` -/
def InRange (k : Kind) (z : Int) : Prop := minOf k ≤ z ∧ z ≤ maxOf k
instance (k : Kind) (z : Int) : Decidable (InRange k z) := by unfold InRange; exact inferInstance

inductive BinOp | add | sub | mul | div | rem | and | or | xor | andNot
  deriving DecidableEq, Repr, Inhabited
inductive ShiftOp | shl | shr
  deriving DecidableEq, Repr, Inhabited
inductive UnOp | neg | not | plus
  deriving DecidableEq, Repr, Inhabited
inductive CmpOp | eq | ne | lt | le | gt | ge
  deriving DecidableEq, Repr, Inhabited

/-- the `bits`-wide two's-complement bit pattern of `z`, as a natural number -/
def pattern (k : Kind) (z : Int) : Nat := (z % (modulus k : Nat)).toNat

/-- `x op y` for the arithmetic and bitwise binary operators at kind `k`.
`/` truncates toward zero, `%` has the sign of the dividend (`x = (x/y)*y + x%y`), a zero
divisor is the run-time panic "integer divide by zero"; `MinInt / -1` wraps to `MinInt` and
`MinInt % -1 = 0` ("no overflow panic"). Bitwise operators act on the two's-complement patterns. -/
def binop (op : BinOp) (k : Kind) (x y : Int) : Except Fault Int :=
  match op with
  | .add => .ok (wrap k (x + y))
  | .sub => .ok (wrap k (x - y))
  | .mul => .ok (wrap k (x * y))
  | .div => if y = 0 then .error .divZero else .ok (wrap k (Int.tdiv x y))
  | .rem => if y = 0 then .error .divZero else .ok (wrap k (Int.tmod x y))
  | .and => .ok (wrap k (pattern k x &&& pattern k y : Nat))
  | .or => .ok (wrap k (pattern k x ||| pattern k y : Nat))
  | .xor => .ok (wrap k (pattern k x ^^^ pattern k y : Nat))
  | .andNot => .ok (wrap k (pattern k x &&& (modulus k - 1 - pattern k y) : Nat))

/-- `x << n`, `x >> n` where `n` is the *value* of the count operand (whatever its integer type).
"If the shift count is negative at run time, a run-time panic occurs." "Shifts behave as if the
left operand is shifted n times by 1": `<<` multiplies by `2^n` and wraps; `>>` divides by `2^n`
rounding toward negative infinity (arithmetic shift for signed, logical for unsigned — the same
formula because unsigned values are non-negative). For `n ≥ bits` every bit is shifted out; the
closed forms below avoid computing `2^n` for astronomically large `n` and are proved equal to the
textbook formulas in `Props/C01.lean` (`shl_eq_pow`, `shr_eq_div`). -/
def shift (op : ShiftOp) (k : Kind) (x n : Int) : Except Fault Int :=
  if n < 0 then .error .negShift
  else match op with
  | .shl => if n ≥ k.bits then .ok 0 else .ok (wrap k (x * (2 ^ n.toNat : Nat)))
  | .shr => if n ≥ k.bits then .ok (if x < 0 then -1 else 0) else .ok (x / (2 ^ n.toNat : Nat))

/-- unary `-x` (wraps: `-MinInt = MinInt`), `^x` (bitwise complement: `-1 ^ x` for signed,
`all-ones ^ x` for unsigned), `+x` -/
def unop (op : UnOp) (k : Kind) (x : Int) : Int :=
  match op with
  | .neg => wrap k (-x)
  | .not => wrap k (modulus k - 1 - pattern k x : Nat)
  | .plus => x

/-- comparison of two values of the same kind -/
def cmp (op : CmpOp) (x y : Int) : Bool :=
  match op with
  | .eq => x == y
  | .ne => x != y
  | .lt => decide (x < y)
  | .le => decide (x ≤ y)
  | .gt => decide (x > y)
  | .ge => decide (x ≥ y)

/-- conversion between integer types: "if the value is a signed integer, it is sign extended to
implicit infinite precision; otherwise it is zero extended. It is then truncated to fit in the
result type's size" — i.e. the mathematical value wrapped to the destination kind -/
def conv (dst : Kind) (z : Int) : Int := wrap dst z

/-- conversion of an integer value to a string type: "yields a string containing the UTF-8
representation of the integer. Values outside the range of valid Unicode code points are
converted to "\uFFFD"" (surrogate halves are not valid code points either: `Utf8.encodeRune`) -/
def intToString (z : Int) : Bytes :=
  if 0 ≤ z ∧ z ≤ 0x10FFFF then Utf8.encodeRune z.toNat else Utf8.encodeRune 0xFFFD

end ScriggoV.GoInt
