import ScriggoV.Basic.Bytes
/-! Percent-decoding of a URL query component (RFC 3986 §2.1, with `+` → space as
`net/url.QueryUnescape` does), the RFC's `unreserved` set, and the shape "only unreserved
bytes and `%XX` triplets". Independent specification; validated against
`net/url.QueryUnescape` by the C25 harness. Core Lean only. -/
namespace ScriggoV.Percent

/-- value of a hexadecimal digit (either case) -/
def hexVal (c : UInt8) : Option UInt8 :=
  if 48 ≤ c ∧ c ≤ 57 then some (c - 48)
  else if 97 ≤ c ∧ c ≤ 102 then some (c - 87)
  else if 65 ≤ c ∧ c ≤ 70 then some (c - 55)
  else none

/-- after a `%`: two hex digits, then the rest -/
def pctTriplet (rest : Bytes) : Option (UInt8 × Bytes) :=
  match rest with
  | h :: l :: rest' =>
    match hexVal h, hexVal l with
    | some x, some y => some (x * 16 + y, rest')
    | _, _ => none
  | _ => none

/-- `net/url.QueryUnescape`: `%XX` → the byte, `+` → space, a malformed `%` is an error -/
def pctDecodeAux : Nat → Bytes → Option Bytes
  | _, [] => some []
  | 0, _ :: _ => none
  | fuel + 1, c :: rest =>
    if c == 37 then
      match pctTriplet rest with
      | some (b, rest') => (pctDecodeAux fuel rest').map (b :: ·)
      | none => none
    else if c == 43 then (pctDecodeAux fuel rest).map (32 :: ·)
    else (pctDecodeAux fuel rest).map (c :: ·)

def pctDecode (s : Bytes) : Option Bytes := pctDecodeAux s.length s

/-- RFC 3986 §2.3: `unreserved = ALPHA / DIGIT / "-" / "." / "_" / "~"` -/
def rfcUnreserved (c : UInt8) : Bool :=
  (48 ≤ c && c ≤ 57) || (97 ≤ c && c ≤ 122) || (65 ≤ c && c ≤ 90)
    || c == 45 || c == 46 || c == 95 || c == 126

def isLowerHex (c : UInt8) : Bool := (48 ≤ c && c ≤ 57) || (97 ≤ c && c ≤ 102)

/-- the string is a sequence of unreserved bytes and `%xx` triplets (lower-case hex) -/
def onlyUnreservedAndEscapesAux : Nat → Bytes → Bool
  | _, [] => true
  | 0, _ :: _ => false
  | fuel + 1, c :: rest =>
    if c == 37 then
      match rest with
      | h :: l :: rest' => isLowerHex h && isLowerHex l && onlyUnreservedAndEscapesAux fuel rest'
      | _ => false
    else rfcUnreserved c && onlyUnreservedAndEscapesAux fuel rest

def onlyUnreservedAndEscapes (s : Bytes) : Bool := onlyUnreservedAndEscapesAux s.length s

end ScriggoV.Percent
