import ScriggoV.Spec.CommonMarkLex
/-! CommonMark 0.31 §6.1 (code spans), the part that is decided on one line: "A backtick string
is a string of one or more backtick characters that is neither preceded nor followed by a
backtick. A code span begins with a backtick string and ends with a backtick string of equal
length." and §2.4: "Backslash escapes do not work in code blocks, code spans, autolinks, or raw
HTML" — so the definitions below look at backticks only; a backslash is a byte like any other
(compare `CommonMarkLex.lexFrom`, which is how text *outside* these contexts is read).
Core Lean only. -/
namespace ScriggoV.CommonMarkCodeSpan

/-- number of backticks the bytes begin with -/
def tickPrefix : Bytes → Nat
  | [] => 0
  | c :: rest => if c == 96 then tickPrefix rest + 1 else 0

/-- no backtick string of exactly `n` backticks: a backtick string begins at a backtick that is
not preceded by a backtick (`pt` = "the previous byte was a backtick") and is as long as the
backticks go on -/
def noStringOf (n : Nat) : Bool → Bytes → Bool
  | _, [] => true
  | pt, c :: rest => (pt || c != 96 || tickPrefix (c :: rest) != n) && noStringOf n (c == 96) rest

/-- every backtick string is shorter than `n` (from every byte on, fewer than `n` backticks
follow one another) -/
def stringsBelow (n : Nat) : Bytes → Bool
  | [] => true
  | c :: rest => decide (tickPrefix (c :: rest) < n) && stringsBelow n rest

/-- `body` is the content of a code span whose opening backtick string has `n` backticks and
which is closed by the next backtick string of `n` backticks: not empty, it neither starts nor
ends with a backtick (the two delimiters are backtick strings of exactly `n`), and there is no
backtick string of `n` backticks in it. Backslashes play no part. -/
def CodeSpanContent (n : Nat) (body : Bytes) : Prop :=
  body ≠ [] ∧ body.head? ≠ some 96 ∧ body.getLast? ≠ some 96 ∧ noStringOf n false body = true

end ScriggoV.CommonMarkCodeSpan
