import ScriggoV.Model.Cut
/-! C15 — the rule by which template text reaches the output, stated on *lines*.

This is the specification side: it knows nothing of `firstText`, `Cut.Left/Right`, `tok.lin`,
`numTokenInLine` or the order in which the parser learns things. It only shares the token
vocabulary (`Raw`, `NT`) with the model, i.e. *where* the syntax is.

The rule (no page of the repository states it; it is read off `cutSpaces`' doc comments, the
parser tests `{% if a %}\nb\n{% end %}` …, test/misc "Raw statement", and the property text):

  The source is its text bytes and its tokens (`{% %}`, `{%% %%}`, `{{ }}`, `{# #}`) in order;
  a token is one item wherever its own bytes lie, newlines inside it included. Lines end after
  each LF *of the text* (the content of a raw block is text).
  (i)   Delimiters, statements and the code of shows are not output; a show outputs its value.
  (ii)  Comments are not output.
  (iii) A line that contains exactly one token, that token being *cuttable* (a comment, or a
        statement such as `if`, `end`, `raw`, an assignment, … but not `var`/`const`, and never
        a show), and otherwise only spaces, tabs and CRs (and its LF), is removed entirely,
        its LF included — unless the file ends right after the token (the engine leaves such a
        last line alone).
  (iv)  A leading `#!` line is removed (before anything else).
  Every other text byte is output, in order. -/
namespace ScriggoV.CutSpec
open ScriggoV ScriggoV.Cut

inductive Item
  | byte (b : UInt8)
  | tok (t : NT)
  deriving DecidableEq, Repr

def items : List Raw → List Item
  | [] => []
  | .text bs :: rs => bs.map Item.byte ++ items rs
  | .nt t :: rs => Item.tok t :: items rs

/-- lines in order, `cur` being the line under construction; every line but the last ends with
its LF, the last one (possibly empty) has none -/
def splitLines : List Item → List Item → List (List Item)
  | [], cur => [cur]
  | .byte b :: is, cur =>
    if b == LF then (cur ++ [.byte b]) :: splitLines is [] else splitLines is (cur ++ [.byte b])
  | .tok t :: is, cur => splitLines is (cur ++ [.tok t])

def lines (is : List Item) : List (List Item) := splitLines is []

def lineToks : List Item → List NT
  | [] => []
  | .byte _ :: is => lineToks is
  | .tok t :: is => t :: lineToks is

/-- every text byte of the line is a space, a tab, a CR or the LF -/
def lineBlank : List Item → Bool
  | [] => true
  | .byte b :: is => (isBlank b || b == LF) && lineBlank is
  | .tok _ :: is => lineBlank is

def endsWithTok (l : List Item) : Bool :=
  match l.getLast? with
  | some (.tok _) => true
  | _ => false

/-- exactly one token, and it is cuttable -/
def oneCuttable : List NT → Bool
  | [t] => t.cuttable
  | _ => false

/-- (iii) -/
def removable (l : List Item) : Bool :=
  oneCuttable (lineToks l) && lineBlank l && !endsWithTok l

/-- the line as it is: text bytes, and what its tokens print -/
def keepLine : List Item → Bytes
  | [] => []
  | .byte b :: is => b :: keepLine is
  | .tok t :: is => t.out ++ keepLine is

/-- the line without its text -/
def cutLine (l : List Item) : Bytes := (lineToks l).flatMap (·.out)

def renderLine (l : List Item) : Bytes := if removable l then cutLine l else keepLine l

def specRender (raws : List Raw) : Bytes := (lines (items raws)).flatMap renderLine

/-! ### the rule as the engine applies it around comments

The engine follows the rule above except in two places, both about comments (the lexer emits a
comment token after having counted its newlines, and the parser looks at the line under
construction as soon as a token ends the file):

* a comment that spans lines is counted on the line where it *ends*: what stands before it on
  the line where it starts is a line of its own, closed at the comment;
* so is what stands before a comment that ends the file.

A line closed like this is removed under the same conditions as any other — exactly one token,
cuttable, text all blank — and only if nothing at all follows that token on it. `engineRender`
is the rule with these two breaks; on sources without them (`inClass`) it is `specRender`. -/

/-- the line is closed before this comment (`last`: nothing follows it in the file) -/
def breaksBefore (t : NT) (last : Bool) : Bool := t.comment && (t.nl != 0 || last)

/-- lines, each with the flag "closed by a comment" -/
def splitLinesE : List Item → List Item → List (Bool × List Item)
  | [], cur => [(false, cur)]
  | .byte b :: is, cur =>
    if b == LF then (false, cur ++ [.byte b]) :: splitLinesE is [] else splitLinesE is (cur ++ [.byte b])
  | .tok t :: is, cur =>
    if breaksBefore t is.isEmpty then (true, cur) :: splitLinesE is [.tok t]
    else splitLinesE is (cur ++ [.tok t])

/-- a line closed by a comment goes when its token is the last thing on it -/
def removableC (l : List Item) : Bool :=
  oneCuttable (lineToks l) && lineBlank l && endsWithTok l

def renderLineE : Bool × List Item → Bytes
  | (false, l) => renderLine l
  | (true, l) => if removableC l then cutLine l else keepLine l

def engineRender (raws : List Raw) : Bytes := (splitLinesE (items raws) []).flatMap renderLineE

/-- (iv) -/
def dropShebang (src : Bytes) : Bytes :=
  match src with
  | 35 :: 33 :: _ => (src.dropWhile (· != LF)).drop 1
  | _ => src

/-- the whole rule, given where the tokens are -/
def specSource (f : Format) (src : Bytes) : Except TokErr Bytes :=
  (tokenize f (dropShebang src)).map specRender

/-- the class on which the engine follows the rule to the letter (`Props/C15.lean`): no comment
spans lines and the file does not end with a comment. Outside it the engine makes the two
extra line breaks of `engineRender` above; what it removes there is still only blank text of
lines holding one cuttable token (`removed_subset_documented`). -/
def inClass : List Raw → Bool
  | [] => true
  | [.text _] => true
  | [.nt t] => !t.comment
  | .text _ :: rs => inClass rs
  | .nt t :: rs => !(t.comment && t.nl != 0) && inClass rs

end ScriggoV.CutSpec
