import ScriggoV.Spec.CommonMarkLex
/-! CommonMark 0.31 §6.3, link destination — the two forms, as decidable predicates on the
bytes of the destination itself (without the `<` `>` of the first form):

* "a sequence of zero or more characters between an opening `<` and a closing `>` that contains
  no line endings or unescaped `<` or `>` characters";
* "a nonempty sequence of characters that does not start with `<`, does not include ASCII
  control characters or space character, and includes parentheses only if (a) they are
  backslash-escaped or (b) they are part of a balanced pair of unescaped parentheses".

`sl` = "the previous byte was a backslash that is not itself escaped" (§2.4: a backslash before
ASCII punctuation escapes it). Core Lean only. -/
namespace ScriggoV.CommonMarkDest
open ScriggoV.CommonMarkLex

/-- body of a `<…>` destination -/
def angleBody : Bool → Bytes → Bool
  | _, [] => true
  | sl, c :: rest =>
    if sl && isAsciiPunct c then angleBody false rest
    else if c == 10 || c == 13 || c == 60 || c == 62 then false
    else angleBody (c == 92) rest

/-- ASCII control character or space -/
def isCtlOrSpace (c : UInt8) : Bool := decide (c ≤ 32) || c == 127

/-- body of a bare destination; `depth` = unescaped `(` still open -/
def bareBody : Bool → Nat → Bytes → Bool
  | _, depth, [] => depth == 0
  | sl, depth, c :: rest =>
    if sl && isAsciiPunct c then bareBody false depth rest
    else if isCtlOrSpace c then false
    else if c == 40 then bareBody false (depth + 1) rest
    else if c == 41 then depth != 0 && bareBody false (depth - 1) rest
    else bareBody (c == 92) depth rest

/-- a bare destination -/
def bareDest (d : Bytes) : Bool :=
  match d with
  | [] => false
  | c :: _ => c != 60 && bareBody false 0 d

/-- a link label's content has no unescaped bracket (§6.3 "link label") -/
def noBareBracket : Bool → Bytes → Bool
  | _, [] => true
  | sl, c :: rest =>
    if sl && isAsciiPunct c then noBareBracket false rest
    else if c == 91 || c == 93 then false
    else noBareBracket (c == 92) rest

end ScriggoV.CommonMarkDest
