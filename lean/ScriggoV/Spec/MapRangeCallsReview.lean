import ScriggoV.Spec.MapRangeClasses
/-! Hand review (C30) of what `Gen/MapRangeCalls.lean` regenerates:

* which recognised *shapes* of a loop body are acceptable for each hand-assigned class
  (`compatible`): the recogniser is a second, mechanical reading of every map range;
* the calls of the *helpers* — functions whose loop searches the map by a field of the key, or
  selects by an order among the entries a filter lets through, and tests a parameter
  (`depsOf(name, deps)`: among the keys whose `Name` is `name`, the one that comes first in the
  source — fix 89d8011; before it: the first such key met), and the functions that pass their
  parameters on to them. A search is order-independent only when at most one key matches
  (`Order.foldl_firstMatch` under `UniqueResult`), a filtered selection only when the measure is
  injective on the matching keys (`Order.foldl_argMin`), which is a property of what the
  *caller* passes: every call site is listed here with the reason, and `Props/C30.lean` proves
  this list equal to the regenerated one. A new call site is an undischarged obligation.

Core Lean only. -/
namespace ScriggoV.Spec.MapRangeCallsReview
open ScriggoV.Spec.MapRangeClasses

/-- is the recognised shape one that the class explains? `unrecognised` (call statements, nested
loops) is accepted only where the class was assigned by reading the callee (`distinctKeyUpdate`:
`scopes.Declare`, `bindVarReg`, … insert at the iteration key); `collectUnsorted` (an append that
is not followed by a sort) is accepted nowhere. -/
def compatible : Class → String → Bool
  | .distinctKeyUpdate, s => s == "indexedStore" || s == "unrecognised"
  | .existence, s => s == "exists"
  | .uniqueMatch, s => s == "selectByKey" || s == "selectByField"
  | .minMaxSelect, s => s == "minMax"
  | .collectThenSort, s => s == "collectThenSort"
  | .commutativeAccumulate, s => s == "indexedStore"
  | .disjointUnion, s => s == "indexedStore"
  | .orderSensitiveEmission, _ => false

/-- why a call of a helper passes data on which the by-name selection has one answer -/
inductive Why where
  /-- the name is that of a *use* met while walking the dependencies (the declaration a path
  starts from is looked up by identifier first, fix C30-blank-decl-deps): a use is never the blank
  identifier, and the non-blank global names of a package that type-checks are distinct. For a
  package that declares a name twice (not valid Go, reported only later) they are not; `depsOf`
  then takes the declaration with the smallest start offset (fix 89d8011,
  fixes/C30-dup-name-loop-report.md — before it the loop that was reported changed from build to
  build), and the keys of the map are identifiers of one source file: different keys, different
  offsets -/
  | nameOfAUse
  /-- the caller passes its own parameters on: the obligation is its callers' (they are in the
  list too) -/
  | forwards
  /-- passes the dependency map it has just computed and the declarations of the package; the
  paths start from declared identifiers (looked up by identifier) -/
  | startsFromDeclarations
  deriving DecidableEq, Repr

/-- (callee, caller, arguments as written, why) -/
def helperCalls : List (String × String × String × Why) := [
  ("checkDepsPath", "checkDepsPath", "append(path, dep), deps", .forwards),
  ("checkDepsPath", "detectConstantsLoop", "path, deps", .forwards),
  ("checkDepsPath", "detectTypeLoop", "path, deps", .forwards),
  ("checkDepsPath", "detectVarsLoop", "path, deps", .forwards),
  ("depsOf", "checkDepsPath", "last.Name, deps", .nameOfAUse),
  ("detectConstantsLoop", "sortDeclarations", "consts, deps", .startsFromDeclarations),
  ("detectTypeLoop", "sortDeclarations", "types, deps", .startsFromDeclarations),
  ("detectVarsLoop", "sortDeclarations", "vars, deps", .startsFromDeclarations)
]

/-- how `sortDeclarations` fetches the dependencies of the declaration it tries to place, per
group (types, constants, variables): the lookup of `Model/DeclOrder.lean` it corresponds to -/
inductive Lookup where
  | byId | byName
  deriving DecidableEq, Repr

def lookupOf : String → Option Lookup
  | "index-by-identifier" => some .byId
  | "call depsOf" => some .byName
  | _ => none

end ScriggoV.Spec.MapRangeCallsReview
