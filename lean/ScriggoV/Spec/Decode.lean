import ScriggoV.Basic.Bytes
import ScriggoV.Basic.Utf8
/-! Reference decoders of the four target languages, written from their standards and
independently of the escapers (nothing here mentions `ScriggoV.Gen` or `ScriggoV.Escape`):

* `htmlDecode`  — HTML character references (WHATWG §13.2.5.72–80), parametric in the
                  named-reference table;
* `jsDecode`    — ECMAScript string-literal body (strict mode) / JSON string body (RFC 8259);
* `cssDecode`   — CSS Syntax 3 §4.3.5/§4.3.7 (string token content), with the §3.3 preprocessing;
* `pctDecode`   — RFC 3986 percent-decoding (optionally `+` = space as in
                  application/x-www-form-urlencoded).

All decoders work on bytes. Bytes ≥ 0x80 outside escapes are copied unchanged: on valid UTF-8
this is the code-point-level decoder of the standard; on invalid UTF-8 (which the target
languages cannot represent) it is its byte-level extension. Every decoder is
`decodeAll step`: `step` consumes one item from the front. Core Lean only. -/
namespace ScriggoV.Decode
open ScriggoV ScriggoV.Utf8

/-- run `step` until the input is empty; fuel `f` bounds the number of steps -/
def decodeF (step : Bytes → Option (Bytes × Bytes)) : Nat → Bytes → Option Bytes
  | _, [] => some []
  | 0, _ :: _ => none
  | f+1, c :: s =>
    match step (c :: s) with
    | none => none
    | some (out, rest) => (decodeF step f rest).map (out ++ ·)

/-- every step consumes at least one byte, so `length + 1` steps always suffice -/
def decodeAll (step : Bytes → Option (Bytes × Bytes)) (s : Bytes) : Option Bytes :=
  decodeF step (s.length + 1) s

/-! ### digits -/
def decDig? (c : UInt8) : Option Nat :=
  if 0x30 ≤ c.toNat ∧ c.toNat ≤ 0x39 then some (c.toNat - 0x30) else none

def hexDig? (c : UInt8) : Option Nat :=
  if 0x30 ≤ c.toNat ∧ c.toNat ≤ 0x39 then some (c.toNat - 0x30)
  else if 0x61 ≤ c.toNat ∧ c.toNat ≤ 0x66 then some (c.toNat - 0x61 + 10)
  else if 0x41 ≤ c.toNat ∧ c.toNat ≤ 0x46 then some (c.toNat - 0x41 + 10)
  else none

/-- read digits while there are any and fewer than `max` were read:
(value, number of digits, rest) -/
def takeNum (base : Nat) (dig : UInt8 → Option Nat) : Nat → Nat → Nat → Bytes → Nat × Nat × Bytes
  | 0, acc, n, s => (acc, n, s)
  | _+1, acc, n, [] => (acc, n, [])
  | max+1, acc, n, c :: s =>
    match dig c with
    | some v => takeNum base dig max (acc * base + v) (n + 1) s
    | none => (acc, n, c :: s)

/-! ### HTML character references -/

/-- WHATWG numeric character reference end state, table for 0x80–0x9F (windows-1252) -/
def c1Replacement : List Nat := [
  0x20AC, 0x81, 0x201A, 0x0192, 0x201E, 0x2026, 0x2020, 0x2021, 0x02C6, 0x2030, 0x0160, 0x2039,
  0x0152, 0x8D, 0x017D, 0x8F, 0x90, 0x2018, 0x2019, 0x201C, 0x201D, 0x2022, 0x2013, 0x2014,
  0x02DC, 0x2122, 0x0161, 0x203A, 0x0153, 0x9D, 0x017E, 0x0178]

def numericCodePoint (v : Nat) : Nat :=
  if v = 0 ∨ v > 0x10FFFF ∨ isSurrogate v then 0xFFFD
  else if 0x80 ≤ v ∧ v ≤ 0x9F then (c1Replacement[v - 0x80]?).getD v
  else v

def dropSemicolon : Bytes → Bytes
  | 0x3B :: s => s
  | s => s

/-- `s` is the text after `&#`; `none` when no digit follows (then `&#` is literal text) -/
def numericRef (s : Bytes) : Option (Bytes × Bytes) :=
  let hex := match s with
    | x :: _ => x == 0x78 || x == 0x58
    | [] => false
  let (v, n, r) := if hex then takeNum 16 hexDig? s.length 0 0 (s.drop 1)
                   else takeNum 10 decDig? s.length 0 0 s
  if n = 0 then none else some (encodeRune (numericCodePoint v), dropSemicolon r)

/-- a named-reference table: given the text after `&` it returns the replacement text and the
remaining input (after the name and its `;`), or `none` if no name matches -/
abbrev Named := Bytes → Option (Bytes × Bytes)

def htmlStep (named : Named) : Bytes → Option (Bytes × Bytes)
  | [] => none
  | c :: s =>
    if c == 0x26 then
      match s with
      | 0x23 :: t =>
        match numericRef t with
        | some r => some r
        | none => some ([c], s)
      | _ =>
        match named s with
        | some r => some r
        | none => some ([c], s)
    else some ([c], s)

def htmlDecodeO (named : Named) (s : Bytes) : Option Bytes := decodeAll (htmlStep named) s
/-- HTML character-reference decoding of a text / attribute value (total: HTML never rejects) -/
def htmlDecode (named : Named) (s : Bytes) : Bytes := (htmlDecodeO named s).getD []

/-- the table a theorem may assume: the three references the escapers emit by name -/
structure Named.Std (named : Named) : Prop where
  amp : ∀ t, named (0x61 :: 0x6D :: 0x70 :: 0x3B :: t) = some ([0x26], t)
  lt : ∀ t, named (0x6C :: 0x74 :: 0x3B :: t) = some ([0x3C], t)
  gt : ∀ t, named (0x67 :: 0x74 :: 0x3B :: t) = some ([0x3E], t)

/-- prefix test -/
def stripPrefix : Bytes → Bytes → Option Bytes
  | [], s => some s
  | _ :: _, [] => none
  | p :: ps, c :: s => if p == c then stripPrefix ps s else none

/-- a small concrete table (used by the driver and the non-vacuity examples): `amp lt gt quot`
with or without `;` (they are in the standard's legacy list), `apos` only with `;` -/
def stdNamed : Named := fun s =>
  let try1 (name : Bytes) (rep : UInt8) (legacy : Bool) : Option (Bytes × Bytes) :=
    match stripPrefix name s with
    | some (0x3B :: t) => some ([rep], t)
    | some t => if legacy then some ([rep], t) else none
    | none => none
  (try1 [0x61, 0x6D, 0x70] 0x26 true).orElse fun _ =>
  (try1 [0x6C, 0x74] 0x3C true).orElse fun _ =>
  (try1 [0x67, 0x74] 0x3E true).orElse fun _ =>
  (try1 [0x71, 0x75, 0x6F, 0x74] 0x22 true).orElse fun _ =>
  (try1 [0x61, 0x70, 0x6F, 0x73] 0x27 false)

/-! ### CSS string content -/
/-- CSS whitespace as it appears in raw input: TAB LF FF CR SPACE -/
def cssIsWs (c : UInt8) : Bool := c == 9 || c == 10 || c == 12 || c == 13 || c == 32

/-- §3.3 preprocessing of one raw byte: NUL → U+FFFD, FF and CR → LF -/
def cssPre (c : UInt8) : Bytes :=
  if c == 0 then [0xEF, 0xBF, 0xBD] else if c == 12 || c == 13 then [10] else [c]

/-- drop a LF (the second half of a CR LF newline) -/
def dropLF : Bytes → Bytes
  | [] => []
  | c :: s => if c == 10 then s else c :: s

/-- "if the next input code point is whitespace, consume it as well" (CR LF is one newline) -/
def cssDropWs : Bytes → Bytes
  | [] => []
  | c :: s => if c == 13 then dropLF s else if cssIsWs c then s else c :: s

def cssCodePoint (v : Nat) : Nat :=
  if v = 0 ∨ v > 0x10FFFF ∨ isSurrogate v then 0xFFFD else v

/-- `s` is the text after a backslash inside a string -/
def cssEscaped : Bytes → Bytes × Bytes
  | [] => ([], [])                                  -- `\` EOF: nothing
  | d :: s =>
    if d == 13 then ([], dropLF s)                  -- `\` newline: line continuation
    else if d == 10 || d == 12 then ([], s)
    else match hexDig? d with
      | some _ =>
        let (v, _, r) := takeNum 16 hexDig? 6 0 0 (d :: s)
        (encodeRune (cssCodePoint v), cssDropWs r)
      | none => (cssPre d, s)

def cssStep : Bytes → Option (Bytes × Bytes)
  | [] => none
  | c :: s =>
    if c == 0x5C then some (cssEscaped s)
    else if c == 13 then some ([10], dropLF s)      -- preprocessing: CR LF and CR → LF
    else some (cssPre c, s)

def cssDecodeO (s : Bytes) : Option Bytes := decodeAll cssStep s
/-- the value of a CSS string token with content `s` (total) -/
def cssDecode (s : Bytes) : Bytes := (cssDecodeO s).getD []

/-! ### percent-decoding -/
def pctStep (plusAsSpace : Bool) : Bytes → Option (Bytes × Bytes)
  | [] => none
  | c :: s =>
    if c == 0x25 then
      match s with
      | h1 :: h2 :: s' =>
        match hexDig? h1, hexDig? h2 with
        | some a, some b => some ([(a * 16 + b).toUInt8], s')
        | _, _ => none
      | _ => none
    else if c == 0x2B && plusAsSpace then some ([0x20], s)
    else some ([c], s)

/-- `none` = malformed (`%` not followed by two hex digits) -/
def pctDecode (plusAsSpace : Bool) (s : Bytes) : Option Bytes := decodeAll (pctStep plusAsSpace) s

/-- RFC 3986 unreserved characters -/
def isUnreserved (c : UInt8) : Bool :=
  (decide (0x30 ≤ c.toNat) && decide (c.toNat ≤ 0x39)) || (decide (0x41 ≤ c.toNat) && decide (c.toNat ≤ 0x5A)) ||
  (decide (0x61 ≤ c.toNat) && decide (c.toNat ≤ 0x7A)) || c == 0x2D || c == 0x2E || c == 0x5F || c == 0x7E

/-- the string is made of unreserved characters and `%XX` triplets only -/
def pctAlphabet : Bytes → Bool
  | [] => true
  | c :: s =>
    if c == 0x25 then
      match s with
      | h1 :: h2 :: s' => (hexDig? h1).isSome && (hexDig? h2).isSome && pctAlphabet s'
      | _ => false
    else isUnreserved c && pctAlphabet s

/-! ### JavaScript / JSON string literal body -/
def isHighSurrogate (u : Nat) : Bool := decide (0xD800 ≤ u) && decide (u ≤ 0xDBFF)
def isLowSurrogate (u : Nat) : Bool := decide (0xDC00 ≤ u) && decide (u ≤ 0xDFFF)

/-- four hex digits -/
def hex4 : Bytes → Option (Nat × Bytes)
  | a :: b :: c :: d :: s =>
    match hexDig? a, hexDig? b, hexDig? c, hexDig? d with
    | some a, some b, some c, some d => some (((a * 16 + b) * 16 + c) * 16 + d, s)
    | _, _, _, _ => none
  | _ => none

/-- after `\uXXXX` with code unit `u`: join a surrogate pair; a lone surrogate has no UTF-8
form and becomes U+FFFD (as in encoding/json) -/
def jsUnit (u : Nat) (s : Bytes) : Bytes × Bytes :=
  if isHighSurrogate u then
    match s with
    | 0x5C :: 0x75 :: t =>
      match hex4 t with
      | some (l, r) =>
        if isLowSurrogate l then (encodeRune (0x10000 + (u - 0xD800) * 1024 + (l - 0xDC00)), r)
        else (encodeRune 0xFFFD, s)
      | none => (encodeRune 0xFFFD, s)
    | _ => (encodeRune 0xFFFD, s)
  else (encodeRune u, s)   -- encodeRune maps a lone low surrogate to U+FFFD

/-- `\u…`: `s` is the text after `\u` -/
def jsEscapeU (json : Bool) (s : Bytes) : Option (Bytes × Bytes) :=
  let braces := match s with
    | b :: _ => b == 0x7B && !json
    | [] => false
  if braces then                       -- \u{H…}
    let (v, n, r) := takeNum 16 hexDig? s.length 0 0 (s.drop 1)
    match r with
    | [] => none
    | z :: r' => if z == 0x7D && n ≠ 0 && v ≤ 0x10FFFF then some (encodeRune v, r') else none
  else
    match hex4 s with                  -- \uXXXX
    | some (u, r) => some (jsUnit u r)
    | none => none

/-- `s` is the text after the backslash -/
def jsEscape (json : Bool) : Bytes → Option (Bytes × Bytes)
  | [] => none
  | c :: s =>
    if c == 0x75 then jsEscapeU json s
    else if c == 0x62 then some ([8], s) else if c == 0x66 then some ([12], s)
    else if c == 0x6E then some ([10], s) else if c == 0x72 then some ([13], s)
    else if c == 0x74 then some ([9], s)
    else if c == 0x22 || c == 0x5C || c == 0x2F then some ([c], s)
    else if json then none
    else if c == 0x76 then some ([11], s)
    else if c == 0x78 then             -- \xHH
      match s with
      | a :: b :: s' =>
        match hexDig? a, hexDig? b with
        | some a, some b => some (encodeRune (a * 16 + b), s')
        | _, _ => none
      | _ => none
    else if c == 0x30 then             -- \0 not followed by a decimal digit
      match s with
      | d :: _ => if (decDig? d).isSome then none else some ([0], s)
      | [] => some ([0], s)
    else if (decDig? c).isSome then none          -- legacy octal, \8, \9: errors in strict mode
    else if c == 13 then some ([], dropLF s)      -- line continuations
    else if c == 10 then some ([], s)
    else if c == 0xE2 then
      match s with
      | x :: y :: s' => if x == 0x80 && (y == 0xA8 || y == 0xA9) then some ([], s') else some ([c], s)
      | _ => some ([c], s)
    else some ([c], s)                 -- identity escape (incl. `\'`)

/-- JS mode: the body must be valid between either kind of quote, so a raw `"`, `'` or line
terminator (LF, CR) is rejected. JSON mode: raw `"` and raw control characters are rejected -/
def jsStep (json : Bool) : Bytes → Option (Bytes × Bytes)
  | [] => none
  | c :: s =>
    if c == 0x5C then jsEscape json s
    else if c == 0x22 then none
    else if json then (if c.toNat < 0x20 then none else some ([c], s))
    else if c == 0x27 || c == 10 || c == 13 then none
    else some ([c], s)

/-- the string value of a JS (`json = false`) / JSON (`json = true`) string literal with body
`s`, UTF-8 encoded; `none` = not a valid body -/
def jsDecode (json : Bool) (s : Bytes) : Option Bytes := decodeAll (jsStep json) s

end ScriggoV.Decode
