import ScriggoV.Spec.DeferLang
/-! The abstract Go machine for defer/panic/recover (the reference semantics `Model/Frames.lean`
is compared with; itself validated against real gc by go/props/c12 on every check).

A stack of function activations, each with its LIFO list of deferred calls, and the list of
active panics. Following the Go specification ("Handling panics", "Defer statements") and the
gc runtime (`gopanic`, `gorecover`, `recovery` in runtime/panic.go):

* `panic(v)` puts a new panic in front of the active ones and starts running the deferred
  calls of the panicking activation, innermost first; an activation whose list is exhausted is
  abandoned and its caller panics in turn; when no activation is left the program dies and
  prints every active panic, oldest first, `[recovered]` beside those that were recovered.
* `recover()` returns the value of the newest panic, and marks it recovered, only when it is
  called directly by a deferred function that the panic sequence itself called, and the panic
  is not recovered yet. Otherwise it returns nil.
* when a deferred function that recovered returns, every panic raised since the activation
  that deferred it was entered stops being active (gc: every `_panic` started in a deeper
  frame), that activation runs the rest of its deferred list normally and returns to its caller.
* a panic raised while deferred calls run (normally or because of a panic) goes in front of the
  active ones; the older ones stay active (gc prints them) until a recovery at an outer or
  the same activation drops them.
* `defer recover()`: `recover` run as a deferred call is "called directly" by the function that
  returns, not by a deferred function the panic sequence called: it recovers only when that
  returning function is itself such a deferred function and is returning normally.

One step = one instruction of the running activation, together with everything the run time
does before the next instruction of some activation executes. Core Lean only. -/
namespace ScriggoV.GoDefer
open ScriggoV.DeferLang

/-- what an activation is doing -/
inductive Mode where
  /-- executing its body (or waiting for a function it called) -/
  | running
  /-- waiting for the function it tail-called; returns as soon as that one returns -/
  | tailWait
  /-- its body is over: running its deferred calls, then returning to its caller -/
  | finishing
  /-- running its deferred calls because of a panic -/
  | panicking
  deriving DecidableEq, Repr, Inhabited

/-- who started an activation -/
inductive How where
  /-- a call statement (or the start of the program) -/
  | called
  /-- the deferred list of an activation that is returning -/
  | byReturn
  /-- the deferred list of an activation that is panicking: the panic sequence itself -/
  | byPanic
  deriving DecidableEq, Repr, Inhabited

structure Act where
  fn : Callee
  pc : Nat
  /-- pending deferred calls, the last deferred first -/
  defers : List Callee
  mode : Mode
  how : How
  /-- number of active panics when the activation was entered -/
  height : Nat
  deriving DecidableEq, Repr, Inhabited

structure State where
  /-- innermost activation first -/
  stack : List Act
  /-- active panics, newest first -/
  chain : Chain
  /-- printed and recovered values, newest first -/
  out : List Event
  deriving Repr, Inhabited

def enter (fn : Callee) (how : How) (chain : Chain) : Act :=
  { fn := fn, pc := 0, defers := [], mode := .running, how := how, height := chain.length }

/-- the program dies: every active panic is printed -/
def die (out : List Event) (chain : Chain) : Step State := .halt ⟨out.reverse, .panicked chain⟩

/-- The panic sequence reaches the activation on top of `stack`: its next deferred call is
run; with none left the activation is abandoned and the one below panics in turn. -/
def unwind (chain : Chain) (out : List Event) : List Act → Step State
  | [] => die out chain
  | a :: rest =>
    match a.defers with
    | d :: ds =>
      .next { stack := enter d .byPanic chain :: { a with mode := .panicking, defers := ds } :: rest,
              chain := chain, out := out }
    | [] => unwind chain out rest

/-- the newest panic has been recovered -/
def headRecovered : Chain → Bool
  | l :: _ => l.recovered
  | [] => false

/-- keeps the `n` oldest panics -/
def keepOldest (n : Nat) (chain : Chain) : Chain := chain.drop (chain.length - n)

/-- The activation `a` (above `rest`) runs its next deferred call normally; with none left it
returns and control goes back to the activation below (`back`). -/
def finishWith (back : Chain → Step State) (out : List Event) (a : Act) (rest : List Act)
    (chain : Chain) : Step State :=
  match a.defers with
  | d :: ds =>
    .next { stack := enter d .byReturn chain :: { a with mode := .finishing, defers := ds } :: rest,
            chain := chain, out := out }
  | [] => back chain

/-- Control comes back to the activation on top of the stack because the function it called,
or ran as a deferred call, has returned. -/
def resume (out : List Event) : List Act → Chain → Step State
  | [], _ => .halt ⟨out.reverse, .done⟩
  | a :: rest, chain =>
    match a.mode with
    | .running => .next { stack := a :: rest, chain := chain, out := out }
    | .tailWait => finishWith (resume out rest) out a rest chain
    | .finishing => finishWith (resume out rest) out a rest chain
    | .panicking =>
      -- back in the panic sequence that ran the deferred call
      if headRecovered chain then
        -- recovery: the panics raised since `a` was entered are dropped, `a` returns normally
        finishWith (resume out rest) out a rest (keepOldest a.height chain)
      else unwind chain out (a :: rest)

/-- `return`, or the end of the body -/
def doReturn (s : State) : Step State :=
  match s.stack with
  | [] => .halt ⟨s.out.reverse, .done⟩
  | a :: rest => resume s.out ({ a with mode := .finishing } :: rest) s.chain

def doPanic (s : State) (v : Nat) : Step State :=
  unwind ({ val := v, recovered := false } :: s.chain) s.out s.stack

/-- `recover()` called by an activation started `how`: the new chain and the value returned -/
def doRecover (how : How) (chain : Chain) : Chain × Option Nat :=
  match how, chain with
  | .byPanic, l :: ls => if l.recovered then (chain, none) else ({ l with recovered := true } :: ls, some l.val)
  | _, _ => (chain, none)

/-- `recover` itself run as a deferred call (`defer recover()`) by an activation started
`how` above `rest`: its caller is the activation below, which is returning -/
def recoverForCaller (how : How) (rest : List Act) (chain : Chain) : Chain :=
  match how, rest with
  | .byReturn, b :: _ => (doRecover b.how chain).1
  | _, _ => chain

def step (p : Prog) (s : State) : Step State :=
  match s.stack with
  | [] => .halt ⟨s.out.reverse, .done⟩
  | a :: rest =>
    match bodyOf p a.fn with
    | none => .halt ⟨s.out.reverse, .fault .noFunction⟩
    | some body =>
      let a' := { a with pc := a.pc + 1 }
      match fetch body a.pc with
      | .print x => .next { s with stack := a' :: rest, out := .out x :: s.out }
      | .call f => .next { s with stack := enter (.fn f) .called s.chain :: a' :: rest }
      | .tailcall f => .next { s with stack := enter (.fn f) .called s.chain :: { a' with mode := .tailWait } :: rest }
      | .defer f => .next { s with stack := { a' with defers := .fn f :: a.defers } :: rest }
      | .deferRec => .next { s with stack := { a' with defers := .recSynth :: a.defers } :: rest }
      | .ret => doReturn s
      | .panic v => doPanic s v
      | .recover =>
        let (chain, v) := doRecover a.how s.chain
        .next { stack := a' :: rest, chain := chain, out := .recov v :: s.out }
      | .repanic =>
        let (chain, v) := doRecover a.how s.chain
        let s' : State := { stack := a' :: rest, chain := chain, out := .recov v :: s.out }
        match v with
        | some x => doPanic s' x
        | none => .next s'
      | .recoverDown =>
        .next { s with stack := a' :: rest, chain := recoverForCaller a.how rest s.chain }
      | .stop k => .halt ⟨s.out.reverse, .stopped k⟩
      | .fatal v => .halt ⟨s.out.reverse, .fatal v⟩

def init : State := { stack := [enter (.fn 0) .called []], chain := [], out := [] }

def run (p : Prog) (fuel : Nat) : Result :=
  iterate (step p) (fun s => s.out.reverse) fuel init

end ScriggoV.GoDefer
