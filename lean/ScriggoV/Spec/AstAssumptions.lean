import ScriggoV.Gen.AstSchema
/-! Hand-written assumptions of C28 about the trees the parser builds, used by
`Props/C28.lean` and checked on every parsed tree by the harness (go/props/c28), which reads
them through the driver. Core Lean only. -/
namespace ScriggoV.Spec.AstAssumptions
open ScriggoV.Gen.AstSchema

/-- pointer- or interface-typed single children the parser never leaves nil, so that the
clone / walk case may hand them to a function that dereferences them without a guard.
(`go/props/c28` fails the correspondence "never-nil" if a parsed tree has one of them nil.) -/
def neverNil : Kind → List Field
  | .kForIn => [.fIdent]
  | .kForRange => [.fAssignment]
  | .kFunc => [.fType]
  | .kGoto => [.fLabel]
  | .kIf => [.fThen]          -- ast.NewIf substitutes an empty block for a nil Then
  | .kLabel => [.fIdent]
  | .kTypeDeclaration => [.fIdent]
  | .kUsing => [.fStatement]
  | _ => []

/-- node kinds whose case in `Walk` is known not to descend into every child (findings
`walk-call-func` and `walk-func-children` in known_findings.json: the existing tests pin
the incomplete behaviour). -/
def walkIncomplete : List Kind := [.kCall, .kFunc]

end ScriggoV.Spec.AstAssumptions
