import ScriggoV.Gen.AstSchema
/-! Hand-written assumptions of C28 about the trees the parser builds, used by
`Props/C28.lean` and checked on every parsed tree by the harness (go/props/c28), which reads
them through the driver. Core Lean only. -/
namespace ScriggoV.Spec.AstAssumptions
open ScriggoV.Gen.AstSchema

/-- pointer- or interface-typed single children the parser never leaves nil, so that the
clone / walk case may hand them to a function that dereferences them without a guard.
(`go/props/c28` fails the correspondence "never-nil" if a parsed tree has one of them nil.) -/
def neverNil : Kind → List Field
  | .kForIn => [.fIdent]
  | .kForRange => [.fAssignment]
  | .kFunc => [.fType]
  | .kGoto => [.fLabel]
  | .kIf => [.fThen]          -- ast.NewIf substitutes an empty block for a nil Then
  | .kLabel => [.fIdent]
  | .kTypeDeclaration => [.fIdent]
  | .kUsing => [.fStatement]
  | _ => []

/-- node kinds whose case in `Walk` is known not to descend into every child (findings
`walk-call-func` and `walk-func-children` in known_findings.json: the existing tests pin
the incomplete behaviour). -/
def walkIncomplete : List Kind := [.kCall, .kFunc]

/-- identifier children that are names of declarations (function name, parameter and result
names, import name): the grammar has no parentheses there, so the parser never gives them a
parenthesis count, and a clone case may copy them by hand (name and position only).
(`go/props/c28` fails the correspondence "never-parenthesised" if a parsed tree has a
parenthesised node there.) -/
def neverParenthesised : Kind → List Field
  | .kFunc => [.fIdent]
  | .kFuncType => [.fParameters_Ident, .fResult_Ident]
  | .kImport => [.fIdent]
  | _ => []

/-- node kinds whose constructor takes no position: `ast.NewTree` gives every tree the position
1:1, `ast.NewPlaceholder` none; their clone arm cannot (and need not) copy one. The harness
compares the positions of original and copy on every tree anyway. -/
def ctorPosition : List Kind := [.kTree, .kPlaceholder]

end ScriggoV.Spec.AstAssumptions
