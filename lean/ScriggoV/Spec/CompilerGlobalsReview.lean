/-! Hand review (C30, build independence within a process) of the package-level variables of
/repo/internal/compiler whose type can hold a reference to mutable memory: what they are used
for, by reading. `Props/C30.lean` proves this list equal to the regenerated one
(`Gen/CompilerGlobals.lean`), so a new package-level variable that can carry state from one
build to the next is an undischarged obligation. Core Lean only. -/
namespace ScriggoV.Spec.CompilerGlobalsReview

inductive Verdict where
  /-- a literal table or byte string, only read (searched, compared, indexed) -/
  | readOnly
  /-- big.Int operands, only passed as arguments / read-only receivers (Cmp, Sign) -/
  | readOnlyBig
  /-- holds `*typeInfo` values that are handed to every build, of a type whose fields the type
  checker and the emitter assign (`setValue`, `emitter.ti`): possible cross-build state. The one
  history known to show it — finding `history-universe-bool`, the type info of the predeclared
  `true` / `false` left with a defined boolean type — is cured by bb933ad (`checkIdentifier`
  records a copy of the type info of a constant for every use; `setValue` returns at once on a
  type info that is not a constant, `emitter.ti` writes only where `valueType` was set by it).
  That no other path writes a shared one is not proved (it needs a points-to analysis): the
  build-A, build-B, build-A and rebuild oracles of go/props/c30 look for it -/
  | sharedTypeInfo
  deriving DecidableEq, Repr

/-- (name, type, verdict) of every package-level variable with `refs = true`, by name -/
def reviewed : List (String × String × Verdict) := [
  ("cdataEnd", "[]byte", .readOnly),
  ("cdataStart", "[]byte", .readOnly),
  ("constantKindName", "map[reflect.Kind]string", .readOnly),
  ("cssMimeType", "[]byte", .readOnly),
  ("emptyMarker", "[]byte", .readOnly),
  ("http", "[]byte", .readOnly),
  ("https", "[]byte", .readOnly),
  ("jsMimeType", "[]byte", .readOnly),
  ("jsonLDMimeType", "[]byte", .readOnly),
  ("maxBigUnsignedValues", "[6]*big.Int", .readOnlyBig),
  ("moduleStr", "[]byte", .readOnly),
  ("moduleType", "[]byte", .readOnly),
  ("negativeOne", "*big.Int", .readOnlyBig),
  ("numberBaseName", "map[int]string", .readOnly),
  ("slashSlash", "[]byte", .readOnly),
  ("tokenString", "map[compiler.tokenTyp]string", .readOnly),
  ("universe", "map[string]compiler.scopeName", .sharedTypeInfo),
  ("untypedBoolTypeInfo", "*compiler.typeInfo", .sharedTypeInfo)
]

/-- `<field> <function>`: every assignment to a field of a `typeInfo` (directly or through a
`*typeInfo`) outside init functions — regenerated, pinned here. Read: `typeInfo.setValue` and
`emitter.ti` write whatever type info a node of the tree maps to; for the identifiers `true` and
`false` that was the *shared* one of the universe scope (finding `history-universe-bool`) until
fix bb933ad made `checkIdentifier` map every use of a constant to a copy. Most of
the others write a type info allocated a few lines before (`ti := &typeInfo{…}`); they have not
been audited one by one — `checkCallExpression` (MethodType) and `checkFieldSelector` write the
type info returned by a sub-expression check. The repeated-build oracle is what looks for more. -/
def typeInfoWriters : List String := [
  "Constant toTypeCheckerScope", "Constant typechecker.checkBuiltinCall",
  "Constant typechecker.checkExplicitConversion", "Constant typechecker.obsoleteForRangeAssign",
  "Constant typechecker.typeof", "MethodType typechecker.checkCallExpression",
  "NativePackageName toTypeCheckerScope", "Properties checkPackage", "Properties toTypeCheckerScope",
  "Properties typeInfo.setValue", "Properties typechecker.binaryOp",
  "Properties typechecker.checkBuiltinCall", "Properties typechecker.checkConstantDeclaration",
  "Properties typechecker.checkFieldSelector", "Properties typechecker.checkNodes",
  "Properties typechecker.obsoleteForRangeAssign", "Properties typechecker.typeof",
  "Type emitter.ti", "Type toTypeCheckerScope", "Type typechecker.binaryOp",
  "Type typechecker.checkBuiltinCall", "Type typechecker.checkMethodExpression",
  "Type typechecker.obsoleteForRangeAssign", "Type typechecker.typeof", "value toTypeCheckerScope",
  "value typeInfo.setValue", "value typechecker.checkMethodExpression", "valueType typeInfo.setValue"
]

end ScriggoV.Spec.CompilerGlobalsReview
