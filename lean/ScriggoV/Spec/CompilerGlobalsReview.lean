/-! Hand review (C30, build independence within a process) of the package-level variables of
/repo/internal/compiler whose type can hold a reference to mutable memory: what they are used
for, by reading. `Props/C30.lean` proves this list equal to the regenerated one
(`Gen/CompilerGlobals.lean`), so a new package-level variable that can carry state from one
build to the next is an undischarged obligation. Core Lean only. -/
namespace ScriggoV.Spec.CompilerGlobalsReview

inductive Verdict where
  /-- a literal table or byte string, only read (searched, compared, indexed) -/
  | readOnly
  /-- big.Int operands, only passed as arguments / read-only receivers (Cmp, Sign) -/
  | readOnlyBig
  /-- holds `*typeInfo` values that are handed to every build and that the type checker and the
  emitter mutate (`setValue`, `emitter.ti`): cross-build state — known finding
  `history-universe-bool`; not order-independent, not proved anything about -/
  | sharedTypeInfo
  deriving DecidableEq, Repr

/-- (name, type, verdict) of every package-level variable with `refs = true`, by name -/
def reviewed : List (String × String × Verdict) := [
  ("cdataEnd", "[]byte", .readOnly),
  ("cdataStart", "[]byte", .readOnly),
  ("constantKindName", "map[reflect.Kind]string", .readOnly),
  ("cssMimeType", "[]byte", .readOnly),
  ("emptyMarker", "[]byte", .readOnly),
  ("http", "[]byte", .readOnly),
  ("https", "[]byte", .readOnly),
  ("jsMimeType", "[]byte", .readOnly),
  ("jsonLDMimeType", "[]byte", .readOnly),
  ("maxBigUnsignedValues", "[6]*big.Int", .readOnlyBig),
  ("moduleStr", "[]byte", .readOnly),
  ("moduleType", "[]byte", .readOnly),
  ("negativeOne", "*big.Int", .readOnlyBig),
  ("numberBaseName", "map[int]string", .readOnly),
  ("slashSlash", "[]byte", .readOnly),
  ("tokenString", "map[compiler.tokenTyp]string", .readOnly),
  ("universe", "map[string]compiler.scopeName", .sharedTypeInfo),
  ("untypedBoolTypeInfo", "*compiler.typeInfo", .sharedTypeInfo)
]

end ScriggoV.Spec.CompilerGlobalsReview
