/-! Specification of the part of Go's package `reflect` (and of `reflect.Swapper`, `sort.Slice`,
`sort.SliceStable`) that the builtins call on an argument of static type `any`: which operations
panic on which kinds. Hand-written from the documentation of package reflect ("It panics if …");
the harness go/props/c25 validates every line of `Op.eval` against the real package on every
check (`reflect-spec` stream: each operation on a value of every kind, under `recover`).

Abstraction: an argument is the nil interface or a dynamic value of which only the `reflect.Kind`
and `IsZero` are kept (for the nilable kinds IsZero = IsNil). Types are known by their kind only;
the element type of a type and the pointee of a pointer have an *unknown* kind, and an operation
with a kind precondition on an unknown kind counts as panicking (conservative). Core Lean only. -/
namespace ScriggoV.Reflect

/-- `reflect.Kind`, in the order of the Go declaration -/
inductive RKind
  | invalid | bool | int | int8 | int16 | int32 | int64
  | uint | uint8 | uint16 | uint32 | uint64 | uintptr
  | float32 | float64 | complex64 | complex128
  | array | chan | func | interface | map | pointer | slice | string | struct | unsafePointer
  deriving DecidableEq, Repr, Inhabited

namespace RKind

def all : List RKind :=
  [invalid, bool, int, int8, int16, int32, int64, uint, uint8, uint16, uint32, uint64, uintptr,
   float32, float64, complex64, complex128, array, chan, func, interface, map, pointer, slice,
   string, struct, unsafePointer]

theorem mem_all (k : RKind) : k ∈ all := by cases k <;> decide

/-- `reflect.Kind.String()`, also the protocol token -/
def name : RKind → String
  | invalid => "invalid" | bool => "bool" | int => "int" | int8 => "int8" | int16 => "int16"
  | int32 => "int32" | int64 => "int64" | uint => "uint" | uint8 => "uint8" | uint16 => "uint16"
  | uint32 => "uint32" | uint64 => "uint64" | uintptr => "uintptr" | float32 => "float32"
  | float64 => "float64" | complex64 => "complex64" | complex128 => "complex128"
  | array => "array" | chan => "chan" | func => "func" | interface => "interface" | map => "map"
  | pointer => "ptr" | slice => "slice" | string => "string" | struct => "struct"
  | unsafePointer => "uptr"

def ofName (s : String) : Option RKind := all.find? (fun k => k.name == s)

/-- `Type.Elem`: "It panics if the type's Kind is not Array, Chan, Map, Pointer, or Slice." -/
def hasElemType : RKind → Bool
  | array | chan | map | pointer | slice => true
  | _ => false

/-- `Value.Elem`: "It panics if v's Kind is not Interface or Pointer." -/
def hasElemValue : RKind → Bool
  | interface | pointer => true
  | _ => false

/-- `Value.IsNil`: "The argument must be a chan, func, interface, map, pointer, or slice value"
(package reflect also accepts unsafe.Pointer) -/
def nilable : RKind → Bool
  | chan | func | interface | map | pointer | slice | unsafePointer => true
  | _ => false

/-- `Value.Len`: "It panics if v's Kind is not Array, Chan, Map, Slice, String, or pointer to
Array" (a pointer's pointee is not tracked: counted as panicking) -/
def hasLen : RKind → Bool
  | array | chan | map | slice | string => true
  | _ => false

/-- `Value.Index`: "It panics if v's Kind is not Array, Slice, or String" (or out of range: the
index is not modelled) -/
def indexable : RKind → Bool
  | array | slice | string => true
  | _ => false

end RKind

/-- the argument passed for a parameter of type `any` -/
inductive Arg
  | nilIface
  | dyn (k : RKind) (zero : Bool)
  deriving DecidableEq, Repr, Inhabited

namespace Arg

def all : List Arg :=
  nilIface :: RKind.all.flatMap fun k => [dyn k false, dyn k true]

theorem mem_all (a : Arg) : a ∈ all := by
  cases a with
  | nilIface => exact List.mem_cons_self
  | dyn k z => cases k <;> cases z <;> decide

/-- a statement checked on every argument holds for every argument -/
theorem forall_of_all (p : Arg → Bool) (h : all.all p = true) (a : Arg) : p a = true :=
  List.all_eq_true.mp h a (mem_all a)

/-- protocol token: `nil`, `<kind>/z` (IsZero), `<kind>/n` -/
def ofName (s : String) : Option Arg :=
  if s == "nil" then some nilIface else
  match s.splitOn "/" with
  | [k, "z"] => (RKind.ofName k).map (dyn · true)
  | [k, "n"] => (RKind.ofName k).map (dyn · false)
  | _ => none

def isPointer : Arg → Bool
  | dyn .pointer _ => true
  | _ => false

def isSlice : Arg → Bool
  | dyn .slice _ => true
  | _ => false

def isZero : Arg → Bool
  | dyn _ z => z
  | nilIface => false

end Arg

/-- what is known of a `reflect.Type` -/
inductive TyK
  | nil                 -- the nil `reflect.Type` (`reflect.TypeOf(nil)`)
  | known (k : RKind)
  | unknown             -- a non-nil type whose kind is not tracked
  deriving DecidableEq, Repr, Inhabited

/-- the abstract objects the builtins handle -/
inductive Obj
  | iface (a : Arg)                                                   -- the `any` parameter itself
  | value (valid : Bool) (k : Option RKind) (zero : Option Bool) (settable : Bool)  -- a `reflect.Value`
  | type (t : TyK)                                                    -- a `reflect.Type`
  | opaque                                                            -- anything else
  deriving DecidableEq, Repr, Inhabited

/-- the operations; operands are registers -/
inductive Op
  | valueOf (r : Nat)        -- reflect.ValueOf(x)
  | typeOf (r : Nat)         -- reflect.TypeOf(x)
  | typeFor (k : RKind)      -- reflect.TypeFor[T]() with T of kind k
  | vType (r : Nat)          -- Value.Type
  | vKind (r : Nat)          -- Value.Kind
  | vString (r : Nat)        -- Value.String
  | vElem (r : Nat)          -- Value.Elem
  | vSet (x y : Nat)         -- x.Set(y)
  | vInterface (r : Nat)     -- Value.Interface
  | vIsZero (r : Nat)        -- Value.IsZero
  | vIsNil (r : Nat)         -- Value.IsNil
  | vLen (r : Nat)           -- Value.Len
  | vIndex (r : Nat)         -- Value.Index(i), i in range
  | tKind (r : Nat)          -- Type.Kind
  | tString (r : Nat)        -- Type.String
  | tElem (r : Nat)          -- Type.Elem
  | new (r : Nat)            -- reflect.New(t)
  | swapper (r : Nat)        -- reflect.Swapper(x)
  | sortSlice (r : Nat)      -- sort.Slice(x, less) / sort.SliceStable(x, less)
  deriving DecidableEq, Repr, Inhabited

abbrev Regs := List (Nat × Obj)

def Regs.get (rs : Regs) (r : Nat) : Obj :=
  match rs.find? (fun e => e.1 == r) with
  | some e => e.2
  | none => .opaque

/-- `none`: the operation panics (or is applied to an object of the wrong sort, which the
generator never emits); `some o`: its result -/
def Op.eval (rs : Regs) : Op → Option Obj
  | .valueOf r =>
    match rs.get r with
    | .iface .nilIface => some (.value false none none false)      -- the zero Value
    | .iface (.dyn k z) => some (.value true (some k) (some z) false)
    | _ => none
  | .typeOf r =>
    match rs.get r with
    | .iface .nilIface => some (.type .nil)
    | .iface (.dyn k _) => some (.type (.known k))
    | _ => none
  | .typeFor k => some (.type (.known k))
  | .vType r =>
    match rs.get r with
    | .value true (some k) _ _ => some (.type (.known k))
    | .value true none _ _ => some (.type .unknown)
    | _ => none                                                      -- Type of the zero Value panics
  | .vKind r =>
    match rs.get r with
    | .value _ _ _ _ => some .opaque                                 -- Kind of the zero Value is Invalid
    | _ => none
  | .vString r =>
    match rs.get r with
    | .value _ _ _ _ => some .opaque                                 -- "<invalid Value>", "<T Value>"
    | _ => none
  | .vElem r =>
    match rs.get r with
    | .value true (some k) (some z) _ =>
      if k.hasElemValue then
        some (if z then .value false none none false else .value true none none (k == .pointer))
      else none
    | _ => none
  | .vSet x y =>
    match rs.get x, rs.get y with
    | .value true _ _ true, .value true _ _ _ => some .opaque        -- assignability is not modelled
    | _, _ => none
  | .vInterface r =>
    match rs.get r with
    | .value true _ _ _ => some .opaque
    | _ => none
  | .vIsZero r =>
    match rs.get r with
    | .value true _ _ _ => some .opaque
    | _ => none
  | .vIsNil r =>
    match rs.get r with
    | .value true (some k) _ _ => if k.nilable then some .opaque else none
    | _ => none
  | .vLen r =>
    match rs.get r with
    | .value true (some k) _ _ => if k.hasLen then some .opaque else none
    | _ => none
  | .vIndex r =>
    match rs.get r with
    | .value true (some k) _ _ => if k.indexable then some (.value true none none false) else none
    | _ => none
  | .tKind r =>
    match rs.get r with
    | .type .nil => none                                             -- method call on a nil interface
    | .type _ => some .opaque
    | _ => none
  | .tString r =>
    match rs.get r with
    | .type .nil => none
    | .type _ => some .opaque
    | _ => none
  | .tElem r =>
    match rs.get r with
    | .type (.known k) => if k.hasElemType then some (.type .unknown) else none
    | _ => none
  | .new r =>
    match rs.get r with
    | .type .nil => none
    | .type _ => some (.value true (some .pointer) (some false) false)
    | _ => none
  | .swapper r =>
    match rs.get r with
    | .iface (.dyn .slice _) => some .opaque
    | _ => none
  | .sortSlice r =>
    match rs.get r with
    | .iface (.dyn .slice _) => some .opaque
    | _ => none

end ScriggoV.Reflect
