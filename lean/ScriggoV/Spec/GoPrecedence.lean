import ScriggoV.Model.ExprPP
/-!
Independent specification of binary operator precedence, written from the Go language
specification ("Operators": five precedence levels for binary operators; unary operators bind
tightest) and from Scriggo's template documentation for the three template-only operators
(`contains` / `not contains` are comparison operators, `and` is `&&`, `or` is `||`).

```
    5             *  /  %  <<  >>  &  &^
    4             +  -  |  ^
    3             ==  !=  <  <=  >  >=      (contains, not contains)
    2             &&                        (and)
    1             ||                        (or)
```
-/
namespace ScriggoV.Spec.GoPrecedence
open ScriggoV.ExprPP

def goPrec : BinOp → Nat
  | .mul | .div | .mod | .shl | .shr | .bitAnd | .andNot => 5
  | .add | .sub | .bitOr | .xor => 4
  | .eq | .ne | .lt | .le | .gt | .ge | .contains | .notContains => 3
  | .and | .extAnd => 2
  | .or | .extOr => 1

end ScriggoV.Spec.GoPrecedence
