import ScriggoV.Basic.Bytes
/-! The part of CommonMark (0.31) that decides *lexically* whether a piece of text is inert,
i.e. is read as plain paragraph text: backslash escapes of ASCII punctuation (§2.4), line
endings LF / CR / CRLF (§2.1), indented code (≥ 4 columns of indentation after a blank line,
§4.4), the bytes that can open a block at the start of a line (ATX `#`, block quote `>`,
bullets `- + *`, ordered markers digits+`.`/`)`, fences, thematic breaks `* - _`, setext
underlines `= -`, HTML blocks `<`, table rows `|`), entity and autolink openers `&` `<`,
hard breaks (two trailing spaces, backslash before a line ending), and the link / emphasis /
code-span delimiters. Independent of the escaper's tables; validated against goldmark by the
C26 harness (spec validation). Core Lean only. -/
namespace ScriggoV.CommonMarkLex

def isAsciiPunct (c : UInt8) : Bool :=
  (decide (33 ≤ c) && decide (c ≤ 47)) || (decide (58 ≤ c) && decide (c ≤ 64)) ||
  (decide (91 ≤ c) && decide (c ≤ 96)) || (decide (123 ≤ c) && decide (c ≤ 126))

def isEol (c : UInt8) : Bool := c == 10 || c == 13
def isSpTab (c : UInt8) : Bool := c == 32 || c == 9
def isDigit (c : UInt8) : Bool := decide (48 ≤ c) && decide (c ≤ 57)

/-- punctuation that, unescaped, can open, close or delimit an inline or block construct:
`\` (escapes, hard break) `` ` `` `*` `_` `[` `]` `(` `)` `#` `+` `-` `=` `.` `!` `|` `>` `~`
`<` (autolink, raw HTML) `&` (entity) -/
def mdActive (c : UInt8) : Bool :=
  c == 92 || c == 96 || c == 42 || c == 95 || c == 91 || c == 93 || c == 40 || c == 41 ||
  c == 35 || c == 43 || c == 45 || c == 61 || c == 46 || c == 33 || c == 124 || c == 62 ||
  c == 126 || c == 60 || c == 38

/-- inline tokens after backslash-escape lexing -/
inductive Tok
  | esc (c : UInt8)   -- `\c` with `c` ASCII punctuation: the literal character `c`
  | lit (c : UInt8)   -- any other byte (a backslash not followed by punctuation is `lit 92`)
  deriving DecidableEq, Repr

def Tok.val : Tok → UInt8
  | .esc c => c
  | .lit c => c

/-- §2.4: "Any ASCII punctuation character may be backslash-escaped" — left to right;
`p` = "a backslash has been read and is still pending" -/
def lexFrom : Bool → Bytes → List Tok
  | p, [] => if p then [.lit 92] else []
  | p, c :: rest =>
    if p then
      if isAsciiPunct c then .esc c :: lexFrom false rest
      else .lit 92 :: .lit c :: lexFrom false rest
    else if c == 92 then lexFrom true rest
    else .lit c :: lexFrom false rest

def lex (o : Bytes) : List Tok := lexFrom false o

/-- the text after removing backslash escapes -/
def unescape (o : Bytes) : Bytes := (lex o).map Tok.val

/-- every active punctuation byte is the second byte of a backslash escape (in particular there
is no lone backslash, so no backslash hard break) -/
def activeEscaped (o : Bytes) : Bool :=
  (lex o).all fun t => match t with
    | .esc _ => true
    | .lit c => !mdActive c

/-- first byte of a block opener (after the line's indentation) -/
def blockStartByte (c : UInt8) : Bool :=
  c == 35 || c == 62 || c == 45 || c == 43 || c == 42 || c == 95 || c == 61 || c == 96 ||
  c == 126 || c == 60 || c == 124

def dropSpTab : Bytes → Bytes
  | [] => []
  | c :: rest => if isSpTab c then dropSpTab rest else c :: rest

def dropDigits : Bytes → Bytes
  | [] => []
  | c :: rest => if isDigit c then dropDigits rest else c :: rest

/-- the bytes from a line start on begin a block construct other than a paragraph or
indented code: opener byte, or an ordered-list marker digits+`.`/`)` -/
def startsBlock (l : Bytes) : Bool :=
  match dropSpTab l with
  | [] => false
  | c :: rest =>
    blockStartByte c ||
    (isDigit c && (match dropDigits rest with
                   | d :: _ => d == 46 || d == 41
                   | [] => false))

/-- no line begins a block construct; `ls` = "at a line start" -/
def noBlockStartFrom : Bool → Bytes → Bool
  | _, [] => true
  | ls, c :: rest => (!ls || !startsBlock (c :: rest)) && noBlockStartFrom (isEol c) rest

def noBlockStart (o : Bytes) : Bool := noBlockStartFrom true o

/-- no two consecutive spaces (so no line ends in the two spaces of a hard break);
`p` = "the previous byte was a space" -/
def noDoubleSpaceFrom : Bool → Bytes → Bool
  | _, [] => true
  | p, c :: rest => !(p && c == 32) && noDoubleSpaceFrom (c == 32) rest

def noDoubleSpace (o : Bytes) : Bool := noDoubleSpaceFrom false o

/-- columns of leading white space, tab stops every 4 columns (§2.2) -/
def indentCols : Nat → Bytes → Nat
  | col, [] => col
  | col, c :: rest =>
    if c == 32 then indentCols (col + 1) rest
    else if c == 9 then indentCols (col + 4 - col % 4) rest
    else col

/-- the line that starts here has only spaces and tabs -/
def lineBlank : Bytes → Bool
  | [] => true
  | c :: rest => if isEol c then true else isSpTab c && lineBlank rest

/-- no indented code block opens: no non-blank line with ≥ 4 columns of indentation directly
after a blank line (or at the very start when `pb` is initially true). State: `pb` previous
line was blank, `cb` the current line is blank so far, `ls` at a line start, `cr` the
previous byte was a CR (a following LF belongs to the same line ending). -/
def noIndentedCodeFrom : (pb cb ls cr : Bool) → Bytes → Bool
  | _, _, _, _, [] => true
  | pb, cb, ls, cr, c :: rest =>
    if cr && c == 10 then noIndentedCodeFrom pb cb ls false rest
    else
      !(ls && pb && !lineBlank (c :: rest) && decide (4 ≤ indentCols 0 (c :: rest))) &&
      (if isEol c then noIndentedCodeFrom cb true true (c == 13) rest
       else noIndentedCodeFrom pb (cb && isSpTab c) false false rest)

/-- as the first bytes of a document / after a blank line -/
def noIndentedCode (o : Bytes) : Bool := noIndentedCodeFrom true true true false o

/-- `u` is `s` with some of its spaces and tabs replaced by U+00A0 (C2 A0) — the white-space
normalisation under which the content is compared (Markdown collapses / strips ASCII white
space at line ends and starts; the escaper makes it visible as no-break spaces instead) -/
def wsRel : Bytes → Bytes → Bool
  | [], u => u.isEmpty
  | c :: s, u =>
    match u with
    | [] => false
    | x :: u' =>
      (x == c && wsRel s u') ||
      (isSpTab c && x == 194 && (match u' with
                                 | y :: u'' => y == 160 && wsRel s u''
                                 | [] => false))

/-- **inert**: `o`, placed in a paragraph context, is read by CommonMark as text only whose
content is `s` up to the white-space normalisation -/
def inert (s o : Bytes) : Bool :=
  activeEscaped o && noBlockStart o && noDoubleSpace o && noIndentedCode o && wsRel s (unescape o)

/-- the lexical clauses without the comparison with a source string (what the harness
validates against goldmark on arbitrary text) -/
def inertDoc (o : Bytes) : Bool :=
  activeEscaped o && noBlockStart o && noDoubleSpace o && noIndentedCode o

/-! ### staying inside an indented code block -/

def isPrefixB : Bytes → Bytes → Bool
  | [], _ => true
  | _ :: _, [] => false
  | a :: p, b :: l => a == b && isPrefixB p l

/-- every line after the first starts with the block's indentation `ind` or is empty (a line
ending follows immediately); the text does not end directly after a line ending. `ls`, `cr`
as above; the first line is indented by the surrounding text. -/
def staysInFrom (ind : Bytes) : (ls cr : Bool) → Bytes → Bool
  | ls, _, [] => !ls
  | ls, cr, c :: rest =>
    if cr && c == 10 then staysInFrom ind ls false rest
    else (!ls || isEol c || isPrefixB ind (c :: rest)) && staysInFrom ind (isEol c) (c == 13) rest

def staysInCodeBlock (ind o : Bytes) : Bool := staysInFrom ind false false o

end ScriggoV.CommonMarkLex
