import ScriggoV.Basic.Bytes
import ScriggoV.Basic.Utf8
/-! Independent specification for C08: an RFC 8259 recogniser and decoder to an abstract
`Data`, and (flag `js := true`) a recogniser for the subset of JavaScript expressions that are
*literals*: everything JSON has, plus `undefined`, `NaN`, block comments as white space and
`new Date("…")`. Written from the RFCs / ECMA-262, not from Scriggo's code. Core Lean only.

The decoder is a recursive-descent parser with fuel; every call is made with at least
`2·(remaining input)+2` fuel left when the top-level call is made with `2·length+2`
(`parseTop`), which the theorems in `Lemmas/ShowValue*.lean` use. -/
namespace ScriggoV.JSON

/-- what a JSON text (or a JS literal expression) denotes. A number keeps its spelling; a string
is the decoded byte string (escapes undone, `\uXXXX` as UTF-8); an object is the *ordered* list
of its members, duplicates kept. `undefined` and `date` exist only for JavaScript. -/
inductive Data
  | null
  | bool (b : Bool)
  | num (text : Bytes)
  | str (s : Bytes)
  | arr (xs : List Data)
  | obj (kvs : List (Bytes × Data))
  | undefined
  | date (s : Bytes)
  deriving Repr, Inhabited

/-! ### white space (RFC 8259 §2) and, for JS, `/* … */` comments -/
def isWs (c : UInt8) : Bool := c == 0x20 || c == 0x09 || c == 0x0A || c == 0x0D

/-- skip white space; with `js` also block comments. `inComment` is the scanner state.
`none`: unterminated comment. -/
def skipWs (js : Bool) : Bool → Bytes → Option Bytes
  | false, [] => some []
  | true, [] => none
  | false, c :: r =>
    if isWs c then skipWs js false r
    else match r with
      | [] => some [c]
      | d :: r' => if js && c == 0x2F && d == 0x2A then skipWs js true r' else some (c :: d :: r')
  | true, c :: r =>
    match r with
    | [] => none
    | d :: r' => if c == 0x2A && d == 0x2F then skipWs js false r' else skipWs js true (d :: r')

/-! ### strings (RFC 8259 §7) -/
def hexVal (c : UInt8) : Option Nat :=
  if 0x30 ≤ c.toNat ∧ c.toNat ≤ 0x39 then some (c.toNat - 0x30)
  else if 0x61 ≤ c.toNat ∧ c.toNat ≤ 0x66 then some (c.toNat - 0x61 + 10)
  else if 0x41 ≤ c.toNat ∧ c.toNat ≤ 0x46 then some (c.toNat - 0x41 + 10)
  else none

def hex4 (a b c d : UInt8) : Option Nat :=
  match hexVal a, hexVal b, hexVal c, hexVal d with
  | some x, some y, some z, some w => some (((x * 16 + y) * 16 + z) * 16 + w)
  | _, _, _, _ => none

/-- the two-character escapes `\" \\ \/ \b \f \n \r \t` -/
def simpleEsc (e : UInt8) : Option UInt8 :=
  if e == 0x22 then some 0x22        -- \"
  else if e == 0x5C then some 0x5C   -- \\
  else if e == 0x2F then some 0x2F   -- \/
  else if e == 0x62 then some 0x08   -- \b
  else if e == 0x66 then some 0x0C   -- \f
  else if e == 0x6E then some 0x0A   -- \n
  else if e == 0x72 then some 0x0D   -- \r
  else if e == 0x74 then some 0x09   -- \t
  else none

def isHighSurr (r : Nat) : Bool := decide (0xD800 ≤ r) && decide (r ≤ 0xDBFF)
def isLowSurr (r : Nat) : Bool := decide (0xDC00 ≤ r) && decide (r ≤ 0xDFFF)

def consTo (bs : Bytes) : Option (Bytes × Bytes) → Option (Bytes × Bytes)
  | some (s, r) => some (bs ++ s, r)
  | none => none

/-- the body of a string after the opening quote: (decoded bytes, rest after the closing
quote). Unescaped control characters are rejected; `\uXXXX` is decoded to UTF-8, a surrogate
pair to one code point, a lone surrogate to U+FFFD (what encoding/json does). -/
def parseStr : Bytes → Option (Bytes × Bytes)
  | [] => none
  | c :: r =>
    if c == 0x22 then some ([], r)
    else if c == 0x5C then
      match r with
      | [] => none
      | e :: r1 =>
        if e == 0x75 then
          match r1 with
          | a :: b :: c2 :: d :: r2 =>
            match hex4 a b c2 d with
            | none => none
            | some cp =>
              let tail := consTo (Utf8.encodeRune Utf8.runeError) (parseStr r2)
              if isHighSurr cp then
                match r2 with
                | b0 :: u0 :: a' :: b' :: c' :: d' :: r3 =>
                  if b0 == 0x5C && u0 == 0x75 then
                    match hex4 a' b' c' d' with
                    | none => none
                    | some lo =>
                      if isLowSurr lo then
                        consTo (Utf8.encodeRune (0x10000 + (cp - 0xD800) * 0x400 + (lo - 0xDC00)))
                          (parseStr r3)
                      else tail
                  else tail
                | _ => tail
              else consTo (Utf8.encodeRune cp) (parseStr r2)
          | _ => none
        else
          match simpleEsc e with
          | some x => consTo [x] (parseStr r1)
          | none => none
    else if c.toNat < 0x20 then none
    else consTo [c] (parseStr r)

/-! ### numbers (RFC 8259 §6) -/
def isDigit (c : UInt8) : Bool := decide (0x30 ≤ c.toNat) && decide (c.toNat ≤ 0x39)

/-- characters a number token is made of -/
def isNumChar (c : UInt8) : Bool :=
  isDigit c || c == 0x2D || c == 0x2B || c == 0x2E || c == 0x65 || c == 0x45

/-- `[ e|E [+|-] digit+ ]` then end of token -/
def isExpPart : Bytes → Bool
  | [] => true
  | c :: r =>
    if c == 0x65 || c == 0x45 then
      match r with
      | [] => false
      | s :: r' =>
        if s == 0x2B || s == 0x2D then !r'.isEmpty && r'.all isDigit
        else (s :: r').all isDigit
    else false

/-- `[ . digit+ ] [exp]` then end of token -/
def isFracExp : Bytes → Bool
  | [] => true
  | c :: r =>
    if c == 0x2E then
      match r with
      | [] => false
      | d :: r' => isDigit d && isExpPart (r'.dropWhile isDigit)
    else isExpPart (c :: r)

/-- `int frac? exp?` without the sign -/
def isUnsignedNumber : Bytes → Bool
  | [] => false
  | c :: r =>
    if c == 0x30 then isFracExp r
    else if isDigit c then isFracExp (r.dropWhile isDigit)
    else false

/-- the whole token is an RFC 8259 `number` -/
def isNumber : Bytes → Bool
  | [] => false
  | c :: r => if c == 0x2D then isUnsignedNumber r else isUnsignedNumber (c :: r)

/-! ### values -/
def stripPrefix : Bytes → Bytes → Option Bytes
  | [], s => some s
  | _ :: _, [] => none
  | p :: ps, c :: s => if p == c then stripPrefix ps s else none

def kwNull : Bytes := [0x6E, 0x75, 0x6C, 0x6C]
def kwTrue : Bytes := [0x74, 0x72, 0x75, 0x65]
def kwFalse : Bytes := [0x66, 0x61, 0x6C, 0x73, 0x65]
def kwUndefined : Bytes := [0x75, 0x6E, 0x64, 0x65, 0x66, 0x69, 0x6E, 0x65, 0x64]
def kwNaN : Bytes := [0x4E, 0x61, 0x4E]
/-- `new Date("` -/
def kwNewDate : Bytes := [0x6E, 0x65, 0x77, 0x20, 0x44, 0x61, 0x74, 0x65, 0x28, 0x22]

/-- a value that is neither an array, an object nor a string: keyword, number,
and for JS `undefined`, `new Date("…")` and `NaN` -/
def parseAtom (js : Bool) (s : Bytes) : Option (Data × Bytes) :=
  match stripPrefix kwNull s with
  | some r => some (.null, r)
  | none =>
  match stripPrefix kwTrue s with
  | some r => some (.bool true, r)
  | none =>
  match stripPrefix kwFalse s with
  | some r => some (.bool false, r)
  | none =>
  match (if js then stripPrefix kwUndefined s else none) with
  | some r => some (.undefined, r)
  | none =>
  match (if js then stripPrefix kwNewDate s else none) with
  | some r =>
    match parseStr r with
    | some (body, c :: r') => if c == 0x29 then some (.date body, r') else none
    | _ => none
  | none =>
  match (if js then stripPrefix kwNaN s else none) with
  | some r => some (.num kwNaN, r)      -- the global `NaN`: a number, spelled as Go spells it
  | none =>
    let tok := s.takeWhile isNumChar
    if isNumber tok then some (.num tok, s.dropWhile isNumChar) else none

mutual
/-- one value, leading white space allowed; returns the rest of the input -/
def parseValue (js : Bool) : Nat → Bytes → Option (Data × Bytes)
  | 0, _ => none
  | f+1, s =>
    match skipWs js false s with
    | none => none
    | some [] => none
    | some (c :: r) =>
      if c == 0x5B then          -- [
        match skipWs js false r with
        | none => none
        | some [] => none
        | some (d :: r') =>
          if d == 0x5D then some (.arr [], r')
          else match parseElems js f (d :: r') with
            | some (xs, r'') => some (.arr xs, r'')
            | none => none
      else if c == 0x7B then     -- {
        match skipWs js false r with
        | none => none
        | some [] => none
        | some (d :: r') =>
          if d == 0x7D then some (.obj [], r')
          else match parseMembers js f (d :: r') with
            | some (kvs, r'') => some (.obj kvs, r'')
            | none => none
      else if c == 0x22 then     -- "
        match parseStr r with
        | some (b, r') => some (.str b, r')
        | none => none
      else parseAtom js (c :: r)

/-- `value ( , value )* ]` -/
def parseElems (js : Bool) : Nat → Bytes → Option (List Data × Bytes)
  | 0, _ => none
  | f+1, s =>
    match parseValue js f s with
    | none => none
    | some (d, r) =>
      match skipWs js false r with
      | some (c :: r') =>
        if c == 0x2C then
          match parseElems js f r' with
          | some (ds, r'') => some (d :: ds, r'')
          | none => none
        else if c == 0x5D then some ([d], r')
        else none
      | _ => none

/-- `string : value ( , string : value )* }` -/
def parseMembers (js : Bool) : Nat → Bytes → Option (List (Bytes × Data) × Bytes)
  | 0, _ => none
  | f+1, s =>
    match skipWs js false s with
    | some (q :: r0) =>
      if q != 0x22 then none else
      match parseStr r0 with
      | none => none
      | some (k, r1) =>
        match skipWs js false r1 with
        | some (c :: r2) =>
          if c != 0x3A then none else
          match parseValue js f r2 with
          | none => none
          | some (d, r3) =>
            match skipWs js false r3 with
            | some (e :: r4) =>
              if e == 0x2C then
                match parseMembers js f r4 with
                | some (kvs, r5) => some ((k, d) :: kvs, r5)
                | none => none
              else if e == 0x7D then some ([(k, d)], r4)
              else none
            | _ => none
        | _ => none
    | _ => none
end

/-- a whole text: one value surrounded by white space -/
def parseTop (js : Bool) (s : Bytes) : Option Data :=
  match parseValue js (2 * s.length + 2) s with
  | some (d, r) =>
    match skipWs js false r with
    | some [] => some d
    | _ => none
  | none => none

/-- RFC 8259 decoder -/
def parseJSON (s : Bytes) : Option Data := parseTop false s
/-- JS literal-expression recogniser/decoder -/
def parseJS (s : Bytes) : Option Data := parseTop true s
def recogniseJS (s : Bytes) : Bool := (parseJS s).isSome

/-! ### canonical printing of `Data` (line protocol of the driver; prefix notation) -/
mutual
def Data.canon : Data → String
  | .null => "null"
  | .bool b => if b then "true" else "false"
  | .num t => "num " ++ toHex t
  | .str s => "str " ++ toHex s
  | .arr xs => "arr " ++ toString xs.length ++ canonList xs
  | .obj kvs => "obj " ++ toString kvs.length ++ canonMembers kvs
  | .undefined => "undefined"
  | .date s => "date " ++ toHex s
def canonList : List Data → String
  | [] => ""
  | d :: ds => " " ++ d.canon ++ canonList ds
def canonMembers : List (Bytes × Data) → String
  | [] => ""
  | (k, d) :: r => " " ++ toHex k ++ " " ++ d.canon ++ canonMembers r
end

end ScriggoV.JSON
