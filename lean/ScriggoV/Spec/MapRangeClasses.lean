/-! Hand-written classification of every `range` over a map in /repo/internal/compiler (C30):
which class of `Model/Order.lean` each loop body belongs to, by reading it. `hash` is the
SHA-256 of the body that was read (and `next`, for collect-then-sort sites, of the statement
after the loop): `Props/C30.lean` proves this table equal to the regenerated list
`Gen/MapRanges.lean`. When that theorem breaks: re-read the loop, re-classify, update the hash.
Core Lean only (the driver links it). -/
namespace ScriggoV.Spec.MapRangeClasses

inductive Class where
  | distinctKeyUpdate | existence | uniqueMatch | minMaxSelect | collectThenSort
  | commutativeAccumulate | disjointUnion
  | orderSensitiveEmission
  deriving DecidableEq, Repr

def Class.name : Class → String
  | .distinctKeyUpdate => "distinctKeyUpdate" | .existence => "existence"
  | .uniqueMatch => "uniqueMatch" | .minMaxSelect => "minMaxSelect"
  | .collectThenSort => "collectThenSort" | .commutativeAccumulate => "commutativeAccumulate"
  | .disjointUnion => "disjointUnion" | .orderSensitiveEmission => "orderSensitiveEmission"

structure Site where
  file : String
  fn : String
  cls : Class
  hash : String
  /-- for collect-then-sort sites: hash of the statement after the loop (the sort) -/
  next : String
  deriving DecidableEq, Repr

def Site.key (s : Site) : String := s.file ++ ":" ++ s.fn ++ ":" ++ s.hash

namespace Classified
/-- every map range of internal/compiler, classified by reading its body (hash = what was read) -/
def sites : List Site := [
  -- builder.go functionBuilder.end #0: range fb.gotos
  --   fn.Body[addr] = patch(fn.Body[addr], label): one cell per key `addr`
  { file := "builder.go", fn := "functionBuilder.end", cls := .distinctKeyUpdate,
    hash := "3e1ed320e54c085d45d4f81e90fe0036403e1042046a8bc5037e3fa85efd9178",
    next := "" },
  -- builder.go functionBuilder.end #1: range fb.maxRegs
  --   fn.NumReg[typ] = max(fn.NumReg[typ], num): one cell per key `typ`
  { file := "builder.go", fn := "functionBuilder.end", cls := .distinctKeyUpdate,
    hash := "5ba53cb242d938ae59925a73f54d61fb98266819f14e84e64a5296ef82c7024e",
    next := "" },
  -- checker_dependencies.go deps.hasIteaInItsExpression #0: range d.itea
  --   return true if some entry contains varLh
  { file := "checker_dependencies.go", fn := "deps.hasIteaInItsExpression", cls := .existence,
    hash := "b5341c397ea2786b70cdf6578220e4af7412348c270d290e9422ae1aeb9899db",
    next := "" },
  -- checker_dependencies.go deps.nodeDeps #0: range d.itea
  --   thisName = k for the entry whose identifier list contains the variable being analysed (last match); invariant: a declared identifier belongs to the list of exactly one itea name
  { file := "checker_dependencies.go", fn := "deps.nodeDeps", cls := .uniqueMatch,
    hash := "89267cf64fbed27473486ef9effb367f8dfb0cfeb2d1083268c65255d16908c0",
    next := "" },
  -- checker_expressions.go typechecker.typeof #0: range tc.compilation.iteaToUsingCheck
  --   panic with a message that depends on `ident` only, if some entry has ud.typ == ident
  { file := "checker_expressions.go", fn := "typechecker.typeof", cls := .existence,
    hash := "72cc068740cb49c4cd9f4901b51f8a189342791bdbe57653434e3e59a76fbb58",
    next := "" },
  -- checker_package.go depsOf #0: range deps
  --   first = the key whose Name is `name` that comes first in the source (smallest Pos().Start, strict <), deps[first] returned after the loop — after fix 89d8011 (C30-dup-name-loop-report); before it the loop returned at the first key with that name it met, so with a name declared twice the result depended on the order; invariant: the declared identifiers of a package are nodes of one source file, different ones have different start offsets
  { file := "checker_package.go", fn := "depsOf", cls := .minMaxSelect,
    hash := "46f0671fa03a29013367e56973a46f81997dec6640d93323e123a5e89812cda1",
    next := "" },
  -- checker_package.go sortDeclarations #0: range deps
  --   deps[decl] = filter(ds) with loop-invariant consts/types/funcs/vars: rewrites the cell of the current key only
  { file := "checker_package.go", fn := "sortDeclarations", cls := .distinctKeyUpdate,
    hash := "679595d36e39d26b0f2bea72075bc48245f83e8f03d1507dc9cef153784e6e19",
    next := "" },
  -- checker_package.go toTypeCheckerScope #0: range toTypeCheckerScope(v, mod, global, depth+1)
  --   pkg.Declarations[n] = d.ti
  { file := "checker_package.go", fn := "toTypeCheckerScope", cls := .distinctKeyUpdate,
    hash := "6ed55544227558de16e6ba54bcec3fcd5b4fc3604dbb35d612b0ed667fbf784a",
    next := "" },
  -- checker_scopes.go newScopes #0: range formats
  --   formatScope.names[formatTypeName[f]] = …: formatTypeName is an array of distinct names, so the destination key is injective in f
  { file := "checker_scopes.go", fn := "newScopes", cls := .distinctKeyUpdate,
    hash := "4c69c364f73b4cfb3935332d0a86af50e33e09d3071191b323814ff971b8d250",
    next := "" },
  -- checker_scopes.go scopes.DeclareLabel #0: range current.names
  --   the addressable name declared last (largest Position.Start, strict >); invariant: different declarations have different start offsets
  { file := "checker_scopes.go", fn := "scopes.DeclareLabel", cls := .minMaxSelect,
    hash := "c8add4041735fde29e194bb3cfe3ae392874d4305be861307795f33c16d169b8",
    next := "" },
  -- checker_scopes.go scopes.Exit #0: range scopes.s[c].fn.labels
  --   the undefined label whose first goto comes first in the source (strict <) — after fix C30-undefined-label-order; before it the loop panicked at the first undefined label met, so the reported label depended on the order
  { file := "checker_scopes.go", fn := "scopes.Exit", cls := .minMaxSelect,
    hash := "c75e9df40eaa0808e5c056e403ab025a99c4bd3e6eb4a1babd4516a18ba330da",
    next := "" },
  -- checker_scopes.go scopes.Exit #1: range scopes.s[c].fn.labels
  --   the unused label declared first (smallest Position.Start, strict <)
  { file := "checker_scopes.go", fn := "scopes.Exit", cls := .minMaxSelect,
    hash := "c7517756c388d67e03aa1eaca971330d7f1f994383c1acc506ecfc13f84a0099",
    next := "" },
  -- checker_scopes.go scopes.Exit #2: range scopes.s[c].names
  --   the unused variable declared first (smallest Position.Start, strict <)
  { file := "checker_scopes.go", fn := "scopes.Exit", cls := .minMaxSelect,
    hash := "4478461856ea6e813e948b1e0a3906ed6bd19e4ce5b4bfc497641890370a0853",
    next := "" },
  -- checker_scopes.go scopes.ExportedDeclarationNodes #0: range scopes.s[3].names
  --   decls[name] = n.decl under a condition on the entry
  { file := "checker_scopes.go", fn := "scopes.ExportedDeclarationNodes", cls := .distinctKeyUpdate,
    hash := "5e8b7ae3d65f208d08e47fb97ebc7b02149e4f1310508d389775e8dbc903aa01",
    next := "" },
  -- checker_scopes.go scopes.ExportedDeclarations #0: range scopes.s[3].names
  --   decls[name] = n.ti under a condition on the entry
  { file := "checker_scopes.go", fn := "scopes.ExportedDeclarations", cls := .distinctKeyUpdate,
    hash := "61eb31d4beb7938c0d9881e93c375e4b3c3c637d96ba7c9d32f017885ddc7655",
    next := "" },
  -- checker_scopes.go scopes.UnusedImport #0: range scopes.s[3].names
  --   unused[n.impor] = conjunction of !n.used over the names of that import (several names per import)
  { file := "checker_scopes.go", fn := "scopes.UnusedImport", cls := .commutativeAccumulate,
    hash := "7bea2060006abcff063bacb69a0d85819fab1be6d5b4936fbcfdb42069deb8ff",
    next := "" },
  -- checker_scopes.go scopes.UnusedImport #1: range unused
  --   the unused import declared first (smallest Position.Start, strict <)
  { file := "checker_scopes.go", fn := "scopes.UnusedImport", cls := .minMaxSelect,
    hash := "8005c89263ff767fa0f9162be9b8bcb59ff56949b98edce0a75e0463390ca99c",
    next := "" },
  -- checker_statements.go typechecker.checkImport #0: range toTypeCheckerScope(pkg, tc.opts.mod, false, 0)
  --   imported.Declarations[n] = d.ti
  { file := "checker_statements.go", fn := "typechecker.checkImport", cls := .distinctKeyUpdate,
    hash := "a7ed62e94e6588763d9496f86f4d988925d1ef40e3ffa2cd349e5de119881cc9",
    next := "" },
  -- checker_statements.go typechecker.checkImport #1: range imported.Declarations
  --   scopes.Declare(ident, …): insert-if-absent into the current scope at key ident
  { file := "checker_statements.go", fn := "typechecker.checkImport", cls := .distinctKeyUpdate,
    hash := "b7069b4a3a22dab5f732179516794957550a68cc91e0ed6e4b5b815aa238cf75",
    next := "" },
  -- checker_statements.go typechecker.checkImport #2: range imported.Declarations
  --   scopes.Declare(ident, …): insert-if-absent at key ident (DeclarationNodes lookup is by the same key)
  { file := "checker_statements.go", fn := "typechecker.checkImport", cls := .distinctKeyUpdate,
    hash := "94755c9397f48aad3f1f44bed87e41fe44bc107e9dc37523e0a97f36b99c3685",
    next := "" },
  -- compilation.go compilation.UniqueIndex #0: range compilation.pkgPathToIndex
  --   plain maximum of the values
  { file := "compilation.go", fn := "compilation.UniqueIndex", cls := .minMaxSelect,
    hash := "08d74e3bba9bedc3965c2f9556ee30fe88d054cead7814db01fe1f9e81036ec5",
    next := "" },
  -- compilation.go compilation.finalizeUsingStatements #0: range compilation.iteaToUsingCheck
  --   names = append(names, name); sort.Strings(names): keys of a map are distinct strings
  { file := "compilation.go", fn := "compilation.finalizeUsingStatements", cls := .collectThenSort,
    hash := "d3ea0a16b03b2c90a24ac955f2e640d6214afccb1017eb8bae96898a3a823bfc",
    next := "9e1af66169823570fee9e19d218d7f5bed907d2fb34b7809e1cb10f5d4050bae" },
  -- compiler.go BuildProgram #0: range tci
  --   maps.Copy(typeInfos, pkgInfos.TypeInfos): keyed by the nodes of each package, every node belongs to one package
  { file := "compiler.go", fn := "BuildProgram", cls := .disjointUnion,
    hash := "7fa1a8aaa01e6330d5046a8c509a1e65ba6d7284c03e07cc0a38a06be34cce75",
    next := "" },
  -- compiler.go BuildTemplate #0: range tci
  --   same as BuildProgram
  { file := "compiler.go", fn := "BuildTemplate", cls := .disjointUnion,
    hash := "7fa1a8aaa01e6330d5046a8c509a1e65ba6d7284c03e07cc0a38a06be34cce75",
    next := "" },
  -- disassembler.go Disassemble #0: range functionsByPkg
  --   assemblies[path] = text(path, funcs); the shared buffer is Reset at the end of every iteration; since fix C30-disassemble-same-line the functions of the package are taken from the slice allFunctions (discovery order) and stable-sorted by line, no longer collected from the map
  { file := "disassembler.go", fn := "Disassemble", cls := .distinctKeyUpdate,
    hash := "60ab0494507921f83c6fbfbc9784c0217e890b201e9de2fe7238029defed0d01",
    next := "" },
  -- disassembler.go Disassemble #1: range imports
  --   packages = append(packages, pkg); slices.Sort(packages)
  { file := "disassembler.go", fn := "Disassemble", cls := .collectThenSort,
    hash := "e825f3cd84d1b24cecb1f0a499a34e5012fcb7e5d92c794b72c513127c42b3f2",
    next := "fb6a789e96fdf9077fa61dca8ea6f3e0ce3e8cf39d02c01345b81c9fe6c77d70" },
  -- disassembler.go disassembleFunction #0: range labelOf
  --   addresses[i] = addr; i++ ; sort.Ints(addresses): distinct addresses
  { file := "disassembler.go", fn := "disassembleFunction", cls := .collectThenSort,
    hash := "992ef56b3f8334b300fa54a5cbd6e04d683c962eee4400bed53b928757a30d33",
    next := "a7ce17bf583869cac6683a5ef43a8ce7b14b00cd5ca2e8230ac96266c2a786e2" },
  -- emitter_statements.go emitter.canOptimizeShowMacro #0: range em.formatTypes
  --   from = f for the format whose type is typ, then break (first match); invariant: the format types are distinct types
  { file := "emitter_statements.go", fn := "emitter.canOptimizeShowMacro", cls := .uniqueMatch,
    hash := "da3bdf09db6f976a804b96c62cdc5b281ac8930d5bada788e51d8e86f5394d55",
    next := "" },
  -- emitter_statements.go emitter.emitAssignmentNode #0: range varsToBind
  --   fb.bindVarReg(name, reg): scope[name] = reg
  { file := "emitter_statements.go", fn := "emitter.emitAssignmentNode", cls := .distinctKeyUpdate,
    hash := "9a31a224baa339aae552c55b71ec9b65b182f32a808a92f4d92272513dd2e306",
    next := "" },
  -- emitter_statements.go emitter.emitImport #0: range funcs
  --   fnStore.makeAvailableScriggoFn(targetPkg, prefix+name, fn): map insert at an injective image of the key
  { file := "emitter_statements.go", fn := "emitter.emitImport", cls := .distinctKeyUpdate,
    hash := "75e536690697be50f625a3f6121afef730ab619fe8c5138685385a4a0fabd465",
    next := "" },
  -- emitter_statements.go emitter.emitImport #1: range vars
  --   varStore.bindScriggoPackageVar(targetPkg, prefix+name, v): map insert at an injective image of the key
  { file := "emitter_statements.go", fn := "emitter.emitImport", cls := .distinctKeyUpdate,
    hash := "4461f17fb9d34c4ba98cc2e86df57423d6805289bcf4be398bb46f388ba97cca",
    next := "" },
  -- emitter_statements.go emitter.emitNodes #0: range varsToBind
  --   fb.bindVarReg(name, reg): scope[name] = reg
  { file := "emitter_statements.go", fn := "emitter.emitNodes", cls := .distinctKeyUpdate,
    hash := "9a31a224baa339aae552c55b71ec9b65b182f32a808a92f4d92272513dd2e306",
    next := "" }
]
end Classified

end ScriggoV.Spec.MapRangeClasses
