import ScriggoV.Model.VarStore
/-! C17 — what the property says a template's references to its global variables see: one
variable per declared name, holding the value passed to `Run` (the pointee for a pointer, the
zero value when nothing is passed), read and written by every reference whatever function or file
it is in. -/
namespace ScriggoV.VarStore.Spec
open ScriggoV.VarStore

/-- the value of `v` when `Run` starts -/
def initial (init : List (String × InitVal)) (v : String) : Int :=
  match init.lookup v with
  | some (.value n) => n
  | some (.pointer n) => n
  | _ => 0

/-- every reference reads and writes the one variable of its name -/
def run : List Action → (String → Int) → List Int × (String → Int)
  | [], env => ([], env)
  | .show _ v :: as, env => let r := run as env; (env v :: r.1, r.2)
  | .set _ v n :: as, env => run as (fun u => if u = v then n else env u)

/-- the predeclared variables among the upvars of a function literal -/
def predefs (ups : List Upvar) : List String :=
  ups.filterMap (fun u => match u with | .predef v => some v | .loc _ => none)

/-- the variables referred to somewhere in the emitted code -/
def referenced : List Event → List String
  | [] => []
  | .declFunc _ _ :: es => referenced es
  | .use _ v :: es => v :: referenced es
  | .closure _ _ ups :: es => predefs ups ++ referenced es
  | .pkgVar _ _ :: es => referenced es
  | .bindImport _ _ _ :: es => referenced es

end ScriggoV.VarStore.Spec
