import ScriggoV.Spec.JSON
import ScriggoV.Model.ShowValue
/-! Specification side of C08: the *data* a Go value stands for when it is serialised the way
encoding/json documents it (field names from `json` tags, `-`, `omitempty`, the `string`
option, `[]byte` as base64, nil as `null`, map keys sorted), as a function `GoVal → Data`
written without looking at Scriggo's loops. Core Lean only.

`abs cfg m v`: `cfg.stringOpt` — honour the `,string` tag option; `cfg.nilBytesNull` — a nil
`[]byte` is `null`. `absStd = abs ⟨true, true⟩` is encoding/json's data; `absScriggo = abs ⟨false,
false⟩` is what Scriggo's output decodes to (the two known differences, DESIGN §8 row 32). -/
namespace ScriggoV.ShowValue
open ScriggoV ScriggoV.JSON ScriggoV.Gen.ShowJS

structure AbsCfg where
  stringOpt : Bool
  nilBytesNull : Bool

/-- `strings.Split(s, ",")` -/
def splitComma : Bytes → List Bytes
  | [] => [[]]
  | c :: r =>
    if c == 0x2C then [] :: splitComma r
    else match splitComma r with
      | h :: t => (c :: h) :: t
      | [] => [[c]]

def stringLit : Bytes := [0x73, 0x74, 0x72, 0x69, 0x6E, 0x67]

/-- a `json:"…"` tag value: name before the first comma, then the options -/
def specTag (tag : Bytes) : Bytes × List Bytes :=
  match splitComma tag with
  | name :: opts => (name, opts)
  | [] => ([], [])

/-- encoding/json's notion of an empty value: false, 0, a nil pointer, a nil interface value,
and any empty array, slice, map, or string -/
def isEmptySpec : GoVal → Bool
  | .bool b => !b
  | .int _ i => i == 0
  | .uint _ n => n == 0
  | .float _ _ z _ => z
  | .str s => s.isEmpty
  | .bytes _ b => b.isEmpty
  | .slice _ es => es.isEmpty
  | .array es => es.isEmpty
  | .map _ ks _ => ks.isEmpty
  | .iface .nil => true
  | .ptr _ n _ => n
  | .verb _ _ inner => isEmptySpec inner
  | .err _ inner => isEmptySpec inner
  | _ => false

/-- is the field serialised, and under which name (`none`: left out) -/
def fieldName (f : Field) (v : GoVal) : Option Bytes :=
  if !f.exported then none
  else if f.tag.isEmpty then some f.name
  else if f.tag == [0x2D] then none
  else
    let (name, opts) := specTag f.tag
    if opts.contains omitemptyLit && isEmptySpec v then none
    else some (if name.isEmpty then f.name else name)

def hasStringOpt (f : Field) : Bool :=
  !f.tag.isEmpty && f.tag != [0x2D] && (specTag f.tag).2.contains stringLit

/-- the `string` option: a bool / integer / float field is encoded as a JSON string holding
its literal (strings, which encoding/json double-encodes, and pointers to scalars are left alone
here: not modelled; a float's literal is the `digits` parameter, whereas encoding/json quotes its own
exponent spelling — the harness validates this function on bool and integer fields only) -/
def quoteScalar (v : GoVal) (d : Data) : Data :=
  match strip v, d with
  | .bool _, .bool b => .str (if b then kwTrue else kwFalse)
  | .int _ _, .num t => .str t
  | .uint _ _, .num t => .str t
  | .float _ _ _ _, .num t => .str t
  | _, d => d

mutual
def abs (cfg : AbsCfg) (m : Mode) : GoVal → Data
  | .nil => .null
  | .verb js json inner =>
    match (if m.isJS then js else json) with
    | some raw => (parseTop m.isJS raw).getD .null
    | none => abs cfg m inner
  | .time js json => if m.isJS then .date js else .str json
  | .err msg _ => .str msg
  | .iface v => abs cfg m v
  | .bool b => .bool b
  | .int _ i => .num (fmtInt i)
  | .uint _ n => .num (natDigits n)
  | .float _ _ _ digits => .num digits
  | .str s => .str s
  | .bytes isNil b => if cfg.nilBytesNull && isNil then .null else .str (base64 b)
  | .slice isNil es => if isNil then .null else .arr (absList cfg m es)
  | .array es => .arr (absList cfg m es)
  | .ptr _ isNil e => if isNil then .null else abs cfg m e
  | .struct fs vs => .obj (absFields cfg m fs vs)
  | .map isNil ks vs => if isNil then .null else .obj (sortByKey (ks.zip (absList cfg m vs)))
  | .other _ _ => if m.isJS then .undefined else .null
def absList (cfg : AbsCfg) (m : Mode) : List GoVal → List Data
  | [] => []
  | v :: vs => abs cfg m v :: absList cfg m vs
def absFields (cfg : AbsCfg) (m : Mode) : List Field → List GoVal → List (Bytes × Data)
  | f :: fs, v :: vs =>
    match fieldName f v with
    | none => absFields cfg m fs vs
    | some name =>
      (name, if cfg.stringOpt && hasStringOpt f then quoteScalar v (abs cfg m v) else abs cfg m v)
        :: absFields cfg m fs vs
  | _, _ => []
end

/-- the data encoding/json defines -/
def absStd : Mode → GoVal → Data := abs ⟨true, true⟩
/-- the data Scriggo's output stands for -/
def absScriggo : Mode → GoVal → Data := abs ⟨false, false⟩

end ScriggoV.ShowValue
