import ScriggoV.Spec.JSON
import ScriggoV.Model.ShowValue
/-! Specification side of C08: the *data* a Go value stands for, as a function `GoVal → Data`
written without looking at Scriggo's loops. Core Lean only.

`abs std m v`. With `std = true` it is what encoding/json documents (field names from `json`
tags, `-`, `omitempty`, `omitzero`, the `string` option, promotion of the fields of embedded
structs, every slice of uint8-kind elements as base64, nil as `null`, map keys sorted,
`time.Time` as RFC 3339 with nanoseconds): `absStd`. With `std = false` it is what Scriggo's
output decodes to: `absScriggo`, which differs in exactly these clauses — `string` and `omitzero`
ignored, embedded structs as ordinary members named after their type, only `[]byte` itself as
base64 and a nil one as `""`, RFC 3339 without the fraction (known_findings.json). Map keys:
`keySpec` (String() for Stringers, decimal integers, …). -/
namespace ScriggoV.ShowValue
open ScriggoV ScriggoV.JSON ScriggoV.Gen.ShowJS

/-- `strings.Split(s, ",")` -/
def splitComma : Bytes → List Bytes
  | [] => [[]]
  | c :: r =>
    if c == 0x2C then [] :: splitComma r
    else match splitComma r with
      | h :: t => (c :: h) :: t
      | [] => [[c]]

def stringLit : Bytes := [0x73, 0x74, 0x72, 0x69, 0x6E, 0x67]
def omitzeroLit : Bytes := [0x6F, 0x6D, 0x69, 0x74, 0x7A, 0x65, 0x72, 0x6F]

/-- a `json:"…"` tag value: name before the first comma, then the options -/
def specTag (tag : Bytes) : Bytes × List Bytes :=
  match splitComma tag with
  | name :: opts => (name, opts)
  | [] => ([], [])

/-- encoding/json's notion of an empty value: false, 0, a nil pointer, a nil interface value,
and any empty array, slice, map, or string -/
def isEmptySpec : GoVal → Bool
  | .bool b => !b
  | .int _ i => i == 0
  | .uint _ n => n == 0
  | .float _ _ z _ => z
  | .str s => s.isEmpty
  | .bytes _ b => b.isEmpty
  | .nbytes _ b => b.isEmpty
  | .slice _ es => es.isEmpty
  | .array es => es.isEmpty
  | .map _ ks _ => ks.isEmpty
  | .iface .nil => true
  | .ptr _ n _ => n
  | .verb _ _ inner => isEmptySpec inner
  | .err _ inner => isEmptySpec inner
  | _ => false

mutual
/-- `reflect.Value.IsZero` as far as a description tells (what encoding/json's `omitzero` asks;
for a `time.Time` its own `IsZero` method: January 1, year 1, 00:00:00 UTC) -/
def isZeroSpec : GoVal → Bool
  | .nil => true
  | .bool b => !b
  | .int _ i => i == 0
  | .uint _ n => n == 0
  | .float _ _ z _ => z
  | .str s => s.isEmpty
  | .bytes n _ => n
  | .nbytes n _ => n
  | .slice n _ => n
  | .map n _ _ => n
  | .ptr _ n _ => n
  | .iface .nil => true
  | .time t => t.year == 1 && t.month == 1 && t.day == 1 && t.hour == 0 && t.min == 0 && t.sec == 0
      && t.nsec == 0 && t.offset == 0
  | .array es => isZeroSpecL es
  | .struct _ vs => isZeroSpecL vs
  | .verb _ _ inner => isZeroSpec inner
  | .err _ inner => isZeroSpec inner
  | _ => false
def isZeroSpecL : List GoVal → Bool
  | [] => true
  | v :: vs => isZeroSpec v && isZeroSpecL vs
end

/-- is the field serialised, and under which name (`none`: left out) -/
def fieldName (std : Bool) (f : Field) (v : GoVal) : Option Bytes :=
  if !f.exported then none
  else if f.tag.isEmpty then some f.name
  else if f.tag == [0x2D] then none
  else
    let (name, opts) := specTag f.tag
    if opts.contains omitemptyLit && isEmptySpec v then none
    else if std && opts.contains omitzeroLit && isZeroSpec v then none
    else some (if name.isEmpty then f.name else name)

def tagOpts (f : Field) : List Bytes :=
  if f.tag.isEmpty || f.tag == [0x2D] then [] else (specTag f.tag).2

def hasStringOpt (f : Field) : Bool := (tagOpts f).contains stringLit
def hasOmitzeroOpt (f : Field) : Bool := (tagOpts f).contains omitzeroLit

/-- encoding/json promotes the fields of an embedded struct (or pointer to struct) whose tag
gives no name -/
def promoted (f : Field) : Bool :=
  f.embedded && (f.tag.isEmpty || (f.tag != [0x2D] && (specTag f.tag).1.isEmpty))

/-- the `string` option: a bool / integer / float field is encoded as a JSON string holding
its literal (strings, which encoding/json double-encodes, and pointers to scalars are left alone
here: not modelled; a float's literal is the `digits` parameter, whereas encoding/json quotes its own
exponent spelling — the harness validates this function on bool and integer fields only) -/
def quoteScalar (v : GoVal) (d : Data) : Data :=
  match strip v, d with
  | .bool _, .bool b => .str (if b then kwTrue else kwFalse)
  | .int _ _, .num t => .str t
  | .uint _ _, .num t => .str t
  | .float _ _ _ _, .num t => .str t
  | _, d => d

/-- what a map key is spelled as: `String()` of a Stringer, the decimal digits of an integer,
`true`/`false`, the 'f' digits of a float, the string itself -/
def keySpec : GoKey → Bytes
  | .stringer s => s
  | .envStringer s => s
  | .bool b => if b then kwTrue else kwFalse
  | .int _ i => fmtInt i
  | .uint _ n => natDigits n
  | .float _ d => d
  | .str s => s
  | .complex _ t => t
  | .other _ => []

/-- the argument of `new Date(…)`: ECMA-262 date-time string format with milliseconds, expanded
year outside 0..9999, `Z` for the zone named UTC, else `±HH:mm` of the offset in whole minutes -/
def ecmaDate (t : TimeRec) : Bytes :=
  let y : Bytes :=
    if t.year < 0 then 0x2D :: minDigits 6 t.year.natAbs
    else if t.year > 9999 then 0x2B :: minDigits 6 t.year.natAbs
    else minDigits 4 t.year.natAbs
  let zone := Int.tdiv t.offset 60
  let tz : Bytes :=
    if t.utc then [0x5A]
    else (if zone < 0 then 0x2D else 0x2B) :: (minDigits 2 (zone.natAbs / 60) ++ [0x3A] ++ minDigits 2 (zone.natAbs % 60))
  y ++ [0x2D] ++ minDigits 2 t.month ++ [0x2D] ++ minDigits 2 t.day ++ [0x54]
    ++ minDigits 2 t.hour ++ [0x3A] ++ minDigits 2 t.min ++ [0x3A] ++ minDigits 2 t.sec
    ++ [0x2E] ++ minDigits 3 (t.nsec / 1000000) ++ tz

/-- drop trailing `0`s -/
def trimZeros (l : Bytes) : Bytes := (l.reverse.dropWhile (· == 0x30)).reverse

/-- `time.RFC3339Nano` (what `Time.MarshalJSON` uses): the fraction only when there is one -/
def fmtRFC3339Nano (t : TimeRec) : Bytes :=
  if t.nsec == 0 then fmtRFC3339 t
  else
    let base := fmtRFC3339 { t with offset := 0 }     -- …ssZ
    let tz := (fmtRFC3339 t).drop (base.length - 1)
    base.take (base.length - 1) ++ 0x2E :: trimZeros (padDigits 9 t.nsec) ++ tz

mutual
def abs (std : Bool) (m : Mode) : GoVal → Data
  | .nil => .null
  | .verb js json inner =>
    match (if m.isJS then js else json) with
    | some raw => (parseTop m.isJS raw).getD .null
    | none => abs std m inner
  | .time t => if m.isJS then .date (ecmaDate t) else .str (if std then fmtRFC3339Nano t else fmtRFC3339 t)
  | .err msg _ => .str msg
  | .iface v => abs std m v
  | .bool b => .bool b
  | .int _ i => .num (fmtInt i)
  | .uint _ n => .num (natDigits n)
  | .float _ _ _ digits => .num digits
  | .str s => .str s
  | .bytes isNil b => if std && isNil then .null else .str (base64 b)
  | .nbytes isNil b =>
    if isNil then .null
    else if std then .str (base64 b)
    else .arr (b.map (fun c => .num (natDigits c.toNat)))
  | .slice isNil es => if isNil then .null else .arr (absList std m es)
  | .array es => .arr (absList std m es)
  | .ptr _ isNil e => if isNil then .null else abs std m e
  | .struct fs vs => .obj (absFields std m fs vs)
  | .map isNil ks vs =>
    if isNil then .null else .obj (sortByKey ((ks.map keySpec).zip (absList std m vs)))
  | .other _ _ => if m.isJS then .undefined else .null
def absList (std : Bool) (m : Mode) : List GoVal → List Data
  | [] => []
  | v :: vs => abs std m v :: absList std m vs
def absFields (std : Bool) (m : Mode) : List Field → List GoVal → List (Bytes × Data)
  | f :: fs, v :: vs =>
    let rest := absFields std m fs vs
    let regular :=
      match fieldName std f v with
      | none => rest
      | some name =>
        (name, if std && hasStringOpt f then quoteScalar v (abs std m v) else abs std m v) :: rest
    if std && promoted f then
      -- the fields of the embedded struct take the place of the field; a nil embedded pointer
      -- contributes nothing (name conflicts between promoted fields: not modelled)
      match v with
      | .struct ifs ivs => absFields std m ifs ivs ++ rest
      | .ptr _ false (.struct ifs ivs) => absFields std m ifs ivs ++ rest
      | .ptr _ true _ => rest
      | _ => regular
    else regular
  | _, _ => []
end

/-- the data encoding/json defines -/
def absStd : Mode → GoVal → Data := abs true
/-- the data Scriggo's output stands for -/
def absScriggo : Mode → GoVal → Data := abs false

end ScriggoV.ShowValue
