import ScriggoV.Basic.Bytes
/-! Specification of the parts of Go's `path` package and of `io/fs.ValidPath` that
`internal/compiler/parser_template.go:rooted` and `path.go:ValidTemplatePath` call:
`path.IsAbs`, `path.Clean`, `path.Join` (two arguments), `path.Dir`, `strings.HasPrefix`,
`utf8.ValidString`, `fs.ValidPath`.  Written over byte strings and lists of `/`-separated
elements; *not* a transcription of the stdlib code (which works on a lazily allocated
buffer) but of its documentation.  Validated against the stdlib on random inputs by the
harness (`spec_validation` in the evidence).  Core Lean only. -/
namespace ScriggoV.GoPath

/-- `"."` -/
def dotSeg : Bytes := [46]
/-- `".."` -/
def dotdot : Bytes := [46, 46]

/-- `strings.Split(p, "/")`: `""` ↦ `[""]`, `"a//b"` ↦ `["a","","b"]` -/
def splitSlash : Bytes → List Bytes
  | [] => [[]]
  | c :: cs =>
    if c = 47 then [] :: splitSlash cs
    else match splitSlash cs with
      | [] => [[c]]
      | s :: ss => (c :: s) :: ss

/-- `strings.Join(segs, "/")` -/
def joinSlash : List Bytes → Bytes
  | [] => []
  | [s] => s
  | s :: t :: ss => s ++ 47 :: joinSlash (t :: ss)

/-- `path.IsAbs` -/
def isAbs (p : Bytes) : Bool := p.head? == some 47

/-- `strings.HasPrefix(s, pre)` -/
def hasPrefix (s pre : Bytes) : Bool := pre.isPrefixOf s

/-- One element of `path.Clean`, on the stack of kept elements (top first): empty and `.`
elements vanish; `..` removes the element before it unless there is none (or only `..`s),
in which case it is dropped for a rooted path and kept otherwise. -/
def cleanStep (rooted : Bool) (stack : List Bytes) (seg : Bytes) : List Bytes :=
  if seg = [] ∨ seg = dotSeg then stack
  else if seg = dotdot then
    match stack with
    | top :: rest => if top = dotdot then (if rooted then stack else dotdot :: stack) else rest
    | [] => if rooted then [] else [dotdot]
  else seg :: stack

/-- stack (top first) after cleaning the elements `segs` starting from `stack` -/
def cleanSegs (rooted : Bool) (stack : List Bytes) (segs : List Bytes) : List Bytes :=
  segs.foldl (cleanStep rooted) stack

/-- `path.Clean` -/
def clean (p : Bytes) : Bytes :=
  if p = [] then dotSeg
  else
    let st := cleanSegs (isAbs p) [] (splitSlash p)
    if isAbs p then 47 :: joinSlash st.reverse
    else if st = [] then dotSeg else joinSlash st.reverse

/-- `p[:strings.LastIndex(p, "/")+1]`: everything up to and including the last slash -/
def dirPart (p : Bytes) : Bytes :=
  match (splitSlash p).dropLast with
  | [] => []
  | s :: ss => joinSlash (s :: ss) ++ [47]

/-- `path.Dir` -/
def dir (p : Bytes) : Bytes := clean (dirPart p)

/-- `path.Join(a, b)`: empty elements are ignored, the rest joined by `/` and cleaned;
all empty gives `""`. -/
def join2 (a b : Bytes) : Bytes :=
  if a = [] then (if b = [] then [] else clean b)
  else if b = [] then clean a
  else clean (a ++ 47 :: b)

/-! ### UTF-8 validity (`utf8.ValidString`) as the RFC 3629 automaton -/
inductive U8
  | acc | c1 | c2 | c3 | e0 | ed | f0 | f4 | rej
  deriving DecidableEq, Repr

def U8.step (s : U8) (b : UInt8) : U8 :=
  match s with
  | .acc =>
    if b < 0x80 then .acc
    else if 0xC2 ≤ b ∧ b ≤ 0xDF then .c1
    else if b = 0xE0 then .e0
    else if b = 0xED then .ed
    else if 0xE1 ≤ b ∧ b ≤ 0xEF then .c2
    else if b = 0xF0 then .f0
    else if 0xF1 ≤ b ∧ b ≤ 0xF3 then .c3
    else if b = 0xF4 then .f4
    else .rej
  | .c1 => if 0x80 ≤ b ∧ b ≤ 0xBF then .acc else .rej
  | .c2 => if 0x80 ≤ b ∧ b ≤ 0xBF then .c1 else .rej
  | .c3 => if 0x80 ≤ b ∧ b ≤ 0xBF then .c2 else .rej
  | .e0 => if 0xA0 ≤ b ∧ b ≤ 0xBF then .c1 else .rej
  | .ed => if 0x80 ≤ b ∧ b ≤ 0x9F then .c1 else .rej
  | .f0 => if 0x90 ≤ b ∧ b ≤ 0xBF then .c2 else .rej
  | .f4 => if 0x80 ≤ b ∧ b ≤ 0x8F then .c2 else .rej
  | .rej => .rej

def u8run (s : U8) (p : Bytes) : U8 := p.foldl U8.step s

/-- `utf8.ValidString` -/
def validUTF8 (p : Bytes) : Bool := u8run .acc p == .acc

/-- an element `fs.ValidPath` accepts: not empty, not `.`, not `..` -/
def okElem (e : Bytes) : Bool := e != [] && e != dotSeg && e != dotdot

/-- `io/fs.ValidPath` -/
def validPath (p : Bytes) : Bool :=
  validUTF8 p && (p == dotSeg || (splitSlash p).all okElem)

/-! ### the property's own notion of resolution, independent of `Clean`

A directory is the list of its elements from the root (`[]` is the root).  Resolving a
reference walks element by element; `..` at the root *escapes* (`none`). -/

/-- walk `segs` from the directory whose elements are `stack` (innermost first) -/
def walk : List Bytes → List Bytes → Option (List Bytes)
  | stack, [] => some stack.reverse
  | stack, seg :: rest =>
    if seg = dotdot then
      match stack with
      | [] => none
      | _ :: up => walk up rest
    else walk (seg :: stack) rest

/-- elements of the directory of a rooted file path -/
def dirSegs (parent : Bytes) : List Bytes := (splitSlash parent).dropLast

/-- the file a reference `name` in the file `parent` denotes: absolute references start
at the root, others at the directory of `parent`; `none` = leaves the root -/
def resolve (parent name : Bytes) : Option (List Bytes) :=
  if isAbs name then some (splitSlash (name.drop 1))
  else walk (dirSegs parent).reverse (splitSlash name)

end ScriggoV.GoPath
