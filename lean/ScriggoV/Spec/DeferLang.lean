/-! The abstract instruction language of the defer/panic/recover machines (C12, C01 stage two):
programs are function tables over call/defer/panic/recover/Stop/Fatal/print events, shared by
the model of Scriggo's call-frame machine (`Model/Frames.lean`) and by the abstract Go machine
(`Spec/GoDefer.lean`). Core Lean only. -/
namespace ScriggoV.DeferLang

/-- One abstract instruction. Everything a function does besides calling, deferring,
panicking, recovering, stopping and printing is abstracted away. -/
inductive Instr where
  /-- `f()` -/
  | call (f : Nat)
  /-- `OpTailCall` (the compiler never emits it): `f()` then return -/
  | tailcall (f : Nat)
  /-- `defer f()` -/
  | defer (f : Nat)
  /-- `defer recover()`: the compiler defers a synthesised function whose body is `recoverDown` -/
  | deferRec
  /-- `return` -/
  | ret
  /-- `panic(v)` -/
  | panic (v : Nat)
  /-- `recover()`; the value it returns is an observable event -/
  | recover
  /-- `if r := recover(); r != nil { panic(r) }`; the value recovered is an observable event -/
  | repanic
  /-- a native function calling `env.Stop(errs[k])` (`k = 0`: the nil error) -/
  | stop (k : Nat)
  /-- a native function calling `env.Fatal(v)` -/
  | fatal (v : Nat)
  /-- `println(x)` -/
  | print (x : Nat)
  /-- `OpRecover` with the "down the stack" flag: the body of the function synthesised for
  `defer recover()`. Source programs do not contain it. -/
  | recoverDown
  deriving DecidableEq, Repr, Inhabited

abbrev Body := List Instr

/-- A program is a function table; function 0 is `main`. -/
abbrev Prog := List Body

/-- What a call frame or a deferred call refers to. -/
inductive Callee where
  | fn (f : Nat)
  /-- the function synthesised for `defer recover()` -/
  | recSynth
  deriving DecidableEq, Repr, Inhabited

def bodyOf (p : Prog) : Callee → Option Body
  | .fn f => p[f]?
  | .recSynth => some [.recoverDown]

/-- Code of a user function: `recoverDown` occurs only in the function the compiler
synthesises for `defer recover()` (`bodyOf _ .recSynth`), never in the function table. -/
def Instr.isUser : Instr → Bool
  | .recoverDown => false
  | _ => true

def Prog.isUser (p : Prog) : Bool := p.all (fun b => b.all Instr.isUser)

/-- One panic of the chain of active panics (`runtime.PanicError`, gc's `_panic`). -/
structure Link where
  val : Nat
  recovered : Bool
  deriving DecidableEq, Repr, Inhabited

/-- The active panics, newest first (`vm.panic` and its `next` links). -/
abbrev Chain := List Link

/-- `vm.panic.recovered = true` -/
def markHead : Chain → Chain
  | [] => []
  | l :: ls => { l with recovered := true } :: ls

inductive Event where
  | out (x : Nat)
  | recov (v : Option Nat)
  deriving DecidableEq, Repr, Inhabited

inductive Bad where
  | noFunction    -- a function index outside the table
  | nilPanic      -- `vm.panic` is nil where the code dereferences it
  | noFrame       -- `vm.calls[len-1]` with an empty call stack
  deriving DecidableEq, Repr, Inhabited

inductive Outcome where
  /-- `Run` returns nil -/
  | done
  /-- `Run` returns a `*PanicError` with this chain (newest first) / gc prints it oldest first -/
  | panicked (chain : Chain)
  /-- `Run` returns the error given to `Stop` -/
  | stopped (k : Nat)
  /-- `Run` panics in the host with the value given to `Fatal` -/
  | fatal (v : Nat)
  | outOfFuel
  /-- the machine itself failed (a host panic that is not a `Fatal`) -/
  | fault (b : Bad)
  deriving DecidableEq, Repr, Inhabited

/-- Observable behaviour of a run: printed values and values returned by `recover`, in order,
and the final outcome. -/
structure Result where
  events : List Event
  outcome : Outcome
  deriving DecidableEq, Repr, Inhabited

/-- A machine step: a new state or the end of the run. -/
inductive Step (σ : Type) where
  | next (s : σ)
  | halt (r : Result)
  deriving Repr

/-- the instruction at `pc`; past the end of the body is the `return` the compiler appends -/
def fetch (b : Body) (pc : Nat) : Instr :=
  match b[pc]? with
  | some i => i
  | none => .ret

/-- runs a step function for at most `fuel` steps -/
def iterate {σ : Type} (step : σ → Step σ) (events : σ → List Event) : Nat → σ → Result
  | 0, s => ⟨events s, .outOfFuel⟩
  | n + 1, s =>
    match step s with
    | .next s' => iterate step events n s'
    | .halt r => r

end ScriggoV.DeferLang
