import ScriggoV.Basic.Bytes
/-! How Go splits a string into runes (`for i := range s`, `utf8.DecodeRuneInString`,
`utf8.RuneCountInString`): the *width* of the first rune of a byte string, with every
ill-formed or truncated sequence counting as one rune of width 1 (U+FFFD). Written from
the Unicode standard table 3-7 as implemented by unicode/utf8; validated against
unicode/utf8 by the C25 harness. Core Lean only. -/
namespace ScriggoV.Runes

/-- length of the sequence announced by the first byte (1 for ASCII and for invalid lead bytes) -/
def size (x : Nat) : Nat :=
  if x < 0xC2 then 1 else if x < 0xE0 then 2 else if x < 0xF0 then 3 else if x < 0xF5 then 4 else 1

/-- is `y` an acceptable second byte after the lead byte `x` (table 3-7: E0, ED, F0, F4 are special) -/
def second (x y : Nat) : Bool :=
  decide ((if x = 0xE0 then 0xA0 else if x = 0xF0 then 0x90 else 0x80) ≤ y) &&
  decide (y ≤ (if x = 0xED then 0x9F else if x = 0xF4 then 0x8F else 0xBF))

def isCont (b : UInt8) : Bool := decide (0x80 ≤ b.toNat) && decide (b.toNat ≤ 0xBF)

/-- width in bytes of the first rune of `s` (0 only for the empty string) -/
def runeWidth : Bytes → Nat
  | [] => 0
  | [_] => 1
  | b0 :: b1 :: rest =>
    if size b0.toNat = 1 ∨ second b0.toNat b1.toNat = false then 1
    else if size b0.toNat = 2 then 2
    else
      match rest with
      | [] => 1
      | b2 :: rest2 =>
        if isCont b2 = false then 1
        else if size b0.toNat = 3 then 3
        else
          match rest2 with
          | [] => 1
          | b3 :: _ => if isCont b3 then 4 else 1

/-- the runes of `s` as byte chunks, in order (fuel = length suffices: every width is ≥ 1) -/
def runesAux : Nat → Bytes → List Bytes
  | 0, _ => []
  | _, [] => []
  | fuel + 1, c :: cs =>
    let w := runeWidth (c :: cs)
    (c :: cs).take w :: runesAux fuel ((c :: cs).drop w)

def runes (s : Bytes) : List Bytes := runesAux s.length s

/-- `utf8.RuneCountInString` -/
def runeCount (s : Bytes) : Nat := (runes s).length

end ScriggoV.Runes
