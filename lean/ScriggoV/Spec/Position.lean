import ScriggoV.Basic.Bytes
/-! # Specification of source positions (C21)

The line and column of a byte offset, as a reader of the file would count them: lines are
separated by `'\n'`; the column is 1 plus the number of characters between the last `'\n'`
and the offset, a character being counted at its first byte (a byte that is not a UTF-8
continuation byte `10xxxxxx`). For valid UTF-8 this is the number of runes. A byte order mark
at the start of the file is not counted. Core Lean only. -/
namespace ScriggoV.Spec.Position
open ScriggoV

def isCont (b : UInt8) : Bool := 0x80 ≤ b && b ≤ 0xBF

/-- (line, column) reached after reading the bytes `s` starting at `(line, col)` -/
def advance : Bytes → Nat × Nat → Nat × Nat
  | [], lc => lc
  | c :: rest, (line, col) =>
    if c = 0x0a then advance rest (line + 1, 1)
    else if isCont c then advance rest (line, col)
    else advance rest (line, col + 1)

/-- the file starts with a byte order mark (U+FEFF, `EF BB BF`) -/
def hasBOM : Bytes → Bool
  | 0xEF :: 0xBB :: 0xBF :: _ => true
  | _ => false

/-- (line, column) of byte offset `off` of `src`; a byte order mark at the start of the file is
not a character of the first line -/
def lineCol (src : Bytes) (off : Nat) : Nat × Nat :=
  advance (src.take off) (1, if 3 ≤ off ∧ hasBOM src then 0 else 1)

end ScriggoV.Spec.Position
