/-! # Go's exact integer-constant semantics (specification side of C02)

What the Go specification says about integer constants ("Constants", "Constant expressions",
"Arithmetic operators", "Integer operators", "Conversions", "Representability"), written on Lean
`Int`, independently of Scriggo's code:

* constant arithmetic is exact (arbitrary precision);
* `/` truncates towards zero, `%` has the sign of the dividend (`x = (x/y)*y + x%y`);
* `&  |  ^  &^` act on the (infinite) two's complement representation;
* unary `^x` is `m ^ x` with `m = -1` for untyped and signed operands and `m = ` "all bits set",
  i.e. the maximum of the type, for unsigned typed operands;
* `x << n` is `x * 2^n`, `x >> n` is `⌊x / 2^n⌋`; the count must be a non-negative integer;
* a typed constant, the result of a typed constant operation and the operand of a conversion
  must be representable in the type: range membership.

Two limits are not in the specification but in the reference implementation (gc, go/types), which
is the property's reference: untyped integer constants are limited to 512 bits, and a constant
shift count must not exceed 1074.  `int`, `uint`, `uintptr` are 64 bits wide (amd64).
Core Lean only. -/
namespace ScriggoV.Spec.GoConst

/-- the integer kinds -/
inductive Kind where
  | int | int8 | int16 | int32 | int64 | uint | uint8 | uint16 | uint32 | uint64 | uintptr
  deriving DecidableEq, Repr

def Kind.all : List Kind :=
  [.int, .int8, .int16, .int32, .int64, .uint, .uint8, .uint16, .uint32, .uint64, .uintptr]

def Kind.bits : Kind → Nat
  | .int8 | .uint8 => 8
  | .int16 | .uint16 => 16
  | .int32 | .uint32 => 32
  | .int | .int64 | .uint | .uint64 | .uintptr => 64

def Kind.signed : Kind → Bool
  | .int | .int8 | .int16 | .int32 | .int64 => true
  | _ => false

/-- smallest value of the type -/
def minOf (k : Kind) : Int := if k.signed then -(2 ^ (k.bits - 1)) else 0
/-- largest value of the type -/
def maxOf (k : Kind) : Int := if k.signed then 2 ^ (k.bits - 1) - 1 else 2 ^ k.bits - 1

/-- "x is representable by a value of type T": x is in the set of values of T -/
def representable (k : Kind) (n : Int) : Bool := decide (minOf k ≤ n ∧ n ≤ maxOf k)

def minInt64 : Int := -(2 ^ 63)
def maxInt64 : Int := 2 ^ 63 - 1
def maxUint64 : Int := 2 ^ 64 - 1
def fitsInt64 (n : Int) : Bool := decide (minInt64 ≤ n ∧ n ≤ maxInt64)
def fitsUint64 (n : Int) : Bool := decide (0 ≤ n ∧ n ≤ maxUint64)

/-! ## bitwise operators on the infinite two's complement representation

`bitsFor a` bits are enough to write `a` in two's complement; the operators are computed at a
width that holds both operands and read back as a signed number.  `Lemmas/ConstIntBits.lean`
proves that any larger width gives the same result, which is what makes this a definition of
the infinite-precision operator. -/

def bitsFor (a : Int) : Nat := (if 0 ≤ a then a.toNat else (-a - 1).toNat).log2 + 2

def bitWidth (a b : Int) : Nat := max (bitsFor a) (bitsFor b)

def bitAnd (a b : Int) : Int := (BitVec.ofInt (bitWidth a b) a &&& BitVec.ofInt (bitWidth a b) b).toInt
def bitOr (a b : Int) : Int := (BitVec.ofInt (bitWidth a b) a ||| BitVec.ofInt (bitWidth a b) b).toInt
def bitXor (a b : Int) : Int := (BitVec.ofInt (bitWidth a b) a ^^^ BitVec.ofInt (bitWidth a b) b).toInt
def bitAndNot (a b : Int) : Int := (BitVec.ofInt (bitWidth a b) a &&& ~~~ BitVec.ofInt (bitWidth a b) b).toInt

/-! ## operators -/

inductive Arith where
  | add | sub | mul | quo | rem | and | or | xor | andNot
  deriving DecidableEq, Repr

inductive Cmp where
  | eq | ne | lt | le | gt | ge
  deriving DecidableEq, Repr

/-- exact binary arithmetic; `none` = division by zero (a compile-time error) -/
def arith : Arith → Int → Int → Option Int
  | .add, a, b => some (a + b)
  | .sub, a, b => some (a - b)
  | .mul, a, b => some (a * b)
  | .quo, a, b => if b = 0 then none else some (Int.tdiv a b)   -- truncated towards zero
  | .rem, a, b => if b = 0 then none else some (Int.tmod a b)   -- sign of the dividend
  | .and, a, b => some (bitAnd a b)
  | .or, a, b => some (bitOr a b)
  | .xor, a, b => some (bitXor a b)
  | .andNot, a, b => some (bitAndNot a b)

def cmp : Cmp → Int → Int → Bool
  | .eq, a, b => decide (a = b)
  | .ne, a, b => decide (a ≠ b)
  | .lt, a, b => decide (a < b)
  | .le, a, b => decide (a ≤ b)
  | .gt, a, b => decide (a > b)
  | .ge, a, b => decide (a ≥ b)

/-- unary `^`: `ty = none` is an untyped constant -/
def complement (ty : Option Kind) (a : Int) : Int :=
  match ty with
  | none => bitXor (-1) a
  | some k => if k.signed then bitXor (-1) a else bitXor (maxOf k) a

def shiftLeft (a : Int) (n : Nat) : Int := a * 2 ^ n
/-- `⌊a / 2^n⌋`, written with core's arithmetic shift so that it stays computable for huge counts;
`Lemmas/ConstIntBits.lean: shiftRight_eq_floor_div` proves `shiftRight a n = a / 2 ^ n`
(Lean's `/` on `Int` rounds towards −∞ for a positive divisor) -/
def shiftRight (a : Int) (n : Nat) : Int := a >>> n

/-! ## limits of the reference implementation -/

/-- gc / go/types: untyped integer constants have at most 512 bits (`BitLen(|x|) ≤ 512`) -/
def untypedBits : Nat := 512
def fitsUntyped (n : Int) : Bool := decide (n.natAbs < 2 ^ untypedBits)

/-- go/types: `const shiftBound = 1023 - 1 + 52`; a constant count `s > shiftBound` is an
"invalid shift count", for both `<<` and `>>` -/
def goShiftBound : Int := 1023 - 1 + 52

/-- Go's rule for a constant shift count -/
def goShiftCountOk (cnt : Int) : Bool := decide (0 ≤ cnt ∧ cnt ≤ goShiftBound)

/-! ## untyped numeric constants of mixed kind (integer, rune, floating-point)

Go's constant arithmetic on untyped floating-point constants is exact too: values are rationals
(`Rat`).  An untyped constant has a *kind* — integer < rune < floating-point — and the kind of a
binary operation on untyped operands is the larger one (complex is the largest).  `/` is the truncated integer division
when both operands are of integer kind and the exact rational division otherwise; `%` and the
bitwise operators are defined on integer kinds only; a floating-point constant can be converted to
an integer type, or shifted, only if its value is an integer ("truncated to integer" otherwise). -/

inductive UKind where
  | int | rune | float | complex
  deriving DecidableEq, Repr

def UKind.rank : UKind → Nat
  | .int => 0 | .rune => 1 | .float => 2 | .complex => 3

def UKind.max (a b : UKind) : UKind := if a.rank < b.rank then b else a

def UKind.isInteger : UKind → Bool
  | .int | .rune => true
  | _ => false

/-- type of a numeric constant -/
inductive Ty where
  | untyped (u : UKind)
  | typed (k : Kind)
  deriving DecidableEq, Repr

def Ty.isInteger : Ty → Bool
  | .untyped u => u.isInteger
  | .typed _ => true

def isIntegral (q : Rat) : Bool := q.den == 1

inductive ArithErr where
  | divZero
  | notDefined     -- operator not defined on floating-point constants
  deriving DecidableEq, Repr

/-- exact binary arithmetic on numeric constants; `intKind` = both operands are of integer kind
(their values are then integers) -/
def arithQ (intKind : Bool) (op : Arith) (a b : Rat) : Except ArithErr Rat :=
  if intKind then
    match arith op a.num b.num with
    | none => .error .divZero
    | some r => .ok (r : Int)
  else
    match op with
    | .add => .ok (a + b)
    | .sub => .ok (a - b)
    | .mul => .ok (a * b)
    | .quo => if b = 0 then .error .divZero else .ok (a / b)
    | _ => .error .notDefined

def cmpQ : Cmp → Rat → Rat → Bool
  | .eq, a, b => decide (a = b)
  | .ne, a, b => decide (a ≠ b)
  | .lt, a, b => decide (a < b)
  | .le, a, b => decide (a ≤ b)
  | .gt, a, b => decide (b < a)
  | .ge, a, b => decide (b ≤ a)

/-! ### complex constants: exact rational real and imaginary parts -/

structure CQ where
  re : Rat
  im : Rat
  deriving DecidableEq, Repr

def CQ.ofReal (q : Rat) : CQ := ⟨q, 0⟩
def CQ.isReal (z : CQ) : Bool := z.im == 0

/-- `+ - * /` on complex constants; the other operators are not defined on them -/
def arithC (op : Arith) (x y : CQ) : Except ArithErr CQ :=
  match op with
  | .add => .ok ⟨x.re + y.re, x.im + y.im⟩
  | .sub => .ok ⟨x.re - y.re, x.im - y.im⟩
  | .mul => .ok ⟨x.re * y.re - x.im * y.im, x.im * y.re + x.re * y.im⟩
  | .quo =>
    let s := y.re * y.re + y.im * y.im
    if s = 0 then .error .divZero
    else .ok ⟨(x.re * y.re + x.im * y.im) / s, (x.im * y.re - x.re * y.im) / s⟩
  | _ => .error .notDefined

/-- complex constants are comparable with `==` and `!=` only -/
def cmpC (op : Cmp) (x y : CQ) : Option Bool :=
  match op with
  | .eq => some (decide (x = y))
  | .ne => some (decide (x ≠ y))
  | _ => none

end ScriggoV.Spec.GoConst
