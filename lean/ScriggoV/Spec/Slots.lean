import ScriggoV.Basic.Bytes
/-! Reference scanners of the ENCLOSING languages, restricted to the slot a template places a
shown value in (property C06, layer 1). Written from the standards, independently of Scriggo:

* HTML: WHATWG HTML §13.2.5 tokenizer states — data (§13.2.5.1), before-attribute-value /
  attribute-value double-quoted / single-quoted / unquoted (§13.2.5.36–38), attribute name
  (§13.2.5.33), script data and its `<!--` / `</` sub-states (§13.2.5.4, .15–.20), RAWTEXT;
* ECMAScript 2023 §12.9.4 string literals (with U+2028/U+2029 counted as line terminators, as
  they were before ES2019 — the conservative reading);
* RFC 8259 §7 strings;
* CSS Syntax Level 3 §4.3.5 (consume a string token) and §4.3.7 (consume an escaped code point).

Each scanner is a finite-state machine `step : St → UInt8 → St` run by `List.foldl` over the
bytes of the slot's content, started in the state the template text leaves the enclosing
tokenizer in. `left` is absorbing: the content ended the slot (or made the token invalid)
before its last byte. *Slot-confined* means: the scan never reaches `left` and ends in the state
in which a benign value (`x`) ends, so the template text that follows is read in the state the
author wrote it for.

Where a standard consumes a variable number of bytes (CR LF after a backslash, white space after
a CSS hex escape) the scanner consumes the *fewest* — every byte string confined here is confined
for the standard's scanner too (the conservative direction).

Core Lean only (the driver evaluates these for spec validation against x/net/html, encoding/json
and the harness's JS / CSS tokenizers). -/
namespace ScriggoV.Slots
open ScriggoV

/-- TAB, LF, FF, CR, SPACE — HTML "ASCII whitespace" (CR is normalised to LF by the input
stream preprocessor, so it is white space for every tokenizer state) -/
def htmlWs (c : UInt8) : Bool := c == 9 || c == 10 || c == 12 || c == 13 || c == 32

/-! ## HTML data state (a text node) -/
inductive DataSt
  | data      -- inside the text node
  | left      -- a `<` was read: tag open state
  deriving DecidableEq, Repr

/-- §13.2.5.1: `<` switches to the tag open state; `&` starts a character reference (which
returns to the data state); NUL and everything else is emitted as a character token. -/
def dataStep : DataSt → UInt8 → DataSt
  | .data, c => if c == 0x3C then .left else .data
  | .left, _ => .left

def dataScan (s : Bytes) : DataSt := s.foldl dataStep .data
def dataConfined (s : Bytes) : Bool := dataScan s == .data

/-! ### character references
`refsClosed allowed s`: every `&` in `s` starts one of the references in `allowed`
(complete, with its semicolon) — so no `&` is left that could combine with the text that follows
the slot, and none starts a reference the escaper did not intend. -/
def startsWith (p : Bytes) : Bytes → Bool
  | s => p.isPrefixOf s

def refsClosed (allowed : List Bytes) : Bytes → Bool
  | [] => true
  | c :: rest =>
    (if c == 0x26 then allowed.any (fun r => startsWith r (c :: rest)) else true) &&
      refsClosed allowed rest

/-- `&amp;` `&lt;` `&gt;` `&#34;` `&#39;` -/
def fiveRefs : List Bytes :=
  [[38, 97, 109, 112, 59], [38, 108, 116, 59], [38, 103, 116, 59],
   [38, 35, 51, 52, 59], [38, 35, 51, 57, 59]]

/-- `&#dd;`: a two-digit decimal reference -/
def isDecRef2 : Bytes → Bool
  | a :: h :: d1 :: d2 :: z :: _ =>
    a == 0x26 && h == 0x23 && (0x30 ≤ d1 && d1 ≤ 0x39) && (0x30 ≤ d2 && d2 ≤ 0x39) && z == 0x3B
  | _ => false

/-- every `&` starts `&amp;`, `&lt;`, `&gt;` or a two-digit decimal reference -/
def refsNamedOrDec : Bytes → Bool
  | [] => true
  | c :: rest =>
    (if c == 0x26 then
        startsWith [38, 97, 109, 112, 59] (c :: rest) || startsWith [38, 108, 116, 59] (c :: rest) ||
        startsWith [38, 103, 116, 59] (c :: rest) || isDecRef2 (c :: rest)
      else true) && refsNamedOrDec rest

/-! ## attribute values -/
inductive AttrSt
  | before    -- before attribute value state (after `name=`)
  | dq        -- attribute value (double-quoted) state
  | sq        -- attribute value (single-quoted) state
  | unq       -- attribute value (unquoted) state
  | left      -- the value has ended (after-attribute-value, before-attribute-name, data …)
  deriving DecidableEq, Repr

/-- §13.2.5.35–38 -/
def attrStep : AttrSt → UInt8 → AttrSt
  | .before, c =>
    if htmlWs c then .before            -- ignored
    else if c == 0x22 then .dq
    else if c == 0x27 then .sq
    else if c == 0x3E then .left        -- missing-attribute-value: the tag is emitted
    else .unq                           -- reconsume in the unquoted state (c is not ws, not `>`)
  | .dq, c => if c == 0x22 then .left else .dq
  | .sq, c => if c == 0x27 then .left else .sq
  | .unq, c => if htmlWs c || c == 0x3E then .left else .unq
  | .left, _ => .left

def attrScan (st : AttrSt) (s : Bytes) : AttrSt := s.foldl attrStep st

/-- a value placed between double quotes by the template: `name="{{ v }}"` -/
def attrDqConfined (s : Bytes) : Bool := attrScan .dq s == .dq
/-- `name='{{ v }}'` -/
def attrSqConfined (s : Bytes) : Bool := attrScan .sq s == .sq
/-- `name={{ v }}`: the benign value `x` leaves the tokenizer in the unquoted state -/
def attrUnqConfined (s : Bytes) : Bool := attrScan .before s == .unq

/-- the bytes the unquoted state flags as parse errors (`"` `'` `<` `=` `` ` ``): still part of
the value for a conforming tokenizer, but not for every consumer — required absent as well -/
def unqClean (s : Bytes) : Bool :=
  s.all (fun c => !(c == 0x22 || c == 0x27 || c == 0x3C || c == 0x3D || c == 0x60))

/-! ## attribute name (the Tag context) -/
/-- §13.2.5.33: white space, `/`, `>` end the name, `=` starts the value -/
def nameDelim (c : UInt8) : Bool := htmlWs c || c == 0x2F || c == 0x3E || c == 0x3D

/-- one non-empty attribute-name token -/
def nameConfined (s : Bytes) : Bool := !s.isEmpty && s.all (fun c => !nameDelim c)

/-! ## script / style element content (script data, RAWTEXT)
The element ends at `</` + tag name; `<!--` switches script data to the escaped states, in which
`</script>` handling changes. The conservative slot condition: no `</` and no `<!--`, and no
trailing partial one. -/
inductive RawSt
  | d | lt | ltBang | ltBangDash | left
  deriving DecidableEq, Repr

def rawStep : RawSt → UInt8 → RawSt
  | .d, c => if c == 0x3C then .lt else .d
  | .lt, c => if c == 0x2F then .left else if c == 0x21 then .ltBang else if c == 0x3C then .lt else .d
  | .ltBang, c => if c == 0x2D then .ltBangDash else if c == 0x3C then .lt else .d
  | .ltBangDash, c => if c == 0x2D then .left else if c == 0x3C then .lt else .d
  | .left, _ => .left

def rawScan (s : Bytes) : RawSt := s.foldl rawStep .d
def rawTextConfined (s : Bytes) : Bool := rawScan s == .d

/-! ## JavaScript string literal -/
inductive JsSt
  | str       -- inside the literal
  | esc       -- after a backslash
  | e2        -- inside, the last byte was E2 (first byte of U+2028 / U+2029)
  | e280      -- inside, the last bytes were E2 80
  | left      -- closing quote or a raw line terminator
  deriving DecidableEq, Repr

/-- `q` is the quote that opened the literal (`"` or `'`). A backslash consumes the next byte
(`\` + LineTerminatorSequence is a LineContinuation; only one byte of CR LF is consumed here). -/
def jsStep (q : UInt8) : JsSt → UInt8 → JsSt
  | .left, _ => .left
  | .esc, _ => .str
  | st, c =>
    if c == q then .left
    else if c == 0x5C then .esc
    else if c == 10 || c == 13 then .left
    else if c == 0xE2 then .e2
    else match st with
      | .e2 => if c == 0x80 then .e280 else .str
      | .e280 => if c == 0xA8 || c == 0xA9 then .left else .str
      | _ => .str

def jsScan (q : UInt8) (s : Bytes) : JsSt := s.foldl (jsStep q) .str
def jsStrConfined (q : UInt8) (s : Bytes) : Bool := jsScan q s == .str

/-! ## JSON string -/
inductive JsonSt
  | str
  | esc
  | u (n : Nat)   -- after `\u` and n hex digits, n < 4
  | left          -- closing quote, control character, or invalid escape
  deriving DecidableEq, Repr

def isHex (c : UInt8) : Bool :=
  (0x30 ≤ c && c ≤ 0x39) || (0x61 ≤ c && c ≤ 0x66) || (0x41 ≤ c && c ≤ 0x46)

/-- RFC 8259 §7: unescaped = %x20-21 / %x23-5B / %x5D-10FFFF; escape = `\` then one of
`" \ / b f n r t` or `u` 4HEXDIG -/
def jsonStep : JsonSt → UInt8 → JsonSt
  | .left, _ => .left
  | .str, c =>
    if c == 0x22 then .left else if c == 0x5C then .esc else if c < 0x20 then .left else .str
  | .esc, c =>
    if c == 0x22 || c == 0x5C || c == 0x2F || c == 0x62 || c == 0x66 || c == 0x6E || c == 0x72 ||
       c == 0x74 then .str
    else if c == 0x75 then .u 0
    else .left
  | .u n, c => if isHex c then (if n ≥ 3 then .str else .u (n + 1)) else .left

def jsonScan (s : Bytes) : JsonSt := s.foldl jsonStep .str
def jsonStrConfined (s : Bytes) : Bool := jsonScan s == .str

/-! ## CSS string -/
inductive CssSt
  | str
  | esc           -- after a backslash
  | hex (n : Nat) -- inside a hex escape, n digits read (1 ≤ n ≤ 6)
  | left          -- ending quote, or a newline (bad-string token)
  deriving DecidableEq, Repr

/-- LF, CR, FF -/
def cssNewline (c : UInt8) : Bool := c == 10 || c == 13 || c == 12
/-- newline, TAB, SPACE -/
def cssWs (c : UInt8) : Bool := cssNewline c || c == 9 || c == 32

/-- what the string state does with `c` (also used when a hex escape ends at a non-hex,
non-whitespace byte, which is reconsumed) -/
def cssPlain (q : UInt8) (c : UInt8) : CssSt :=
  if c == q then .left else if c == 0x5C then .esc else if cssNewline c then .left else .str

/-- §4.3.5 / §4.3.7. After a backslash: a newline is consumed (continuation); a hex digit
starts a hex escape of up to 6 digits followed by at most one white space; anything else is the
escaped code point itself. -/
def cssStep (q : UInt8) : CssSt → UInt8 → CssSt
  | .left, _ => .left
  | .str, c => cssPlain q c
  | .esc, c => if isHex c then .hex 1 else .str
  | .hex n, c =>
    if isHex c then (if n ≥ 5 then .str else .hex (n + 1))    -- the 6th digit ends the escape
    else if cssWs c then .str                                  -- one white space is swallowed
    else cssPlain q c

def cssScan (q : UInt8) (s : Bytes) : CssSt := s.foldl (cssStep q) .str
def cssStrConfined (q : UInt8) (s : Bytes) : Bool := cssScan q s == .str

end ScriggoV.Slots
