import ScriggoV.Spec.CommonMarkLex
/-! CommonMark 0.31 §4.5 (fenced code blocks), the part that is decided on single lines:
what an opening code fence is, what closes a block opened by a fence of `n` characters `ch`,
and how far such a block extends over the following lines. Stated as decompositions of the
line, independently of any scanner; uses only `isSpTab` / `isEol` of `CommonMarkLex`.
Core Lean only. Validated against goldmark by the C29 harness (spec validation). -/
namespace ScriggoV.CommonMarkFence
open ScriggoV.CommonMarkLex

/-- "A code fence is a sequence of at least three consecutive backtick characters or tildes" -/
def isFenceChar (c : UInt8) : Bool := c == 96 || c == 126

/-- what may follow the run of a closing fence: "may be followed only by spaces or tabs", up to
the line ending (a text split at LF keeps the CR of a CRLF line ending in the line, §2.1) -/
def isTrail (c : UInt8) : Bool := isSpTab c || isEol c

/-- `line` is an opening code fence of `n` characters `ch`: up to three spaces of indentation
(a tab in the indentation reaches column 4: indented code, §2.2), then exactly `n ≥ 3` fence
characters (the run is maximal), then the info string, which for a backtick fence "cannot
contain backtick characters" -/
def OpeningFence (ch : UInt8) (n : Nat) (line : Bytes) : Prop :=
  ∃ k info, line = List.replicate k 32 ++ (List.replicate n ch ++ info) ∧ k ≤ 3 ∧ 3 ≤ n ∧
    isFenceChar ch = true ∧ info.head? ≠ some ch ∧ (ch = 96 → info.contains 96 = false)

/-- `line` closes a block opened by a fence of `n` characters `ch`: "The closing code fence must
use the same character as the opening fence (backticks or tildes), and have at least as many
backticks or tildes as the opening fence", "may be preceded by up to three spaces of
indentation, and may be followed only by spaces or tabs" -/
def ClosingFence (ch : UInt8) (n : Nat) (line : Bytes) : Prop :=
  ∃ k m trail, line = List.replicate k 32 ++ (List.replicate m ch ++ trail) ∧ k ≤ 3 ∧ n ≤ m ∧
    trail.all isTrail = true

/-- the lines after an opening fence split into the block's content, the closing fence and what
follows: "The content of the code block consists of all subsequent lines, until a closing code
fence of the same type as the code block began with"; "If the end of the containing block (or
document) is reached and no closing code fence has been found, the code block contains all of
the lines after the opening code fence" (`closer = none`) -/
structure BlockExtent (ch : UInt8) (n : Nat) (lines : List Bytes) where
  content : List Bytes
  closer : Option (Bytes × List Bytes)
  split : lines = content ++ (match closer with
                              | some (c, rest) => c :: rest
                              | none => [])
  content_open : ∀ l ∈ content, ¬ ClosingFence ch n l
  closer_closes : ∀ c rest, closer = some (c, rest) → ClosingFence ch n c

end ScriggoV.CommonMarkFence
