import ScriggoV.Basic.Bytes
/-! # A reduction of the WHATWG HTML tokenizer over bytes (C06 layer 2, reference side)

Written from WHATWG HTML §13.2.5 (tokenization), ECMAScript §12 (lexical grammar: strings,
comments) and CSS Syntax 3 §4 (strings, comments), independently of Scriggo. One byte per step:

* data (§13.2.5.1), tag open (.6), end tag open (.7), tag name (.8), before attribute name (.32),
  attribute name (.33), after attribute name (.34), before attribute value (.35), attribute value
  double-quoted / single-quoted / unquoted (.36–.38), after attribute value (quoted) (.39),
  self-closing start tag (.40);
* RAWTEXT / script data for `script` and `style` (.3, .4) with the end rule "`</script` /
  `</style` followed by `>`", and inside them the lexical state of the embedded language:
  JavaScript — code (with the flag "a `/` here would start a regular-expression literal"),
  string (`"` / `'`, with escapes), line comment, block comment; CSS — code, string, comment.

The machine also decides membership in the document class `D` of the layer-2 theorem: whatever
lies outside `D` drives it into the absorbing state `bad`. `D` EXCLUDES exactly (each exclusion
corresponds to a recorded finding or to a construct not modelled):

* `<!` (comments, CDATA, DOCTYPE) and `<?`;
* the start tags of RCDATA and other raw-text elements (`title`, `textarea`, `xmp`, `iframe`,
  `noembed`, `noframes`, `noscript`, `plaintext`);
* tag names with bytes other than ASCII letters, digits and `-`; end tags other than `</name>`
  (white space, `/` or attributes in an end tag);
* attribute names containing `"`, `'`, `{`, a C0 control, 0x7F or a byte ≥ 0x80, or starting
  with `=`; a `type` attribute on `script` / `style` (it selects the language: not modelled);
* in script content: template literals (a backtick in code), regular-expression literals (a `/`
  in code position where a regex may start and that does not open a comment), a raw LF / CR inside
  a string literal, the byte 0xE2 in a line comment (U+2028 / U+2029 end the comment, for the lexer
  too since b0a8648; the three-byte terminator is not modelled here), and `</` that is not the
  element's own end tag `</script>`;
* in style content: a quote inside a comment, a raw newline inside a string, and `</` that is not
  `</style>`.

A string literal that ends in an escaped backslash (`"…\\"`) belonged to the exclusions until the
lexer learnt to skip `\\` as a pair (8287339, finding string-escaped-backslash-desync); it is in `D`
now: the state `strBs` (directly after an escaped backslash) behaves as `str`.

Core Lean only. -/
namespace ScriggoV.HtmlTok
open ScriggoV

def ws (c : UInt8) : Bool := c == 9 || c == 10 || c == 12 || c == 13 || c == 32
def isUpper (c : UInt8) : Bool := 0x41 ≤ c && c ≤ 0x5A
def isLetter (c : UInt8) : Bool := isUpper c || (0x61 ≤ c && c ≤ 0x7A)
def isDigit (c : UInt8) : Bool := 0x30 ≤ c && c ≤ 0x39
def lower (c : UInt8) : UInt8 := if isUpper c then c + 32 else c

/-- JavaScript lexical state inside a script element -/
inductive JsS
  | code (regexOk : Bool)      -- between tokens; `regexOk`: a `/` here would start a regex literal
  | slash (regexOk : Bool)     -- just after a `/` in code
  | lineC | blockC | blockCStar
  | str (q : UInt8)            -- inside a string literal opened by `q`
  | strEsc (q : UInt8)         -- after a backslash inside it
  | strBs (q : UInt8)          -- inside it, directly after an escaped backslash `\\`
  | bad
  deriving DecidableEq, Repr

def jsIdentByte (c : UInt8) : Bool := isLetter c || isDigit c || c == 0x5F || c == 0x24 || c ≥ 0x80

/-- a byte in code position -/
def jsCode (ro : Bool) (c : UInt8) : JsS :=
  if c == 0x22 || c == 0x27 then .str c
  else if c == 0x60 then .bad                        -- template literal
  else if c == 0x2F then .slash ro
  else if ws c || c == 11 then .code ro
  else if jsIdentByte c || c == 0x29 || c == 0x5D || c == 0x7D then .code false
  else .code true

def jsStr (q : UInt8) (c : UInt8) : JsS :=
  if c == 0x5C then .strEsc q
  else if c == q then .code false
  else if c == 10 || c == 13 then .bad               -- unterminated string literal
  else .str q

def jsStep : JsS → UInt8 → JsS
  | .code ro, c => jsCode ro c
  | .slash ro, c =>
    if c == 0x2F then .lineC
    else if c == 0x2A then .blockC
    else if ro then .bad                             -- a regular-expression literal
    else jsCode true c                               -- division
  | .lineC, c => if c == 10 || c == 13 then .code true else if c == 0xE2 then .bad else .lineC
  | .blockC, c => if c == 0x2A then .blockCStar else .blockC
  | .blockCStar, c => if c == 0x2F then .code true else if c == 0x2A then .blockCStar else .blockC
  | .str q, c => jsStr q c
  | .strEsc q, c => if c == 0x5C then .strBs q else .str q
  | .strBs q, c => jsStr q c                             -- `\\` is a complete escape: a quote here ends the literal
  | .bad, _ => .bad

/-- CSS lexical state inside a style element -/
inductive CssS
  | code | slash | blockC | blockCStar
  | str (q : UInt8) | strEsc (q : UInt8) | strBs (q : UInt8)
  | bad
  deriving DecidableEq, Repr

def cssCode (c : UInt8) : CssS :=
  if c == 0x22 || c == 0x27 then .str c else if c == 0x2F then .slash else .code

def cssStr (q : UInt8) (c : UInt8) : CssS :=
  if c == 0x5C then .strEsc q
  else if c == q then .code
  else if c == 10 || c == 13 || c == 12 then .bad    -- bad-string token
  else .str q

def cssStep : CssS → UInt8 → CssS
  | .code, c => cssCode c
  | .slash, c => if c == 0x2A then .blockC else cssCode c
  | .blockC, c => if c == 0x2A then .blockCStar else if c == 0x22 || c == 0x27 then .bad else .blockC
  | .blockCStar, c =>
    if c == 0x2F then .code else if c == 0x2A then .blockCStar
    else if c == 0x22 || c == 0x27 then .bad else .blockC
  | .str q, c => cssStr q c
  | .strEsc q, c => if c == 0x5C then .strBs q else .str q
  | .strBs q, c => cssStr q c
  | .bad, _ => .bad

inductive RawK
  | js (s : JsS)
  | css (s : CssS)
  deriving DecidableEq, Repr

def RawK.isBad : RawK → Bool
  | .js .bad => true
  | .css .bad => true
  | _ => false

def RawK.step : RawK → UInt8 → RawK
  | .js s, c => .js (jsStep s c)
  | .css s, c => .css (cssStep s c)

/-- the element's name, lower-case -/
def RawK.name : RawK → Bytes
  | .js _ => [115, 99, 114, 105, 112, 116]     -- script
  | .css _ => [115, 116, 121, 108, 101]        -- style

/-- the tokenizer state; `tag` / `n` are the lower-cased tag name and attribute name so far -/
inductive RSt
  | data
  | tagOpen
  | endTagOpen
  | endTagName
  | tagName (tag : Bytes)
  | beforeAttrName (tag : Bytes)
  | attrName (tag n : Bytes)
  | afterAttrName (tag n : Bytes)
  | beforeAttrValue (tag n : Bytes)
  | attrValDq (tag n : Bytes)
  | attrValSq (tag n : Bytes)
  | attrValUnq (tag n : Bytes)
  | afterAttrValQ (tag : Bytes)
  | selfClosing (tag : Bytes)
  /-- script / style content: the embedded language's state and `m` = how many bytes of the end
  tag `</name` have been matched (0 none, 1 after `<`, 2 after `</`, 2+i after i letters) -/
  | raw (k : RawK) (m : Nat)
  | bad
  deriving DecidableEq, Repr

def sScript : Bytes := [115, 99, 114, 105, 112, 116]
def sStyle : Bytes := [115, 116, 121, 108, 101]
def sType : Bytes := [116, 121, 112, 101]

/-- start tags whose content the tokenizer reads as RCDATA / RAWTEXT / PLAINTEXT (excluded) -/
def rawTextLike : List Bytes :=
  [[116, 105, 116, 108, 101], [116, 101, 120, 116, 97, 114, 101, 97], [120, 109, 112],
   [105, 102, 114, 97, 109, 101], [110, 111, 101, 109, 98, 101, 100], [110, 111, 102, 114, 97, 109, 101, 115],
   [110, 111, 115, 99, 114, 105, 112, 116], [112, 108, 97, 105, 110, 116, 101, 120, 116]]

def tagNameByte (c : UInt8) : Bool := isLetter c || isDigit c || c == 0x2D

/-- the state after the `>` that ends a start tag -/
def afterTag (tag : Bytes) : RSt :=
  if tag == sScript then .raw (.js (.code true)) 0
  else if tag == sStyle then .raw (.css .code) 0
  else if rawTextLike.contains tag then .bad
  else .data

/-- a byte that may not appear in an attribute name of class `D` -/
def attrNameBad (c : UInt8) : Bool :=
  c == 0x22 || c == 0x27 || c == 0x7B || c ≤ 0x1F || c == 0x7F || c ≥ 0x80

/-- the attribute `n` of `tag` is complete (its name ended or its value starts) -/
def attrDone (tag n : Bytes) : Bool := !((tag == sScript || tag == sStyle) && n == sType)

/-- before attribute name (§13.2.5.32), also the target of "reconsume" from other tag states -/
def beforeName (tag : Bytes) (c : UInt8) : RSt :=
  if ws c then .beforeAttrName tag
  else if c == 0x2F then .selfClosing tag
  else if c == 0x3E then afterTag tag
  else if c == 0x3D || attrNameBad c then .bad
  else .attrName tag [lower c]

/-- after attribute name (§13.2.5.34) -/
def afterName (tag n : Bytes) (c : UInt8) : RSt :=
  if !attrDone tag n then .bad
  else if ws c then .afterAttrName tag n
  else if c == 0x2F then .selfClosing tag
  else if c == 0x3D then .beforeAttrValue tag n
  else if c == 0x3E then afterTag tag
  else if attrNameBad c then .bad
  else .attrName tag [lower c]

def rawStep (k : RawK) (m : Nat) (c : UInt8) : RSt :=
  if m = 0 then
    let k' := k.step c
    if k'.isBad then .bad else .raw k' (if c == 0x3C then 1 else 0)
  else if m = 1 then
    if c == 0x2F then .raw k 2
    else
      let k' := k.step c
      if k'.isBad then .bad else .raw k' (if c == 0x3C then 1 else 0)
  else
    let name := k.name
    if m - 2 < name.length then
      if name[m - 2]? == some (lower c) then .raw k (m + 1) else .bad
    else if c == 0x3E then .data else .bad

def rstep : RSt → UInt8 → RSt
  | .data, c => if c == 0x3C then .tagOpen else .data
  | .tagOpen, c =>
    if isLetter c then .tagName [lower c]
    else if c == 0x2F then .endTagOpen
    else if c == 0x21 || c == 0x3F then .bad
    else if c == 0x3C then .tagOpen           -- the first `<` is text; this one opens a tag
    else .data
  | .endTagOpen, c => if isLetter c then .endTagName else .bad
  | .endTagName, c => if c == 0x3E then .data else if tagNameByte c then .endTagName else .bad
  | .tagName tag, c =>
    if ws c then .beforeAttrName tag
    else if c == 0x2F then .selfClosing tag
    else if c == 0x3E then afterTag tag
    else if tagNameByte c then .tagName (tag ++ [lower c])
    else .bad
  | .beforeAttrName tag, c => beforeName tag c
  | .attrName tag n, c =>
    if ws c || c == 0x2F || c == 0x3E then afterName tag n c
    else if c == 0x3D then (if attrDone tag n then .beforeAttrValue tag n else .bad)
    else if attrNameBad c then .bad
    else .attrName tag (n ++ [lower c])
  | .afterAttrName tag n, c => afterName tag n c
  | .beforeAttrValue tag n, c =>
    if ws c then .beforeAttrValue tag n
    else if c == 0x22 then .attrValDq tag n
    else if c == 0x27 then .attrValSq tag n
    else if c == 0x3E then afterTag tag
    else .attrValUnq tag n
  | .attrValDq tag n, c => if c == 0x22 then .afterAttrValQ tag else .attrValDq tag n
  | .attrValSq tag n, c => if c == 0x27 then .afterAttrValQ tag else .attrValSq tag n
  | .attrValUnq tag n, c =>
    if ws c then .beforeAttrName tag else if c == 0x3E then afterTag tag else .attrValUnq tag n
  | .afterAttrValQ tag, c => beforeName tag c    -- anything but ws, `/`, `>` is reconsumed there
  | .selfClosing tag, c => if c == 0x3E then afterTag tag else beforeName tag c
  | .raw k m, c => rawStep k m c
  | .bad, _ => .bad

/-- the tokenizer state after the bytes `p`, started in the data state -/
def run (p : Bytes) : RSt := p.foldl rstep .data

/-- membership in the class `D` (as a prefix property) -/
def inD (p : Bytes) : Bool := run p != .bad

/-! ## abstraction: which Scriggo context fits a tokenizer state -/

inductive Ctx
  | html | tag | quotedAttr | unquotedAttr | js | jsString | css | cssString
  deriving DecidableEq, Repr

def jsCtx : JsS → Option Ctx
  | .str _ => some .jsString
  | .strEsc _ => some .jsString
  | .strBs _ => some .jsString
  | .bad => none
  | _ => some .js

def cssCtx : CssS → Option Ctx
  | .str _ => some .cssString
  | .strEsc _ => some .cssString
  | .strBs _ => some .cssString
  | .bad => none
  | _ => some .css

/-- The context (and the URL flag: `isURL tag attr` is the embedder's table of URL attributes) a
value shown at this point needs. `none`: no claim (inside an end tag, inside a partially matched
`</script`, outside `D`). In the tag-open state the `<` read so far is still text, in the
tag-name state the value continues the tag name — for which Scriggo has the Tag context. -/
def abs (isURL : Bytes → Bytes → Bool) : RSt → Option (Ctx × Bool)
  | .data => some (.html, false)
  | .tagOpen => some (.html, false)
  | .tagName _ => some (.tag, false)
  | .beforeAttrName _ => some (.tag, false)
  | .attrName _ _ => some (.tag, false)
  | .afterAttrName _ _ => some (.tag, false)
  | .afterAttrValQ _ => some (.tag, false)
  | .selfClosing _ => some (.tag, false)
  | .beforeAttrValue tag n => some (.unquotedAttr, isURL tag n)
  | .attrValUnq tag n => some (.unquotedAttr, isURL tag n)
  | .attrValDq tag n => some (.quotedAttr, isURL tag n)
  | .attrValSq tag n => some (.quotedAttr, isURL tag n)
  | .raw (.js s) m => if m ≤ 1 then (jsCtx s).map (·, false) else none
  | .raw (.css s) m => if m ≤ 1 then (cssCtx s).map (·, false) else none
  | .endTagOpen => none
  | .endTagName => none
  | .bad => none

/-- the sub-class without script and style elements -/
def noRaw : RSt → Bool
  | .raw _ _ => false
  | _ => true

end ScriggoV.HtmlTok

namespace ScriggoV.HtmlTok

/-- every state the tokenizer goes through on `p` (after each byte), from `st` -/
def trace : RSt → Bytes → List RSt
  | _, [] => []
  | st, c :: rest => rstep st c :: trace (rstep st c) rest

/-- the sub-class "HTML text + tags + attributes": `p` never enters a script or style element -/
def htmlOnly (p : Bytes) : Bool := (trace .data p).all noRaw

/-- the sub-class without style elements (scripts allowed) -/
def noStyle (p : Bytes) : Bool :=
  (trace .data p).all (fun s => match s with | .raw (.css _) _ => false | _ => true)

end ScriggoV.HtmlTok
