import ScriggoV.Basic.Bytes
/-! Independent specification for C08, dates: the ECMA-262 *Date Time String Format*
(§21.4.1.32: `YYYY-MM-DDTHH:mm:ss.sssZ`, expanded years `±YYYYYY`, offsets `±HH:mm`) — what
`new Date(string)` is specified to parse — and RFC 3339 `date-time` (§5.6). Both as decoders
to the fields written, so that "denotes the same instant" can be stated. Core Lean only. -/
namespace ScriggoV.DateTime

/-- what a date-time string says: local calendar fields and the offset from UTC in minutes
(`Z` is offset 0) -/
structure Fields where
  year : Int
  month : Nat
  day : Nat
  hour : Nat
  min : Nat
  sec : Nat
  ms : Nat
  offsetMin : Int
  deriving Repr, DecidableEq

def digitVal (c : UInt8) : Option Nat :=
  if 0x30 ≤ c.toNat ∧ c.toNat ≤ 0x39 then some (c.toNat - 0x30) else none

/-- exactly `w` digits -/
def readDigits : Nat → Nat → Bytes → Option (Nat × Bytes)
  | 0, acc, s => some (acc, s)
  | _+1, _, [] => none
  | w+1, acc, c :: s =>
    match digitVal c with
    | some d => readDigits w (acc * 10 + d) s
    | none => none

def expect (c : UInt8) : Bytes → Option Bytes
  | [] => none
  | d :: s => if d == c then some s else none

/-- `Z` or `±HH:mm` at the end of the string; minutes east of UTC -/
def readOffset : Bytes → Option Int
  | [0x5A] => some 0
  | [sg, a, b, col, c, d] =>
    if col != 0x3A then none else
    match readDigits 2 0 [a, b], readDigits 2 0 [c, d] with
    | some (h, _), some (m, _) =>
      if h > 23 ∨ m > 59 then none
      else if sg == 0x2B then some ((h * 60 + m : Nat) : Int)
      else if sg == 0x2D then some (-((h * 60 + m : Nat) : Int))
      else none
    | _, _ => none
  | _ => none

/-- `-MM-DDTHH:mm:ss` after the year -/
def readCommon (year : Int) (s : Bytes) : Option (Fields × Bytes) := do
  let s ← expect 0x2D s
  let (mo, s) ← readDigits 2 0 s
  let s ← expect 0x2D s
  let (d, s) ← readDigits 2 0 s
  let s ← expect 0x54 s
  let (h, s) ← readDigits 2 0 s
  let s ← expect 0x3A s
  let (mi, s) ← readDigits 2 0 s
  let s ← expect 0x3A s
  let (sec, s) ← readDigits 2 0 s
  if mo < 1 ∨ mo > 12 ∨ d < 1 ∨ d > 31 ∨ h > 23 ∨ mi > 59 ∨ sec > 59 then none
  else some ({ year := year, month := mo, day := d, hour := h, min := mi, sec := sec, ms := 0, offsetMin := 0 }, s)

/-- ECMA-262 Date Time String Format, complete form with milliseconds and offset -/
def readYear : Bytes → Option (Int × Bytes)
  | [] => none
  | c :: r =>
    if c == 0x2B then
      match readDigits 6 0 r with
      | some (y, r') => some ((y : Int), r')
      | none => none
    else if c == 0x2D then
      match readDigits 6 0 r with
      | some (y, r') => if y == 0 then none else some (-(y : Int), r')     -- "-000000" is not a year
      | none => none
    else
      match readDigits 4 0 (c :: r) with
      | some (y, r') => some ((y : Int), r')
      | none => none

def parseECMA (s : Bytes) : Option Fields :=
  match readYear s with
  | none => none
  | some (year, s) =>
    match readCommon year s with
    | none => none
    | some (f, s) =>
      match expect 0x2E s with
      | none => none
      | some s =>
        match readDigits 3 0 s with
        | none => none
        | some (ms, s) =>
          match readOffset s with
          | none => none
          | some off => some { f with ms := ms, offsetMin := off }

/-- RFC 3339 `date-time` without fractional seconds (`time-secfrac` is optional) -/
def parseRFC3339 (s : Bytes) : Option Fields :=
  match readDigits 4 0 s with
  | none => none
  | some (y, s) =>
    match readCommon (y : Int) s with
    | none => none
    | some (f, s) =>
      match readOffset s with
      | none => none
      | some off => some { f with offsetMin := off }

end ScriggoV.DateTime
