#!/bin/sh
# MANIFEST.setup_cmd — offline build of the framework from files on disk only.
# Every ./check rebuilds what it needs anyway; this only warms the caches, so a module that
# does not build here is not fatal (its own check will report it).
cd "$(dirname "$0")"
export GOFLAGS=-mod=mod GOPROXY=off CGO_ENABLED=0
mkdir -p bin evidence replays
cp /repo/go.sum go/go.sum 2>/dev/null || true
python3 tools/assemble.py || exit 1
(cd go && go build -o ../bin/extract ./cmd/extract) || echo "setup: extract does not build"
./bin/extract -repo /repo -out lean/ScriggoV/Gen || echo "setup: some generators failed"
(cd lean && lake build ScriggoV.Basic.Bytes)
# everything at once first (lake and go build in parallel); per property only if that fails
targets="ScriggoV"
for f in lean/Drivers/C*.lean; do targets="$targets driver_$(basename "$f" .lean)"; done
if ! (cd lean && lake build $targets >/dev/null 2>&1); then
  for f in lean/ScriggoV/Props/C*.lean; do
    p=$(basename "$f" .lean)
    (cd lean && lake build ScriggoV.Props.$p >/dev/null 2>&1 && lake build driver_$p >/dev/null 2>&1) || echo "setup: $p does not build"
  done
fi
for d in go/props/c*; do
  p=$(basename "$d" | tr c C)
  ( (cd go && go build -tags verif -o ../bin/harness_$p ./props/$(basename "$d")) >/dev/null 2>&1 || echo "setup: harness $p does not build" ) &
done
wait
echo setup done
