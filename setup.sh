#!/bin/sh
# MANIFEST.setup_cmd — offline build of the framework from files on disk only.
set -e
cd "$(dirname "$0")"
export GOFLAGS=-mod=mod GOPROXY=off CGO_ENABLED=0
mkdir -p bin evidence replays
cp /repo/go.sum go/go.sum 2>/dev/null || true
(cd go && go build -o ../bin/extract ./cmd/extract)
./bin/extract -repo /repo -out lean/ScriggoV/Gen || true
(cd lean && lake build && for d in Drivers/C*.lean; do lake build driver_$(basename $d .lean); done)
(cd go && for p in props/c*; do go build -tags verif -o ../bin/harness_$(basename $p | tr c C) ./$p; done)
echo setup done
