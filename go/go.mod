module verifharness

go 1.25.0

require (
	github.com/open2b/scriggo v0.0.0
	github.com/yuin/goldmark v1.7.16
	golang.org/x/tools v0.43.0
)

require (
	golang.org/x/mod v0.34.0 // indirect
	golang.org/x/sync v0.20.0 // indirect
	gopkg.in/yaml.v3 v3.0.1 // indirect
)

replace github.com/open2b/scriggo => /repo
