// Copyright 2024 The Go Authors. All rights reserved.
// Use of this source code is governed by a BSD-style
// license that can be found in the LICENSE file.

//go:build go1.23

package html

import "iter"

// Ancestors returns an iterator over the ancestors of n, starting with n.Parent.
//
// Mutating a Node or its parents while iterating may have unexpected results.
func (n *Node) Ancestors() iter.Seq[*Node] {
	_ = n.Parent // eager nil check

	return func(yield func(*Node) bool) {
		for p := n.Parent; p != nil && yield(p); p = p.Parent {
		}
	}
}

// ChildNodes returns an iterator over the immediate children of n,
// starting with n.FirstChild.
//
// Mutating a Node or its children while iterating may have unexpected results.
func (n *Node) ChildNodes() iter.Seq[*Node] {
	_ = n.FirstChild // eager nil check

	return func(yield func(*Node) bool) {
		for c := n.FirstChild; c != nil && yield(c); c = c.NextSibling {
		}
	}

}

// Descendants returns an iterator over all nodes recursively beneath
// n, excluding n itself. Nodes are visited in depth-first preorder.
//
// Mutating a Node or its descendants while iterating may have unexpected results.
func (n *Node) Descendants() iter.Seq[*Node] {
	_ = n.FirstChild // eager nil check

	return func(yield func(*Node) bool) {
		n.descendants(yield)
	}
}

func (n *Node) descendants(yield func(*Node) bool) bool {
	for c := range n.ChildNodes() {
		if !yield(c) || !c.descendants(yield) {
			return false
		}
	}
	return true
}
