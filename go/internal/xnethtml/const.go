// Copyright 2011 The Go Authors. All rights reserved.
// Use of this source code is governed by a BSD-style
// license that can be found in the LICENSE file.

package html

// Section 12.2.4.2 of the HTML5 specification says "The following elements
// have varying levels of special parsing rules".
// https://html.spec.whatwg.org/multipage/syntax.html#the-stack-of-open-elements
var isSpecialElementMap = map[string]bool{
	"address":    true,
	"applet":     true,
	"area":       true,
	"article":    true,
	"aside":      true,
	"base":       true,
	"basefont":   true,
	"bgsound":    true,
	"blockquote": true,
	"body":       true,
	"br":         true,
	"button":     true,
	"caption":    true,
	"center":     true,
	"col":        true,
	"colgroup":   true,
	"dd":         true,
	"details":    true,
	"dir":        true,
	"div":        true,
	"dl":         true,
	"dt":         true,
	"embed":      true,
	"fieldset":   true,
	"figcaption": true,
	"figure":     true,
	"footer":     true,
	"form":       true,
	"frame":      true,
	"frameset":   true,
	"h1":         true,
	"h2":         true,
	"h3":         true,
	"h4":         true,
	"h5":         true,
	"h6":         true,
	"head":       true,
	"header":     true,
	"hgroup":     true,
	"hr":         true,
	"html":       true,
	"iframe":     true,
	"img":        true,
	"input":      true,
	"keygen":     true, // "keygen" has been removed from the spec, but are kept here for backwards compatibility.
	"li":         true,
	"link":       true,
	"listing":    true,
	"main":       true,
	"marquee":    true,
	"menu":       true,
	"meta":       true,
	"nav":        true,
	"noembed":    true,
	"noframes":   true,
	"noscript":   true,
	"object":     true,
	"ol":         true,
	"p":          true,
	"param":      true,
	"plaintext":  true,
	"pre":        true,
	"script":     true,
	"section":    true,
	"select":     true,
	"source":     true,
	"style":      true,
	"summary":    true,
	"table":      true,
	"tbody":      true,
	"td":         true,
	"template":   true,
	"textarea":   true,
	"tfoot":      true,
	"th":         true,
	"thead":      true,
	"title":      true,
	"tr":         true,
	"track":      true,
	"ul":         true,
	"wbr":        true,
	"xmp":        true,
}

func isSpecialElement(element *Node) bool {
	switch element.Namespace {
	case "", "html":
		return isSpecialElementMap[element.Data]
	case "math":
		switch element.Data {
		case "mi", "mo", "mn", "ms", "mtext", "annotation-xml":
			return true
		}
	case "svg":
		switch element.Data {
		case "foreignObject", "desc", "title":
			return true
		}
	}
	return false
}
