// Copyright 2012 The Go Authors. All rights reserved.
// Use of this source code is governed by a BSD-style
// license that can be found in the LICENSE file.

// Package atom provides integer codes (also known as atoms) for a fixed set of
// frequently occurring HTML strings: tag names and attribute keys such as "p"
// and "id".
//
// Sharing an atom's name between all elements with the same tag can result in
// fewer string allocations when tokenizing and parsing HTML. Integer
// comparisons are also generally faster than string comparisons.
//
// The value of an atom's particular code is not guaranteed to stay the same
// between versions of this package. Neither is any ordering guaranteed:
// whether atom.H1 < atom.H2 may also change. The codes are not guaranteed to
// be dense. The only guarantees are that e.g. looking up "div" will yield
// atom.Div, calling atom.Div.String will return "div", and atom.Div != 0.
package atom // import "golang.org/x/net/html/atom"

// Atom is an integer code for a string. The zero value maps to "".
type Atom uint32

// String returns the atom's name.
func (a Atom) String() string {
	start := uint32(a >> 8)
	n := uint32(a & 0xff)
	if start+n > uint32(len(atomText)) {
		return ""
	}
	return atomText[start : start+n]
}

func (a Atom) string() string {
	return atomText[a>>8 : a>>8+a&0xff]
}

// fnv computes the FNV hash with an arbitrary starting value h.
func fnv(h uint32, s []byte) uint32 {
	for i := range s {
		h ^= uint32(s[i])
		h *= 16777619
	}
	return h
}

func match(s string, t []byte) bool {
	for i, c := range t {
		if s[i] != c {
			return false
		}
	}
	return true
}

// Lookup returns the atom whose name is s. It returns zero if there is no
// such atom. The lookup is case sensitive.
func Lookup(s []byte) Atom {
	if len(s) == 0 || len(s) > maxAtomLen {
		return 0
	}
	h := fnv(hash0, s)
	if a := table[h&uint32(len(table)-1)]; int(a&0xff) == len(s) && match(a.string(), s) {
		return a
	}
	if a := table[(h>>16)&uint32(len(table)-1)]; int(a&0xff) == len(s) && match(a.string(), s) {
		return a
	}
	return 0
}

// String returns a string whose contents are equal to s. In that sense, it is
// equivalent to string(s) but may be more efficient.
func String(s []byte) string {
	if a := Lookup(s); a != 0 {
		return a.String()
	}
	return string(s)
}
