// Copyright 2011 The Go Authors. All rights reserved.
// Use of this source code is governed by a BSD-style
// license that can be found in the LICENSE file.

package html

import (
	"verifharness/internal/xnethtml/atom"
)

// A NodeType is the type of a Node.
type NodeType uint32

const (
	ErrorNode NodeType = iota
	TextNode
	DocumentNode
	ElementNode
	CommentNode
	DoctypeNode
	// RawNode nodes are not returned by the parser, but can be part of the
	// Node tree passed to func Render to insert raw HTML (without escaping).
	// If so, this package makes no guarantee that the rendered HTML is secure
	// (from e.g. Cross Site Scripting attacks) or well-formed.
	RawNode
	scopeMarkerNode
)

// Section 12.2.4.3 says "The markers are inserted when entering applet,
// object, marquee, template, td, th, and caption elements, and are used
// to prevent formatting from "leaking" into applet, object, marquee,
// template, td, th, and caption elements".
var scopeMarker = Node{Type: scopeMarkerNode}

// A Node consists of a NodeType and some Data (tag name for element nodes,
// content for text) and are part of a tree of Nodes. Element nodes may also
// have a Namespace and contain a slice of Attributes. Data is unescaped, so
// that it looks like "a<b" rather than "a&lt;b". For element nodes, DataAtom
// is the atom for Data, or zero if Data is not a known tag name.
//
// Node trees may be navigated using the link fields (Parent,
// FirstChild, and so on) or a range loop over iterators such as
// [Node.Descendants].
//
// An empty Namespace implies a "http://www.w3.org/1999/xhtml" namespace.
// Similarly, "math" is short for "http://www.w3.org/1998/Math/MathML", and
// "svg" is short for "http://www.w3.org/2000/svg".
type Node struct {
	Parent, FirstChild, LastChild, PrevSibling, NextSibling *Node

	Type      NodeType
	DataAtom  atom.Atom
	Data      string
	Namespace string
	Attr      []Attribute
}

// InsertBefore inserts newChild as a child of n, immediately before oldChild
// in the sequence of n's children. oldChild may be nil, in which case newChild
// is appended to the end of n's children.
//
// It will panic if newChild already has a parent or siblings.
func (n *Node) InsertBefore(newChild, oldChild *Node) {
	if newChild.Parent != nil || newChild.PrevSibling != nil || newChild.NextSibling != nil {
		panic("html: InsertBefore called for an attached child Node")
	}
	var prev, next *Node
	if oldChild != nil {
		prev, next = oldChild.PrevSibling, oldChild
	} else {
		prev = n.LastChild
	}
	if prev != nil {
		prev.NextSibling = newChild
	} else {
		n.FirstChild = newChild
	}
	if next != nil {
		next.PrevSibling = newChild
	} else {
		n.LastChild = newChild
	}
	newChild.Parent = n
	newChild.PrevSibling = prev
	newChild.NextSibling = next
}

// AppendChild adds a node c as a child of n.
//
// It will panic if c already has a parent or siblings.
func (n *Node) AppendChild(c *Node) {
	if c.Parent != nil || c.PrevSibling != nil || c.NextSibling != nil {
		panic("html: AppendChild called for an attached child Node")
	}
	last := n.LastChild
	if last != nil {
		last.NextSibling = c
	} else {
		n.FirstChild = c
	}
	n.LastChild = c
	c.Parent = n
	c.PrevSibling = last
}

// RemoveChild removes a node c that is a child of n. Afterwards, c will have
// no parent and no siblings.
//
// It will panic if c's parent is not n.
func (n *Node) RemoveChild(c *Node) {
	if c.Parent != n {
		panic("html: RemoveChild called for a non-child Node")
	}
	if n.FirstChild == c {
		n.FirstChild = c.NextSibling
	}
	if c.NextSibling != nil {
		c.NextSibling.PrevSibling = c.PrevSibling
	}
	if n.LastChild == c {
		n.LastChild = c.PrevSibling
	}
	if c.PrevSibling != nil {
		c.PrevSibling.NextSibling = c.NextSibling
	}
	c.Parent = nil
	c.PrevSibling = nil
	c.NextSibling = nil
}

// reparentChildren reparents all of src's child nodes to dst.
func reparentChildren(dst, src *Node) {
	for {
		child := src.FirstChild
		if child == nil {
			break
		}
		src.RemoveChild(child)
		dst.AppendChild(child)
	}
}

// clone returns a new node with the same type, data and attributes.
// The clone has no parent, no siblings and no children.
func (n *Node) clone() *Node {
	m := &Node{
		Type:     n.Type,
		DataAtom: n.DataAtom,
		Data:     n.Data,
		Attr:     make([]Attribute, len(n.Attr)),
	}
	copy(m.Attr, n.Attr)
	return m
}

// nodeStack is a stack of nodes.
type nodeStack []*Node

// pop pops the stack. It will panic if s is empty.
func (s *nodeStack) pop() *Node {
	i := len(*s)
	n := (*s)[i-1]
	*s = (*s)[:i-1]
	return n
}

// top returns the most recently pushed node, or nil if s is empty.
func (s *nodeStack) top() *Node {
	if i := len(*s); i > 0 {
		return (*s)[i-1]
	}
	return nil
}

// index returns the index of the top-most occurrence of n in the stack, or -1
// if n is not present.
func (s *nodeStack) index(n *Node) int {
	for i := len(*s) - 1; i >= 0; i-- {
		if (*s)[i] == n {
			return i
		}
	}
	return -1
}

// contains returns whether a is within s.
func (s *nodeStack) contains(a atom.Atom) bool {
	for _, n := range *s {
		if n.DataAtom == a && n.Namespace == "" {
			return true
		}
	}
	return false
}

// insert inserts a node at the given index.
func (s *nodeStack) insert(i int, n *Node) {
	(*s) = append(*s, nil)
	copy((*s)[i+1:], (*s)[i:])
	(*s)[i] = n
}

// remove removes a node from the stack. It is a no-op if n is not present.
func (s *nodeStack) remove(n *Node) {
	i := s.index(n)
	if i == -1 {
		return
	}
	copy((*s)[i:], (*s)[i+1:])
	j := len(*s) - 1
	(*s)[j] = nil
	*s = (*s)[:j]
}

type insertionModeStack []insertionMode

func (s *insertionModeStack) pop() (im insertionMode) {
	i := len(*s)
	im = (*s)[i-1]
	*s = (*s)[:i-1]
	return im
}

func (s *insertionModeStack) top() insertionMode {
	if i := len(*s); i > 0 {
		return (*s)[i-1]
	}
	return nil
}
