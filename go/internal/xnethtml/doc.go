// Copyright 2010 The Go Authors. All rights reserved.
// Use of this source code is governed by a BSD-style
// license that can be found in the LICENSE file.

/*
Package html implements an HTML5-compliant tokenizer and parser.

Tokenization is done by creating a Tokenizer for an io.Reader r. It is the
caller's responsibility to ensure that r provides UTF-8 encoded HTML.

	z := html.NewTokenizer(r)

Given a Tokenizer z, the HTML is tokenized by repeatedly calling z.Next(),
which parses the next token and returns its type, or an error:

	for {
		tt := z.Next()
		if tt == html.ErrorToken {
			// ...
			return ...
		}
		// Process the current token.
	}

There are two APIs for retrieving the current token. The high-level API is to
call Token; the low-level API is to call Text or TagName / TagAttr. Both APIs
allow optionally calling Raw after Next but before Token, Text, TagName, or
TagAttr. In EBNF notation, the valid call sequence per token is:

	Next {Raw} [ Token | Text | TagName {TagAttr} ]

Token returns an independent data structure that completely describes a token.
Entities (such as "&lt;") are unescaped, tag names and attribute keys are
lower-cased, and attributes are collected into a []Attribute. For example:

	for {
		if z.Next() == html.ErrorToken {
			// Returning io.EOF indicates success.
			return z.Err()
		}
		emitToken(z.Token())
	}

The low-level API performs fewer allocations and copies, but the contents of
the []byte values returned by Text, TagName and TagAttr may change on the next
call to Next. For example, to extract an HTML page's anchor text:

	depth := 0
	for {
		tt := z.Next()
		switch tt {
		case html.ErrorToken:
			return z.Err()
		case html.TextToken:
			if depth > 0 {
				// emitBytes should copy the []byte it receives,
				// if it doesn't process it immediately.
				emitBytes(z.Text())
			}
		case html.StartTagToken, html.EndTagToken:
			tn, _ := z.TagName()
			if len(tn) == 1 && tn[0] == 'a' {
				if tt == html.StartTagToken {
					depth++
				} else {
					depth--
				}
			}
		}
	}

Parsing is done by calling Parse with an io.Reader, which returns the root of
the parse tree (the document element) as a *Node. It is the caller's
responsibility to ensure that the Reader provides UTF-8 encoded HTML. For
example, to process each anchor node in depth-first order:

	doc, err := html.Parse(r)
	if err != nil {
		// ...
	}
	for n := range doc.Descendants() {
		if n.Type == html.ElementNode && n.Data == "a" {
			// Do something with n...
		}
	}

The relevant specifications include:
https://html.spec.whatwg.org/multipage/syntax.html and
https://html.spec.whatwg.org/multipage/syntax.html#tokenization

# Security Considerations

Care should be taken when parsing and interpreting HTML, whether full documents
or fragments, within the framework of the HTML specification, especially with
regard to untrusted inputs.

This package provides both a tokenizer and a parser, which implement the
tokenization, and tokenization and tree construction stages of the WHATWG HTML
parsing specification respectively. While the tokenizer parses and normalizes
individual HTML tokens, only the parser constructs the DOM tree from the
tokenized HTML, as described in the tree construction stage of the
specification, dynamically modifying or extending the document's DOM tree.

If your use case requires semantically well-formed HTML documents, as defined by
the WHATWG specification, the parser should be used rather than the tokenizer.

In security contexts, if trust decisions are being made using the tokenized or
parsed content, the input must be re-serialized (for instance by using Render or
Token.String) in order for those trust decisions to hold, as the process of
tokenization or parsing may alter the content.
*/
package html // import "golang.org/x/net/html"

// The tokenization algorithm implemented by this package is not a line-by-line
// transliteration of the relatively verbose state-machine in the WHATWG
// specification. A more direct approach is used instead, where the program
// counter implies the state, such as whether it is tokenizing a tag or a text
// node. Specification compliance is verified by checking expected and actual
// outputs over a test suite rather than aiming for algorithmic fidelity.

// TODO(nigeltao): Does a DOM API belong in this package or a separate one?
// TODO(nigeltao): How does parsing interact with a JavaScript engine?
