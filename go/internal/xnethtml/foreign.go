// Copyright 2011 The Go Authors. All rights reserved.
// Use of this source code is governed by a BSD-style
// license that can be found in the LICENSE file.

package html

import (
	"strings"
)

func adjustAttributeNames(aa []Attribute, nameMap map[string]string) {
	for i := range aa {
		if newName, ok := nameMap[aa[i].Key]; ok {
			aa[i].Key = newName
		}
	}
}

func adjustForeignAttributes(aa []Attribute) {
	for i, a := range aa {
		if a.Key == "" || a.Key[0] != 'x' {
			continue
		}
		switch a.Key {
		case "xlink:actuate", "xlink:arcrole", "xlink:href", "xlink:role", "xlink:show",
			"xlink:title", "xlink:type", "xml:base", "xml:lang", "xml:space", "xmlns:xlink":
			j := strings.Index(a.Key, ":")
			aa[i].Namespace = a.Key[:j]
			aa[i].Key = a.Key[j+1:]
		}
	}
}

func htmlIntegrationPoint(n *Node) bool {
	if n.Type != ElementNode {
		return false
	}
	switch n.Namespace {
	case "math":
		if n.Data == "annotation-xml" {
			for _, a := range n.Attr {
				if a.Key == "encoding" {
					if strings.EqualFold(a.Val, "text/html") || strings.EqualFold(a.Val, "application/xhtml+xml") {
						return true
					}
				}
			}
		}
	case "svg":
		switch n.Data {
		case "desc", "foreignObject", "title":
			return true
		}
	}
	return false
}

func mathMLTextIntegrationPoint(n *Node) bool {
	if n.Namespace != "math" {
		return false
	}
	switch n.Data {
	case "mi", "mo", "mn", "ms", "mtext":
		return true
	}
	return false
}

// Section 12.2.6.5.
var breakout = map[string]bool{
	"b":          true,
	"big":        true,
	"blockquote": true,
	"body":       true,
	"br":         true,
	"center":     true,
	"code":       true,
	"dd":         true,
	"div":        true,
	"dl":         true,
	"dt":         true,
	"em":         true,
	"embed":      true,
	"h1":         true,
	"h2":         true,
	"h3":         true,
	"h4":         true,
	"h5":         true,
	"h6":         true,
	"head":       true,
	"hr":         true,
	"i":          true,
	"img":        true,
	"li":         true,
	"listing":    true,
	"menu":       true,
	"meta":       true,
	"nobr":       true,
	"ol":         true,
	"p":          true,
	"pre":        true,
	"ruby":       true,
	"s":          true,
	"small":      true,
	"span":       true,
	"strong":     true,
	"strike":     true,
	"sub":        true,
	"sup":        true,
	"table":      true,
	"tt":         true,
	"u":          true,
	"ul":         true,
	"var":        true,
}

// Section 12.2.6.5.
var svgTagNameAdjustments = map[string]string{
	"altglyph":            "altGlyph",
	"altglyphdef":         "altGlyphDef",
	"altglyphitem":        "altGlyphItem",
	"animatecolor":        "animateColor",
	"animatemotion":       "animateMotion",
	"animatetransform":    "animateTransform",
	"clippath":            "clipPath",
	"feblend":             "feBlend",
	"fecolormatrix":       "feColorMatrix",
	"fecomponenttransfer": "feComponentTransfer",
	"fecomposite":         "feComposite",
	"feconvolvematrix":    "feConvolveMatrix",
	"fediffuselighting":   "feDiffuseLighting",
	"fedisplacementmap":   "feDisplacementMap",
	"fedistantlight":      "feDistantLight",
	"feflood":             "feFlood",
	"fefunca":             "feFuncA",
	"fefuncb":             "feFuncB",
	"fefuncg":             "feFuncG",
	"fefuncr":             "feFuncR",
	"fegaussianblur":      "feGaussianBlur",
	"feimage":             "feImage",
	"femerge":             "feMerge",
	"femergenode":         "feMergeNode",
	"femorphology":        "feMorphology",
	"feoffset":            "feOffset",
	"fepointlight":        "fePointLight",
	"fespecularlighting":  "feSpecularLighting",
	"fespotlight":         "feSpotLight",
	"fetile":              "feTile",
	"feturbulence":        "feTurbulence",
	"foreignobject":       "foreignObject",
	"glyphref":            "glyphRef",
	"lineargradient":      "linearGradient",
	"radialgradient":      "radialGradient",
	"textpath":            "textPath",
}

// Section 12.2.6.1
var mathMLAttributeAdjustments = map[string]string{
	"definitionurl": "definitionURL",
}

var svgAttributeAdjustments = map[string]string{
	"attributename":       "attributeName",
	"attributetype":       "attributeType",
	"basefrequency":       "baseFrequency",
	"baseprofile":         "baseProfile",
	"calcmode":            "calcMode",
	"clippathunits":       "clipPathUnits",
	"diffuseconstant":     "diffuseConstant",
	"edgemode":            "edgeMode",
	"filterunits":         "filterUnits",
	"glyphref":            "glyphRef",
	"gradienttransform":   "gradientTransform",
	"gradientunits":       "gradientUnits",
	"kernelmatrix":        "kernelMatrix",
	"kernelunitlength":    "kernelUnitLength",
	"keypoints":           "keyPoints",
	"keysplines":          "keySplines",
	"keytimes":            "keyTimes",
	"lengthadjust":        "lengthAdjust",
	"limitingconeangle":   "limitingConeAngle",
	"markerheight":        "markerHeight",
	"markerunits":         "markerUnits",
	"markerwidth":         "markerWidth",
	"maskcontentunits":    "maskContentUnits",
	"maskunits":           "maskUnits",
	"numoctaves":          "numOctaves",
	"pathlength":          "pathLength",
	"patterncontentunits": "patternContentUnits",
	"patterntransform":    "patternTransform",
	"patternunits":        "patternUnits",
	"pointsatx":           "pointsAtX",
	"pointsaty":           "pointsAtY",
	"pointsatz":           "pointsAtZ",
	"preservealpha":       "preserveAlpha",
	"preserveaspectratio": "preserveAspectRatio",
	"primitiveunits":      "primitiveUnits",
	"refx":                "refX",
	"refy":                "refY",
	"repeatcount":         "repeatCount",
	"repeatdur":           "repeatDur",
	"requiredextensions":  "requiredExtensions",
	"requiredfeatures":    "requiredFeatures",
	"specularconstant":    "specularConstant",
	"specularexponent":    "specularExponent",
	"spreadmethod":        "spreadMethod",
	"startoffset":         "startOffset",
	"stddeviation":        "stdDeviation",
	"stitchtiles":         "stitchTiles",
	"surfacescale":        "surfaceScale",
	"systemlanguage":      "systemLanguage",
	"tablevalues":         "tableValues",
	"targetx":             "targetX",
	"targety":             "targetY",
	"textlength":          "textLength",
	"viewbox":             "viewBox",
	"viewtarget":          "viewTarget",
	"xchannelselector":    "xChannelSelector",
	"ychannelselector":    "yChannelSelector",
	"zoomandpan":          "zoomAndPan",
}
