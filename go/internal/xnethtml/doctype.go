// Copyright 2011 The Go Authors. All rights reserved.
// Use of this source code is governed by a BSD-style
// license that can be found in the LICENSE file.

package html

import (
	"strings"
)

// parseDoctype parses the data from a DoctypeToken into a name,
// public identifier, and system identifier. It returns a Node whose Type
// is DoctypeNode, whose Data is the name, and which has attributes
// named "system" and "public" for the two identifiers if they were present.
// quirks is whether the document should be parsed in "quirks mode".
func parseDoctype(s string) (n *Node, quirks bool) {
	n = &Node{Type: DoctypeNode}

	// Find the name.
	space := strings.IndexAny(s, whitespace)
	if space == -1 {
		space = len(s)
	}
	n.Data = s[:space]
	// The comparison to "html" is case-sensitive.
	if n.Data != "html" {
		quirks = true
	}
	n.Data = strings.ToLower(n.Data)
	s = strings.TrimLeft(s[space:], whitespace)

	if len(s) < 6 {
		// It can't start with "PUBLIC" or "SYSTEM".
		// Ignore the rest of the string.
		return n, quirks || s != ""
	}

	key := strings.ToLower(s[:6])
	s = s[6:]
	for key == "public" || key == "system" {
		s = strings.TrimLeft(s, whitespace)
		if s == "" {
			break
		}
		quote := s[0]
		if quote != '"' && quote != '\'' {
			break
		}
		s = s[1:]
		q := strings.IndexRune(s, rune(quote))
		var id string
		if q == -1 {
			id = s
			s = ""
		} else {
			id = s[:q]
			s = s[q+1:]
		}
		n.Attr = append(n.Attr, Attribute{Key: key, Val: id})
		if key == "public" {
			key = "system"
		} else {
			key = ""
		}
	}

	if key != "" || s != "" {
		quirks = true
	} else if len(n.Attr) > 0 {
		if n.Attr[0].Key == "public" {
			public := strings.ToLower(n.Attr[0].Val)
			switch public {
			case "-//w3o//dtd w3 html strict 3.0//en//", "-/w3d/dtd html 4.0 transitional/en", "html":
				quirks = true
			default:
				for _, q := range quirkyIDs {
					if strings.HasPrefix(public, q) {
						quirks = true
						break
					}
				}
			}
			// The following two public IDs only cause quirks mode if there is no system ID.
			if len(n.Attr) == 1 && (strings.HasPrefix(public, "-//w3c//dtd html 4.01 frameset//") ||
				strings.HasPrefix(public, "-//w3c//dtd html 4.01 transitional//")) {
				quirks = true
			}
		}
		if lastAttr := n.Attr[len(n.Attr)-1]; lastAttr.Key == "system" &&
			strings.EqualFold(lastAttr.Val, "http://www.ibm.com/data/dtd/v11/ibmxhtml1-transitional.dtd") {
			quirks = true
		}
	}

	return n, quirks
}

// quirkyIDs is a list of public doctype identifiers that cause a document
// to be interpreted in quirks mode. The identifiers should be in lower case.
var quirkyIDs = []string{
	"+//silmaril//dtd html pro v0r11 19970101//",
	"-//advasoft ltd//dtd html 3.0 aswedit + extensions//",
	"-//as//dtd html 3.0 aswedit + extensions//",
	"-//ietf//dtd html 2.0 level 1//",
	"-//ietf//dtd html 2.0 level 2//",
	"-//ietf//dtd html 2.0 strict level 1//",
	"-//ietf//dtd html 2.0 strict level 2//",
	"-//ietf//dtd html 2.0 strict//",
	"-//ietf//dtd html 2.0//",
	"-//ietf//dtd html 2.1e//",
	"-//ietf//dtd html 3.0//",
	"-//ietf//dtd html 3.2 final//",
	"-//ietf//dtd html 3.2//",
	"-//ietf//dtd html 3//",
	"-//ietf//dtd html level 0//",
	"-//ietf//dtd html level 1//",
	"-//ietf//dtd html level 2//",
	"-//ietf//dtd html level 3//",
	"-//ietf//dtd html strict level 0//",
	"-//ietf//dtd html strict level 1//",
	"-//ietf//dtd html strict level 2//",
	"-//ietf//dtd html strict level 3//",
	"-//ietf//dtd html strict//",
	"-//ietf//dtd html//",
	"-//metrius//dtd metrius presentational//",
	"-//microsoft//dtd internet explorer 2.0 html strict//",
	"-//microsoft//dtd internet explorer 2.0 html//",
	"-//microsoft//dtd internet explorer 2.0 tables//",
	"-//microsoft//dtd internet explorer 3.0 html strict//",
	"-//microsoft//dtd internet explorer 3.0 html//",
	"-//microsoft//dtd internet explorer 3.0 tables//",
	"-//netscape comm. corp.//dtd html//",
	"-//netscape comm. corp.//dtd strict html//",
	"-//o'reilly and associates//dtd html 2.0//",
	"-//o'reilly and associates//dtd html extended 1.0//",
	"-//o'reilly and associates//dtd html extended relaxed 1.0//",
	"-//softquad software//dtd hotmetal pro 6.0::19990601::extensions to html 4.0//",
	"-//softquad//dtd hotmetal pro 4.0::19971010::extensions to html 4.0//",
	"-//spyglass//dtd html 2.0 extended//",
	"-//sq//dtd html 2.0 hotmetal + extensions//",
	"-//sun microsystems corp.//dtd hotjava html//",
	"-//sun microsystems corp.//dtd hotjava strict html//",
	"-//w3c//dtd html 3 1995-03-24//",
	"-//w3c//dtd html 3.2 draft//",
	"-//w3c//dtd html 3.2 final//",
	"-//w3c//dtd html 3.2//",
	"-//w3c//dtd html 3.2s draft//",
	"-//w3c//dtd html 4.0 frameset//",
	"-//w3c//dtd html 4.0 transitional//",
	"-//w3c//dtd html experimental 19960712//",
	"-//w3c//dtd html experimental 970421//",
	"-//w3c//dtd w3 html//",
	"-//w3o//dtd w3 html 3.0//",
	"-//webtechs//dtd mozilla html 2.0//",
	"-//webtechs//dtd mozilla html//",
}
