// Package hx is the frame every property harness (go/props/cXX, one command per property)
// shares: it runs, for one property, the correspondence check between the Lean model
// (through the driver's line protocol) and the real code in /repo, evaluates the property's
// own oracle on the real code's behaviour, and writes a JSON result for ./check.
package hx

import (
	"encoding/json"
	"flag"
	"fmt"
	"os"

	"verifharness/internal/proto"
)

type Finding struct {
	Property string `json:"property"`
	ID       string `json:"id"`
	What     string `json:"what"`
	Minimal  string `json:"minimal"`
	Status   string `json:"status"` // "open" or "fixed"
}

type Ctx struct {
	Prop     string
	Tier     string
	Seed     uint64
	R        *proto.Rand
	D        *proto.Driver
	Res      *proto.Result
	Findings []Finding
	Replay   string
}

func (c *Ctx) Quick() bool { return c.Tier != "thorough" }

// N picks a case count by tier.
func (c *Ctx) N(quick, thorough int) int {
	if c.Quick() {
		return quick
	}
	return thorough
}

type Runner func(*Ctx) error

// Main is the main function of a property harness.
func Main(property string, run Runner) {
	prop := flag.String("prop", property, "property id")
	tier := flag.String("tier", "quick", "quick|thorough")
	seed := flag.Uint64("seed", 1, "seed")
	driver := flag.String("driver", "", "path of the Lean driver executable")
	out := flag.String("out", "", "result file")
	findings := flag.String("findings", "", "known_findings.json")
	replay := flag.String("replay", "", "replay file")
	flag.Parse()
	ctx := &Ctx{Prop: *prop, Tier: *tier, Seed: *seed, R: proto.NewRand(*seed), Replay: *replay}
	ctx.Res = proto.NewResult(*prop, *tier, *seed)
	if *findings != "" {
		data, err := os.ReadFile(*findings)
		if err == nil {
			var all struct {
				Findings []Finding `json:"findings"`
			}
			if err := json.Unmarshal(data, &all); err != nil {
				fmt.Fprintf(os.Stderr, "harness: %s: %v\n", *findings, err)
				os.Exit(2)
			}
			for _, f := range all.Findings {
				if f.Property == *prop && f.Status != "fixed" {
					ctx.Findings = append(ctx.Findings, f)
				}
			}
		}
	}
	if *driver != "" {
		d, err := proto.Start(*driver)
		if err != nil {
			fmt.Fprintf(os.Stderr, "harness: cannot start driver: %v\n", err)
			os.Exit(2)
		}
		ctx.D = d
		defer d.Close()
	}
	if err := run(ctx); err != nil {
		fmt.Fprintf(os.Stderr, "harness: %s: %v\n", *prop, err)
		os.Exit(2)
	}
	data, _ := json.MarshalIndent(ctx.Res, "", " ")
	if *out == "" {
		os.Stdout.Write(data)
		fmt.Println()
	} else if err := os.WriteFile(*out, data, 0o644); err != nil {
		fmt.Fprintln(os.Stderr, err)
		os.Exit(2)
	}
}

// HasFinding tells whether id is an open known finding of this property.
func (c *Ctx) HasFinding(id string) bool {
	for _, f := range c.Findings {
		if f.ID == id {
			return true
		}
	}
	return false
}

// Known returns id if it is listed as an open known finding, "" otherwise.
func (c *Ctx) Known(id string) string {
	if c.HasFinding(id) {
		return id
	}
	return ""
}

// ShrinkBytes is delta debugging on a byte string: smallest input still failing.
func ShrinkBytes(b []byte, failing func([]byte) bool) []byte {
	cur := append([]byte(nil), b...)
	for chunk := len(cur) / 2; chunk >= 1; {
		progressed := false
		for i := 0; i+chunk <= len(cur); {
			cand := append(append([]byte(nil), cur[:i]...), cur[i+chunk:]...)
			if failing(cand) {
				cur = cand
				progressed = true
			} else {
				i += chunk
			}
		}
		if !progressed || chunk > len(cur) {
			chunk /= 2
		}
		if chunk > len(cur)/2 && chunk > 1 {
			chunk = len(cur) / 2
		}
	}
	// simplify bytes towards 'a'
	for i := range cur {
		if cur[i] != 'a' {
			old := cur[i]
			cur[i] = 'a'
			if !failing(cur) {
				cur[i] = old
			}
		}
	}
	return cur
}
