// Package proto holds what every property runner of the harness shares: the line-protocol
// client for the Lean driver, the single PRNG, hex codec and the result record.
package proto

import (
	"bufio"
	"encoding/hex"
	"fmt"
	"io"
	"os"
	"os/exec"
	"sort"
	"strings"
)

// Driver talks to the Lean driver executable over stdin/stdout, one line each way.
type Driver struct {
	cmd *exec.Cmd
	in  io.WriteCloser
	out *bufio.Reader
}

func Start(path string) (*Driver, error) {
	cmd := exec.Command(path)
	in, err := cmd.StdinPipe()
	if err != nil {
		return nil, err
	}
	out, err := cmd.StdoutPipe()
	if err != nil {
		return nil, err
	}
	cmd.Stderr = os.Stderr
	if err := cmd.Start(); err != nil {
		return nil, err
	}
	return &Driver{cmd: cmd, in: in, out: bufio.NewReaderSize(out, 1<<20)}, nil
}

// Batch sends every line and returns one response per line, in order.
func (d *Driver) Batch(lines []string) ([]string, error) {
	errc := make(chan error, 1)
	go func() {
		w := bufio.NewWriterSize(d.in, 1<<20)
		for _, l := range lines {
			if strings.ContainsAny(l, "\n\r") {
				errc <- fmt.Errorf("protocol line contains a newline: %q", l)
				return
			}
			w.WriteString(l)
			w.WriteByte('\n')
		}
		w.WriteString("#flush\n")
		errc <- w.Flush()
	}()
	res := make([]string, 0, len(lines))
	for range lines {
		s, err := d.out.ReadString('\n')
		if err != nil {
			return res, fmt.Errorf("driver closed after %d of %d responses: %v", len(res), len(lines), err)
		}
		res = append(res, strings.TrimRight(s, "\r\n"))
	}
	if err := <-errc; err != nil {
		return res, err
	}
	return res, nil
}

func (d *Driver) Ask(line string) (string, error) {
	r, err := d.Batch([]string{line})
	if err != nil {
		return "", err
	}
	return r[0], nil
}

func (d *Driver) Close() {
	d.in.Close()
	d.cmd.Wait()
}

// Hex is the protocol's byte-string encoding ("-" for empty).
func Hex(b []byte) string {
	if len(b) == 0 {
		return "-"
	}
	return hex.EncodeToString(b)
}

func UnHex(s string) ([]byte, error) {
	if s == "-" {
		return nil, nil
	}
	return hex.DecodeString(s)
}

// Rand is splitmix64; every random choice of a run derives from one state.
type Rand struct{ s uint64 }

func NewRand(seed uint64) *Rand {
	// mix the seed so that neighbouring seeds give unrelated streams (the state increment of
	// splitmix64 must not be a multiple of the seed spacing)
	z := seed + 0x632BE59BD9B4E019
	z = (z ^ (z >> 30)) * 0xBF58476D1CE4E5B9
	z = (z ^ (z >> 27)) * 0x94D049BB133111EB
	return &Rand{s: z ^ (z >> 31)}
}

func (r *Rand) U64() uint64 {
	r.s += 0x9E3779B97F4A7C15
	z := r.s
	z = (z ^ (z >> 30)) * 0xBF58476D1CE4E5B9
	z = (z ^ (z >> 27)) * 0x94D049BB133111EB
	return z ^ (z >> 31)
}
func (r *Rand) Intn(n int) int {
	if n <= 0 {
		return 0
	}
	return int(r.U64() % uint64(n))
}
func (r *Rand) Bool() bool { return r.U64()&1 == 1 }
func (r *Rand) Pick(ss []string) string { return ss[r.Intn(len(ss))] }
func (r *Rand) Bytes(n int) []byte {
	b := make([]byte, n)
	for i := range b {
		b[i] = byte(r.U64())
	}
	return b
}

// Break is one thing that no longer checks: a difference between model and code
// (kind "correspondence") or an input on which the property itself fails on the real
// code (kind "property").
type Break struct {
	Kind    string `json:"kind"`
	Name    string `json:"name"`            // which correspondence / which clause of the oracle
	Case    string `json:"case"`            // protocol line(s)
	Human   string `json:"human,omitempty"` // readable source of the case
	Impl    string `json:"impl"`
	Model   string `json:"model"`
	Finding string `json:"finding,omitempty"` // id in known_findings.json this matches, if any
}

// Result is what a property runner reports to ./check.
type Result struct {
	Property    string         `json:"property"`
	Tier        string         `json:"tier"`
	Seed        uint64         `json:"seed"`
	Evaluations int            `json:"evaluations"`
	Distinct    int            `json:"distinct_nontrivial"`
	Rule        string         `json:"rule"`
	Samples     []any          `json:"samples"`
	Histogram   map[string]int `json:"histogram"`
	Breaks      []Break        `json:"breaks"`
	KnownSeen   []string       `json:"known_seen"` // known findings that reproduced this run
	SpecChecks  map[string]int `json:"spec_validation,omitempty"`
	Notes       []string       `json:"notes,omitempty"`
	distinct    map[string]bool
}

func NewResult(prop, tier string, seed uint64) *Result {
	return &Result{Property: prop, Tier: tier, Seed: seed, Histogram: map[string]int{},
		SpecChecks: map[string]int{}, distinct: map[string]bool{}, Breaks: []Break{}, KnownSeen: []string{}, Samples: []any{}}
}

// Count records one evaluated case; key identifies it for distinctness, nontrivial says
// whether it counts towards distinct_nontrivial under the runner's rule.
func (r *Result) Count(key string, nontrivial bool) {
	r.Evaluations++
	if nontrivial && !r.distinct[key] {
		r.distinct[key] = true
		r.Distinct++
	}
}
func (r *Result) Hist(k string) { r.Histogram[k]++ }
func (r *Result) Sample(v any) {
	if len(r.Samples) < 8 {
		r.Samples = append(r.Samples, v)
	}
}
func (r *Result) AddBreak(b Break) {
	// keep the list short: one per (kind,name,finding) plus the first few unknown ones
	n := 0
	for _, x := range r.Breaks {
		if x.Kind == b.Kind && x.Name == b.Name && x.Finding == b.Finding {
			n++
		}
	}
	if n < 3 {
		r.Breaks = append(r.Breaks, b)
	}
	if b.Finding != "" {
		for _, k := range r.KnownSeen {
			if k == b.Finding {
				return
			}
		}
		r.KnownSeen = append(r.KnownSeen, b.Finding)
		sort.Strings(r.KnownSeen)
	}
}
