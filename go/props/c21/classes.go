package main

import (
	"go/ast"
	"go/parser"
	"go/token"
	"path"
	"regexp"
	"strconv"
	"strings"
	"unicode/utf8"

	"verifharness/props/c04/lexh"
)

// Finding classes (fixes/FINDING-CLASSES.md): a failing build is attributed to a recorded finding
// only if the class EXPLAINS it — the culprit of this run (the reported path and position) is what
// the class's cause produces, computed from the files and an independent reading of them, never
// from "it looks like". A class is active only while its recorded minimal input still fails and
// is explained by the class itself. Shrinking keeps the attribution (a candidate is accepted only
// if the same class — or none, like the original — explains it).
//
//	import-cycle-path-is-package the *CycleError of ParseProgram has the IMPORT PATH of the package that closes
//	     the cycle as path (parser_program.go: `path: p.Path`), the position is that of the import
//	     declaration in the importing file. culprit test: message ends with `import cycle not allowed`;
//	     the path is no file; the program's import graph (read with go/parser) has a cycle through it.
//	limit-error-location  the limit-exceeded errors of the emitter take their path from the function builder, which for
//	     the functions of a PROGRAM is the package name (`main:2:1: int registers count exceeded 127` for an excess in
//	     func main of main.go), and the synthetic function that initialises the package-level variables ($initvars,
//	     emitter.go emitPackage) has an empty position: `main:0:0`, and `p/p.go:0:0` for an imported package.
//	     culprit test: message `<kind> count exceeded <n>`; and either the path is no file of the case but the name
//	     of a package of the program (read with go/parser) and the position is 0:0 with initialised package-level
//	     variables in that package, or that of a function declaration/literal of that package; or the path is a file
//	     of the case, the position is 0:0 and its package declares initialised package-level variables.
//	template-initvars-no-position  the same synthetic function in TEMPLATES: the file-level variables of a template file that
//	     is checked as a package (a file that extends — it becomes an import of its layout — or an imported file) are
//	     initialised by a $initvars function built by emitPackage with the file's path but an empty position: an excess
//	     in the initialisers reads `index.html:0:0`. culprit test: a template build; message `<kind> count exceeded <n>`;
//	     position 0:0; the path is a file of the case that declares file-level variables with initialisers (read with a
//	     regular expression) and that extends or is imported by a file of the case (path resolved against the referrer).
//
// Cured by the second fix series, classes DELETED (nothing attributes a failure to them any more; their probes
// stay in classProbes as plain oracle inputs, so the defect coming back is a VIOLATION with a failing input):
// using-error-in-other-file (7c0e322), scope-error-path-of-extending-file (b1abf6a).
type findingClass struct {
	id      string
	explain func(b lexh.BuildCase, r lexh.BuildResult, clause string) bool
}

var extendsRe = regexp.MustCompile(`\{%%?-?\s*extends\s*"([^"]+)"`)

func fileOf(b lexh.BuildCase, p string) ([]byte, bool) {
	d, ok := b.Files[strings.TrimPrefix(p, "/")]
	return d, ok
}

func posIn(data []byte, r lexh.BuildResult) bool {
	if r.Start < 0 || r.Start > len(data) {
		return false
	}
	l, c := lexh.LineCol(data, r.Start)
	return l == r.Line && (!utf8.Valid(data) || c == r.Col)
}

var limitMsgRe = regexp.MustCompile(`^[A-Za-z][A-Za-z -]* count exceeded \d+$`)

// packageHasVars reports whether a Go file of the case belongs to the package named pkg
// and declares a package-level variable (read with go/parser).
func packageHasVars(b lexh.BuildCase, pkg string) bool {
	for n, d := range b.Files {
		if !strings.HasSuffix(n, ".go") {
			continue
		}
		f, _ := parser.ParseFile(token.NewFileSet(), n, d, parser.SkipObjectResolution)
		if f == nil || f.Name == nil || f.Name.Name != pkg {
			continue
		}
		for _, dd := range f.Decls {
			if gd, ok := dd.(*ast.GenDecl); ok && gd.Tok == token.VAR {
				for _, sp := range gd.Specs {
					if _, ok := sp.(*ast.ValueSpec); ok {
						return true
					}
				}
			}
		}
	}
	return false
}

var tmplVarRe = regexp.MustCompile(`(?:\{%%?-?|\n|;)\s*var\s+\w+[^=%\n]*=`)
var tmplImportRe = regexp.MustCompile(`(?:\{%%?-?|\n|;)\s*import\s*(?:\w+\s+|\.\s*)?"([^"]+)"`)

// templateIsPackage reports whether the template file name of the case is checked as a package: it
// extends, or a file of the case imports it (the written path resolved against the importing file).
func templateIsPackage(b lexh.BuildCase, name string) bool {
	if extendsRe.Match(b.Files[name]) {
		return true
	}
	for n, d := range b.Files {
		for _, m := range tmplImportRe.FindAllSubmatch(d, -1) {
			p := string(m[1])
			if strings.HasPrefix(p, "/") {
				p = p[1:]
			} else {
				p = path.Join(path.Dir(n), p)
			}
			if p == name {
				return true
			}
		}
	}
	return false
}

var findingClasses = []findingClass{
	{"template-initvars-no-position", func(b lexh.BuildCase, r lexh.BuildResult, clause string) bool {
		if b.Program() || !limitMsgRe.MatchString(r.Msg) || clause == "path-is-a-file-the-build-read" {
			return false
		}
		if r.Line != 0 || r.Col != 0 || r.Start != 0 || r.End != 0 {
			return false
		}
		d, ok := b.Files[r.Path]
		return ok && tmplVarRe.Match(d) && templateIsPackage(b, r.Path)
	}},
	{"limit-error-location", func(b lexh.BuildCase, r lexh.BuildResult, clause string) bool {
		if !limitMsgRe.MatchString(r.Msg) {
			return false
		}
		zero := r.Line == 0 && r.Col == 0 && r.Start == 0
		if d, isFile := fileOf(b, r.Path); isFile {
			// an imported package's initialiser function: the file is right, the position is empty
			f, _ := parser.ParseFile(token.NewFileSet(), r.Path, d, parser.PackageClauseOnly)
			return zero && f != nil && f.Name != nil && packageHasVars(b, f.Name.Name)
		}
		if zero {
			return packageHasVars(b, r.Path)
		}
		// the position is that of a function of the package whose name is given as path
		for n, d := range b.Files {
			if !strings.HasSuffix(n, ".go") || !posIn(d, r) {
				continue
			}
			f, _ := parser.ParseFile(token.NewFileSet(), n, d, parser.SkipObjectResolution)
			if f == nil || f.Name == nil || f.Name.Name != r.Path {
				continue
			}
			found := false
			ast.Inspect(f, func(x ast.Node) bool {
				switch fn := x.(type) {
				case *ast.FuncDecl:
					found = found || int(fn.Pos())-1 == r.Start
				case *ast.FuncLit:
					found = found || int(fn.Pos())-1 == r.Start
				}
				return !found
			})
			if found {
				return true
			}
		}
		return false
	}},
	{"import-cycle-path-is-package", func(b lexh.BuildCase, r lexh.BuildResult, clause string) bool {
		if !b.Program() || clause != "path-is-a-file-the-build-read" || !strings.HasSuffix(r.Msg, ": import cycle not allowed") {
			return false
		}
		if _, isFile := fileOf(b, r.Path); isFile {
			return false
		}
		return onImportCycle(b, r.Path)
	}},
}

// onImportCycle reads the import declarations of the program's files with go/parser and reports
// whether the package with import path p lies on an import cycle (a package that imports
// itself, `import "main"` included, is one).
func onImportCycle(b lexh.BuildCase, p string) bool {
	mod := ""
	if d, ok := b.Files["go.mod"]; ok {
		for _, ln := range strings.Split(string(d), "\n") {
			if f := strings.Fields(ln); len(f) == 2 && f[0] == "module" {
				mod = f[1]
			}
		}
	}
	edges := map[string][]string{}
	for n, d := range b.Files {
		if !strings.HasSuffix(n, ".go") {
			continue
		}
		pkg := "main"
		if dir := path.Dir(n); dir != "." {
			pkg = mod + "/" + dir
		}
		f, err := parser.ParseFile(token.NewFileSet(), n, d, parser.ImportsOnly)
		if f == nil || (err != nil && len(f.Imports) == 0) {
			continue
		}
		for _, im := range f.Imports {
			if v, err := strconv.Unquote(im.Path.Value); err == nil {
				edges[pkg] = append(edges[pkg], v)
			}
		}
	}
	// is p reachable from p?
	seen := map[string]bool{}
	var walk func(x string) bool
	walk = func(x string) bool {
		for _, y := range edges[x] {
			if y == p {
				return true
			}
			if !seen[y] {
				seen[y] = true
				if walk(y) {
					return true
				}
			}
		}
		return false
	}
	return walk(p)
}

// classOf returns the active class that explains the failing build ("" if none).
func classOf(active map[string]bool, b lexh.BuildCase, r lexh.BuildResult, clause string) string {
	for _, c := range findingClasses {
		if active[c.id] && c.explain(b, r, clause) {
			return c.id
		}
	}
	return ""
}

// classProbe is one input of a class's precision self-test: the class predicts that the oracle
// fails on it and that the class explains the failure (predicted) or that the build's error, if
// any, is consistent (a control).
type classProbe struct {
	class     string
	b         lexh.BuildCase
	predicted bool
}

// classProbes draws inputs around the cause of each class, including the variations where the
// defect does not show.
func classProbes() []classProbe {
	var out []classProbe
	t := func(class string, predicted bool, entry string, files ...string) {
		b := lexh.BuildCase{Kind: 't', Entry: entry, Files: map[string][]byte{}}
		for i := 0; i+1 < len(files); i += 2 {
			b.Files[files[i]] = []byte(files[i+1])
		}
		out = append(out, classProbe{class, b, predicted})
	}
	p := func(class string, predicted bool, files ...string) {
		b := lexh.BuildCase{Kind: 'p', Entry: "main.go", Files: map[string][]byte{}}
		for i := 0; i+1 < len(files); i += 2 {
			b.Files[files[i]] = []byte(files[i+1])
		}
		out = append(out, classProbe{class, b, predicted})
	}
	// limit-error-location: n package-level variables of one register kind around the limit of 127,
	// in package main and in an imported package of a module; controls: under the limit, the same excess inside
	// func main (reported with a file and a position), variables without initialisers
	{
		vars := func(n int, f string) string {
			var sb strings.Builder
			for i := 0; i < n; i++ {
				sb.WriteString(strings.ReplaceAll(f, "#", strconv.Itoa(i)))
			}
			return sb.String()
		}
		for _, f := range []string{"var v# = \"s#\"\n", "var v# = #\n", "var v# = #.5\n", "var v# = []int{#}\n"} {
			p("limit-error-location", true, "main.go", "package main\n"+vars(128, f)+"func main() {}\n")
			p("limit-error-location", true, "main.go", "package main\n"+vars(200, f)+"func main() {}\n")
			p("limit-error-location", false, "main.go", "package main\n"+vars(100, f)+"func main() {}\n")
			p("limit-error-location", true, "main.go", "package main\nfunc main() {\n"+vars(200, strings.Replace(f, "\n", "; _ = v#\n", 1))+"}\n")
		}
		p("limit-error-location", true, "main.go", "package main\n"+vars(200, "var v# string\n")+"func main() {}\n")
		p("limit-error-location", true, "go.mod", "module m\n", "main.go", "package main\nimport _ \"m/a\"\nfunc main() {}\n", "a/a.go", "package a\n"+vars(128, "var v# = \"s#\"\n"))
	}
	// template-initvars-no-position: n file-level string variables around the limit of 127 in a file that extends, in an
	// imported file (plain, rooted and relative spelling), and — controls — in a rendered file, in the built file, inside a
	// macro of an imported file (reported at the macro), under the limit
	{
		vars := func(n int, f string) string {
			var sb strings.Builder
			for i := 0; i < n; i++ {
				sb.WriteString(strings.ReplaceAll(f, "#", strconv.Itoa(i)))
			}
			return sb.String()
		}
		for _, f := range []string{"{% var v# = \"s#\" %}\n", "{% var v# = []int{#} %}\n"} {
			for _, n := range []int{128, 200} {
				t("template-initvars-no-position", true, "index.html", "index.html", "{% extends \"layout.html\" %}\n"+vars(n, f), "layout.html", "<p>\n")
				t("template-initvars-no-position", true, "a/index.html", "a/index.html", "{%% extends \"../l/layout.html\" %%}\n"+vars(n, f), "l/layout.html", "<p>\n")
				t("template-initvars-no-position", true, "index.html", "index.html", "{% import \"i.html\" %}\n", "i.html", "\n"+vars(n, f))
				t("template-initvars-no-position", true, "a/index.html", "a/index.html", "{% import \"/b/i.html\" %}\n", "b/i.html", vars(n, f))
				t("template-initvars-no-position", true, "a/index.html", "a/index.html", "{%% import \"s/i.html\" %%}\n", "a/s/i.html", vars(n, f))
				t("template-initvars-no-position", false, "index.html", "index.html", "{{ render \"r.html\" }}\n", "r.html", vars(n, f))
				t("template-initvars-no-position", false, "index.html", "index.html", "<p>\n"+vars(n, f))
			}
			t("template-initvars-no-position", false, "index.html", "index.html", "{% extends \"layout.html\" %}\n"+vars(100, f), "layout.html", "<p>\n")
			t("template-initvars-no-position", false, "index.html", "index.html", "{% import \"i.html\" %}\n", "i.html", vars(100, f))
			t("template-initvars-no-position", false, "index.html", "index.html", "{% import \"i.html\" %}\n", "i.html", "{% macro M %}"+vars(200, f)+"{% end %}")
		}
	}
	// using-error-in-other-file (cured by 7c0e322, class deleted: plain oracle inputs now; `predicted` = failed before the repair): a using statement (itea used or not) x a render before it, in its body, after it;
	// the using statement in the built file or in a rendered file that renders a third file; padding so
	// that the position is not a position of the other file by accident
	for _, pad := range []string{"", "some text\n", "<p>\n\n"} {
		for _, used := range []bool{true, false} {
			for _, stmt := range []string{"show %s", "var v = %s"} {
				val := "1"
				if used {
					val = "itea"
				}
				head := "{% " + strings.Replace(stmt, "%s", val, 1) + "; using %}"
				render := `{{ render "p.html" }}`
				// render in the body: the package check of p.html ends while the statement is unresolved, used or not
				t("using-error-in-other-file", true, "index.html", "index.html", pad+head+"a"+render+"b{% end %}", "p.html", "p")
				// render after the statement: only an unused itea is still unresolved
				t("using-error-in-other-file", !used, "index.html", "index.html", pad+head+"ab{% end %}\n"+render, "p.html", "p")
				// render before the statement: the error, if any, comes from the built file's own check
				t("using-error-in-other-file", false, "index.html", "index.html", pad+render+"\n"+head+"ab{% end %}", "p.html", "p")
				// no render
				t("using-error-in-other-file", false, "index.html", "index.html", pad+head+"ab{% end %}")
				// the statement in a rendered file that renders a third file in the body
				t("using-error-in-other-file", true, "index.html", "index.html", `x{{ render "q.html" }}`, "q.html", pad+head+"a"+render+"b{% end %}", "p.html", "p")
				// the second render of the same file is not checked again
				t("using-error-in-other-file", false, "index.html", "index.html", pad+render+head+"a"+render+"b{% end %}", "p.html", "p")
			}
		}
	}
	// import-cycle-path-is-package: cycles of length 1 to 3 entered from main, `import "main"`, and acyclic controls
	mod := "module m\n"
	for _, blank := range []string{"_ ", ""} {
		imp := func(ps ...string) string {
			s := ""
			for _, x := range ps {
				s += "import " + blank + strconv.Quote(x) + "\n"
			}
			return s
		}
		p("import-cycle-path-is-package", true, "go.mod", mod, "main.go", "package main\n"+imp("m/a")+"func main() {}\n", "a/a.go", "package a\n"+imp("m/a"))
		p("import-cycle-path-is-package", true, "go.mod", mod, "main.go", "package main\n"+imp("m/a")+"func main() {}\n", "a/a.go", "package a\n"+imp("m/b"), "b/b.go", "package b\n"+imp("m/a"))
		p("import-cycle-path-is-package", true, "go.mod", mod, "main.go", "package main\n"+imp("m/a")+"func main() {}\n", "a/a.go", "package a\n"+imp("m/b"), "b/b.go", "package b\n"+imp("m/c"), "c/c.go", "package c\n"+imp("m/a"))
		p("import-cycle-path-is-package", true, "go.mod", mod, "main.go", "package main\n"+imp("m/a")+"func main() {}\n", "a/a.go", "package a\n"+imp("m/b"), "b/b.go", "package b\n"+imp("m/c"), "c/c.go", "package c\n"+imp("m/b"))
		p("import-cycle-path-is-package", true, "go.mod", mod, "main.go", "package main\n"+imp("m/a")+"func main() {}\n", "a/a.go", "package a\n"+imp("main"))
		p("import-cycle-path-is-package", true, "go.mod", mod, "main.go", "package main\n"+imp("m/x", "m/a")+"func main() {}\n", "x/x.go", "package x\n", "a/a.go", "package a\n"+imp("m/x", "m/a"))
		p("import-cycle-path-is-package", false, "go.mod", mod, "main.go", "package main\n"+imp("m/a", "m/b")+"func main() {}\n", "a/a.go", "package a\n"+imp("m/b"), "b/b.go", "package b\n")
		p("import-cycle-path-is-package", false, "go.mod", mod, "main.go", "package main\n"+imp("m/a")+"func main() {}\n", "a/a.go", "package a\n")
	}
	// scope-error-path-of-extending-file (cured by b1abf6a, class deleted: plain oracle inputs now): label misuse in the layout / in a macro of the extending file / in a file
	// that extends nothing; the extending file is short, so that the layout's position is not one of its own
	for _, pad := range []string{"<html>\n<body>\n", "<html><head><title>t</title></head><body>"} {
		for _, bad := range []string{"{% break L %}", "{% continue L %}", "{% for %}{% break L %}{% end %}", "{% for %}{% continue L %}{% end %}", "{% L: for %}{% for %}{% break M %}{% end %}{% end %}"} {
			t("scope-error-path-of-extending-file", true, "index.html", "index.html", `{% extends "layout.html" %}`, "layout.html", pad+bad)
			t("scope-error-path-of-extending-file", true, "index.html", "index.html", `{% extends "layout.html" %}{% macro M %}m{% end %}`, "layout.html", pad+"{{ M() }}"+bad)
			t("scope-error-path-of-extending-file", false, "index.html", "index.html", `{% extends "layout.html" %}{% macro M %}`+bad+`{% end %}`, "layout.html", pad+"{{ M() }}")
			t("scope-error-path-of-extending-file", false, "index.html", "index.html", pad+bad)
			t("scope-error-path-of-extending-file", false, "index.html", "index.html", pad+`{{ render "p.html" }}`, "p.html", pad+bad)
		}
	}
	return out
}
