package main

import (
	"fmt"
	"strings"

	"verifharness/internal/proto"
	"verifharness/props/c04/lexh"
)

// Newline stream: a line terminator of every kind placed in every lexical state of the
// lexer, followed by a position probe.
//
// The matrix is  slot × escape × terminator × repetitions × probe × place × role:
//
//	slot        a source with one hole, named after the lexer state the hole is in (template
//	            text, tag, attribute name/value, script and style bodies, JS/CSS/JSON strings and
//	            comments, CDATA, raw content and its delimiters, {{ }}, {% %}, {%% %%}, {# #},
//	            Go strings and comments inside code, Markdown text, escapes, code blocks and
//	            URLs, macro/using bodies with a declared format; JS, CSS, JSON, text files and
//	            programs);
//	escape      what stands directly before the terminator: nothing, a lone backslash (a line
//	            continuation) and, in string states, every escape sequence;
//	terminator  LF, CR LF, CR alone, and characters that are NOT line terminators for the lexer
//	            (VT, FF, NEL, U+2028, U+2029) as decoys against over-counting;
//	probe       what makes the position observable: an undefined identifier (type checker), a
//	            stray parenthesis and an `if` without condition (parser), an unknown escape
//	            (lexer), or nothing (then only the tokens are probed);
//	place       the probe stands inside the state (after the terminator, before the state is
//	            closed), directly after the closed state, or on the next line;
//	role        the source is the file that is built, or a file rendered by it.
//
// Oracles (both independent of the Lean model): tokenVerdict on the token stream of every source
// and verdict on the *BuildError of every build — (line, column) must be those of the Start
// offset, recomputed by lexh.LineCol.
type nlSlot struct {
	name      string
	format    int // 0 text, 1 HTML, 2 CSS, 3 JS, 4 JSON, 5 Markdown, -1 program
	pre, post string
	str       bool // a string state: every escape sequence is put before the terminator
	code      bool // the hole is inside a code region: no probe inside
}

var nlSlots = []nlSlot{
	// HTML
	{"html-text", 1, "a", "b", false, false},
	{"html-tag-space", 1, "<a ", "href=\"x\">t</a>", false, false},
	{"html-tag-after-name", 1, "<div", ">t</div>", false, false},
	{"html-tag-between-attrs", 1, "<a title=\"x\"", "id=\"y\">t</a>", false, false},
	{"html-attr-before-eq", 1, "<a title", "=\"x\">", false, false},
	{"html-attr-after-eq", 1, "<a title=", "\"x\">", false, false},
	{"html-attr-dq", 1, "<a title=\"x", "y\">", true, false},
	{"html-attr-sq", 1, "<a title='x", "y'>", true, false},
	{"html-attr-url-dq", 1, "<a href=\"x", "y\">", true, false},
	{"html-attr-url-sq", 1, "<a href='x", "y'>", true, false},
	{"html-attr-unquoted", 1, "<a title=x", ">", false, false},
	{"html-attr-url-unquoted", 1, "<a href=x", " id=y>", false, false},
	{"html-attr-srcset", 1, "<img srcset=\"a 1x,", "b 2x\">", true, false},
	{"html-attr-event", 1, "<a onclick=\"f('x", "y')\">", true, false},
	{"html-attr-style", 1, "<a style=\"content:'x", "y'\">", true, false},
	{"html-end-tag", 1, "<b>t</b", ">", false, false},
	{"html-self-closing", 1, "<br", "/>", false, false},
	{"html-comment", 1, "<!-- a", "b -->", false, false},
	{"html-doctype", 1, "<!DOCTYPE html", ">", false, false},
	{"html-cdata", 1, "<![CDATA[a", "b]]>", false, false},
	{"html-cdata-unterminated", 1, "<![CDATA[a", "b", false, false},
	{"html-script-body", 1, "<script>var a = 1;", "var b = 2;</script>", false, false},
	{"html-script-open-tag", 1, "<script", ">a</script>", false, false},
	{"html-script-end-tag", 1, "<script>a</script", ">", false, false},
	{"html-script-type", 1, "<script type=\"text/", "javascript\">a</script>", true, false},
	{"html-js-dq", 1, "<script>var s = \"a", "b\";</script>", true, false},
	{"html-js-sq", 1, "<script>var s = 'a", "b';</script>", true, false},
	{"html-js-backtick", 1, "<script>var s = `a", "b`;</script>", true, false},
	{"html-js-line-comment", 1, "<script>// a", "\nvar b;</script>", false, false},
	{"html-js-block-comment", 1, "<script>/* a", "b */</script>", false, false},
	{"html-js-regexp", 1, "<script>var r = /a", "b/;</script>", true, false},
	{"html-js-string-unterminated", 1, "<script>var s = \"a", "</script>", true, false},
	{"html-module-script", 1, "<script type=\"module\">var s = 'a", "b';</script>", true, false},
	{"html-style-body", 1, "<style>a{}", "b{}</style>", false, false},
	{"html-style-end-tag", 1, "<style>a{}</style", ">", false, false},
	{"html-css-dq", 1, "<style>a{content:\"x", "y\"}</style>", true, false},
	{"html-css-sq", 1, "<style>a{content:'x", "y'}</style>", true, false},
	{"html-css-comment", 1, "<style>/* a", "b */</style>", false, false},
	{"html-css-url", 1, "<style>a{background:url(x", "y)}</style>", false, false},
	{"html-css-string-unterminated", 1, "<style>a{content:'x", "</style>", true, false},
	{"html-jsonld-body", 1, "<script type=\"application/ld+json\">{\"a\":", "1}</script>", false, false},
	{"html-jsonld-string", 1, "<script type=\"application/ld+json\">{\"a\":\"x", "y\"}</script>", true, false},
	{"html-raw", 1, "{% raw %}a", "b{% end raw %}", false, true},
	{"html-raw-marker", 1, "{% raw m %}a", "b{% end raw m %}", false, true},
	{"html-raw-header", 1, "{% raw", " %}a{% end %}", false, true},
	{"html-raw-end-1", 1, "{% raw %}a{%", " end raw %}", false, true},
	{"html-raw-end-2", 1, "{% raw %}a{% end", " raw %}", false, true},
	{"html-raw-end-3", 1, "{% raw m %}a{% end raw", " m %}", false, true},
	{"html-raw-end-4", 1, "{% raw %}a{% end raw", " %}", false, true},
	{"html-show-open", 1, "{{", " 1 }}", false, true},
	{"html-show-operator", 1, "{{ 1 +", " 2 }}", false, true},
	{"html-show-close", 1, "{{ 1", " }}", false, true},
	{"html-show-call", 1, "{{ len(", "\"a\") }}", false, true},
	{"html-show-raw-string", 1, "{{ `a", "b` }}", true, true},
	{"html-show-string", 1, "{{ \"a", "b\" }}", true, true},
	{"html-show-rune", 1, "{{ 'a", "' }}", true, true},
	{"html-show-block-comment", 1, "{{ /* a", "b */ 1 }}", false, true},
	{"html-show-line-comment", 1, "{{ 1 // a", "\n }}", false, true},
	{"html-stmt-open", 1, "{%", " if true %}t{% end %}", false, true},
	{"html-stmt-cond", 1, "{% if true", " %}t{% end %}", false, true},
	{"html-stmt-var", 1, "{% var v =", " 1 %}", false, true},
	{"html-stmt-end", 1, "{% if true %}t{% end", " %}", false, true},
	{"html-stmt-body", 1, "{% if true %}a", "b{% end %}", false, false},
	{"html-stmt-for-body", 1, "{% for i := 0; i < 1; i++ %}a", "b{% end %}", false, false},
	{"html-stmts-open", 1, "{%%", " v := 1 %%}", false, true},
	{"html-stmts-sep", 1, "{%% v := 1", " w := 2; _, _ = v, w %%}", false, true},
	{"html-stmts-close", 1, "{%% v := 1; _ = v", "%%}", false, true},
	{"html-stmts-line-comment", 1, "{%% // c", "\n v := 1; _ = v %%}", false, true},
	{"html-stmts-block-comment", 1, "{%% v := 1 /* a", "b */; _ = v %%}", false, true},
	{"html-stmts-raw-string", 1, "{%% v := `a", "b`; _ = v %%}", true, true},
	{"html-stmts-brace", 1, "{%% if true {", "} %%}", false, true},
	{"html-comment-tmpl", 1, "{# a", "b #}", false, true},
	{"html-comment-nested", 1, "{# a {# b", "c #} d #}", false, true},
	{"html-comment-open", 1, "{#", " a #}", false, true},
	{"html-macro-js-dq", 1, "{% macro M js %}var s = \"a", "b\";{% end %}", true, false},
	{"html-macro-js-sq", 1, "{% macro M js %}var s = 'a", "b';{% end %}", true, false},
	{"html-macro-css-dq", 1, "{% macro M css %}a{content:\"x", "y\"}{% end %}", true, false},
	{"html-macro-json-string", 1, "{% macro M json %}{\"a\":\"x", "y\"}{% end %}", true, false},
	{"html-macro-markdown", 1, "{% macro M markdown %}a", "\tb{% end %}", false, false},
	{"html-using-js-sq", 1, "{% var v = itea; using js %}var s = 'a", "b';{% end %}", true, false},
	{"html-show-in-js-string", 1, "<script>var s = \"a{{ 1 }}", "b\";</script>", true, false},
	{"html-show-in-attr", 1, "<a title=\"x{{ 1 }}", "y\">", true, false},
	{"html-show-in-url", 1, "<a href=\"x{{ 1 }}", "y\">", true, false},
	// Markdown
	{"md-text", 5, "a", "b", false, false},
	{"md-backslash", 5, "a\\", "b", false, false},
	{"md-escape-pair", 5, "a\\*", "b", false, false},
	{"md-heading", 5, "# a", "b", false, false},
	{"md-codeblock-tab", 5, "\tcode", "\tmore", false, false},
	{"md-codeblock-spaces", 5, "    code", "    more", false, false},
	{"md-codeblock-after-blank", 5, "a\n", "\tcode", false, false},
	{"md-codeblock-after-spaces-line", 5, "a\n  ", "    code", false, false},
	{"md-codeblock-to-text", 5, "\tcode", "text", false, false},
	{"md-fence", 5, "```\na", "b\n```", false, false},
	{"md-url", 5, "see http://a.b/c", "d", false, false},
	{"md-url-https", 5, "https://a.b", "", false, false},
	{"md-url-dot", 5, "see http://a.b.", "d", false, false},
	{"md-link", 5, "[a](http://a.b/c", "d)", false, false},
	{"md-js-dq", 5, "<script>var s = \"a", "b\";</script>", true, false},
	{"md-css-sq", 5, "<style>a{content:'x", "y'}</style>", true, false},
	{"md-attr-dq", 5, "<a title=\"x", "y\">", true, false},
	{"md-show-operator", 5, "{{ 1 +", " 2 }}", false, true},
	{"md-comment-tmpl", 5, "{# a", "b #}", false, true},
	{"md-raw", 5, "{% raw %}a", "b{% end %}", false, true},
	// JS, CSS, JSON, text files
	{"js-body", 3, "var a = 1;", "var b;", false, false},
	{"js-dq", 3, "var s = \"a", "b\";", true, false},
	{"js-sq", 3, "var s = 'a", "b';", true, false},
	{"js-line-comment", 3, "// a", "\nvar b;", false, false},
	{"js-block-comment", 3, "/* a", "b */", false, false},
	{"js-end-script-text", 3, "var s = 'a</script", ">b';", true, false},
	{"js-show-operator", 3, "var a = {{ 1 +", " 2 }};", false, true},
	{"css-body", 2, "a{}", "b{}", false, false},
	{"css-dq", 2, "a{content:\"x", "y\"}", true, false},
	{"css-sq", 2, "a{content:'x", "y'}", true, false},
	{"css-comment", 2, "/* a", "b */", false, false},
	{"json-body", 4, "{\"a\":", "1}", false, false},
	{"json-string", 4, "{\"a\":\"x", "y\"}", true, false},
	{"text-body", 0, "a", "b", false, false},
	{"text-quote", 0, "\"a", "b\"", true, false},
	{"text-tag-like", 0, "<script>var s = 'a", "b';</script>", true, false},
	// programs
	{"go-raw-string", -1, "package main\nvar s = `a", "b`\n", true, true},
	{"go-string", -1, "package main\nvar s = \"a", "b\"\n", true, true},
	{"go-rune", -1, "package main\nvar s = 'a", "'\n", true, true},
	{"go-block-comment", -1, "package main\n/* a", "b */\n", false, true},
	{"go-line-comment", -1, "package main\n// c", "\nvar a = 1\n", false, true},
	{"go-operator", -1, "package main\nvar a = 1 +", " 2\n", false, true},
	{"go-after-package", -1, "package main", "\nvar a = 1\n", false, true},
	{"go-call-args", -1, "package main\nvar a = len(", "\"a\")\n", false, true},
	{"go-composite", -1, "package main\nvar a = []int{1,", "2}\n", false, true},
	{"go-func-body", -1, "package main\nfunc f() {", "}\n", false, true},
}

var nlEscapes = []string{"", "\\", "\\\\", "\\\"", "\\'", "\\n", "\\x41", "\\u0041", "\\\\\\"}

type nlTerm struct {
	name, s string
	decoy   bool // not a line terminator for the lexer (nor for the oracle)
}

var nlTerms = []nlTerm{
	{"LF", "\n", false}, {"CRLF", "\r\n", false}, {"CR", "\r", false},
	{"VT", "\v", true}, {"FF", "\f", true}, {"NEL", "\u0085", true}, {"LS", "\u2028", true}, {"PS", "\u2029", true},
}

var nlProbesT = []struct{ name, s string }{
	{"none", ""}, {"undefined", "{{ undefinedZ }}"}, {"paren", "{{ ) }}"}, {"escape", "{{ \"\\q\" }}"}, {"if", "{% if %}"},
}

var nlProbesP = []struct{ name, s string }{
	{"none", ""}, {"undefined", "var z = undefinedZ\n"}, {"paren", "var z = )\n"}, {"escape", "var z = \"\\q\"\n"}, {"if", "func g() { if { } }\n"},
}

type nlCase struct {
	slot, esc, term, probe, place, role string
	reps                                int
	lex                                 lexh.Case
	build                               lexh.BuildCase
}

func (n nlCase) label() string {
	return fmt.Sprintf("slot=%s esc=%q term=%s×%d probe=%s place=%s role=%s", n.slot, n.esc, n.term, n.reps, n.probe, n.place, n.role)
}

// newlineMatrix enumerates the matrix. With full false (quick tier) the core sub-matrix is
// enumerated deterministically — every slot × escape × terminator once, probes and places
// rotating — and the rest is sampled with r.
func newlineMatrix(r *proto.Rand, full bool) []nlCase {
	var out []nlCase
	k := 0
	for _, sl := range nlSlots {
		escs := nlEscapes[:2]
		if sl.str {
			escs = nlEscapes
		}
		for _, esc := range escs {
			for _, tm := range nlTerms {
				if tm.decoy && esc != "" && esc != "\\" {
					continue
				}
				for reps := 1; reps <= 2; reps++ {
					probes := nlProbesT
					if sl.format < 0 {
						probes = nlProbesP
					}
					for pi, pr := range probes {
						for _, place := range []string{"inside", "after", "next-line"} {
							if place == "inside" && (sl.code || pr.s == "") {
								continue
							}
							for _, role := range []string{"entry", "rendered"} {
								if role == "rendered" && sl.format < 0 {
									continue
								}
								k++
								if !full {
									// the core: one repetition, the entry file, probe and place rotating with the
									// case number (every probe and place is met for every slot); one in twelve of the rest
									core := reps == 1 && role == "entry" && (pi == 0 || pi == 1+k%4) && (place != "next-line" || k%3 == 0)
									if !core && r.Intn(12) != 0 {
										continue
									}
								}
								out = append(out, mkNlCase(sl, esc, tm, reps, pr.name, pr.s, place, role))
							}
						}
					}
				}
			}
		}
	}
	return out
}

func mkNlCase(sl nlSlot, esc string, tm nlTerm, reps int, probeName, probe, place, role string) nlCase {
	hole := strings.Repeat(esc+tm.s, reps)
	var src string
	switch place {
	case "inside":
		src = sl.pre + hole + probe + sl.post
	case "after":
		src = sl.pre + hole + sl.post + probe
	default:
		src = sl.pre + hole + sl.post + "\n" + probe
	}
	n := nlCase{slot: sl.name, esc: esc, term: tm.name, probe: probeName, place: place, role: role, reps: reps}
	if sl.format < 0 {
		src += "func main() {}\n"
		n.lex = lexh.Case{Mode: 'p', Src: []byte(src)}
		n.build = lexh.BuildCase{Kind: 'p', Entry: "main.go", Files: map[string][]byte{"main.go": []byte(src)}}
		return n
	}
	n.lex = lexh.Case{Mode: 't', Format: sl.format, Src: []byte(src)}
	ext := lexh.ExtOf(sl.format)
	if role == "entry" {
		n.build = lexh.BuildCase{Kind: 't', Entry: "index" + ext, Files: map[string][]byte{"index" + ext: []byte(src)}}
		return n
	}
	// the rendering file has lines of its own before and after the render, so that a line
	// counted for the wrong file shows
	index := "a\nb\n\nc {{ render \"part" + ext + "\" }}\nd\n"
	n.build = lexh.BuildCase{Kind: 't', Entry: "index" + ext, Files: map[string][]byte{"index" + ext: []byte(index), "part" + ext: []byte(src)}}
	return n
}
