package main

import (
	"fmt"
	"path"
	"strings"

	"verifharness/internal/proto"
	"verifharness/props/c04/lexh"
)

// Path-spelling stream: template trees whose file references are NOT spelled as the plain path
// from the root, with one error of every phase placed in a file of every role.
//
// The name a build error carries must be the name of the file the build read (what the loader
// produced from the referring file's directory and the written path), never the path as it is
// written in the statement. The two coincide when every reference is a plain path from the root,
// which is what all other streams of this harness write. The matrix here is
//
//	chain     the references from the built file down to the file with the error: 0 to 2 links,
//	          each extends, import or render (extends only while every link before it is one):
//	          built · extended · imported · rendered · extended-by-extended · imported-by-extended ·
//	          rendered-by-extended · imported-by-imported · rendered-by-imported (inside a macro) ·
//	          imported-by-rendered · rendered-by-rendered;
//	errpos    which file of the chain holds the error (every one, also the middle ones);
//	depth     directory of the built file: root, a/, a/b/;
//	target    directory of each referred file relative to its referrer: the same, a sub-directory,
//	          the parent, the root, another top-level directory;
//	spelling  of each reference: leading slash ("/a/f1.html"), or relative to the referrer
//	          ("f1.html", "s/f1.html", "../f1.html", "../../x/f1.html"; from the root this is the plain path:
//	          the control);
//	syntax    {% extends/import "p" %} and {{ render "p" }}, or {%% extends/import "p" %%} and {%% show render "p" %%};
//	names     distinct base names, or the same base name (page.html) in every directory;
//	decoy     a one-byte file at the place the written path names when read from the root (if that
//	          is another place and free): a build error that names it is served by the file system
//	          but was not opened, and the offsets are outside it;
//	phase     lexer (unknown escape), parser (stray parenthesis), type checker (mismatched types;
//	          undefined identifier), scopes (break to an undefined label inside a macro), emitter
//	          (more than 127 string registers in a macro; in the initialisers of file-level variables, which are
//	          emitted into the importing function), none (the control: the tree builds).
//
// Every file starts with its references, then comment lines whose lengths are different for
// every file of the tree (so a position computed in one file does not fit another), then the
// error inside a declaration (`var` or `macro`: allowed in extending and imported files).
// Oracle: verdict (the existing one): Path() is a file the recording file system opened, and
// Start/End/line/column lie inside THAT file.
type psLink struct {
	kind  string // ext | imp | ren
	dir   string // target directory option: same | sub | parent | root | other
	abs   bool   // spelled with a leading slash
	decoy bool
}

type psPoint struct {
	depth  int
	links  []psLink
	errpos int
	phase  string
	alt    bool // {%% %%} syntax
	same   bool // same base name everywhere
}

type psCase struct {
	pt    psPoint
	build lexh.BuildCase
	refs  []string // the references as written
	errIn string
}

func (c psCase) label() string {
	var ks []string
	for i, l := range c.pt.links {
		ks = append(ks, fmt.Sprintf("%s %q", l.kind, c.refs[i]))
	}
	return fmt.Sprintf("entry=%s chain=[%s] phase=%s in %s alt-syntax=%v same-names=%v", c.build.Entry, strings.Join(ks, ", "), c.pt.phase, c.errIn, c.pt.alt, c.pt.same)
}

var psPhases = []string{"lexer", "parser", "type", "undefined", "scope", "limit", "limit-vars", "none"}
var psDepthDirs = []string{"", "a", "a/b"}
var psDirOpts = []string{"same", "sub", "parent", "root", "other"}

// psChains lists the chains of link kinds: extends only as a prefix.
func psChains(maxLen int) [][]string {
	out := [][]string{{}}
	var rec func(cur []string, extOK bool)
	rec = func(cur []string, extOK bool) {
		if len(cur) == maxLen {
			return
		}
		for _, k := range []string{"ext", "imp", "ren"} {
			if k == "ext" && !extOK {
				continue
			}
			nx := append(append([]string{}, cur...), k)
			out = append(out, nx)
			rec(nx, extOK && k == "ext")
		}
	}
	rec(nil, true)
	return out
}

func psTargetDir(d, opt string) (string, bool) {
	switch opt {
	case "same":
		return d, true
	case "sub":
		return path.Join(d, "s"), true
	case "parent":
		if d == "" {
			return "", false
		}
		if p := path.Dir(d); p != "." {
			return p, true
		}
		return "", true
	case "root":
		return "", d != ""
	case "other":
		if strings.HasPrefix(d, "x") {
			return "", false
		}
		return "x", true
	}
	return "", false
}

// psRel spells target relative to the directory dir (both rooted, "" is the root).
func psRel(dir, target string) string {
	var dc []string
	if dir != "" {
		dc = strings.Split(dir, "/")
	}
	tc := strings.Split(target, "/")
	i := 0
	for i < len(dc) && i < len(tc)-1 && dc[i] == tc[i] {
		i++
	}
	return strings.Repeat("../", len(dc)-i) + strings.Join(tc[i:], "/")
}

// psFromRoot is the file the written path names when it is read from the root instead of from the referrer.
func psFromRoot(w string) string {
	return strings.TrimPrefix(path.Clean("/"+w), "/")
}

func psPad(k int) string {
	var sb strings.Builder
	for i := 0; i < 2+k; i++ {
		fmt.Fprintf(&sb, "{# %s #}\n", strings.Repeat("pad ", 1+(i*7+k*3)%5)+strings.Repeat("é", k+1))
	}
	return sb.String()
}

func psError(phase string, k int) string {
	id := fmt.Sprintf("%d", k)
	switch phase {
	case "lexer":
		return `  {% var e` + id + ` = "ab\zcd" %}` + "\n"
	case "parser":
		return `  {% var e` + id + ` = 1 + ) %}` + "\n"
	case "type":
		return `  {% var e` + id + ` = 1 + "a" %}` + "\n"
	case "undefined":
		return `  {% var e` + id + ` = 2 * notDeclared %}` + "\n"
	case "scope":
		return `  {% macro E` + id + ` %}{% for %} {% break Lx %}{% end %}{% end %}` + "\n"
	case "limit":
		var sb strings.Builder
		sb.WriteString("  {% macro E" + id + " %}{%%\n")
		for i := 0; i < 130; i++ {
			fmt.Fprintf(&sb, "var v%d = \"s%d\"; _ = v%d\n", i, i, i)
		}
		sb.WriteString("%%}{% end %}\n")
		return sb.String()
	case "limit-vars":
		// file-level variables: their initialisers are emitted into the function that imports or renders the file
		var sb strings.Builder
		for i := 0; i < 130; i++ {
			fmt.Fprintf(&sb, "  {%% var w%s_%d = \"s%d\" %%}\n", id, i, i)
		}
		return sb.String()
	}
	return ""
}

// mkPsCase builds the tree of a point; ok is false when the point does not exist (a parent of the
// root, two files at the same place).
func mkPsCase(pt psPoint) (psCase, bool) {
	n := len(pt.links)
	names := make([]string, n+1)
	dirs := make([]string, n+1)
	dirs[0] = psDepthDirs[pt.depth]
	base := func(k int) string {
		if pt.same {
			return "page.html"
		}
		return fmt.Sprintf("f%d.html", k)
	}
	names[0] = path.Join(dirs[0], base(0))
	used := map[string]bool{names[0]: true}
	for i, l := range pt.links {
		d, ok := psTargetDir(dirs[i], l.dir)
		if !ok {
			return psCase{}, false
		}
		dirs[i+1] = d
		names[i+1] = path.Join(d, base(i+1))
		if used[names[i+1]] {
			return psCase{}, false
		}
		used[names[i+1]] = true
	}
	c := psCase{pt: pt, build: lexh.BuildCase{Kind: 't', Entry: names[0], Files: map[string][]byte{}}, errIn: names[pt.errpos]}
	declOnly := func(k int) bool { // the file may hold declarations only: it extends or it is imported
		return k < n && pt.links[k].kind == "ext" || k > 0 && pt.links[k-1].kind == "imp"
	}
	var decoys []string
	for k := 0; k <= n; k++ {
		var sb strings.Builder
		if k < n {
			l := pt.links[k]
			w := psRel(dirs[k], names[k+1])
			if l.abs {
				w = "/" + names[k+1]
			}
			c.refs = append(c.refs, w)
			if l.decoy {
				decoys = append(decoys, psFromRoot(w))
			}
			q := `"` + w + `"`
			switch {
			case l.kind == "ext" && !pt.alt:
				sb.WriteString("{% extends " + q + " %}\n")
			case l.kind == "ext":
				sb.WriteString("{%% extends " + q + " %%}\n")
			case l.kind == "imp" && !pt.alt:
				sb.WriteString("{% import " + q + " %}\n")
			case l.kind == "imp":
				sb.WriteString("{%% import " + q + " %%}\n")
			default:
				r := "{{ render " + q + " }}"
				if pt.alt {
					r = "{%% show render " + q + " %%}"
				}
				if declOnly(k) {
					r = fmt.Sprintf("{%% macro R%d %%}%s{%% end %%}", k, r)
				}
				sb.WriteString(r + "\n")
			}
		}
		sb.WriteString(psPad(k))
		if k == pt.errpos {
			sb.WriteString(psError(pt.phase, k))
		}
		fmt.Fprintf(&sb, "{%% macro M%d %%}m{%% end %%}\n", k)
		c.build.Files[names[k]] = []byte(sb.String())
	}
	for _, d := range decoys {
		if !used[d] {
			used[d] = true
			c.build.Files[d] = []byte("d")
		}
	}
	return c, true
}

// pathSpellMatrix enumerates the matrix. Chains of at most one link are complete in both tiers
// (names and decoy alternate in quick, all four combinations in thorough); chains of two links are
// sampled.
func pathSpellMatrix(r *proto.Rand, full bool, sample int) []psCase {
	var out []psCase
	add := func(pt psPoint) {
		if c, ok := mkPsCase(pt); ok {
			out = append(out, c)
		}
	}
	ctr := 0
	for _, ch := range psChains(1) {
		for depth := range psDepthDirs {
			for _, dopt := range psDirOpts {
				for _, abs := range []bool{false, true} {
					for _, alt := range []bool{false, true} {
						for errpos := 0; errpos <= len(ch); errpos++ {
							for _, ph := range psPhases {
								if len(ch) == 0 && (dopt != "same" || abs) {
									continue
								}
								for v := 0; v < 4; v++ {
									if !full && v != ctr%4 {
										continue
									}
									pt := psPoint{depth: depth, errpos: errpos, phase: ph, alt: alt, same: v&1 != 0}
									if len(ch) == 1 {
										pt.links = []psLink{{kind: ch[0], dir: dopt, abs: abs, decoy: v&2 != 0}}
									}
									add(pt)
								}
								ctr++
							}
						}
					}
				}
			}
		}
	}
	var two [][]string
	for _, ch := range psChains(2) {
		if len(ch) == 2 {
			two = append(two, ch)
		}
	}
	for i := 0; i < sample; i++ {
		ch := two[r.Intn(len(two))]
		pt := psPoint{depth: r.Intn(len(psDepthDirs)), errpos: r.Intn(3), phase: psPhases[r.Intn(len(psPhases))], alt: r.Intn(2) == 0, same: r.Intn(2) == 0}
		for _, k := range ch {
			pt.links = append(pt.links, psLink{kind: k, dir: psDirOpts[r.Intn(len(psDirOpts))], abs: r.Intn(2) == 0, decoy: r.Intn(2) == 0})
		}
		add(pt)
	}
	return out
}
