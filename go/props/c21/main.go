package main

import (
	"bytes"
	"encoding/json"
	"fmt"
	"os"
	"sort"
	"strconv"
	"strings"
	"time"
	"unicode/utf8"

	"verifharness/internal/hx"
	"verifharness/internal/proto"
	"verifharness/props/c04/lexh"
)

// C21: build errors point at a real location in the reported file.
//
//	(a) the property's oracle on the real code, independent of the model: every *BuildError
//	    raised by byte-level and token-level mutants of valid templates, programs and template
//	    trees names a file the recording FS served, has offsets inside that file, and its
//	    line:column are those of the Start offset recomputed by lexh.LineCol;
//	(b) correspondence of the token positions (start, end, line, column of every token and of
//	    the lexer's own errors) between the real lexer and the Lean model;
//	(c) validation of the Lean specification Spec.Position.lineCol against lexh.LineCol.
func main() {
	if mode, ok := lexh.IsChild(); ok {
		switch mode {
		case "lex":
			lexh.ChildMain(lexh.LexChildHandle)
		case "build":
			lexh.ChildMain(lexh.BuildChildHandle)
		default:
			os.Exit(2)
		}
		return
	}
	if len(os.Args) >= 5 && os.Args[1] == "-mkcase" {
		// harness_C21 -mkcase <t|p|m> <entry> <Go-quoted content>               a single-file build
		// harness_C21 -mkcase <t|p|m> <entry> <name> <Go-quoted content> ...    several files
		// prints the case line, the build result and the strict verdict (used to write known_findings.json entries)
		b := lexh.BuildCase{Kind: os.Args[2][0], Entry: os.Args[3], Files: map[string][]byte{}}
		rest := os.Args[4:]
		if len(rest) == 1 {
			rest = []string{os.Args[3], rest[0]}
		}
		for i := 0; i+1 < len(rest); i += 2 {
			src, err := strconv.Unquote(rest[i+1])
			if err != nil {
				fmt.Println(err)
				os.Exit(2)
			}
			b.Files[rest[i]] = []byte(src)
		}
		br := lexh.BuildInChild(b)
		cl, want := verdict(b, br, true)
		cl2, _ := verdict(b, br, false)
		fmt.Printf("build %s\n%s %s:%d:%d start=%d end=%d syntax=%v %q site=%s\nstrict: %q want %s; with hypotheses: %q\n", b.Line(), br.Status, br.Path, br.Line, br.Col, br.Start, br.End, br.Syntax, br.Msg, br.Site, cl, want, cl2)
		return
	}
	hx.Main("C21", run)
}

func humanBuild(b lexh.BuildCase) string {
	if b.Kind == 'p' {
		return fmt.Sprintf("Build(main.go=%q)", b.Files["main.go"])
	}
	var parts []string
	for _, n := range sortedNames(b.Files) {
		parts = append(parts, fmt.Sprintf("%s=%q", n, b.Files[n]))
	}
	return fmt.Sprintf("BuildTemplate(%q; %s)", b.Entry, strings.Join(parts, "; "))
}

func sortedNames(m map[string][]byte) []string {
	n := make([]string, 0, len(m))
	for k := range m {
		n = append(n, k)
	}
	sort.Strings(n)
	return n
}

// verdict is the oracle: which clause of the property the build error breaks ("" if none),
// with what was expected. With strict false two documented conventions of the code are
// excluded by hypothesis (each is a known finding, replayed with strict true):
//
//	H1  an error reported on an AST node has the node's span as Start..End and the node's
//	    reporting point inside the span as line:column (the operator of a binary expression, the
//	    brace of a composite literal, the dot of a type assertion, …): line:column must be those
//	    of some offset in [Start, End+1];
//	H5  a unary operator that is the left operand of a binary operator keeps its line:column
//	    but gets the Start of its operand (parser_expressions.go "For all unary operators, set
//	    the start at the end of the path"): line:column may be those of a unary operator
//	    directly before Start;
//	H2  the automatically inserted semicolon has Start one byte before the point whose
//	    line:column it carries (a newline, the end of the file, `%%}` or a block comment);
//	H3  in the text of a template a CR that directly follows a LF takes no column (LF CR is
//	    read as one line terminator): sources containing LF CR are checked for the line only;
//	H4  a byte order mark at the start of a template counts as a column, at the start of a
//	    program it does not (the oracle does not count it): the first line of a template that
//	    starts with a BOM is checked for the line only.
func verdict(b lexh.BuildCase, r lexh.BuildResult, strict bool) (clause, want string) {
	if r.Status != "builderror" {
		return "", ""
	}
	if !r.Served {
		return "path-is-a-file-the-build-read", "one of " + strings.Join(sortedNames(b.Files), ",")
	}
	// the path is the NAME of the file as the file system knows it (an io/fs name: no leading slash, no "..")
	data, ok := b.Files[r.Path]
	if !ok {
		return "path-is-a-file-the-build-read", "one of " + strings.Join(sortedNames(b.Files), ",")
	}
	if r.Start < 0 || r.End < r.Start-1 || r.Start > len(data) || r.End > len(data) {
		return "offsets-within-the-file", fmt.Sprintf("0 <= start <= end+1, both <= %d", len(data))
	}
	valid := utf8.Valid(data) // the column is defined for well-formed text only
	same := func(off int) bool {
		l, c := lexh.LineCol(data, off)
		return r.Line == l && (!valid || r.Col == c)
	}
	if same(r.Start) {
		return "", ""
	}
	if !strict {
		if r.End > r.Start {
			for q := r.Start; q <= r.End+1 && q <= len(data); q++ {
				if same(q) {
					return "", "" // H1
				}
			}
		}
		if q := r.Start + 1; r.Syntax && same(q) && (q >= len(data) || data[q] == '\n' || strings.HasPrefix(string(data[q:]), "%%}") ||
			strings.HasPrefix(string(data[q:]), "/*") || strings.HasPrefix(string(data[q:]), "//")) {
			return "", "" // H2
		}
		for q := r.Start - 1; q >= 0 && strings.IndexByte("+-!^*&<- \t\r\nnot", data[q]) >= 0; q-- {
			if strings.IndexByte("+-!^*&<n", data[q]) >= 0 && same(q) {
				return "", "" // H5
			}
		}
		if bytes.Contains(data, []byte("\n\r")) || (b.Kind == 't' && bytes.HasPrefix(data, []byte("\xef\xbb\xbf")) && r.Line == 1) {
			valid = false // H3, H4: only the line is checked
			if same(r.Start) {
				return "", ""
			}
		}
	}
	line, col := lexh.LineCol(data, r.Start)
	if r.Line != line {
		return "line-of-start-offset", fmt.Sprintf("%d:%d", line, col)
	}
	return "column-of-start-offset", fmt.Sprintf("%d:%d", line, col)
}

// tokenVerdict is the oracle on the real lexer's token stream for one source: every token
// (and the lexer's own error) lies inside the source, tokens do not overlap, and its
// line:column are those of its start offset (with the hypotheses H2–H4 of verdict).
func tokenVerdict(cs lexh.Case, answer string) (what, want string) {
	a, err := lexh.ParseAnswer(answer)
	if err != nil || a.Fault != "" {
		return "", ""
	}
	src := cs.Src
	valid := utf8.Valid(src) && !bytes.Contains(src, []byte("\n\r"))
	bomLine1 := cs.Mode == 't' && bytes.HasPrefix(src, []byte("\xef\xbb\xbf"))
	check := func(kind string, start, line, col int) (string, string) {
		l, c := lexh.LineCol(src, start)
		if line != l {
			return fmt.Sprintf("line-of-start-offset %s at %d is %d:%d", kind, start, line, col), fmt.Sprintf("%d:%d", l, c)
		}
		if valid && !(bomLine1 && l == 1) && col != c {
			return fmt.Sprintf("column-of-start-offset %s at %d is %d:%d", kind, start, line, col), fmt.Sprintf("%d:%d", l, c)
		}
		return "", ""
	}
	prevEnd := -1
	for _, t := range a.Toks {
		name := fmt.Sprintf("token(type %d)", t.Typ)
		if t.Len == 0 {
			if t.End != t.Start || t.Start < -1 || t.Start > len(src) {
				return fmt.Sprintf("offsets-within-the-file empty %s has %d..%d", name, t.Start, t.End), fmt.Sprintf("start = end <= %d", len(src))
			}
			start := t.Start
			if start < prevEnd { // the automatically inserted semicolon (H2)
				start++
			}
			if w, x := check(name, start, t.Line, t.Col); w != "" {
				if w2, _ := check(name, t.Start+1, t.Line, t.Col); w2 != "" { // H2
					return w, x
				}
			}
			continue
		}
		if t.Start < 0 || t.End != t.Start+t.Len-1 || t.End >= len(src) {
			return fmt.Sprintf("offsets-within-the-file %s has %d..%d", name, t.Start, t.End), fmt.Sprintf("0 <= start <= end < %d", len(src))
		}
		if t.Start <= prevEnd {
			return fmt.Sprintf("spans-do-not-overlap %s starts at %d, previous token ends at %d", name, t.Start, prevEnd), "start > previous end"
		}
		prevEnd = t.End
		if w, x := check(name, t.Start, t.Line, t.Col); w != "" {
			return w, x
		}
	}
	if a.Err != nil {
		if a.Err.Start < 0 || a.Err.Start > len(src) {
			return fmt.Sprintf("offsets-within-the-file error %s at %d", a.Err.Kind, a.Err.Start), fmt.Sprintf("<= %d", len(src))
		}
		if w, x := check("error "+a.Err.Kind, a.Err.Start, a.Err.Line, a.Err.Col); w != "" {
			return w, x
		}
	}
	return "", ""
}

func class(msg string) string {
	// message without its quoted or numeric details
	f := strings.FieldsFunc(msg, func(r rune) bool { return r == '"' || r == '\'' || r == '`' })
	if len(f) > 0 {
		msg = f[0]
	}
	if len(msg) > 40 {
		msg = msg[:40]
	}
	return msg
}

func run(c *hx.Ctx) error {
	res := c.Res
	res.Rule = "build inputs: byte-level and token-level mutants (lexh.Mutate: delimiter/keyword/tag fragments, token delete/duplicate/swap/replace, byte flips, truncations, splices, line-ending swaps, context wraps) of the template and program corpus of /repo and of multi-file template trees (extends/import/render), in all six formats; a case is non-trivial when the build returns a *BuildError (the oracle then checks path, offsets, line and column); distinct by files. Newline stream (newlines.go): slot (the lexical state the hole is in: ~130 states of templates in all formats and of programs) x escape before the terminator (none, a lone backslash, and in string states every escape sequence) x terminator (LF, CR LF, CR; VT, FF, NEL, U+2028, U+2029 as decoys) x 1 or 2 repetitions x probe (undefined identifier, stray parenthesis, unknown escape, if without condition, none) x place (inside the state, after it, next line) x role (built file, rendered file); quick: the core sub-matrix plus one in twelve of the rest, thorough: all. Forms stream (lexh.Forms, shared with C04): every statement and declaration form x modifiers x file roles (extending, extended, imported, rendered, macro bodies with a format, imported packages of a module); quick: one in two of the multi-file cases, one in six of the others. Path-spelling stream (pathspell.go): template trees whose extends/import/render references are spelled with a leading slash or relative to the referring file (chains of 0 to 2 links x directory of the built file (depth 0-2) x directory of each target (same, sub-directory, parent, root, another top-level directory) x {% %} or {%% %%} forms x distinct or equal base names x a decoy file where the written path points from the root) x an error of every phase (lexer, parser, type checker: mismatched types and undefined, scopes, emitter limit, none) in every file of the chain; chains of at most one link complete (names and decoy alternating in quick), chains of two links sampled. The path of a build error must be exactly a name the file system opened. Class probes (classes.go): inputs drawn around the cause of each finding class, with the prediction whether the oracle fails (precision recorded as class-precision/<id>/…). Lexer inputs for the position correspondence and the token oracle: the same single-file mutants and every source of the newline stream."
	corpus := lexh.LoadCorpus(c.N(4000, 40000), c.N(4000, 40000))
	if len(corpus.Templates) < 50 {
		return fmt.Errorf("corpus too small (%d templates): is VERIF_REPO right?", len(corpus.Templates))
	}
	r := proto.NewRand(c.R.U64()) // seeds of the shared PRNG are shifts of one sequence: re-key
	lexRunner := &lexh.Runner{Mode: "lex", Timeout: 2 * time.Second}
	buildRunner := &lexh.Runner{Mode: "build", Timeout: 6 * time.Second}
	defer lexRunner.Close()
	defer buildRunner.Close()
	buildOne := func(b lexh.BuildCase) lexh.BuildResult { return lexh.ParseBuildResult(buildRunner.Ask(b.Line())) }
	knownFor := func(caseLine string) string {
		for _, f := range c.Findings {
			if f.Minimal == caseLine {
				return f.ID
			}
		}
		return ""
	}

	// known findings: replay the exact minimal input on the real code
	activeClasses := map[string]bool{}
	for _, f := range c.Findings {
		if !strings.HasPrefix(f.Minimal, "build ") {
			return fmt.Errorf("known finding %s: minimal must start with `build `", f.ID)
		}
		b, err := lexh.ParseBuildLine(strings.TrimPrefix(f.Minimal, "build "))
		if err != nil {
			return fmt.Errorf("known finding %s: %v", f.ID, err)
		}
		br := buildOne(b)
		if cl, want := verdict(b, br, true); cl != "" {
			isClass := false
			for _, fc := range findingClasses {
				if fc.id == f.ID {
					isClass = true
					// a class is active only while its recorded witness fails and falls into the class itself
					if cl2, _ := verdict(b, br, false); cl2 == "" || !fc.explain(b, br, cl2) {
						res.Notes = append(res.Notes, fmt.Sprintf("class %s: the recorded witness is not explained by the class any more — class inactive", f.ID))
						cl = ""
					} else {
						activeClasses[f.ID] = true
					}
				}
			}
			if cl == "" && isClass {
				continue
			}
			res.AddBreak(proto.Break{Kind: "property", Name: cl, Case: "C21 " + f.Minimal, Human: humanBuild(b),
				Impl: fmt.Sprintf("%s:%d:%d (start %d, end %d): %s", br.Path, br.Line, br.Col, br.Start, br.End, br.Msg), Model: want, Finding: f.ID})
		}
	}
	if c.Replay != "" {
		data, err := os.ReadFile(c.Replay)
		if err != nil { // ./check passes a path relative to /verif and runs the harness in /verif/go
			data, err = os.ReadFile("../" + c.Replay)
		}
		if err != nil {
			return err
		}
		var rp struct {
			Case string `json:"case"`
		}
		if json.Unmarshal(data, &rp) == nil && strings.HasPrefix(rp.Case, "C21 build ") {
			b, err := lexh.ParseBuildLine(strings.TrimPrefix(rp.Case, "C21 build "))
			if err != nil {
				return err
			}
			br := buildOne(b)
			res.Count(b.Key(), true)
			if cl, want := verdict(b, br, false); cl != "" {
				fid := knownFor(strings.TrimPrefix(rp.Case, "C21 "))
				if fid == "" {
					fid = classOf(activeClasses, b, br, cl)
				}
				res.AddBreak(proto.Break{Kind: "property", Name: cl, Case: rp.Case, Human: humanBuild(b),
					Impl: fmt.Sprintf("%s:%d:%d (start %d, end %d): %s", br.Path, br.Line, br.Col, br.Start, br.End, br.Msg), Model: want,
					Finding: fid})
			}
			return nil
		}
		if json.Unmarshal(data, &rp) == nil && strings.HasPrefix(rp.Case, "C21 scan ") && c.D != nil {
			f := strings.Fields(rp.Case)
			if len(f) == 7 {
				cs, err := lexh.ParseLexLine(strings.Join(f[2:6], " "))
				if err != nil {
					return err
				}
				real := lexRunner.Ask(lexh.LexLine(cs))
				m, _ := c.D.Ask(rp.Case)
				res.Count(cs.Key(), true)
				if m != real {
					res.AddBreak(proto.Break{Kind: "correspondence", Name: "token-positions model-vs-lexer", Case: rp.Case, Human: fmt.Sprintf("%q", cs.Src), Impl: real, Model: m})
				}
				return nil
			}
		}
	}

	// ---- generate
	maxLen := c.N(300, 3000)
	window := func(d []byte) []byte {
		if len(d) <= maxLen {
			return d
		}
		i := r.Intn(len(d) - maxLen)
		// start at a line start so that the fragment stays mostly valid
		for i > 0 && d[i-1] != '\n' {
			i--
		}
		return d[i:min(len(d), i+maxLen)]
	}
	other := func() []byte { return window(corpus.Templates[r.Intn(len(corpus.Templates))].Data) }
	var builds []lexh.BuildCase
	var lexCases []lexh.Case
	single := func(s lexh.Source, data []byte, format int) {
		if s.Format < 0 {
			builds = append(builds, lexh.BuildCase{Kind: 'p', Entry: "main.go", Files: map[string][]byte{"main.go": data}})
			lexCases = append(lexCases, lexh.Case{Mode: 'p', Src: data})
			return
		}
		name := "index" + lexh.ExtOf(format)
		builds = append(builds, lexh.BuildCase{Kind: 't', Entry: name, Files: map[string][]byte{name: data}})
		lexCases = append(lexCases, lexh.Case{Mode: 't', Format: format, Src: data})
	}
	for i := 0; i < c.N(14000, 200000); i++ {
		var s lexh.Source
		if r.Intn(3) == 0 && len(corpus.Programs) > 0 {
			s = corpus.Programs[r.Intn(len(corpus.Programs))]
		} else {
			s = corpus.Templates[r.Intn(len(corpus.Templates))]
		}
		f := s.Format
		if f >= 0 && r.Intn(5) == 0 {
			f = r.Intn(6)
		}
		single(s, lexh.Mutate(r, window(s.Data), other), f)
	}
	// non-ASCII inside every lexical element of a code region, before an error position on the same line
	for _, s := range lexh.NonASCII() {
		single(s, s.Data, s.Format)
		res.Hist("nonascii-stream")
	}
	// a line terminator of every kind in every lexical state, followed by a position probe (newlines.go)
	origin := map[string]string{} // build line / lexer line -> the point of the matrix it came from
	seenLex := map[string]bool{}
	psControls := map[string]bool{} // trees of the path-spelling stream without an error: they build
	for _, n := range newlineMatrix(r, !c.Quick()) {
		builds = append(builds, n.build)
		origin[n.build.Line()] = "newline stream: " + n.label()
		if k := n.lex.Key(); !seenLex[k] {
			seenLex[k] = true
			lexCases = append(lexCases, n.lex)
			origin[lexh.LexLine(n.lex)] = "newline stream: " + n.label()
		}
		res.Hist("newline-stream")
		res.Hist("newline-stream/term-" + n.term)
		res.Hist("newline-stream/probe-" + n.probe + "-" + n.place)
		res.Hist("newline-stream/role-" + n.role)
	}
	// file references that are not spelled as the plain path from the root x an error of every phase in a file of
	// every role (pathspell.go)
	for _, pc := range pathSpellMatrix(proto.NewRand(c.R.U64()^0x7061746873), !c.Quick(), c.N(2500, 60000)) {
		builds = append(builds, pc.build)
		origin[pc.build.Line()] = "path-spelling stream: " + pc.label()
		res.Hist("pathspell-stream")
		res.Hist("pathspell-stream/phase-" + pc.pt.phase)
		res.Hist(fmt.Sprintf("pathspell-stream/links-%d", len(pc.pt.links)))
		if pc.pt.phase == "none" {
			psControls[pc.build.Line()] = true
		}
	}
	// every statement and declaration form x modifiers x file roles (lexh.Forms, shared with C04): the build errors
	// of files that extend, import and render other files, of macro bodies with a format, of imported packages
	fr := proto.NewRand(r.U64())
	for _, fc := range lexh.Forms(proto.NewRand(r.U64()), c.Quick(), c.N(3000, 60000)) {
		// quick: one in two of the cases with more than one file (where path, offset and line:column can disagree), one in six of the rest
		if c.Quick() && (len(fc.BuildCase.Files) < 2 && fr.Intn(6) != 0 || len(fc.BuildCase.Files) >= 2 && fr.Intn(2) != 0) {
			continue
		}
		builds = append(builds, fc.BuildCase)
		origin[fc.BuildCase.Line()] = fmt.Sprintf("forms stream: form=%s mod=%s role=%s", fc.Form, fc.Mod, fc.Role)
		res.Hist("forms-stream")
		res.Hist("forms-stream/role-" + fc.Role)
	}
	// the precision self-test of the finding classes: inputs drawn around each class's cause; they go through the
	// oracle like every other input
	probes := classProbes()
	probeAt := map[int]classProbe{}
	for _, pr := range probes {
		probeAt[len(builds)] = pr
		builds = append(builds, pr.b)
		res.Hist("class-probes")
	}
	for i := 0; i < c.N(2500, 30000); i++ {
		t := corpus.Trees[r.Intn(len(corpus.Trees))]
		b := lexh.BuildCase{Kind: 't', Entry: t.Entry, Files: map[string][]byte{}}
		for n, d := range t.Files {
			b.Files[n] = d
		}
		names := sortedNames(t.Files)
		n := names[r.Intn(len(names))]
		b.Files[n] = lexh.Mutate(r, b.Files[n], other)
		builds = append(builds, b)
	}

	// ---- (a) oracle on BuildErrors
	blines := make([]string, len(builds))
	for i, b := range builds {
		blines[i] = b.Line()
	}
	t0 := time.Now()
	bans, err := buildRunner.Run(blines)
	if err != nil {
		return err
	}
	res.Notes = append(res.Notes, fmt.Sprintf("build child: %d inputs in %v", len(blines), time.Since(t0).Round(time.Millisecond)))
	t0 = time.Now()
	shrunk := map[string]bool{}
	for i, b := range builds {
		br := lexh.ParseBuildResult(bans[i])
		res.Count(b.Key(), br.Status == "builderror")
		res.Hist("status-" + strings.Fields(br.Status + " x")[0])
		if o := origin[blines[i]]; strings.HasPrefix(o, "path-spelling") {
			res.Hist("pathspell-stream/status-" + strings.Fields(br.Status + " x")[0])
			if psControls[blines[i]] && br.Status != "ok" {
				res.Hist("pathspell-stream/control-does-not-build")
				res.Notes = append(res.Notes, fmt.Sprintf("path-spelling stream: a tree without an error does not build (%s %s: %s): %s", br.Status, br.Path, br.Msg, o))
			}
		}
		if br.Status == "builderror" {
			if br.Syntax {
				res.Hist("builderror-syntax")
			} else {
				res.Hist("builderror-checker")
			}
			if len(b.Files) > 1 && strings.TrimPrefix(br.Path, "/") != b.Entry {
				res.Hist("builderror-in-included-file")
			}
			if i%997 == 0 {
				res.Sample(map[string]string{"input": humanBuild(b), "error": fmt.Sprintf("%s:%d:%d (start %d): %s", br.Path, br.Line, br.Col, br.Start, br.Msg)})
			}
		}
		clause, _ := verdict(b, br, false)
		if pr, ok := probeAt[i]; ok && activeClasses[pr.class] && pr.predicted {
			res.Hist("class-precision/" + pr.class + "/predicted")
			if clause != "" && classOf(activeClasses, b, br, clause) == pr.class {
				res.Hist("class-precision/" + pr.class + "/fail-as-predicted")
			} else if os.Getenv("VERIF_C21_STRICT") != "" {
				res.AddBreak(proto.Break{Kind: "correspondence", Name: "finding-class-too-broad: " + pr.class, Case: "C21 build " + b.Line(), Human: humanBuild(b),
					Impl: fmt.Sprintf("%s %s:%d:%d (start %d): %s; clause %q", br.Status, br.Path, br.Line, br.Col, br.Start, br.Msg, clause), Model: "fails and is explained by the class"})
			}
		}
		if clause == "" {
			continue
		}
		cls := classOf(activeClasses, b, br, clause)
		sig := clause + "|" + class(br.Msg) + "|" + cls
		if shrunk[sig] {
			continue
		}
		shrunk[sig] = true
		min := b
		if len(shrunk) <= 14 && cls == "" { // an input an active class explains is reported as it is
			for _, n := range sortedNames(b.Files) {
				n := n
				md := lexh.Shrink(min.Files[n], func(x []byte) bool {
					bb := lexh.BuildCase{Kind: b.Kind, Entry: b.Entry, Files: map[string][]byte{}}
					for k, v := range min.Files {
						bb.Files[k] = v
					}
					bb.Files[n] = x
					r2 := buildOne(bb)
					cl, _ := verdict(bb, r2, false)
					return cl == clause && class(r2.Msg) == class(br.Msg) && classOf(activeClasses, bb, r2, cl) == cls
				}, 6000)
				nf := map[string][]byte{}
				for k, v := range min.Files {
					nf[k] = v
				}
				nf[n] = md
				min = lexh.BuildCase{Kind: b.Kind, Entry: b.Entry, Files: nf}
			}
			br = buildOne(min)
		}
		_, want := verdict(min, br, false)
		fid := knownFor("build " + min.Line())
		if fid == "" {
			fid = cls
		}
		if o := origin[b.Line()]; o != "" {
			res.Notes = append(res.Notes, fmt.Sprintf("%s: first failing input (before shrinking) from %s", clause, o))
		}
		res.AddBreak(proto.Break{Kind: "property", Name: clause, Case: "C21 build " + min.Line(), Human: humanBuild(min),
			Impl: fmt.Sprintf("%s:%d:%d (start %d, end %d): %s", br.Path, br.Line, br.Col, br.Start, br.End, br.Msg), Model: want,
			Finding: fid})
	}
	for _, fc := range findingClasses {
		if n := res.Histogram["class-precision/"+fc.id+"/predicted"]; n > 0 {
			ok := res.Histogram["class-precision/"+fc.id+"/fail-as-predicted"]
			res.Histogram["class-precision/"+fc.id+"/permille"] = 1000 * ok / n
			if 100*ok < 95*n {
				res.Notes = append(res.Notes, fmt.Sprintf("class %s: precision %d ‰ — attribution by this class is unreliable on this tree", fc.id, 1000*ok/n))
			}
		}
	}
	res.Notes = append(res.Notes, fmt.Sprintf("oracle+shrink: %v", time.Since(t0).Round(time.Millisecond)))

	// ---- (b) token positions: real lexer vs. model
	if c.D != nil {
		t0 = time.Now()
		lexLines := make([]string, len(lexCases))
		modelLines := make([]string, len(lexCases))
		for i, cs := range lexCases {
			lexLines[i] = lexh.LexLine(cs)
			modelLines[i] = lexh.ModelLine("C21", cs)
		}
		real, err := lexRunner.Run(lexLines)
		if err != nil {
			return err
		}
		model, err := c.D.Batch(modelLines)
		if err != nil {
			return err
		}
		nshr := 0
		tokShrunk := map[string]bool{}
		for i, cs := range lexCases {
			res.Count("lex:"+cs.Key(), strings.Count(real[i], ";") >= 2)
			res.Hist("lex-positions-compared")
			// the oracle on the real lexer's own tokens, independent of the model
			if what, want := tokenVerdict(cs, real[i]); what != "" {
				sig := strings.Fields(what)[0]
				if !tokShrunk[sig] && len(tokShrunk) < 10 {
					tokShrunk[sig] = true
					min := cs
					min.Src = lexh.Shrink(cs.Src, func(b []byte) bool {
						x := cs
						x.Src = b
						w, _ := tokenVerdict(x, lexRunner.Ask(lexh.LexLine(x)))
						return w != "" && strings.Fields(w)[0] == sig
					}, 6000)
					what, want = tokenVerdict(min, lexRunner.Ask(lexh.LexLine(min)))
					if o := origin[lexh.LexLine(cs)]; o != "" {
						res.Notes = append(res.Notes, fmt.Sprintf("token-%s: first failing input (before shrinking) from %s", sig, o))
					}
					res.AddBreak(proto.Break{Kind: "property", Name: "token-" + sig, Case: "C21 lex " + lexh.LexLine(min),
						Human: fmt.Sprintf("%c format=%d %q", min.Mode, min.Format, min.Src), Impl: what, Model: want,
						Finding: knownFor("lex " + lexh.LexLine(min))})
				}
			}
			if real[i] == model[i] {
				continue
			}
			min := cs
			if nshr < 4 && !strings.HasPrefix(real[i], "CRASH") && !strings.HasPrefix(real[i], "HANG") {
				nshr++
				min.Src = lexh.Shrink(cs.Src, func(b []byte) bool {
					x := cs
					x.Src = b
					rl := lexRunner.Ask(lexh.LexLine(x))
					ml, _ := c.D.Ask(lexh.ModelLine("C21", x))
					return !strings.HasPrefix(rl, "CRASH") && !strings.HasPrefix(rl, "HANG") && rl != ml
				}, 4000)
			}
			ml, _ := c.D.Ask(lexh.ModelLine("C21", min))
			res.AddBreak(proto.Break{Kind: "correspondence", Name: "token-positions model-vs-lexer", Case: lexh.ModelLine("C21", min),
				Human: fmt.Sprintf("%c format=%d %q", min.Mode, min.Format, min.Src), Impl: lexRunner.Ask(lexh.LexLine(min)), Model: ml})
		}
		// ---- (c) the Lean specification of line/column against the Go oracle function
		var plines []string
		var want []string
		for i := 0; i < c.N(1500, 20000); i++ {
			src := lexCases[r.Intn(len(lexCases))].Src
			off := r.Intn(len(src) + 1)
			l, col := lexh.LineCol(src, off)
			plines = append(plines, fmt.Sprintf("C21 pos %s %d", proto.Hex(src), off))
			want = append(want, fmt.Sprintf("ok %d %d", l, col))
		}
		got, err := c.D.Batch(plines)
		if err != nil {
			return err
		}
		for i := range got {
			res.SpecChecks["Spec.Position.lineCol-vs-lexh.LineCol"]++
			if got[i] != want[i] {
				res.AddBreak(proto.Break{Kind: "correspondence", Name: "spec lineCol vs Go LineCol", Case: plines[i], Impl: want[i], Model: got[i]})
			}
		}
		res.Notes = append(res.Notes, fmt.Sprintf("lexer correspondence + spec validation: %v", time.Since(t0).Round(time.Millisecond)))
	}
	return nil
}
