package main

import (
	"encoding/json"
	"errors"
	"fmt"
	"go/ast"
	"go/constant"
	"go/parser"
	"go/token"
	"go/types"
	"math/big"
	"os"
	"reflect"
	"regexp"
	"strings"

	"github.com/open2b/scriggo"
	hook "github.com/open2b/scriggo/verifhook/c02"

	"verifharness/internal/hx"
	"verifharness/internal/proto"
)

// C02: compile-time integer constant arithmetic of Scriggo (internal/compiler/constant.go)
//   - against the Lean model of its evaluation strategy (Model/ConstEval.lean: evalScriggo, and the
//     generated fast paths of Gen/ConstInt.lean at the level of single operations, through the hooks),
//   - against the property's oracle, which does not involve the model: go/types + go/constant
//     type-check the same program and give the exact value (program level), math/big (operation level).
// The Lean exact evaluator (the specification) is validated against go/types on the same cases.
func main() { hx.Main("C02", runC02) }

// ---------------------------------------------------------------------------------------------
// constant-expression trees

type node struct {
	tag  string   // L R F C U B Q SHL SHR
	op   string   // U: plus neg compl; B: add…andnot; Q: eq…ge; C: kind name
	n    *big.Int // L (integer literal), R (rune literal)
	q    *big.Rat // F (floating-point literal): the exact value of its decimal text
	a, b *node
}

// flit makes a floating-point literal from its decimal text (e.g. "0.1", "9007199254740992.0").
func flit(text string) *node {
	q, ok := new(big.Rat).SetString(text)
	if !ok || !strings.ContainsAny(text, ".e") {
		panic("bad float literal " + text)
	}
	return &node{tag: "F", op: text, q: q}
}

// ilit makes an imaginary literal from the decimal text of its coefficient ("4", "2.5").
func ilit(text string) *node {
	q, ok := new(big.Rat).SetString(text)
	if !ok {
		panic("bad imaginary literal " + text)
	}
	return &node{tag: "I", op: text + "i", q: q}
}

// decimalText writes q as a decimal literal when its denominator divides a power of ten.
func decimalText(q *big.Rat) (string, bool) {
	d := new(big.Int).Set(q.Denom())
	k := 0
	for _, p := range []int64{2, 5} {
		e := 0
		for new(big.Int).Mod(d, big.NewInt(p)).Sign() == 0 {
			d.Div(d, big.NewInt(p))
			e++
		}
		k = max(k, e)
	}
	if d.Cmp(big.NewInt(1)) != 0 || q.Sign() < 0 {
		return "", false
	}
	return q.FloatString(max(k, 1)), true
}

var goOp = map[string]string{"add": "+", "sub": "-", "mul": "*", "quo": "/", "rem": "%", "and": "&", "or": "|", "xor": "^", "andnot": "&^",
	"eq": "==", "ne": "!=", "lt": "<", "le": "<=", "gt": ">", "ge": ">=", "plus": "+", "neg": "-", "compl": "^"}

var arithOps = []string{"add", "sub", "mul", "quo", "rem", "and", "or", "xor", "andnot"}
var cmpOps = []string{"eq", "ne", "lt", "le", "gt", "ge"}
var unOps = []string{"plus", "neg", "compl"}
var kinds = []string{"int", "int8", "int16", "int32", "int64", "uint", "uint8", "uint16", "uint32", "uint64", "uintptr"}
var kindCode = map[string]reflect.Kind{"int": reflect.Int, "int8": reflect.Int8, "int16": reflect.Int16, "int32": reflect.Int32, "int64": reflect.Int64,
	"uint": reflect.Uint, "uint8": reflect.Uint8, "uint16": reflect.Uint16, "uint32": reflect.Uint32, "uint64": reflect.Uint64, "uintptr": reflect.Uintptr}

func lit(v *big.Int) *node { return &node{tag: "L", n: new(big.Int).Set(v)} }
func litI(v int64) *node   { return &node{tag: "L", n: big.NewInt(v)} }

// signedLit writes a possibly negative value as a literal or its negation.
func signedLit(v *big.Int) *node {
	if v.Sign() < 0 {
		return &node{tag: "U", op: "neg", a: lit(new(big.Int).Neg(v))}
	}
	return lit(v)
}

func (n *node) tokens() string {
	switch n.tag {
	case "L", "R":
		return n.tag + " " + n.n.String()
	case "F", "I":
		return n.tag + " " + n.q.Num().String() + " " + n.q.Denom().String()
	case "RE", "IM":
		return n.tag + " " + n.a.tokens()
	case "C", "U":
		return n.tag + " " + n.op + " " + n.a.tokens()
	case "B", "Q":
		return n.tag + " " + n.op + " " + n.a.tokens() + " " + n.b.tokens()
	}
	return n.tag + " " + n.a.tokens() + " " + n.b.tokens()
}

func (n *node) src() string {
	switch n.tag {
	case "L":
		return n.n.String()
	case "R":
		return fmt.Sprintf("'\\U%08x'", n.n.Int64())
	case "F", "I":
		return n.op
	case "RE":
		return "real(" + n.a.src() + ")"
	case "IM":
		return "imag(" + n.a.src() + ")"
	case "CX":
		return "complex(" + n.a.src() + ", " + n.b.src() + ")"
	case "C":
		return n.op + "(" + n.a.src() + ")"
	case "U":
		return "(" + goOp[n.op] + n.a.src() + ")"
	case "B", "Q":
		return "(" + n.a.src() + " " + goOp[n.op] + " " + n.b.src() + ")"
	case "SHL":
		return "(" + n.a.src() + " << " + n.b.src() + ")"
	}
	return "(" + n.a.src() + " >> " + n.b.src() + ")"
}

// staticType: "untyped", a kind name or "bool", decided by the syntax alone.
func (n *node) staticType() string {
	switch n.tag {
	case "L", "R", "F", "I", "RE", "IM", "CX":
		return "untyped"
	case "C":
		return n.op
	case "U", "SHL", "SHR":
		return n.a.staticType()
	case "Q":
		return "bool"
	}
	if t := n.a.staticType(); t != "untyped" {
		return t
	}
	return n.b.staticType()
}

func (n *node) size() int {
	s := 1
	if n.a != nil {
		s += n.a.size()
	}
	if n.b != nil {
		s += n.b.size()
	}
	return s
}

func (n *node) clone() *node {
	if n == nil {
		return nil
	}
	c := *n
	if n.n != nil {
		c.n = new(big.Int).Set(n.n)
	}
	if n.q != nil {
		c.q = new(big.Rat).Set(n.q)
	}
	c.a, c.b = n.a.clone(), n.b.clone()
	return &c
}

func parseTokens(toks []string) (*node, []string, error) {
	if len(toks) == 0 {
		return nil, nil, errors.New("truncated tree")
	}
	switch t := toks[0]; t {
	case "L", "R":
		if len(toks) < 2 {
			return nil, nil, errors.New("truncated literal")
		}
		v, ok := new(big.Int).SetString(toks[1], 10)
		if !ok || v.Sign() < 0 {
			return nil, nil, errors.New("bad literal")
		}
		if t == "R" {
			return &node{tag: "R", n: v}, toks[2:], nil
		}
		return lit(v), toks[2:], nil
	case "RE", "IM":
		a, rest, err := parseTokens(toks[1:])
		return &node{tag: t, a: a}, rest, err
	case "F", "I":
		if len(toks) < 3 {
			return nil, nil, errors.New("truncated float literal")
		}
		q, ok := new(big.Rat).SetString(toks[1] + "/" + toks[2])
		if !ok {
			return nil, nil, errors.New("bad float literal")
		}
		text, ok := decimalText(q)
		if !ok {
			return nil, nil, errors.New("float literal is not a decimal")
		}
		if t == "I" {
			if q.IsInt() {
				text = q.Num().String()
			}
			return ilit(text), toks[3:], nil
		}
		return flit(text), toks[3:], nil
	case "C", "U":
		if len(toks) < 2 {
			return nil, nil, errors.New("truncated")
		}
		a, rest, err := parseTokens(toks[2:])
		return &node{tag: t, op: toks[1], a: a}, rest, err
	case "B", "Q":
		if len(toks) < 2 {
			return nil, nil, errors.New("truncated")
		}
		a, rest, err := parseTokens(toks[2:])
		if err != nil {
			return nil, nil, err
		}
		b, rest, err := parseTokens(rest)
		return &node{tag: t, op: toks[1], a: a, b: b}, rest, err
	case "SHL", "SHR", "CX":
		a, rest, err := parseTokens(toks[1:])
		if err != nil {
			return nil, nil, err
		}
		b, rest, err := parseTokens(rest)
		return &node{tag: t, a: a, b: b}, rest, err
	}
	return nil, nil, fmt.Errorf("bad token %q", toks[0])
}

// ---------------------------------------------------------------------------------------------
// programs

// simpleProgram is the form known findings are recorded in.
func simpleProgram(n *node) string {
	return "package main\n\nconst c = " + n.src() + "\n\nfunc main() {}\n"
}

const limbs = 16 // 1024 bits: more than any accepted untyped integer constant (512) or generated floating-point constant has

// program declares the constant and prints it: a typed or boolean constant as it is, an untyped
// numeric constant as the 64-bit limbs (two's complement, so the sign is the top bit) of c*den, where den is the
// denominator of the reference's value (1 for integers): an untyped floating-point constant that is
// an integer can be shifted, which gives its exact digits.
func program(n *node, sc scale) string {
	var b strings.Builder
	b.WriteString("package main\n\nconst c = " + n.src() + "\n\nfunc main() {\n")
	part := func(expr string, den *big.Int) {
		scaled := expr
		if den != nil && den.Cmp(big.NewInt(1)) != 0 {
			scaled = "(" + expr + " * " + den.String() + ")" // an integer when the part is the reference's num/den
		}
		for i := 0; i < limbs; i++ {
			fmt.Fprintf(&b, "\tprintln(uint64((%s >> %d) & 0xFFFFFFFFFFFFFFFF))\n", scaled, 64*i)
		}
	}
	switch {
	case n.staticType() != "untyped":
		b.WriteString("\tprintln(c)\n")
	case sc.cplx:
		part("real(c)", sc.re)
		part("imag(c)", sc.im)
	default:
		part("c", sc.re)
	}
	b.WriteString("}\n")
	return b.String()
}

// outcome of one side: "ok int <type> <decimal>", "ok bool <b>", "err <class>: <message>", "panic <message>"
type outcome struct {
	accepted bool
	canon    string // ok …, or err <class>
	detail   string
}

var errClasses = []struct {
	re    *regexp.Regexp
	class string
}{
	{regexp.MustCompile(`division by zero`), "div-zero"},
	{regexp.MustCompile(`negative shift count`), "neg-shift"},
	{regexp.MustCompile(`shift count too large`), "shift-too-large"},
	{regexp.MustCompile(`mismatched types`), "mismatched"},
	{regexp.MustCompile(`truncated to (integer|real)`), "truncated"},
	{regexp.MustCompile(`invalid argument .* for (real|imag)|expected floating-point|arguments have type`), "invalid-op"},
	{regexp.MustCompile(`floating-point % operation|operator \S+ not defined on|invalid operation: \^ `), "invalid-op"},
	{regexp.MustCompile(`constant (addition|subtraction|multiplication|shift|bitwise [A-Za-z ]+) overflow`), "untyped-overflow"},
	{regexp.MustCompile(`constant \S+ overflows `), "overflow"},
}

// modelClass maps the model's rejection to the classes distinguishable in Scriggo's messages
// ("constant N overflows uint" is both a conversion overflow and a count that does not fit uint).
func modelClass(s string) string {
	if s == "err shift-count-uint" {
		return "err overflow"
	}
	return s
}

func runScriggo(n *node, sc scale) (o outcome) {
	defer func() {
		if r := recover(); r != nil {
			o = outcome{canon: "panic", detail: fmt.Sprint(r)}
		}
	}()
	untyped := n.staticType() == "untyped"
	prog, err := scriggo.Build(scriggo.Files{"main.go": []byte(program(n, sc))}, nil)
	if err != nil {
		var be *scriggo.BuildError
		if !errors.As(err, &be) {
			return outcome{canon: "other-error", detail: fmt.Sprintf("%T: %v", err, err)}
		}
		msg := err.Error()
		if be.Position().Line > 3 {
			// the declaration was accepted; the statements that print the scaled parts were not: c is
			// not the value (or not of the kind) the scale was made for
			return outcome{accepted: true, canon: "ok num untyped not-printable-at-scale-" + sc.key(), detail: msg}
		}
		for _, c := range errClasses {
			if c.re.MatchString(msg) {
				return outcome{canon: "err " + c.class, detail: msg}
			}
		}
		return outcome{canon: "err unclassified", detail: msg}
	}
	var vals []any
	err = prog.Run(&scriggo.RunOptions{Print: func(v any) {
		if _, isStr := v.(string); !isStr {
			vals = append(vals, v)
		}
	}})
	if err != nil {
		return outcome{canon: "run-error", detail: err.Error()}
	}
	if !untyped {
		if len(vals) != 1 {
			return outcome{canon: "run-error", detail: fmt.Sprint("printed ", vals)}
		}
		if b, ok := vals[0].(bool); ok {
			return outcome{accepted: true, canon: fmt.Sprintf("ok bool %v", b)}
		}
		return outcome{accepted: true, canon: fmt.Sprintf("ok num %T %v/1", vals[0], vals[0])}
	}
	read := func(vals []any, den *big.Int) (*big.Rat, bool) {
		v := new(big.Int)
		neg := false
		for i := limbs - 1; i >= 0; i-- {
			l, ok := vals[i].(uint64)
			if !ok {
				return nil, false
			}
			if i == limbs-1 {
				neg = l>>63 == 1 // two's complement: the limbs hold far fewer bits than they have room for
			}
			v.Lsh(v, 64)
			v.Or(v, new(big.Int).SetUint64(l))
		}
		if neg {
			v.Sub(v, new(big.Int).Lsh(big.NewInt(1), 64*limbs))
		}
		return new(big.Rat).SetFrac(v, den), true
	}
	want := limbs
	if sc.cplx {
		want *= 2
	}
	if len(vals) != want {
		return outcome{canon: "run-error", detail: fmt.Sprint("printed ", vals)}
	}
	re, ok := read(vals[:limbs], sc.re)
	if !ok {
		return outcome{canon: "run-error", detail: fmt.Sprint("printed ", vals)}
	}
	canon := "ok num untyped " + ratString(re)
	if sc.cplx {
		im, ok := read(vals[limbs:], sc.im)
		if !ok {
			return outcome{canon: "run-error", detail: fmt.Sprint("printed ", vals)}
		}
		canon += " " + ratString(im)
	}
	return outcome{accepted: true, canon: canon}
}

func ratString(q *big.Rat) string { return q.Num().String() + "/" + q.Denom().String() }

// valueKey drops what cannot be observed on the Scriggo side: the kind of an untyped constant.
func valueKey(canon string) string {
	return strings.NewReplacer("untyped-rune", "untyped", "untyped-float", "untyped", "untyped-complex", "untyped").Replace(canon)
}

// scale says how an untyped constant is printed exactly: whether both parts are printed (complex) and
// by which denominators they are multiplied to give integers.
type scale struct {
	cplx   bool
	re, im *big.Int
}

func (s scale) key() string { return fmt.Sprint(s.cplx, s.re, s.im) }

// scaleOf reads the kind and the denominators off an accepted numeric outcome.
func scaleOf(o outcome) scale {
	sc := scale{re: big.NewInt(1), im: big.NewInt(1)}
	f := strings.Fields(o.canon)
	if !o.accepted || len(f) < 4 || f[1] != "num" {
		return sc
	}
	if q, ok := new(big.Rat).SetString(f[3]); ok {
		sc.re = new(big.Int).Set(q.Denom())
	}
	if len(f) >= 5 {
		if q, ok := new(big.Rat).SetString(f[4]); ok {
			sc.cplx = true
			sc.im = new(big.Int).Set(q.Denom())
		}
	}
	return sc
}

// runGoTypes is the reference: go/types type-checks the same program, go/constant holds the value.
func runGoTypes(src string) outcome {
	fset := token.NewFileSet()
	f, err := parser.ParseFile(fset, "main.go", src, 0)
	if err != nil {
		return outcome{canon: "parse-error", detail: err.Error()}
	}
	var first error
	conf := types.Config{Sizes: types.SizesFor("gc", "amd64"), Error: func(e error) {
		if first == nil {
			first = e
		}
	}}
	pkg, _ := conf.Check("main", fset, []*ast.File{f}, nil)
	if first != nil {
		return outcome{canon: "err", detail: first.Error()}
	}
	c, ok := pkg.Scope().Lookup("c").(*types.Const)
	if !ok {
		return outcome{canon: "err", detail: "no constant c"}
	}
	t := c.Type().String()
	switch t {
	case "untyped bool":
		return outcome{accepted: true, canon: fmt.Sprintf("ok bool %v", constant.BoolVal(c.Val()))}
	case "untyped int":
		t = "untyped"
	case "untyped rune":
		t = "untyped-rune"
	case "untyped float":
		t = "untyped-float"
	case "untyped complex":
		t = "untyped-complex"
	}
	frac := func(v constant.Value) (string, bool) {
		num, den := constant.Num(v), constant.Denom(v)
		if num.Kind() != constant.Int || den.Kind() != constant.Int {
			return "", false
		}
		q, ok := new(big.Rat).SetString(num.ExactString() + "/" + den.ExactString())
		if !ok {
			return "", false
		}
		return ratString(q), true
	}
	re, ok := frac(constant.Real(c.Val()))
	if !ok {
		return outcome{canon: "unknown", detail: "go/constant does not hold this value as a fraction: " + c.Val().String()}
	}
	canon := "ok num " + t + " " + re
	if t == "untyped-complex" {
		im, ok := frac(constant.Imag(c.Val()))
		if !ok {
			return outcome{canon: "unknown", detail: "go/constant does not hold this value as a fraction: " + c.Val().String()}
		}
		canon += " " + im
	}
	return outcome{accepted: true, canon: canon}
}

// ---------------------------------------------------------------------------------------------
// the reference has a defect of its own: go/constant folds int64 operands of an integer division
// with `a / b`, so MinInt64 / -1 wraps to MinInt64 (gc 1.25 and 1.26 do the same). Trees in which
// a division meets exactly these operands cannot be judged by go/types; for them (and only for
// them) the reference is goEval: the Go specification's exact arithmetic by math/big.

type goVal struct {
	typ  string   // "untyped", "untyped-rune", "untyped-float", "untyped-complex", kind name, "bool"
	v    *big.Rat // numeric value (real part)
	im   *big.Rat // imaginary part (nil = 0)
	b    bool
	bad  bool // rejected
	minq bool // a division MinInt64 / -1 was evaluated below (go/constant's own defect)
	wide bool // some value below is not a binary fraction with a 512-bit mantissa: a big.Float would round it
}

func (g goVal) imag() *big.Rat {
	if g.im == nil {
		return new(big.Rat)
	}
	return g.im
}

func (g goVal) isReal() bool { return g.imag().Sign() == 0 }

func fitsKind(k string, v *big.Int) bool {
	lo, hi := kindRange(k)
	return lo.Cmp(v) <= 0 && v.Cmp(hi) <= 0
}

var untypedRank = map[string]int{"untyped": 0, "untyped-rune": 1, "untyped-float": 2, "untyped-complex": 3}

func isUntyped(t string) bool { _, ok := untypedRank[t]; return ok }

func goCheck(typ string, v *big.Rat) bool {
	switch typ {
	case "untyped-float", "untyped-complex":
		return true
	case "untyped", "untyped-rune":
		return v.IsInt() && v.Num().BitLen() <= 512
	}
	return v.IsInt() && fitsKind(typ, v.Num())
}

// rep512 tells whether q is a binary fraction whose mantissa has at most 512 bits.
func rep512(q *big.Rat) bool {
	d := q.Denom()
	if new(big.Int).And(d, new(big.Int).Sub(d, big.NewInt(1))).Sign() != 0 {
		return false
	}
	n := new(big.Int).Abs(q.Num())
	if n.Sign() == 0 {
		return true
	}
	return n.BitLen()-int(n.TrailingZeroBits()) <= 512
}

var minI64 = big.NewInt(-9223372036854775808)

func goEval(n *node) (r goVal) {
	defer func() {
		if !r.bad && r.typ != "bool" && (!rep512(r.v) || !rep512(r.imag())) {
			r.wide = true
		}
	}()
	rej := func(minq, wide bool) goVal { return goVal{bad: true, minq: minq, wide: wide} }
	switch n.tag {
	case "L":
		if n.n.BitLen() > 512 {
			return rej(false, false)
		}
		return goVal{typ: "untyped", v: new(big.Rat).SetInt(n.n)}
	case "R":
		return goVal{typ: "untyped-rune", v: new(big.Rat).SetInt(n.n)}
	case "F":
		return goVal{typ: "untyped-float", v: n.q}
	case "I":
		return goVal{typ: "untyped-complex", v: new(big.Rat), im: n.q}
	case "RE", "IM":
		a := goEval(n.a)
		if a.bad || !isUntyped(a.typ) {
			return rej(a.minq, a.wide)
		}
		v := a.v
		if n.tag == "IM" {
			v = a.imag()
		}
		return goVal{typ: "untyped-float", v: v, minq: a.minq, wide: a.wide}
	case "CX":
		a, b := goEval(n.a), goEval(n.b)
		minq, wide := a.minq || b.minq, a.wide || b.wide
		if a.bad || b.bad || !isUntyped(a.typ) || !isUntyped(b.typ) || !a.isReal() || !b.isReal() {
			return rej(minq, wide)
		}
		return goVal{typ: "untyped-complex", v: a.v, im: b.v, minq: minq, wide: wide}
	case "C":
		a := goEval(n.a)
		if a.bad || a.typ == "bool" || !a.isReal() || !a.v.IsInt() || !fitsKind(n.op, a.v.Num()) {
			return rej(a.minq, a.wide)
		}
		return goVal{typ: n.op, v: a.v, minq: a.minq, wide: a.wide}
	case "U":
		a := goEval(n.a)
		if a.bad || a.typ == "bool" {
			return rej(a.minq, a.wide)
		}
		v, im := new(big.Rat), new(big.Rat)
		switch n.op {
		case "plus":
			v.Set(a.v)
			im.Set(a.imag())
		case "neg":
			v.Neg(a.v)
			im.Neg(a.imag())
		case "compl":
			if a.typ == "untyped-float" || a.typ == "untyped-complex" {
				return rej(a.minq, a.wide)
			}
			if strings.HasPrefix(a.typ, "uint") {
				_, hi := kindRange(a.typ)
				v.SetInt(new(big.Int).Xor(hi, a.v.Num()))
			} else {
				v.SetInt(new(big.Int).Not(a.v.Num()))
			}
		}
		if !goCheck(a.typ, v) {
			return rej(a.minq, a.wide)
		}
		return goVal{typ: a.typ, v: v, im: im, minq: a.minq, wide: a.wide}
	}
	a, b := goEval(n.a), goEval(n.b)
	minq, wide := a.minq || b.minq, a.wide || b.wide
	if a.bad || b.bad || a.typ == "bool" || b.typ == "bool" {
		return rej(minq, wide)
	}
	if n.tag == "SHL" || n.tag == "SHR" {
		if !a.isReal() || !b.isReal() || !a.v.IsInt() || !b.v.IsInt() || b.v.Sign() < 0 || b.v.Num().Cmp(big.NewInt(1074)) > 0 {
			return rej(minq, wide)
		}
		v := new(big.Int)
		if n.tag == "SHL" {
			v.Lsh(a.v.Num(), uint(b.v.Num().Uint64()))
		} else {
			v.Rsh(a.v.Num(), uint(b.v.Num().Uint64()))
		}
		typ := a.typ
		if typ == "untyped-float" || typ == "untyped-complex" {
			typ = "untyped"
		}
		if !goCheck(typ, new(big.Rat).SetInt(v)) {
			return rej(minq, wide)
		}
		return goVal{typ: typ, v: new(big.Rat).SetInt(v), minq: minq, wide: wide}
	}
	typ := a.typ
	switch {
	case isUntyped(a.typ) && isUntyped(b.typ):
		if untypedRank[b.typ] > untypedRank[a.typ] {
			typ = b.typ
		}
	case isUntyped(a.typ):
		typ = b.typ
		if !a.isReal() || !a.v.IsInt() || !fitsKind(typ, a.v.Num()) {
			return rej(minq, wide)
		}
	case isUntyped(b.typ):
		if !b.isReal() || !b.v.IsInt() || !fitsKind(typ, b.v.Num()) {
			return rej(minq, wide)
		}
	case a.typ != b.typ:
		return rej(minq, wide)
	}
	if n.tag == "Q" {
		if typ == "untyped-complex" {
			eq := a.v.Cmp(b.v) == 0 && a.imag().Cmp(b.imag()) == 0
			switch n.op {
			case "eq":
				return goVal{typ: "bool", b: eq, minq: minq, wide: wide}
			case "ne":
				return goVal{typ: "bool", b: !eq, minq: minq, wide: wide}
			}
			return rej(minq, wide)
		}
		c := a.v.Cmp(b.v)
		return goVal{typ: "bool", b: map[string]bool{"eq": c == 0, "ne": c != 0, "lt": c < 0, "le": c <= 0, "gt": c > 0, "ge": c >= 0}[n.op], minq: minq, wide: wide}
	}
	v, im := new(big.Rat), new(big.Rat)
	switch typ {
	case "untyped-complex":
		ar, ai, br, bi := a.v, a.imag(), b.v, b.imag()
		mul := func(x, y *big.Rat) *big.Rat { return new(big.Rat).Mul(x, y) }
		switch n.op {
		case "add":
			v.Add(ar, br)
			im.Add(ai, bi)
		case "sub":
			v.Sub(ar, br)
			im.Sub(ai, bi)
		case "mul":
			v.Sub(mul(ar, br), mul(ai, bi))
			im.Add(mul(ai, br), mul(ar, bi))
		case "quo":
			s := new(big.Rat).Add(mul(br, br), mul(bi, bi))
			if s.Sign() == 0 {
				return rej(minq, wide)
			}
			v.Quo(new(big.Rat).Add(mul(ar, br), mul(ai, bi)), s)
			im.Quo(new(big.Rat).Sub(mul(ai, br), mul(ar, bi)), s)
		default:
			return rej(minq, wide)
		}
	case "untyped-float":
		switch n.op {
		case "add":
			v.Add(a.v, b.v)
		case "sub":
			v.Sub(a.v, b.v)
		case "mul":
			v.Mul(a.v, b.v)
		case "quo":
			if b.v.Sign() == 0 {
				return rej(minq, wide)
			}
			v.Quo(a.v, b.v)
		default:
			return rej(minq, wide)
		}
	default:
		if n.op == "quo" && a.v.Num().Cmp(minI64) == 0 && b.v.Num().Cmp(big.NewInt(-1)) == 0 {
			minq = true
		}
		s, defined := exactBinary(n.op, a.v.Num(), b.v.Num())
		if !defined {
			return rej(minq, wide)
		}
		v.SetString(s)
	}
	if !goCheck(typ, v) {
		return rej(minq, wide)
	}
	return goVal{typ: typ, v: v, im: im, minq: minq, wide: wide}
}

func (g goVal) outcome() outcome {
	switch {
	case g.bad:
		return outcome{canon: "err", detail: "goEval (math/big)"}
	case g.typ == "bool":
		return outcome{accepted: true, canon: fmt.Sprintf("ok bool %v", g.b), detail: "goEval (math/big)"}
	case g.typ == "untyped-complex":
		return outcome{accepted: true, canon: "ok num " + g.typ + " " + ratString(g.v) + " " + ratString(g.imag()), detail: "goEval (math/big)"}
	}
	return outcome{accepted: true, canon: "ok num " + g.typ + " " + ratString(g.v), detail: "goEval (math/big)"}
}

// reference is go/types on the declaration, except for trees that meet the go/constant defect.
func reference(n *node) (ref outcome, g goVal) {
	g = goEval(n)
	if g.minq {
		return g.outcome(), g
	}
	return runGoTypes(simpleProgram(n)), g
}

// ---------------------------------------------------------------------------------------------
// generator

type gen struct {
	r    *proto.Rand
	lits []*big.Int
}

func pow2(n uint) *big.Int { return new(big.Int).Lsh(big.NewInt(1), n) }

func newGen(r *proto.Rand) *gen {
	g := &gen{r: r}
	for _, v := range []int64{0, 1, 2, 3, 5, 7, 8, 10, 15, 16, 31, 32, 33, 63, 64, 65, 100, 127, 128, 129, 255, 256, 257, 1000,
		32767, 32768, 32769, 65535, 65536, 65537, 2147483647, 2147483648, 2147483649, 4294967295, 4294967296, 4294967297,
		3037000499, 3037000500, 6074000999, 4611686018427387904, 9223372036854775806, 9223372036854775807} {
		g.lits = append(g.lits, big.NewInt(v))
	}
	for _, e := range []uint{63, 64, 65, 127, 128, 255, 256, 510, 511} {
		p := pow2(e)
		g.lits = append(g.lits, new(big.Int).Sub(p, big.NewInt(1)), p, new(big.Int).Add(p, big.NewInt(1)))
	}
	g.lits = append(g.lits, new(big.Int).Sub(pow2(512), big.NewInt(1)))
	return g
}

// minInt64 built on the int64 fast path: -9223372036854775807 - 1
func minInt64Small() *node {
	return &node{tag: "B", op: "sub", a: &node{tag: "U", op: "neg", a: litI(9223372036854775807)}, b: litI(1)}
}

func (g *gen) literal() *node {
	switch g.r.Intn(10) {
	case 0:
		return litI(int64(g.r.Intn(20)))
	case 1:
		return lit(new(big.Int).SetUint64(g.r.U64() >> uint(g.r.Intn(64))))
	case 2:
		return minInt64Small()
	}
	return lit(g.lits[g.r.Intn(len(g.lits))])
}

var shiftCounts = []string{"0", "1", "2", "7", "8", "31", "32", "62", "63", "64", "65", "127", "128", "448", "449", "510", "511", "512", "513",
	"1000", "1073", "1074", "1075", "1076", "4096", "4294967296", "9223372036854775807", "9223372036854775808", "18446744073709551615", "18446744073709551616"}

func (g *gen) count(depth int, kind string) *node {
	switch g.r.Intn(10) {
	case 0, 1, 2, 3, 4:
		return litI(int64(g.r.Intn(70)))
	case 5, 6:
		v, _ := new(big.Int).SetString(g.r.Pick(shiftCounts), 10)
		return lit(v)
	case 7:
		return &node{tag: "C", op: g.r.Pick(kinds), a: litI(int64(g.r.Intn(70)))}
	case 8:
		return &node{tag: "U", op: "neg", a: litI(int64(g.r.Intn(3)))}
	}
	return g.expr(depth, kind)
}

// expr generates a tree of at most the given depth; kind is the integer kind preferred for
// conversions (so that typed operands mostly agree).
func (g *gen) expr(depth int, kind string) *node {
	if depth <= 0 {
		return g.literal()
	}
	switch x := g.r.Intn(100); {
	case x < 18:
		n := g.literal()
		if g.r.Intn(3) == 0 {
			n = &node{tag: "U", op: "neg", a: n}
		}
		return n
	case x < 34:
		k := kind
		if g.r.Intn(5) == 0 {
			k = g.r.Pick(kinds)
		}
		return &node{tag: "C", op: k, a: g.expr(depth-1, k)}
	case x < 48:
		return &node{tag: "U", op: g.r.Pick(unOps), a: g.expr(depth-1, kind)}
	case x < 86:
		return &node{tag: "B", op: g.r.Pick(arithOps), a: g.expr(depth-1, kind), b: g.expr(depth-1, kind)}
	case x < 93:
		return &node{tag: "SHL", a: g.expr(depth-1, kind), b: g.count(depth-1, kind)}
	}
	return &node{tag: "SHR", a: g.expr(depth-1, kind), b: g.count(depth-1, kind)}
}

func (g *gen) root() *node {
	kind := g.r.Pick(kinds)
	depth := 1 + g.r.Intn(4)
	if g.r.Intn(8) == 0 {
		return &node{tag: "Q", op: g.r.Pick(cmpOps), a: g.expr(depth-1, kind), b: g.expr(depth-1, kind)}
	}
	return g.expr(depth, kind)
}

// directed: every operator on every pair of boundary operands, on the int64 path and the big path,
// untyped and converted to a few kinds; every unary operator and conversion on the boundary set.
func directed(g *gen) []*node {
	var out []*node
	vals := []*node{litI(0), litI(1), litI(2), litI(3), &node{tag: "U", op: "neg", a: litI(1)}, &node{tag: "U", op: "neg", a: litI(2)},
		litI(9223372036854775807), &node{tag: "U", op: "neg", a: litI(9223372036854775807)}, minInt64Small(),
		litI(4611686018427387904), litI(3037000500), &node{tag: "U", op: "neg", a: litI(3037000500)}, litI(4294967296),
		lit(pow2(63)), &node{tag: "U", op: "neg", a: lit(pow2(63))}, lit(new(big.Int).Sub(pow2(64), big.NewInt(1))), lit(pow2(64)),
		lit(pow2(511)), &node{tag: "U", op: "neg", a: lit(pow2(511))}, lit(new(big.Int).Sub(pow2(512), big.NewInt(1)))}
	for _, op := range arithOps {
		for _, a := range vals {
			for _, b := range vals {
				out = append(out, &node{tag: "B", op: op, a: a.clone(), b: b.clone()})
			}
		}
	}
	for _, op := range cmpOps {
		for _, a := range vals[:12] {
			for _, b := range vals[:12] {
				out = append(out, &node{tag: "Q", op: op, a: a.clone(), b: b.clone()})
			}
		}
	}
	for _, k := range kinds {
		for _, a := range append(vals, litI(127), litI(128), litI(255), litI(256), litI(32767), litI(32768), litI(65535), litI(65536),
			litI(2147483647), litI(2147483648), litI(4294967295), &node{tag: "U", op: "neg", a: litI(128)}, &node{tag: "U", op: "neg", a: litI(129)},
			&node{tag: "U", op: "neg", a: litI(32768)}, &node{tag: "U", op: "neg", a: litI(32769)}, &node{tag: "U", op: "neg", a: litI(2147483648)},
			&node{tag: "U", op: "neg", a: litI(2147483649)}) {
			c := &node{tag: "C", op: k, a: a.clone()}
			out = append(out, c)
			for _, u := range unOps {
				out = append(out, &node{tag: "U", op: u, a: c.clone()})
			}
		}
	}
	for _, a := range vals {
		for _, u := range unOps {
			out = append(out, &node{tag: "U", op: u, a: a.clone()})
		}
		for _, s := range shiftCounts {
			v, _ := new(big.Int).SetString(s, 10)
			out = append(out, &node{tag: "SHL", a: a.clone(), b: lit(v)}, &node{tag: "SHR", a: a.clone(), b: lit(v)})
		}
	}
	return out
}


// ---------------------------------------------------------------------------------------------
// mixed integer / rune / floating-point untyped constants

var floatLits = []string{"0.0", "0.5", "0.25", "0.125", "1.0", "1.5", "2.0", "2.5", "3.0", "4.0", "8.0", "1024.0", "0.1", "0.2", "0.3", "1.1", "100.01",
	"4503599627370496.5", "9007199254740992.0", "9007199254740993.0", "9007199254740993.5", "18014398509481985.0",
	"18446744073709551616.0", "18446744073709551617.0", "1208925819614629174706177.0"}

var mixedInts = []string{"0", "1", "2", "3", "5", "7", "10", "255", "256", "9007199254740991", "9007199254740992", "9007199254740993",
	"18014398509481985", "9223372036854775807", "9223372036854775808", "18446744073709551615", "18446744073709551617", "1208925819614629174706177"}

var runeLits = []int64{0, 48, 97, 233, 0x10FFFF}

func (g *gen) mixedLeaf() *node {
	var n *node
	switch x := g.r.Intn(100); {
	case x < 42:
		v, _ := new(big.Int).SetString(g.r.Pick(mixedInts), 10)
		n = lit(v)
	case x < 85:
		n = flit(g.r.Pick(floatLits))
	case x < 93:
		n = &node{tag: "R", n: big.NewInt(runeLits[g.r.Intn(len(runeLits))])}
	default:
		n = litI(int64(g.r.Intn(20)))
	}
	if g.r.Intn(5) == 0 {
		n = &node{tag: "U", op: "neg", a: n}
	}
	return n
}

var mixedArith = []string{"add", "sub", "mul", "quo"}

func (g *gen) mixedExpr(depth int) *node {
	if depth <= 0 {
		return g.mixedLeaf()
	}
	switch x := g.r.Intn(100); {
	case x < 15:
		return g.mixedLeaf()
	case x < 70:
		return &node{tag: "B", op: g.r.Pick(mixedArith), a: g.mixedExpr(depth - 1), b: g.mixedExpr(depth - 1)}
	case x < 76:
		return &node{tag: "B", op: g.r.Pick(arithOps), a: g.mixedExpr(depth - 1), b: g.mixedExpr(depth - 1)}
	case x < 86:
		return &node{tag: "C", op: g.r.Pick(kinds), a: g.mixedExpr(depth - 1)}
	case x < 92:
		return &node{tag: "U", op: g.r.Pick(unOps), a: g.mixedExpr(depth - 1)}
	case x < 96:
		return &node{tag: "SHL", a: g.mixedExpr(depth - 1), b: g.mixedCount()}
	}
	return &node{tag: "SHR", a: g.mixedExpr(depth - 1), b: g.mixedCount()}
}

func (g *gen) mixedCount() *node {
	switch g.r.Intn(4) {
	case 0:
		return flit(g.r.Pick([]string{"0.0", "1.0", "2.0", "3.0", "1.5", "64.0"}))
	case 1:
		return g.mixedLeaf()
	}
	return litI(int64(g.r.Intn(70)))
}

func (g *gen) mixedRoot() *node {
	depth := 1 + g.r.Intn(3)
	if g.r.Intn(5) == 0 {
		return &node{tag: "Q", op: g.r.Pick(cmpOps), a: g.mixedExpr(depth - 1), b: g.mixedExpr(depth - 1)}
	}
	return g.mixedExpr(depth)
}

// directedMixed: every arithmetic operator and comparison on every (integer, float) pair of the
// boundary sets, in both orders; conversions of float literals to every kind; the promotions of every
// pair of implementations (int64Const, intConst, float64Const, floatConst, ratConst) on integers that
// need more than 53 and more than 64 bits.
func directedMixed() []*node {
	var out []*node
	ints := []string{"0", "1", "3", "9007199254740992", "9007199254740993", "18014398509481985", "9223372036854775807", "18446744073709551617", "1208925819614629174706177"}
	floats := []string{"0.0", "0.5", "1.0", "2.0", "1.5", "0.1", "9007199254740992.0", "9007199254740993.5", "18446744073709551617.0"}
	I := func(s string) *node { v, _ := new(big.Int).SetString(s, 10); return lit(v) }
	for _, op := range append(append([]string{}, mixedArith...), cmpOps...) {
		tag := "B"
		if len(op) == 2 {
			tag = "Q"
		}
		for _, a := range ints {
			for _, b := range floats {
				out = append(out, &node{tag: tag, op: op, a: I(a), b: flit(b)}, &node{tag: tag, op: op, a: flit(b), b: I(a)})
				// the integer against a floatConst (the sum of two float64 constants is a big.Float)
				bf := &node{tag: "B", op: "add", a: flit(b), b: flit("0.25")}
				out = append(out, &node{tag: tag, op: op, a: I(a), b: bf}, &node{tag: tag, op: op, a: bf.clone(), b: I(a)})
			}
		}
		for _, a := range floats {
			for _, b := range floats {
				out = append(out, &node{tag: tag, op: op, a: flit(a), b: flit(b)})
			}
		}
	}
	sub := func(a, b *node) *node { return &node{tag: "B", op: "sub", a: a, b: b} }
	add := func(a, b *node) *node { return &node{tag: "B", op: "add", a: a, b: b} }
	out = append(out,
		sub(add(I("9007199254740993"), flit("0.5")), flit("9007199254740993.5")),
		&node{tag: "B", op: "quo", a: I("1"), b: sub(I("9007199254740993"), flit("9007199254740992.0"))},
		&node{tag: "C", op: "uint", a: sub(I("9007199254740992"), add(I("9007199254740993"), flit("0.0")))},
		&node{tag: "C", op: "uint", a: sub(I("9007199254740993"), add(I("9007199254740993"), flit("0.0")))},
	)
	for _, k := range kinds {
		for _, f := range []string{"0.0", "1.0", "2.5", "127.0", "128.0", "255.0", "256.0", "0.5", "9007199254740992.0", "18446744073709551616.0", "18446744073709551615.0", "9223372036854775808.0", "9223372036854775807.0"} {
			out = append(out, &node{tag: "C", op: k, a: flit(f)}, &node{tag: "C", op: k, a: &node{tag: "U", op: "neg", a: flit(f)}},
				&node{tag: "B", op: "add", a: &node{tag: "C", op: k, a: litI(1)}, b: flit(f)})
		}
		out = append(out, &node{tag: "C", op: k, a: &node{tag: "B", op: "mul", a: flit("2.5"), b: litI(2)}},
			&node{tag: "C", op: k, a: &node{tag: "R", n: big.NewInt(97)}})
	}
	for _, f := range []string{"8.0", "2.5", "0.0", "9007199254740992.0"} {
		for _, cnt := range []*node{litI(1), flit("1.0"), flit("1.5"), litI(64), &node{tag: "U", op: "neg", a: flit("1.0")}} {
			out = append(out, &node{tag: "SHL", a: flit(f), b: cnt.clone()}, &node{tag: "SHR", a: flit(f), b: cnt.clone()},
				&node{tag: "SHL", a: litI(3), b: cnt.clone()})
		}
	}
	for _, r := range runeLits {
		rn := &node{tag: "R", n: big.NewInt(r)}
		out = append(out, rn, &node{tag: "B", op: "quo", a: rn.clone(), b: litI(2)}, &node{tag: "B", op: "quo", a: rn.clone(), b: flit("2.0")},
			&node{tag: "U", op: "compl", a: rn.clone()}, &node{tag: "B", op: "rem", a: rn.clone(), b: litI(7)})
	}
	return out
}

// kindMatrix: every binary operator, comparison and shift on every ordered pair of constant-kind
// exemplars: integer, rune, floating-point and complex constants, including the floating-point and complex
// constants whose value is an integer and which Scriggo holds as integer constants (results of real, imag
// and of complex arithmetic on integer parts), plus the builtins real, imag, complex on every exemplar.
func kindMatrix() []*node {
	I := func(v int64) *node { return litI(v) }
	add := func(a, b *node) *node { return &node{tag: "B", op: "add", a: a, b: b} }
	re := func(a *node) *node { return &node{tag: "RE", a: a} }
	im := func(a *node) *node { return &node{tag: "IM", a: a} }
	cx := func(a, b *node) *node { return &node{tag: "CX", a: a, b: b} }
	ex := []func() *node{
		func() *node { return I(7) },                                  // int
		func() *node { return I(2) },                                  // int
		func() *node { return I(0) },                                  // int
		func() *node { return &node{tag: "U", op: "neg", a: I(3)} },   // int
		func() *node { return &node{tag: "R", n: big.NewInt(97)} },    // rune
		func() *node { return flit("2.0") },                           // float, float64Const
		func() *node { return flit("0.5") },                           // float
		func() *node { return flit("1e3") },                           // float
		func() *node { return flit("0.1") },                           // float, ratConst
		func() *node { return re(add(I(2), ilit("0"))) },              // float held as int64Const: real(2+0i)
		func() *node { return re(I(7)) },                              // float held as int64Const: real(7)
		func() *node { return im(ilit("4")) },                         // float held as int64Const: imag(4i)
		func() *node { return re(cx(flit("2.5"), I(1))) },             // float: real(complex(2.5, 1))
		func() *node { return ilit("4") },                             // complex, integer parts
		func() *node { return add(I(2), ilit("0")) },                  // complex with zero imaginary part
		func() *node { return cx(I(1), I(2)) },                        // complex(1, 2)
		func() *node { return cx(flit("0.5"), I(2)) },                 // complex(0.5, 2)
		func() *node { return &node{tag: "B", op: "quo", a: ilit("4"), b: ilit("2")} }, // 4i/2i: complex, value 2
		func() *node { return ilit("2.5") },                           // complex, float part
	}
	var out []*node
	for _, op := range cmpOps {
		for _, z := range []func() *node{func() *node { return ilit("0") }, func() *node { return add(I(2), ilit("0")) }} {
			out = append(out, &node{tag: "Q", op: op, a: im(cx(I(7), z())), b: I(1)}, &node{tag: "Q", op: op, a: I(1), b: re(cx(z(), I(7)))},
				&node{tag: "Q", op: op, a: re(cx(I(7), z())), b: flit("0.5")})
		}
	}
	for _, a := range ex {
		out = append(out, a(), re(a()), im(a()), &node{tag: "U", op: "neg", a: a()}, &node{tag: "U", op: "compl", a: a()},
			&node{tag: "C", op: "int", a: a()}, &node{tag: "C", op: "uint8", a: a()})
		for _, b := range ex {
			for _, op := range arithOps {
				out = append(out, &node{tag: "B", op: op, a: a(), b: b()})
			}
			for _, op := range cmpOps {
				out = append(out, &node{tag: "Q", op: op, a: a(), b: b()})
			}
			out = append(out, &node{tag: "SHL", a: a(), b: b()}, &node{tag: "SHR", a: a(), b: b()}, cx(a(), b()))
		}
	}
	return out
}

// complexExpr: random expressions over the kind exemplars (no conversions inside: the arguments of
// real, imag and complex stay untyped).
func (g *gen) complexExpr(depth int) *node {
	leaf := func() *node {
		switch g.r.Intn(6) {
		case 0:
			return ilit(g.r.Pick([]string{"0", "1", "2", "4", "0.5", "2.5", "3"}))
		case 1:
			return flit(g.r.Pick([]string{"0.0", "0.5", "2.0", "1e3", "3.0", "0.25"}))
		case 2:
			return &node{tag: "R", n: big.NewInt(runeLits[g.r.Intn(len(runeLits))])}
		}
		v, _ := new(big.Int).SetString(g.r.Pick([]string{"0", "1", "2", "3", "7", "10", "9007199254740993", "18446744073709551617"}), 10)
		return lit(v)
	}
	if depth <= 0 {
		return leaf()
	}
	switch x := g.r.Intn(100); {
	case x < 12:
		return leaf()
	case x < 62:
		return &node{tag: "B", op: g.r.Pick(mixedArith), a: g.complexExpr(depth - 1), b: g.complexExpr(depth - 1)}
	case x < 68:
		return &node{tag: "B", op: g.r.Pick(arithOps), a: g.complexExpr(depth - 1), b: g.complexExpr(depth - 1)}
	case x < 78:
		return &node{tag: "RE", a: g.complexExpr(depth - 1)}
	case x < 86:
		return &node{tag: "IM", a: g.complexExpr(depth - 1)}
	case x < 94:
		return &node{tag: "CX", a: g.complexExpr(depth - 1), b: g.complexExpr(depth - 1)}
	}
	return &node{tag: "U", op: g.r.Pick(unOps), a: g.complexExpr(depth - 1)}
}

func (g *gen) complexRoot() *node {
	depth := 1 + g.r.Intn(3)
	switch g.r.Intn(8) {
	case 0:
		return &node{tag: "Q", op: g.r.Pick(cmpOps), a: g.complexExpr(depth - 1), b: g.complexExpr(depth - 1)}
	case 1:
		return &node{tag: "C", op: g.r.Pick(kinds), a: g.complexExpr(depth - 1)}
	}
	return g.complexExpr(depth)
}

// ---------------------------------------------------------------------------------------------
// the property's oracle at program level, and shrinking

// clause compares Scriggo with the reference on one tree: "" when the property holds.
func clause(n *node) (cl string, impl, ref outcome) {
	cl, impl, ref, _ = clauseW(n)
	return
}

// clauseW also reports a difference that is not judged: the tree evaluates, somewhere, a value that
// is not a binary fraction with a 512-bit mantissa (1/3, 0.1 …), which Scriggo's big.Float arithmetic
// may round — the class of the finding recorded by C03, not repeated here.
func clauseW(n *node) (cl string, impl, ref outcome, unjudged string) {
	ref, g := reference(n)
	impl = runScriggo(n, scaleOf(ref))
	switch {
	case impl.canon == "panic":
		return "build-panics", impl, ref, ""
	case impl.canon == "other-error" || impl.canon == "run-error":
		return "build-error-is-not-a-BuildError", impl, ref, ""
	case ref.canon == "parse-error" || ref.canon == "unknown":
		return "", impl, ref, "" // nothing to compare (the generator avoids both)
	case impl.accepted && !ref.accepted:
		cl = "accepts-what-go-rejects"
	case !impl.accepted && ref.accepted:
		cl = "rejects-what-go-accepts"
	case impl.accepted && valueKey(impl.canon) != valueKey(ref.canon):
		cl = "value-differs-from-go"
	}
	if cl != "" && g.wide {
		return "", impl, ref, cl
	}
	return cl, impl, ref, ""
}

func (o outcome) String() string {
	if o.detail != "" {
		return o.canon + " (" + o.detail + ")"
	}
	return o.canon
}

// fold replaces a subtree by the literal of its value (as the reference computes it).
func fold(n *node) *node {
	if n.tag == "L" || n.tag == "R" || n.tag == "F" || n.tag == "Q" {
		return nil
	}
	ref := runGoTypes(simpleProgram(n))
	f := strings.Fields(ref.canon)
	if !ref.accepted || len(f) != 4 || f[1] != "num" {
		return nil
	}
	q, ok := new(big.Rat).SetString(f[3])
	if !ok {
		return nil
	}
	if q.IsInt() && f[2] != "untyped-float" {
		return signedLit(q.Num())
	}
	text, ok := decimalText(new(big.Rat).Abs(q))
	if !ok {
		return nil
	}
	if q.Sign() < 0 {
		return &node{tag: "U", op: "neg", a: flit(text)}
	}
	return flit(text)
}

// shrink: smallest tree (replacing subtrees by their children, by 0, 1 or their value, and
// literals by smaller ones) on which the same clause still fails.
func shrink(root *node, cl string) *node {
	failing := func(n *node) bool { c, _, _ := clause(n); return c == cl }
	cur := root.clone()
	// positions are addressed by walking the tree in pre-order
	var nodes func(n *node, acc *[]*node)
	nodes = func(n *node, acc *[]*node) {
		*acc = append(*acc, n)
		if n.a != nil {
			nodes(n.a, acc)
		}
		if n.b != nil {
			nodes(n.b, acc)
		}
	}
	for progress := true; progress; {
		progress = false
		var list []*node
		nodes(cur, &list)
		for _, p := range list {
			saved := *p
			var cands []*node
			if p.tag != "L" {
				if p.a != nil {
					cands = append(cands, p.a)
				}
				if p.b != nil {
					cands = append(cands, p.b)
				}
				cands = append(cands, litI(0), litI(1))
				if p.tag == "R" {
					cands = append(cands, lit(p.n))
				}
				if p.tag == "I" && p.q.Sign() != 0 {
					cands = append(cands, ilit("0"))
				}
				if p.tag == "F" && p.q.IsInt() {
					cands = append(cands, lit(p.q.Num())) // then shrunk as an integer literal
				}
				if f := fold(p); f != nil && f.size() < p.size() {
					cands = append(cands, f)
				}
			} else if p.n.Sign() > 0 {
				cands = append(cands, litI(0))
				if p.n.Cmp(big.NewInt(1)) > 0 {
					cands = append(cands, litI(1))
				}
			}
			// canonical forms, so that one defect shrinks to one program: imag → real, operators towards the
			// first of a fixed list, operands in the order of their protocol text
			if p.tag == "IM" {
				cands = append(cands, &node{tag: "RE", a: p.a})
			}
			for _, order := range [][]string{{"and", "or", "xor", "andnot", "add", "sub", "mul", "quo", "rem"}, {"lt", "le", "gt", "ge", "eq", "ne"}} {
				for i, o := range order {
					if (p.tag == "B" || p.tag == "Q") && o == p.op {
						for _, o2 := range order[:i] {
							cands = append(cands, &node{tag: p.tag, op: o2, a: p.a, b: p.b})
						}
					}
				}
			}
			if (p.tag == "B" || p.tag == "Q" || p.tag == "CX") && p.b.tokens() < p.a.tokens() {
				cands = append(cands, &node{tag: p.tag, op: p.op, a: p.b, b: p.a})
			}
			done := false
			for _, c := range cands {
				*p = *c.clone()
				if failing(cur) {
					progress, done = true, true
					break
				}
				*p = saved
			}
			if done {
				break
			}
			if p.tag == "L" && p.n.Cmp(big.NewInt(2)) > 0 {
				// smallest failing literal between 1 (not failing) and the current one, by bisection
				lo, hi := big.NewInt(1), new(big.Int).Set(p.n)
				for new(big.Int).Sub(hi, lo).Cmp(big.NewInt(1)) > 0 {
					mid := new(big.Int).Rsh(new(big.Int).Add(lo, hi), 1)
					p.n = mid
					if failing(cur) {
						hi = mid
					} else {
						lo = mid
					}
				}
				p.n = hi
				if hi.Cmp(saved.n) != 0 && failing(cur) {
					progress = true
					break
				}
				*p = saved
			}
		}
	}
	return cur
}

// ---------------------------------------------------------------------------------------------
// operation level (through the hooks)

var i64Boundary = []int64{0, 1, -1, 2, -2, 3, -3, 7, 255, 256, -128, -129, 65535, 65536, 2147483647, 2147483648, -2147483648, -2147483649,
	4294967295, 4294967296, 3037000499, 3037000500, -3037000500, 6074000999, 4611686018427387903, 4611686018427387904, -4611686018427387904,
	-4611686018427387905, 9223372036854775806, 9223372036854775807, -9223372036854775807, -9223372036854775808}

func randI64(r *proto.Rand) int64 {
	switch r.Intn(4) {
	case 0:
		return i64Boundary[r.Intn(len(i64Boundary))]
	case 1:
		return int64(r.U64()) >> uint(r.Intn(64))
	case 2:
		return i64Boundary[r.Intn(len(i64Boundary))] + int64(r.Intn(5)) - 2
	}
	return int64(r.U64())
}

// exactBinary is the operation-level oracle: math/big on the operands' values.
func exactBinary(op string, a, b *big.Int) (string, bool) {
	r := new(big.Int)
	switch op {
	case "add":
		r.Add(a, b)
	case "sub":
		r.Sub(a, b)
	case "mul":
		r.Mul(a, b)
	case "quo", "rem":
		if b.Sign() == 0 {
			return "", false
		}
		if op == "quo" {
			r.Quo(a, b)
		} else {
			r.Rem(a, b)
		}
	case "and":
		r.And(a, b)
	case "or":
		r.Or(a, b)
	case "xor":
		r.Xor(a, b)
	case "andnot":
		r.AndNot(a, b)
	default:
		c := a.Cmp(b)
		return fmt.Sprint(map[string]bool{"eq": c == 0, "ne": c != 0, "lt": c < 0, "le": c <= 0, "gt": c > 0, "ge": c >= 0}[op]), true
	}
	return r.String(), true
}

func kindRange(k string) (lo, hi *big.Int) {
	bits := map[string]uint{"int": 64, "int8": 8, "int16": 16, "int32": 32, "int64": 64, "uint": 64, "uint8": 8, "uint16": 16, "uint32": 32, "uint64": 64, "uintptr": 64}[k]
	if strings.HasPrefix(k, "u") {
		return big.NewInt(0), new(big.Int).Sub(pow2(bits), big.NewInt(1))
	}
	return new(big.Int).Neg(pow2(bits - 1)), new(big.Int).Sub(pow2(bits-1), big.NewInt(1))
}

func reprOf(v *big.Int, r *proto.Rand) string {
	if v.IsInt64() && r.Intn(4) != 0 {
		return "small"
	}
	return "big"
}

type opCase struct {
	line   string // protocol line
	human  string
	impl   func() string
	expect func(model string) string // what the implementation must answer given the model's answer
	oracle func(impl string) string  // "" or the failed clause (independent of the model)
}

func opLevelCases(c *hx.Ctx) []opCase {
	var cases []opCase
	r := c.R
	nbin := c.N(12000, 200000)
	for i := 0; i < nbin; i++ {
		op := append(append([]string{}, arithOps...), cmpOps...)[r.Intn(15)]
		a, b := randI64(r), randI64(r)
		if r.Intn(6) == 0 {
			b = a
		}
		as, bs := fmt.Sprint(a), fmt.Sprint(b)
		cases = append(cases, opCase{
			line:  fmt.Sprintf("C02 fastbin %s %s %s", op, as, bs),
			human: fmt.Sprintf("int64Const(%s).binaryOp(%s, int64Const(%s))", as, goOp[op], bs),
			impl:  func() string { return hook.Binary(op, "small", as, "small", bs) },
			expect: func(m string) string {
				f := strings.Fields(m)
				switch {
				case len(f) == 2 && f[0] == "value":
					return "ok " + f[1] + " small"
				case len(f) == 2 && f[0] == "bool":
					return "ok bool " + f[1]
				case m == "usebig":
					return "ok * big"
				case m == "divzero":
					return "err division by zero"
				case m == "panic":
					return "panic *"
				}
				return "?" + m
			},
			oracle: func(impl string) string {
				want, defined := exactBinary(op, big.NewInt(a), big.NewInt(b))
				f := strings.Fields(impl)
				switch {
				case strings.HasPrefix(impl, "panic"):
					return "operation-panics"
				case !defined:
					if impl != "err division by zero" {
						return "division-by-zero-not-refused"
					}
				case len(f) == 3 && f[0] == "ok" && f[1] == "bool":
					if f[2] != want {
						return "comparison-wrong"
					}
				case len(f) == 3 && f[0] == "ok":
					if f[1] != want {
						return "fast-path-not-exact"
					}
				default:
					return "operation-refused"
				}
				return ""
			},
		})
	}
	for i := 0; i < c.N(4000, 60000); i++ {
		op := unOps[r.Intn(3)]
		k := kinds[r.Intn(len(kinds))]
		lo, hi := kindRange(k)
		// a typed constant is always within its type's range
		var v *big.Int
		switch r.Intn(4) {
		case 0:
			v = new(big.Int).Set(lo)
		case 1:
			v = new(big.Int).Set(hi)
		case 2:
			v = new(big.Int).Sub(hi, big.NewInt(int64(r.Intn(300))))
			if v.Cmp(lo) < 0 {
				v.Set(lo)
			}
		default:
			span := new(big.Int).Add(new(big.Int).Sub(hi, lo), big.NewInt(1))
			v = new(big.Int).Add(lo, new(big.Int).Mod(new(big.Int).SetUint64(r.U64()), span))
		}
		repr := reprOf(v, r)
		vs := v.String()
		line := fmt.Sprintf("C02 fastun %s %d %s", op, uint(kindCode[k]), vs)
		if repr == "big" {
			line = fmt.Sprintf("C02 bigun %s %s %s", op, k, vs)
		}
		cases = append(cases, opCase{
			line:  line,
			human: fmt.Sprintf("%s constant %s (%s).unaryOp(%s)", k, vs, repr, goOp[op]),
			impl:  func() string { return hook.Unary(op, kindCode[k], repr, vs) },
			expect: func(m string) string {
				f := strings.Fields(m)
				switch {
				case len(f) == 2 && f[0] == "value":
					return "ok " + f[1] + " small"
				case m == "usebig":
					return "ok * big"
				case m == "panic" || m == "err fault":
					return "panic *"
				case len(f) == 3 && f[0] == "ok":
					return m
				}
				return "?" + m
			},
			oracle: func(impl string) string {
				want := new(big.Int)
				switch {
				case op == "plus":
					want.Set(v)
				case op == "neg":
					want.Neg(v)
				case strings.HasPrefix(k, "u"):
					want.Xor(hi, v)
				default:
					want.Not(v)
				}
				f := strings.Fields(impl)
				if strings.HasPrefix(impl, "panic") {
					return "operation-panics"
				}
				if len(f) != 3 || f[0] != "ok" || f[1] != want.String() {
					return "unary-not-exact"
				}
				return ""
			},
		})
	}
	for i := 0; i < c.N(4000, 60000); i++ {
		k := kinds[r.Intn(len(kinds))]
		lo, hi := kindRange(k)
		var v *big.Int
		switch r.Intn(6) {
		case 0:
			v = new(big.Int).Add(lo, big.NewInt(int64(r.Intn(5))-2))
		case 1:
			v = new(big.Int).Add(hi, big.NewInt(int64(r.Intn(5))-2))
		case 2:
			v = big.NewInt(randI64(r))
		case 3:
			v = new(big.Int).SetUint64(r.U64())
		case 4:
			v = new(big.Int).Add(pow2(64), big.NewInt(int64(r.Intn(5))-2))
		default:
			v = new(big.Int).Lsh(big.NewInt(randI64(r)), uint(r.Intn(500)))
		}
		repr := reprOf(v, r)
		vs := v.String()
		cases = append(cases, opCase{
			line:   fmt.Sprintf("C02 rep %s %s %s", k, repr, vs),
			human:  fmt.Sprintf("constant %s (%s).representedBy(%s)", vs, repr, k),
			impl:   func() string { return hook.RepresentedBy(kindCode[k], repr, vs) },
			expect: func(m string) string { return strings.Replace(m, "err overflow", "err constant "+vs+" overflows "+k, 1) },
			oracle: func(impl string) string {
				in := lo.Cmp(v) <= 0 && v.Cmp(hi) <= 0
				f := strings.Fields(impl)
				switch {
				case strings.HasPrefix(impl, "panic"):
					return "operation-panics"
				case in && !(len(f) == 3 && f[0] == "ok" && f[1] == vs):
					return "representable-value-refused-or-changed"
				case !in && !strings.HasPrefix(impl, "err constant "):
					return "value-outside-the-range-accepted"
				}
				return ""
			},
		})
	}
	for i := 0; i < c.N(1500, 20000); i++ {
		left := r.Bool()
		var v *big.Int
		switch r.Intn(5) {
		case 0:
			v, _ = new(big.Int).SetString(shiftCounts[r.Intn(len(shiftCounts))], 10)
		case 1:
			v = big.NewInt(int64(r.Intn(1100)))
		case 2:
			v = big.NewInt(-int64(r.Intn(5)))
		case 3:
			v = big.NewInt(randI64(r))
		default:
			v = new(big.Int).Add(pow2(64), big.NewInt(int64(r.Intn(5))-2))
		}
		repr := reprOf(v, r)
		vs := v.String()
		dir := map[bool]string{true: "l", false: "r"}[left]
		cases = append(cases, opCase{
			line:  fmt.Sprintf("C02 shiftguard %s %s %s", dir, repr, vs),
			human: fmt.Sprintf("shiftConstError(%s, %s (%s))", map[bool]string{true: "<<", false: ">>"}[left], vs, repr),
			impl:  func() string { return hook.ShiftConstError(left, repr, vs) },
			expect: func(m string) string {
				return map[string]string{"ok": "ok", "err neg-shift": "err negative shift count", "err shift-too-large": "err shift count too large",
					"err shift-count-uint": "err constant overflows uint"}[m]
			},
			oracle: func(impl string) string { // Go's own rule is compared at program level (known finding shift-count-limits)
				if strings.HasPrefix(impl, "panic") {
					return "operation-panics"
				}
				if (v.Sign() < 0) != (impl == "err negative shift count") {
					return "negative-count"
				}
				return ""
			},
		})
	}
	return cases
}

func matches(impl, pattern string) bool {
	pf, f := strings.Fields(pattern), strings.Fields(impl)
	if len(pf) > 0 && pf[len(pf)-1] == "*" && pf[0] == "panic" {
		return len(f) > 0 && f[0] == "panic"
	}
	if len(pf) != len(f) {
		return false
	}
	for i := range pf {
		if pf[i] != "*" && pf[i] != f[i] {
			return false
		}
	}
	return true
}

// ---------------------------------------------------------------------------------------------

func treeCase(c *hx.Ctx, n *node, model map[string]string, source string) {
	res := c.Res
	toks := n.tokens()
	cl, impl, ref, unjudged := clauseW(n)
	if unjudged != "" {
		res.Hist("unjudged(non-512-bit-binary value, C03's big.Float finding class):" + unjudged)
	}
	_, hasModel := model["C02 scriggo "+toks]
	nontrivial := n.size() > 1 && (ref.accepted || !strings.Contains(ref.detail, "mismatched types"))
	res.Count(toks, nontrivial)
	res.Hist("src:" + source)
	res.Hist("root:" + n.tag)
	res.Hist(fmt.Sprintf("size:%02d", min(n.size()/3*3, 30)))
	res.Hist("type:" + map[bool]string{true: "typed", false: n.staticType()}[n.staticType() != "untyped" && n.staticType() != "bool"])
	switch {
	case impl.accepted && ref.accepted:
		res.Hist("outcome:both-accept")
	case !impl.accepted && !ref.accepted:
		res.Hist("outcome:both-reject:" + strings.TrimPrefix(impl.canon, "err "))
	default:
		res.Hist("outcome:differ")
	}
	if res.Evaluations%997 == 0 && nontrivial {
		res.Sample(map[string]string{"source": n.src(), "line": "C02 scriggo " + toks, "scriggo": impl.String(), "go/types": ref.String(), "model": model["C02 scriggo "+toks]})
	}
	if cl != "" {
		m := shrink(n, cl)
		_, i2, r2 := clause(m)
		finding := ""
		for _, f := range c.Findings {
			if f.Minimal == simpleProgram(m) {
				finding = f.ID
			}
		}
		res.AddBreak(proto.Break{Kind: "property", Name: cl, Case: "C02 scriggo " + m.tokens(), Human: simpleProgram(m),
			Impl: i2.String(), Model: "go/types: " + r2.String(), Finding: finding})
	}
	if !hasModel {
		return
	}
	// correspondence: the model of Scriggo's strategy against Scriggo
	ms := model["C02 scriggo "+toks]
	mcanon := ms
	if f := strings.Fields(ms); len(f) >= 5 && f[1] == "num" {
		mcanon = strings.Join(f[:len(f)-1], " ") // without the implementation
	}
	mcanon = valueKey(modelClass(mcanon))
	if md := scaleOf(outcome{accepted: strings.HasPrefix(mcanon, "ok num"), canon: mcanon}); md.key() != scaleOf(ref).key() {
		// the reference gives no value (or another one): print the constant scaled by the model's denominator
		impl = runScriggo(n, md)
	}
	icanon := valueKey(impl.canon)
	if icanon == "panic" {
		icanon = "err fault"
	}
	switch {
	case ms == "err inexact":
		res.Hist("model:outside-the-exact-fragment")
	case mcanon != icanon:
		res.AddBreak(proto.Break{Kind: "correspondence", Name: "evalScriggo-vs-scriggo.Build", Case: "C02 scriggo " + toks,
			Human: program(n, scaleOf(ref)), Impl: impl.String(), Model: ms})
	default:
		res.Hist("model:agrees")
	}
	// spec validation: the exact evaluator against go/types (against goEval where go/constant is defective)
	me := model["C02 exact "+toks]
	agree := (strings.HasPrefix(me, "err ") && !ref.accepted) || me == ref.canon
	if ref.canon == "parse-error" || ref.canon == "unknown" {
		return
	}
	if g := goEval(n); g.minq {
		res.Hist("reference:goEval(go/constant MinInt64/-1 defect)")
	} else {
		res.Hist("reference:go/types")
		if go2 := g.outcome(); go2.accepted != ref.accepted || (go2.accepted && go2.canon != ref.canon) {
			res.SpecChecks["goEval-DISAGREES-with-go/types"]++
			res.AddBreak(proto.Break{Kind: "correspondence", Name: "spec-validation: goEval-vs-go/types", Case: "C02 exact " + toks,
				Human: simpleProgram(n), Impl: "go/types: " + ref.String(), Model: "goEval: " + go2.String()})
		} else {
			res.SpecChecks["goEval-agrees-with-go/types"]++
		}
	}
	if agree {
		res.SpecChecks["evalExact-agrees-with-go/types"]++
	} else {
		res.SpecChecks["evalExact-DISAGREES-with-go/types"]++
		res.AddBreak(proto.Break{Kind: "correspondence", Name: "spec-validation: evalExact-vs-go/types", Case: "C02 exact " + toks,
			Human: simpleProgram(n), Impl: "go/types: " + ref.String(), Model: me})
	}
}

func runC02(c *hx.Ctx) error {
	res := c.Res
	res.Rule = "program level: integer constant-expression trees of depth ≤ 4 over the boundary literal set (0, ±1, powers of two ±1 around every integer width, " +
		"MinInt64 built on the int64 path, 2^511, 2^512-1, random), every unary/binary operator, comparisons at the root, shifts with boundary counts, conversions to all " +
		"11 integer kinds, as `const c = <expr>` built by scriggo.Build and run, and type-checked by go/types; plus a directed set (every operator on every pair of " +
		"boundary values, every conversion and unary operator on the boundary set, every boundary shift count). Operation level (hooks): int64Const.binaryOp on int64 " +
		"pairs, unaryOp, representedBy, shiftConstError. Non-trivial: the tree has an operator or conversion and is not rejected by the reference for mismatched types; " +
		"operation-level cases are all counted. Distinct by protocol line."

	// replay of a recorded case
	if c.Replay != "" {
		return replay(c)
	}

	// known findings first: still failing → recorded as such
	for _, f := range c.Findings {
		cl, impl, ref := findingClause(f.Minimal)
		if cl != "" {
			res.AddBreak(proto.Break{Kind: "property", Name: cl, Case: "known-finding " + f.ID, Human: f.Minimal,
				Impl: impl.String(), Model: "go/types: " + ref.String(), Finding: f.ID})
		}
	}

	g := newGen(c.R)
	type tc struct {
		n   *node
		src string
	}
	var trees []tc
	for _, n := range directed(g) {
		trees = append(trees, tc{n, "directed"})
	}
	for _, n := range directedMixed() {
		trees = append(trees, tc{n, "directed-mixed"})
	}
	for _, n := range kindMatrix() {
		trees = append(trees, tc{n, "kind-matrix"})
	}
	for i := 0; i < c.N(2000, 30000); i++ {
		trees = append(trees, tc{g.complexRoot(), "random-complex"})
	}
	for i := 0; i < c.N(5000, 80000); i++ {
		trees = append(trees, tc{g.root(), "random"})
	}
	for i := 0; i < c.N(4000, 60000); i++ {
		trees = append(trees, tc{g.mixedRoot(), "random-mixed"})
	}
	ops := opLevelCases(c)

	model := map[string]string{}
	if c.D != nil {
		var lines []string
		for _, t := range trees {
			lines = append(lines, "C02 scriggo "+t.n.tokens(), "C02 exact "+t.n.tokens())
		}
		for _, o := range ops {
			lines = append(lines, o.line)
		}
		ans, err := c.D.Batch(lines)
		if err != nil {
			return err
		}
		for i, l := range lines {
			model[l] = ans[i]
		}
	}
	for _, t := range trees {
		treeCase(c, t.n, model, t.src)
	}
	for _, o := range ops {
		impl := o.impl()
		f := strings.Fields(o.line)
		res.Count(o.line, true)
		res.Hist("op-level:" + f[1])
		if cl := o.oracle(impl); cl != "" {
			res.AddBreak(proto.Break{Kind: "property", Name: cl, Case: o.line, Human: o.human, Impl: impl, Model: "exact arithmetic (math/big)"})
		}
		if m, ok := model[o.line]; ok {
			if want := o.expect(m); !matches(impl, want) {
				res.AddBreak(proto.Break{Kind: "correspondence", Name: "generated-" + f[1] + "-vs-constant.go", Case: o.line, Human: o.human, Impl: impl, Model: m + " (expects " + want + ")"})
			}
		}
	}
	return nil
}

// findingClause replays the program of a known finding on Scriggo and on the reference.
func findingClause(src string) (string, outcome, outcome) {
	ref := runGoTypes(src)
	var impl outcome
	func() {
		defer func() {
			if r := recover(); r != nil {
				impl = outcome{canon: "panic", detail: fmt.Sprint(r)}
			}
		}()
		_, err := scriggo.Build(scriggo.Files{"main.go": []byte(src)}, nil)
		if err != nil {
			impl = outcome{canon: "err", detail: err.Error()}
		} else {
			impl = outcome{accepted: true, canon: "ok"}
		}
	}()
	switch {
	case impl.canon == "panic":
		return "build-panics", impl, ref
	case impl.accepted && !ref.accepted:
		return "accepts-what-go-rejects", impl, ref
	case !impl.accepted && ref.accepted:
		return "rejects-what-go-accepts", impl, ref
	}
	return "", impl, ref
}

// replay re-runs the case(s) of a replay file on the real code, the reference and the model.
func replay(c *hx.Ctx) error {
	data, err := os.ReadFile(c.Replay)
	if err != nil { // the check runs the harness in /verif/go and hands on the path as given to it
		if data, err = os.ReadFile("../" + c.Replay); err != nil {
			return err
		}
	}
	var rp struct {
		Case   any `json:"case"`
		Detail any `json:"detail"`
	}
	if err := json.Unmarshal(data, &rp); err != nil {
		return err
	}
	var text string
	switch v := rp.Case.(type) {
	case string:
		text = v
	default:
		if d, ok := rp.Detail.(map[string]any); ok {
			text, _ = d["case"].(string)
		}
	}
	for _, line := range strings.Split(text, "\n") {
		f := strings.Fields(line)
		if len(f) < 3 || f[0] != "C02" {
			continue
		}
		m := "(no driver)"
		if c.D != nil {
			if m, err = c.D.Ask(line); err != nil {
				return err
			}
		}
		if f[1] == "scriggo" || f[1] == "exact" {
			n, rest, err := parseTokens(f[2:])
			if err != nil || len(rest) != 0 {
				return fmt.Errorf("replay: cannot parse %q", line)
			}
			cl, impl, ref := clause(n)
			fmt.Printf("replay %s\n%s scriggo : %s\n go/types: %s\n model   : %s\n clause  : %q\n", line, program(n, scaleOf(ref)), impl, ref, m, cl)
			c.Res.Count(line, true)
			if cl != "" {
				c.Res.AddBreak(proto.Break{Kind: "property", Name: cl, Case: line, Human: simpleProgram(n), Impl: impl.String(), Model: "go/types: " + ref.String()})
			}
		} else {
			impl := implForLine(f[1:])
			fmt.Printf("replay %s\n constant.go: %s\n model      : %s\n", line, impl, m)
			c.Res.Count(line, true)
			if f[1] == "fastbin" && len(f) == 5 {
				a, _ := new(big.Int).SetString(f[3], 10)
				b, _ := new(big.Int).SetString(f[4], 10)
				if want, defined := exactBinary(f[2], a, b); defined {
					if g := strings.Fields(impl); len(g) != 3 || g[len(g)-2] != want {
						c.Res.AddBreak(proto.Break{Kind: "property", Name: "fast-path-not-exact", Case: line, Impl: impl, Model: "exact arithmetic (math/big): " + want})
					}
				}
			}
		}
	}
	return nil
}

// implForLine runs the real operation an operation-level protocol line stands for.
func implForLine(f []string) string {
	switch {
	case f[0] == "fastbin" && len(f) == 4:
		return hook.Binary(f[1], "small", f[2], "small", f[3])
	case f[0] == "fastun" && len(f) == 4:
		var k uint
		fmt.Sscan(f[2], &k)
		return hook.Unary(f[1], reflect.Kind(k), "small", f[3])
	case f[0] == "bigun" && len(f) == 4:
		return hook.Unary(f[1], kindCode[f[2]], "big", f[3])
	case f[0] == "rep" && len(f) == 4:
		return hook.RepresentedBy(kindCode[f[1]], f[2], f[3])
	case f[0] == "shiftguard" && len(f) == 4:
		return hook.ShiftConstError(f[1] == "l", f[2], f[3])
	}
	return "(not an operation-level line)"
}
