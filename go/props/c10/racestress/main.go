// Command racestress reads generated cases (JSON list of run.Case) on stdin and runs each of them
// like the C10/C14 harnesses do; it is built with -race by the thorough tier, so that the race
// detector watches the interpreter while one artefact is run from many goroutines.
package main

import (
	"encoding/json"
	"fmt"
	"os"

	"verifharness/props/c10/run"
)

func main() {
	var cases []run.Case
	if err := json.NewDecoder(os.Stdin).Decode(&cases); err != nil {
		fmt.Println("racestress: bad input:", err)
		os.Exit(2)
	}
	runs := 0
	for _, c := range cases {
		if len(c.Inputs) > 8 {
			c.Inputs = c.Inputs[:8]
			c.HostWant = nil // the generator's reference was computed for all the inputs
		}
		r := run.Run(c)
		runs += len(r.Got)
		if r.BuildErr != "" {
			fmt.Println("racestress: build error:", r.BuildErr)
			os.Exit(2)
		}
		if r.Hang {
			fmt.Println("MISMATCH: runs hang:", c.JSON())
		}
		if i := r.HostPanic(); i >= 0 {
			fmt.Printf("MISMATCH: run %d panics into the host: %s case %s\n", i, r.Got[i], c.JSON())
		}
		if r.HostBad != "" {
			fmt.Println("MISMATCH:", r.HostBad, c.JSON())
		}
		if i := r.Diff(); i >= 0 {
			fmt.Printf("MISMATCH: run %d: got %s want %s case %s\n", i, r.Got[i], r.Want[i], c.JSON())
		}
	}
	fmt.Printf("%d cases, %d runs, no race reported so far\n", len(cases), runs)
}
