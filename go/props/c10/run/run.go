// Package run holds what the C10 and C14 harnesses and the race-detector stress command share:
// building a generated program or template once and running it many times, concurrently or in
// sequence, next to the oracle "a fresh build's single run with the same inputs".
package run

import (
	"context"
	"encoding/json"
	"fmt"
	"io/fs"
	"reflect"
	"runtime"
	"sort"
	"strconv"
	"strings"
	"sync"
	"testing/fstest"
	"time"

	"github.com/open2b/scriggo"
	"github.com/open2b/scriggo/native"
)

// Input is what one run is given: programs read V through h.Input() (a native function that
// takes the run's env and reads the run's context), templates get v, s and items as variables.
type Input struct {
	V     int    `json:"v"`
	S     string `json:"s"`
	Items []int  `json:"items"`
}

// Case is one generated artefact and the runs made of it.
type Case struct {
	Kind    string            `json:"kind"` // "program" or "template"
	Files   map[string]string `json:"files"`
	Main    string            `json:"main"` // template file name
	Inputs  []Input           `json:"inputs"`
	Procs   int               `json:"procs"`  // GOMAXPROCS
	Seq     bool              `json:"seq"`    // run one after the other instead of concurrently
	Jitter  []int             `json:"jitter"` // per run: Gosched calls before Run
	AllowGo bool              `json:"allow_go"`
	// State shared by the embedder on purpose: the host variables that the native package h and the
	// template globals declare with pointers (h.PtrN → &host.N, …) start every build at HostInit.
	HostInit Host `json:"host_init"`
	// SharedWrites: the code writes those host variables. The runs are then made one after the
	// other (unsynchronised writes from concurrent runs would be the embedder's data race) and the
	// oracle is a chain of fresh builds, each started on the host state the previous one left.
	SharedWrites bool `json:"shared_writes,omitempty"`
	// HostWant, when non-nil, is the host state after all runs according to the generator's own
	// reference semantics of the snippets that write it.
	HostWant *Host `json:"host_want,omitempty"`
}

// Host is the embedder's own state, declared to Scriggo with pointers and therefore shared by all
// runs of one artefact (and by nothing else: every Build gets its own Host).
type Host struct {
	N int            `json:"n"`
	L []int          `json:"l"`
	M map[string]int `json:"m"`
	S string         `json:"s"`
}

// Clone returns a deep copy; M is never nil in a copy (generated code writes into it).
func (h Host) Clone() *Host {
	c := &Host{N: h.N, S: h.S, L: append([]int(nil), h.L...), M: map[string]int{}}
	for k, v := range h.M {
		c.M[k] = v
	}
	return c
}

func (h *Host) String() string {
	var ks []string
	for k := range h.M {
		ks = append(ks, k)
	}
	sort.Strings(ks)
	var b strings.Builder
	fmt.Fprintf(&b, "N=%d L=%v S=%q M=", h.N, h.L, h.S)
	for _, k := range ks {
		fmt.Fprintf(&b, "%s:%d,", k, h.M[k])
	}
	return b.String()
}

func (c Case) JSON() string {
	b, _ := json.Marshal(c)
	return string(b)
}

// Outcome is everything observable of one run.
type Outcome struct {
	Out     string `json:"out"`     // template output
	Printed string `json:"printed"` // print/println builtins and h.Emit, through RunOptions.Print
	Err     string `json:"err"`     // error returned by Run
	Panic   string `json:"panic"`   // host panic out of Run
	// what the run's native goroutines (h.Recd, h.RecTag started with go) recorded, sorted
	Recorded string `json:"recorded"`
	// templates: the variables the run was given by pointer (Run vars "pv": &x, "pl": &l), after the run
	Host string `json:"host,omitempty"`
}

func (o Outcome) String() string {
	return fmt.Sprintf("out=%q printed=%q err=%q panic=%q recorded=%q ptrvars=%q", o.Out, o.Printed, o.Err, o.Panic, o.Recorded, o.Host)
}

type inputKey struct{}
type recKey struct{}

// recorder collects what native functions started with `go` record for one run.
type recorder struct {
	mu   sync.Mutex
	list []string
}

func (r *recorder) add(s string) {
	r.mu.Lock()
	r.list = append(r.list, s)
	r.mu.Unlock()
}

func recOf(env native.Env) *recorder {
	if r, ok := env.Context().Value(recKey{}).(*recorder); ok {
		return r
	}
	return &recorder{}
}

// Counter is a native type with methods (method values go through callable.value).
type Counter struct{ N int }

func (c *Counter) Add(d int) int { c.N += d; return c.N }
func (c *Counter) Get() int      { return c.N }

// declarations of the native package "h" (programs, and templates through import "h") / the
// globals (templates, first letter in lower case).
func decls(host *Host) native.Declarations {
	return native.Declarations{
		// variables declared with a nil pointer: no storage at build time, every run gets its own
		// zero-valued variable
		"NilN": (*int)(nil),
		"NilL": (*[]int)(nil),
		"NilM": (*map[string]int)(nil),
		"NilS": (*string)(nil),
		"NilF": (*float64)(nil),
		"NilC": (*Counter)(nil),
		"NilA": (*any)(nil),
		// variables declared with a pointer to a host variable: shared on purpose by all the runs
		"PtrN": &host.N,
		"PtrL": &host.L,
		"PtrM": &host.M,
		"PtrS": &host.S,
		"Input": func(env native.Env) int {
			if in, ok := env.Context().Value(inputKey{}).(Input); ok {
				return in.V
			}
			return -1
		},
		"Emit":   func(env native.Env, a ...any) { env.Print(fmt.Sprint(a...), "\n") },
		"Sprint": func(a ...any) string { return fmt.Sprint(a...) },
		"Apply":  func(f func(int) int, x int) int { return f(x) + 1 },
		// a native that calls back a macro value (templates)
		"CallM": func(f func(int) native.HTML, x int) native.HTML { return "<" + f(x) + ">" },
		// natives that call Scriggo function values (callable.Value: a new VM per call)
		"Until": func(f func() bool) {
			for !f() {
			}
		},
		"Each": func(n int, f func(int)) {
			for i := 0; i < n; i++ {
				f(i)
			}
		},
		"GoCall": func(f func()) { go f() },
		"Sum": func(xs ...int) int {
			s := 0
			for _, x := range xs {
				s += x
			}
			return s
		},
		"Triple":  func(x int) int { return 3 * x },
		"Nat0":    func(x int) int { return 3*x + 0 },
		"Nat1":    func(x int) int { return 3*x + 1 },
		"Nat2":    func(x int) int { return 3*x + 2 },
		"Slen":    func(s string) int { return len(s) },
		"Repeat":  func(s string, n int) string { return strings.Repeat(s, n) },
		"Itoa":    func(n int) string { return strconv.Itoa(n) },
		"Counter": reflect.TypeFor[Counter](),
		// natives meant to be started with go (all signatures are outside the VM's five fast-path
		// ones, so they are called through reflect with a pooled argument slice); each signals
		// on a channel when done, so that generated code can wait for it
		"Send":    func(ch chan int, x int) { ch <- x },
		"SendMul": func(ch chan int, a, b int) { ch <- a * b },
		"SendSum": func(ch chan int, xs ...int) {
			s := 0
			for _, x := range xs {
				s += x
			}
			ch <- s
		},
		"SendS": func(ch chan string, s string, n int) { ch <- strings.Repeat(s, n) },
		"Recd":  func(env native.Env, ch chan int, f int, x int) { recOf(env).add(strconv.Itoa(3*x + f)); ch <- 1 },
		"RecTag": func(env native.Env, ch chan int, tag string, xs ...int) {
			recOf(env).add(tag + fmt.Sprint(xs))
			ch <- len(xs)
		},
		"Gosched": func() { runtime.Gosched() },
		"Sleep":   func(us int) { time.Sleep(time.Duration(us) * time.Microsecond) },
	}
}

func lower(d native.Declarations) native.Declarations {
	out := native.Declarations{}
	for k, v := range d {
		out[strings.ToLower(k[:1])+k[1:]] = v
	}
	return out
}

func fsOf(files map[string]string) fs.FS {
	m := fstest.MapFS{}
	for n, s := range files {
		m[n] = &fstest.MapFile{Data: []byte(s)}
	}
	return m
}

// Artefact is a built program or template.
type Artefact struct {
	p    *scriggo.Program
	t    *scriggo.Template
	host *Host
}

// Host returns the artefact's host variables.
func (a *Artefact) Host() *Host { return a.host }

// Build builds the case's artefact, its host variables starting at c.HostInit.
func Build(c Case) (a *Artefact, err error) { return BuildWith(c, c.HostInit) }

// BuildWith builds the case's artefact with host variables that start at (a copy of) init.
func BuildWith(c Case, init Host) (a *Artefact, err error) {
	host := init.Clone()
	pkgs := native.Packages{"h": native.Package{Name: "h", Declarations: decls(host)}}
	defer func() {
		if r := recover(); r != nil {
			err = fmt.Errorf("build panic: %v", r)
		}
	}()
	if c.Kind == "program" {
		opts := &scriggo.BuildOptions{AllowGoStmt: c.AllowGo, Packages: pkgs}
		p, err := scriggo.Build(fsOf(c.Files), opts)
		if err != nil {
			return nil, err
		}
		return &Artefact{p: p, host: host}, nil
	}
	g := lower(decls(host))
	g["v"] = (*int)(nil)
	g["s"] = (*string)(nil)
	g["items"] = (*[]int)(nil)
	g["pv"] = (*int)(nil)   // given to every run by pointer
	g["pl"] = (*[]int)(nil) // given to every run by pointer
	t, err := scriggo.BuildTemplate(fsOf(c.Files), c.Main, &scriggo.BuildOptions{AllowGoStmt: c.AllowGo, Globals: g, Packages: pkgs})
	if err != nil {
		return nil, err
	}
	return &Artefact{t: t, host: host}, nil
}

// RunOnce runs the artefact with one input; ctx (optional) is the parent context.
func (a *Artefact) RunOnce(in Input, parent context.Context) (o Outcome) {
	var printed strings.Builder
	var mu sync.Mutex
	defer func() {
		if r := recover(); r != nil {
			o.Panic = fmt.Sprint(r)
		}
		mu.Lock()
		o.Printed = printed.String()
		mu.Unlock()
	}()
	if parent == nil {
		parent = context.Background()
	}
	rec := &recorder{}
	defer func() {
		rec.mu.Lock()
		l := append([]string(nil), rec.list...)
		rec.mu.Unlock()
		sort.Strings(l)
		o.Recorded = strings.Join(l, ",")
	}()
	ctx := context.WithValue(context.WithValue(parent, inputKey{}, in), recKey{}, rec)
	opts := &scriggo.RunOptions{Context: ctx, Print: func(v any) {
		mu.Lock()
		fmt.Fprint(&printed, v)
		mu.Unlock()
	}}
	var err error
	if a.p != nil {
		err = a.p.Run(opts)
	} else {
		var out strings.Builder
		items := append([]int(nil), in.Items...)
		pv, pl := 3*in.V+1, append([]int(nil), in.Items...)
		defer func() { o.Host = fmt.Sprintf("pv=%d pl=%v", pv, pl) }()
		err = a.t.Run(&out, map[string]any{"v": in.V, "s": in.S, "items": items, "pv": &pv, "pl": &pl}, opts)
		o.Out = out.String()
	}
	if err != nil {
		o.Err = err.Error()
	}
	return o
}

// HangTimeout bounds the concurrent runs of one case (generated code terminates in milliseconds).
var HangTimeout = 8 * time.Second

// Result of a case: what each run gave and what a fresh build's single run gives.
type Result struct {
	BuildErr string
	Got      []Outcome
	Want     []Outcome
	Hang     bool
	// HostBad is non-empty when the host variables (shared on purpose) do not end as they must.
	HostBad string
}

// Diff returns the index of the first run that differs from its oracle, or -1.
func (r Result) Diff() int {
	for i := range r.Got {
		if i < len(r.Want) && r.Got[i] != r.Want[i] {
			return i
		}
	}
	return -1
}

// HostPanic returns the index of the first run that panicked into the host, or -1. Generated code
// never does on purpose: a run and its oracle that panic alike compare equal and test nothing.
func (r Result) HostPanic() int {
	for i := range r.Got {
		if r.Got[i].Panic != "" {
			return i
		}
	}
	return -1
}

// Bad reports whether the case fails.
func (r Result) Bad() bool { return r.Hang || r.Diff() >= 0 || r.HostBad != "" || r.HostPanic() >= 0 }

// Run builds c once, makes its runs (concurrently with start jitter, or sequentially) and
// computes the oracle for every input from fresh builds.
//
// Oracle. State that could outlive a run but must not (variables of native packages and template
// globals declared with nil pointers, package-level variables, closures, init-time state, …) is
// covered by "every run equals a fresh build's single run". State that the embedder shares on
// purpose (declared with pointers to host variables) is an input of a run like any other: when
// the code only reads it, a fresh build started on the same host state must give the same; when
// the code writes it (c.SharedWrites), the runs are sequential and run i must equal the single
// run of a fresh build whose host variables start where the oracle's run i-1 left them; the
// final host state must equal the chain's and, when given, the generator's reference c.HostWant.
func Run(c Case) Result {
	var res Result
	a, err := Build(c)
	if err != nil {
		res.BuildErr = err.Error()
		return res
	}
	if c.Procs > 0 {
		old := runtime.GOMAXPROCS(c.Procs)
		defer runtime.GOMAXPROCS(old)
	}
	n := len(c.Inputs)
	res.Got = make([]Outcome, n)
	if c.Seq || c.SharedWrites {
		for i, in := range c.Inputs {
			res.Got[i] = a.RunOnce(in, nil)
		}
	} else {
		var wg sync.WaitGroup
		start := make(chan struct{})
		for i := range c.Inputs {
			wg.Add(1)
			go func(i int) {
				defer wg.Done()
				<-start
				if i < len(c.Jitter) {
					for k := 0; k < c.Jitter[i]; k++ {
						runtime.Gosched()
					}
				}
				res.Got[i] = a.RunOnce(c.Inputs[i], nil)
			}(i)
		}
		close(start)
		done := make(chan struct{})
		go func() { wg.Wait(); close(done) }()
		select {
		case <-done:
		case <-time.After(HangTimeout):
			res.Hang = true
			return res
		}
	}
	res.Want = make([]Outcome, n)
	if c.SharedWrites {
		// oracle: a chain of fresh builds over the host state
		state := c.HostInit.Clone()
		for i, in := range c.Inputs {
			fresh, err := BuildWith(c, *state)
			if err != nil {
				res.BuildErr = "second build failed: " + err.Error()
				return res
			}
			res.Want[i] = fresh.RunOnce(in, nil)
			state = fresh.host
		}
		if got, want := a.host.String(), state.String(); got != want {
			res.HostBad = fmt.Sprintf("host variables after the runs: %s; after the chain of fresh builds: %s", got, want)
		}
	} else {
		// oracle: one fresh build per distinct input, run once
		cache := map[string]Outcome{}
		for i, in := range c.Inputs {
			k, _ := json.Marshal(in)
			if o, ok := cache[string(k)]; ok {
				res.Want[i] = o
				continue
			}
			fresh, err := Build(c)
			if err != nil {
				res.BuildErr = "second build failed: " + err.Error()
				return res
			}
			o := fresh.RunOnce(in, nil)
			cache[string(k)] = o
			res.Want[i] = o
		}
		if got, want := a.host.String(), c.HostInit.Clone().String(); got != want {
			res.HostBad = fmt.Sprintf("host variables after runs that do not write them: %s; before: %s", got, want)
		}
	}
	if c.HostWant != nil && res.HostBad == "" {
		if got, want := a.host.String(), c.HostWant.Clone().String(); got != want {
			res.HostBad = fmt.Sprintf("host variables after the runs: %s; reference semantics of the generated code: %s", got, want)
		}
	}
	return res
}

// SortedNames returns the file names of a case (stable printing).
func SortedNames(files map[string]string) []string {
	var ns []string
	for n := range files {
		ns = append(ns, n)
	}
	sort.Strings(ns)
	return ns
}
