package main

import (
	"fmt"
	"strconv"
	"strings"
	"time"

	"verifharness/internal/hx"
	"verifharness/internal/proto"
	"verifharness/props/c10/run"
)

// ---- state across runs --------------------------------------------------------------------
//
// Artefacts whose code WRITES and then READS state of every kind that could outlive a run:
//
//	programs   variables of the native package h declared with a nil pointer (int, slice, map,
//	           string, float, struct, interface), written directly, through &h.NilN, from functions;
//	           variables of h declared with a pointer to a host variable (read only, or written:
//	           shared on purpose, see run.Run's chain oracle and the reference semantics `ref`);
//	           Scriggo package-level variables initialised by function calls, composite values
//	           mutated in place, closures stored in package-level func variables, init functions,
//	           variables written by goroutines, methods on package-level values, literals
//	templates  globals declared with nil pointers / with pointers to host variables, the same
//	           through import "h", Run variables given by pointer, {% var %} and macros of an
//	           imported file, file-level {% var %} of a file that extends a layout
//
// Every snippet is written so that a run that started on anything but fresh state prints
// something else (it accumulates into the state and prints the result).

func stateRep(s string, id, k, c int, w string) string {
	s = strings.ReplaceAll(s, "#", fmt.Sprint(id))
	s = strings.ReplaceAll(s, "KK", fmt.Sprint(k))
	s = strings.ReplaceAll(s, "CC", fmt.Sprint(c))
	s = strings.ReplaceAll(s, "WW", fmt.Sprintf("%q", w))
	return s
}

func stateProgSnippet(r *proto.Rand, n int) snippet {
	k := r.Intn(1000) + 130
	c := r.Intn(6) + 2
	w := words[r.Intn(len(words))]
	type tpl struct {
		kind, decls, stmts string
		ref                func(h *run.Host, in run.Input)
	}
	tpls := []tpl{
		{"native-nil-vars", "", `h.NilN += h.Input() + KK
h.NilL = append(h.NilL, h.NilN, CC)
if h.NilM == nil { h.NilM = map[string]int{} }
h.NilM["k"] += CC
h.NilM[h.Itoa(h.Input())]++
h.NilS += WW + "."
h.NilF += 0.5
h.NilC.N += h.Input()
h.NilC.Add(1)
if h.NilA == nil { h.NilA = 0 }
h.NilA = h.NilA.(int) + KK
println("nn#", h.NilN, len(h.NilL), h.NilL[0], h.NilM["k"], len(h.NilM), h.NilS, int(h.NilF*2), h.NilC.Get(), h.NilA.(int))
`, nil},
		// (&h.NilN, the address of an imported variable of a non-general kind, is a known defect: knownAddr)
		{"native-nil-var-func-and-pointer", "func Visit#(d int) int { h.NilN += d; h.NilL = append(h.NilL, d); return h.NilN*100 + len(h.NilL) }\n",
			"pl# := &h.NilL\n*pl# = append(*pl#, CC)\npm# := &h.NilM\nif *pm# == nil { *pm# = map[string]int{} }\n(*pm#)[\"p\"] += h.Input() + 1\npc# := &h.NilC\npc#.N += CC\nprintln(\"nc#\", Visit#(h.Input()), Visit#(KK), len(*pl#), h.NilM[\"p\"], h.NilC.N)\n", nil},
		{"native-nil-var-goroutine", "", "dn# := make(chan int)\ngo func() { h.NilN += h.Input() + KK; h.NilS += \"g\"; dn# <- 1 }()\n<-dn#\nprintln(\"ng#\", h.NilN, h.NilS)\n", nil},
		{"native-nil-var-callback", "", "h.Each(CC, func(i int) { h.NilN += i + h.Input(); h.NilL = append(h.NilL, i) })\nprintln(\"nb#\", h.NilN, len(h.NilL))\n", nil},
		{"native-ptr-vars-read", "", "println(\"pr#\", h.PtrN, len(h.PtrL), h.PtrM[\"a\"], len(h.PtrM), h.PtrS, h.PtrN+h.Input())\n", nil},
		{"native-ptr-vars-write", "", `h.PtrN += h.Input() + KK
h.PtrL = append(h.PtrL, h.PtrN)
h.PtrM["w"] += CC
h.PtrM[h.Itoa(h.Input())]++
h.PtrS += WW
println("pw#", h.PtrN, len(h.PtrL), h.PtrL[len(h.PtrL)-1], h.PtrM["w"], len(h.PtrM), h.PtrS)
`, func(h *run.Host, in run.Input) {
			h.N += in.V + k
			h.L = append(h.L, h.N)
			h.M["w"] += c
			h.M[strconv.Itoa(in.V)]++
			h.S += w
		}},
		{"pkg-var-func-init", "var F# = mk#(KK)\nvar FS# = mkS#(CC)\nfunc mk#(n int) int { return n * 2 }\nfunc mkS#(n int) []int { s := make([]int, n); for i := range s { s[i] = i }; return s }\n",
			"FS#[0] += h.Input() + 1\nF# += FS#[0]\nFS# = append(FS#, F#)\nprintln(\"fi#\", F#, FS#[0], len(FS#))\n", nil},
		{"pkg-closure-var", "var Next# = func() func(int) int { c := KK; return func(d int) int { c += d; return c } }()\n",
			"println(\"cv#\", Next#(h.Input()), Next#(CC))\n", nil},
		{"pkg-func-var-captures-global", "var cnt# int\nvar seen# []string\nvar Inc# = func(d int) int { cnt# += d; seen# = append(seen#, h.Itoa(d)); return cnt# }\n",
			"Inc#(h.Input() + 1)\nprintln(\"fg#\", Inc#(KK), cnt#, len(seen#))\n", nil},
		{"init-state", "var IS# []int\nvar IM# = map[int]string{}\nvar IN# int\nfunc init() { IS# = append(IS#, KK); IM#[CC] = WW; IN# += CC }\n",
			"IS# = append(IS#, h.Input())\nIM#[h.Input()+100] += \"x\"\nIM#[CC] += \"y\"\nIN# += h.Input()\nprintln(\"is#\", len(IS#), IS#[0], len(IM#), IM#[CC], IN#)\n", nil},
		{"pkg-struct-ptr-array", "type P# struct { N int; L []int }\nvar PP# = &P#{N: KK}\nvar PV# P#\nvar PA# [3]int\n",
			"PP#.N += h.Input()\nPP#.L = append(PP#.L, CC)\nPV#.N += CC\nPV#.L = append(PV#.L, h.Input())\nPA#[1] += h.Input() + 1\nprintln(\"sp#\", PP#.N, len(PP#.L), PV#.N, len(PV#.L), PA#[1])\n", nil},
		{"pkg-map-of-slices", "var MS# = map[string][]int{\"a\": {1, 2}}\nvar SM# = []map[string]int{{\"x\": KK}}\n",
			"MS#[\"a\"][0] += h.Input() + 1\nMS#[\"b\"] = append(MS#[\"b\"], KK)\nSM#[0][\"x\"] += CC\nSM#[0][h.Itoa(h.Input())] = 1\nprintln(\"ms#\", MS#[\"a\"][0], len(MS#[\"b\"]), SM#[0][\"x\"], len(SM#[0]))\n", nil},
		{"pkg-native-typed-var", "var PC# = &h.Counter{N: KK}\nvar PD# h.Counter\n",
			"println(\"nt#\", PC#.Add(h.Input()+1), PD#.Add(CC), PD#.Get())\n", nil},
		{"pkg-chan-var", "var CH# = make(chan int, 8)\n", "CH# <- h.Input()\nCH# <- KK\nprintln(\"ch#\", len(CH#), <-CH#)\n", nil},
		{"pkg-string-float-vars", "var S# = WW\nvar FL# = KK.5\nvar B# bool\nvar BY# = []byte(\"abc\")\n",
			"S# += h.Itoa(h.Input())\nFL# *= 2\nB# = !B#\nBY#[0]++\nBY# = append(BY#, 'z')\nprintln(\"sf#\", S#, int(FL#), B#, string(BY#))\n", nil},
		{"pkg-var-goroutine", "var GG# int\nvar GL# []int\n", "dg# := make(chan int)\ngo func() { GG# += h.Input() + KK; GL# = append(GL#, GG#); dg# <- 1 }()\n<-dg#\nprintln(\"gg#\", GG#, len(GL#))\n", nil},
		{"pkg-var-init-order", "var A# = B# + 1\nvar B# = two#() * KK\nfunc two#() int { return 2 }\n", "A# += h.Input()\nB#++\nprintln(\"io#\", A#, B#)\n", nil},
		{"pkg-interface-var", "var I# interface{} = []int{KK}\nvar E# error\n", "I#.([]int)[0] += h.Input() + 1\nprintln(\"iv#\", I#.([]int)[0], E# == nil)\n", nil},
		{"pointer-to-pkg-var", "type Acc# struct{ n int; log []string }\nfunc AddAcc#(a *Acc#, d int) int { a.n += d; a.log = append(a.log, \"+\"); return a.n }\nvar AC# Acc#\n",
			"println(\"mp#\", AddAcc#(&AC#, h.Input()+1), AddAcc#(&AC#, KK), len(AC#.log))\n", nil},
		{"literals-mutated-in-place", "func Lit#() []int { return []int{KK, CC} }\nfunc LitM#() map[string]int { return map[string]int{\"a\": CC} }\n",
			"l# := Lit#()\nl#[0] += h.Input() + 1\nlm# := LitM#()\nlm#[\"a\"] += h.Input() + 1\nb# := []byte(WW + \"z\")\nb#[0] = 'Q'\nprintln(\"li#\", l#[0], Lit#()[0], lm#[\"a\"], LitM#()[\"a\"], string(b#), WW)\n", nil},
	}
	t := tpls[r.Intn(len(tpls))]
	return snippet{kind: t.kind, decls: stateRep(t.decls, n, k, c, w), stmts: stateRep(t.stmts, n, k, c, w), ref: t.ref, state: true,
		goStmt: strings.Contains(t.stmts, "go func")}
}

func stateTplSnippet(r *proto.Rand, n int) snippet {
	k := r.Intn(1000) + 130
	c := r.Intn(6) + 2
	w := words[r.Intn(len(words))]
	type tpl struct {
		kind string
		top  string // top level of index.html (file-level declarations when index.html extends layout.html)
		imp  string // declarations of the imported file imp.html
		body string // statements of index.html (of its macro Body when it extends)
		tail string // after the body (in layout.html when index.html extends it); may only use imp.html and globals
		ref  func(h *run.Host, in run.Input)
	}
	tpls := []tpl{
		{kind: "global-nil-vars", body: `{% nilN = nilN + v + KK %}{% nilL = append(nilL, nilN) %}{% if nilM == nil %}{% nilM = map[string]int{} %}{% end %}{% nilM["k"] = nilM["k"] + CC %}{% nilS = nilS + s + "." %}{% nilF = nilF + 0.5 %}{% nilC.N = nilC.N + v + 1 %}gn#:{{ nilN }} {{ len(nilL) }} {{ nilL[0] }} {{ nilM["k"] }} {{ nilS }} {{ nilF }} {{ nilC.Get() }}
`, tail: "{{ nilN }}/{{ len(nilL) }}\n"},
		{kind: "imported-native-nil-vars", body: `{% h.NilN = h.NilN + v + KK %}{% h.NilL = append(h.NilL, CC) %}{% h.NilS = h.NilS + WW + "." %}{% if h.NilM == nil %}{% h.NilM = map[string]int{} %}{% end %}{% h.NilM[s] = h.NilM[s] + 1 %}hn#:{{ h.NilN }} {{ len(h.NilL) }} {{ h.NilS }} {{ h.NilM[s] }}
`},
		{kind: "nil-var-in-macro-and-closure", top: "{% macro AddN#(d int) %}{% nilN = nilN + d %}{% h.NilF = h.NilF + 0.25 %}{{ nilN }}{% end %}\n",
			body: "{% fn# := func(d int) int { nilL = append(nilL, d); return len(nilL) } %}mc#:{{ AddN#(v) }} {{ AddN#(KK) }} {{ fn#(CC) }} {{ fn#(v) }} {{ h.NilF }}\n"},
		{kind: "global-ptr-vars-read", body: "pr#:{{ ptrN }} {{ len(ptrL) }} {{ ptrM[\"a\"] }} {{ ptrS }} {{ h.PtrN + v }} {{ len(h.PtrL) }}\n"},
		{kind: "global-ptr-vars-write", body: `{% ptrN = ptrN + v + KK %}{% h.PtrL = append(h.PtrL, ptrN) %}{% ptrM["t"] = ptrM["t"] + CC %}{% h.PtrS = h.PtrS + s %}pw#:{{ h.PtrN }} {{ len(ptrL) }} {{ ptrM["t"] }} {{ ptrS }}
`, ref: func(h *run.Host, in run.Input) {
			h.N += in.V + k
			h.L = append(h.L, h.N)
			h.M["t"] += c
			h.S += in.S
		}},
		{kind: "run-ptr-vars", body: "{% pv = pv + KK %}{% pl = append(pl, v) %}rp#:{{ pv }} {{ len(pl) }}\n"},
		{kind: "imported-file-vars", imp: `{% var Count# = KK %}{% var Seen# = []int{} %}{% var Tab# = map[string]int{"a": CC} %}{% macro Bump#(d int) %}{% Count# = Count# + d %}{% Seen# = append(Seen#, d) %}{% Tab#["a"] = Tab#["a"] + d %}{{ Count# }}/{{ len(Seen#) }}/{{ Tab#["a"] }}{% end %}
`, body: "if#:{{ Bump#(v) }} {{ Bump#(CC) }} {{ Count# }}\n", tail: "{{ Bump#(1) }}|{{ Count# }}\n"},
		{kind: "imported-file-closure-var", imp: "{% var Next# = func() func(int) int { c := KK; return func(d int) int { c = c + d; return c } }() %}\n",
			body: "ic#:{{ Next#(v) }} {{ Next#(CC) }}\n", tail: "{{ Next#(0) }}\n"},
		{kind: "imported-file-func-init", imp: "{% var Base# = triple(KK) %}{% var Strs# = []string{WW} %}{% macro Push#(x string) %}{% Strs# = append(Strs#, x) %}{% Base# = Base# + len(Strs#) %}{{ Base# }}{% end %}\n",
			body: "fi#:{{ Push#(s) }} {{ Push#(\"q\") }} {{ len(Strs#) }} {{ Strs#[0] }}\n"},
		{kind: "file-level-vars", top: "{% var T# = KK %}{% var TL# = []int{CC} %}{% var TM# = map[string]int{} %}\n",
			body: "{% T# = T# + v %}{% TL#[0] = TL#[0] + v %}{% TL# = append(TL#, T#) %}{% TM#[s] = TM#[s] + 1 %}fl#:{{ T# }} {{ TL#[0] }} {{ len(TL#) }} {{ TM#[s] }} {{ len(TM#) }}\n"},
		{kind: "file-level-macro-state", top: "{% var MC# = 0 %}{% var ML# []string %}{% macro Tick#(d int) %}{% MC# = MC# + d %}{% ML# = append(ML#, \"t\") %}{{ MC# }}:{{ len(ML#) }}{% end %}\n",
			body: "fm#:{{ Tick#(v) }} {{ Tick#(KK) }}\n"},
	}
	t := tpls[r.Intn(len(tpls))]
	return snippet{kind: t.kind, top: stateRep(t.top, n, k, c, w), decls: stateRep(t.imp, n, k, c, w), stmts: stateRep(t.body, n, k, c, w),
		tail: stateRep(t.tail, n, k, c, w), ref: t.ref, state: true}
}

// stateTplFiles renders the snippets as index.html (+ imp.html, part.html, and layout.html when
// index.html extends it: then the statements are the body of its macro Body and the file-level
// {% var %} declarations are package-level variables of the extending file).
func stateTplFiles(sn []snippet, extends bool) map[string]string {
	var top, imp, body, tail strings.Builder
	for _, s := range sn {
		top.WriteString(s.top)
		imp.WriteString(s.decls)
		body.WriteString(s.stmts)
		tail.WriteString(s.tail)
	}
	files := map[string]string{"part.html": "<i>{{ v * 2 }}{{ s }}</i>{% if v > 3 %}!{% end %}"}
	imports := "{% import \"h\" %}"
	if imp.Len() > 0 {
		files["imp.html"] = imp.String()
		imports += "{% import \"imp.html\" %}"
	}
	if extends {
		files["index.html"] = "{% extends \"layout.html\" %}" + imports + "\n" + top.String() + "{% macro Body %}" + body.String() + "{% end %}\n"
		files["layout.html"] = "<!DOCTYPE html>\n" + imports + "<main>{{ Body() }}</main>\n<footer>" + tail.String() + "</footer>\n"
	} else {
		files["index.html"] = imports + "<!DOCTYPE html>\n" + top.String() + body.String() + tail.String()
	}
	return files
}

func genHost(r *proto.Rand) run.Host {
	h := run.Host{N: r.Intn(60), S: words[r.Intn(len(words))], M: map[string]int{"a": r.Intn(9)}}
	for i := r.Intn(3); i > 0; i-- {
		h.L = append(h.L, r.Intn(30))
	}
	return h
}

// knownAddr: a defect of the frozen tree the generator steps around, replayed on every check.
const knownAddr = "address-of-imported-variable-host-panic"
const knownAddrProgram = "package main\n\nimport \"h\"\n\nfunc main() {\n\tp := &h.PtrN\n\t*p += 7\n\tprintln(*p, h.PtrN)\n}\n"

func replayKnownAddr(c *hx.Ctx) {
	cs := run.Case{Kind: "program", Files: map[string]string{"main.go": knownAddrProgram}, HostInit: run.Host{N: 5}}
	a, err := run.Build(cs)
	bad := ""
	if err != nil {
		bad = "build error: " + err.Error()
	} else if o := a.RunOnce(run.Input{}, nil); o.Panic != "" || o.Err != "" || o.Printed != "12 12\n" || a.Host().N != 12 {
		bad = o.String() + " host: " + a.Host().String()
	}
	if bad != "" {
		c.Res.AddBreak(proto.Break{Kind: "property", Name: "runs-panic-into-host", Finding: c.Known(knownAddr), Case: "C10 case " + cs.JSON(),
			Human: knownAddrProgram + "// native package h declares \"PtrN\": &hostN (hostN == 5)", Impl: bad, Model: "prints 12 12, hostN == 12"})
	}
}

// stateStream is the "state across runs" stream of the check.
func stateStream(c *hx.Ctx) (raceSample []run.Case, err error) {
	res := c.Res
	replayKnownAddr(c)
	nCases := c.N(600, 5000)
	failures := 0
	for i := 0; i < nCases; i++ {
		isProg := i%2 == 0
		extends := !isProg && c.R.Intn(2) == 0
		var sn []snippet
		for j, n := 0, 1+c.R.Intn(4); j < n; j++ {
			if isProg {
				sn = append(sn, stateProgSnippet(c.R, j))
			} else {
				sn = append(sn, stateTplSnippet(c.R, j))
			}
		}
		// ordinary snippets between them: state meets the rest of the language
		for j, n := 10, c.R.Intn(3); n > 0; n, j = n-1, j+1 {
			var s snippet
			if isProg {
				s = progSnippet(c.R, j)
				if s.kind == "defer-recover" { // ends the run early for some inputs (known C01 finding named-result-set-after-recover): the reference semantics of the host variables would be off
					continue
				}
			} else {
				s = tplSnippet(c.R, j)
				if s.kind == "macro" { // declares a macro: not inside the macro Body
					continue
				}
			}
			at := c.R.Intn(len(sn) + 1)
			sn = append(sn[:at], append([]snippet{s}, sn[at:]...)...)
		}
		if isProg {
			sn = append(sn, progEnding(c.R))
		}
		var base run.Case
		concurrency(c, &base)
		if len(base.Inputs) > 12 {
			base.Inputs, base.Jitter = base.Inputs[:12], base.Jitter[:12]
		}
		if c.R.Intn(3) == 0 {
			base.Seq = true
		}
		base.HostInit = genHost(c.R)
		mk := func(sn []snippet) run.Case {
			out := base
			out.AllowGo = true
			if isProg {
				out.Kind = "program"
				out.Files = map[string]string{"main.go": progSource(sn)}
			} else {
				out.Kind, out.Main = "template", "index.html"
				out.Files = stateTplFiles(sn, extends)
			}
			// the reference semantics of what the code does to the host variables
			want := out.HostInit.Clone()
			for _, in := range out.Inputs {
				for _, s := range sn {
					if s.ref != nil {
						out.SharedWrites = true
						s.ref(want, in)
					}
				}
			}
			out.HostWant = want
			return out
		}
		cs := mk(sn)
		var r run.Result
		if !cs.Seq && !cs.SharedWrites {
			// the same runs one after the other first: state that leaks from run to run shows
			// deterministically there, whereas concurrent runs writing one leaked map would kill
			// the process (Go's "concurrent map writes" cannot be recovered)
			pre := cs
			pre.Seq = true
			if r = run.Run(pre); r.Bad() {
				base.Seq = true
				cs = pre
				res.Hist("state:failed-in-sequential-pre-pass")
			}
		}
		if !r.Bad() {
			r = run.Run(cs)
		}
		// generated state code runs to its end: a run and its oracle that fail alike would compare
		// equal and test nothing
		if !r.Bad() {
			ending := ""
			if isProg {
				ending = sn[len(sn)-1].kind
			}
			for k, o := range r.Got {
				ok := o.Err == ""
				switch ending {
				case "end-panic":
					ok = strings.Contains(o.Err, "boom")
				case "end-runtime-error":
					ok = strings.Contains(o.Err, "index out of range")
				}
				if !ok {
					res.AddBreak(proto.Break{Kind: "property", Name: "generated-state-code-does-not-run-to-its-end", Case: "C10 case " + cs.JSON(),
						Human: fmt.Sprint(cs.Files), Impl: fmt.Sprintf("run %d: %s", k, o), Model: "ending " + ending + ": no other error"})
					failures++
					break
				}
			}
		}
		if r.BuildErr != "" {
			return nil, fmt.Errorf("generated %s (state stream) does not build: %s\n%v", cs.Kind, r.BuildErr, cs.Files)
		}
		res.Count("state:"+cs.Kind+":"+cs.JSON(), len(cs.Inputs) > 1)
		for _, s := range sn {
			if s.state {
				res.Hist("state:" + cs.Kind + ":" + s.kind)
			} else {
				res.Hist("state:mixed-in:" + cs.Kind + ":" + s.kind)
			}
		}
		switch {
		case cs.SharedWrites:
			res.Hist("state:oracle:chain-of-fresh-builds+reference(shared-writes,sequential)")
		case cs.Seq:
			res.Hist("state:oracle:fresh-build(sequential)")
		default:
			res.Hist("state:oracle:fresh-build(concurrent)")
		}
		if extends {
			res.Hist("state:template-extends-layout")
		}
		if len(raceSample) < c.N(0, 100) && i%7 == 0 {
			raceSample = append(raceSample, cs)
		}
		if i%89 == 0 {
			res.Sample(map[string]any{"stream": "state", "kind": cs.Kind, "runs": len(cs.Inputs), "seq": cs.Seq || cs.SharedWrites, "files": cs.Files, "first": r.Got[0], "host_want": cs.HostWant})
		}
		if r.Bad() {
			failures++
			cur := sn
			deadline := time.Now().Add(25 * time.Second)
			for j := 0; j < len(cur) && len(cur) > 1 && time.Now().Before(deadline); {
				cand := append(append([]snippet(nil), cur[:j]...), cur[j+1:]...)
				if _, bad := failing(mk(cand), 4); bad {
					cur = cand
				} else {
					j++
				}
			}
			small := mk(cur)
			rr, bad := failing(small, 6)
			if !bad {
				small, rr = cs, r
			} else {
				// fewer runs: the first two inputs are enough for state that leaks from run to run
				for len(small.Inputs) > 2 {
					cand := small
					cand.Inputs, cand.Jitter = small.Inputs[:len(small.Inputs)-1], small.Jitter[:len(small.Inputs)-1]
					cand = remk(cand, cur)
					r2, bad := failing(cand, 4)
					if !bad {
						break
					}
					small, rr = cand, r2
				}
			}
			human := ""
			for _, n := range run.SortedNames(small.Files) {
				human += "// " + n + "\n" + small.Files[n] + "\n"
			}
			report(c, small, rr, human)
			if failures >= 2 {
				res.Notes = append(res.Notes, "state stream: stopped after 2 failing cases")
				break
			}
		}
	}
	return raceSample, nil
}

// remk recomputes the reference host state of a case whose inputs were cut.
func remk(cs run.Case, sn []snippet) run.Case {
	want := cs.HostInit.Clone()
	for _, in := range cs.Inputs {
		for _, s := range sn {
			if s.ref != nil {
				s.ref(want, in)
			}
		}
	}
	cs.HostWant = want
	return cs
}
