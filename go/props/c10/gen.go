package main

import (
	"fmt"
	"strings"

	"verifharness/internal/proto"
	"verifharness/props/c10/run"
)

// ---- generated Go programs -------------------------------------------------------------

// snippet is one independent piece of a generated program: package-level declarations and
// statements of main. Every snippet prints something that depends on the run's input.
type snippet struct {
	kind   string
	decls  string
	stmts  string
	goStmt bool
	// the state stream (state.go): templates have a top level (file-level declarations) and a tail
	// (after the body; in the layout when the file extends one), decls is the imported file;
	// ref is the reference semantics of a snippet that writes the host's shared variables
	top, tail string
	ref       func(h *run.Host, in run.Input)
	state     bool
}

var words = []string{"alpha", "be<ta", "g&amma", "δelta", "eps\"ilon", "zeta'", "x y", ""}

func progSnippet(r *proto.Rand, n int) snippet {
	k := r.Intn(1000) + 130 // ≥ 128: not an immediate operand, loaded from Function.Values.Int
	c := r.Intn(6) + 2
	w := words[r.Intn(len(words))]
	q := fmt.Sprintf("%q", w)
	id := fmt.Sprint(n)
	rep := func(s string) string {
		s = strings.ReplaceAll(s, "#", id)
		s = strings.ReplaceAll(s, "KK", fmt.Sprint(k))
		s = strings.ReplaceAll(s, "CC", fmt.Sprint(c))
		s = strings.ReplaceAll(s, "WW", q)
		return s
	}
	type tpl struct{ kind, decls, stmts string }
	tpls := []tpl{
		{"arith-loop", "", "x# := KK\nfor i := 0; i < CC; i++ { x# = x#*31 + i + h.Input() }\nprintln(\"a#\", x#)\n"},
		{"strings", "", "s# := WW + h.Itoa(h.Input())\ns# += h.Repeat(\"ab\", CC)\nprintln(s#, len(s#), h.Slen(s#))\n"},
		{"floats", "", "f# := KK.5 * float64(h.Input()+1)\nprintln(\"f#\", int(f#*100), f# > 1e3)\n"},
		{"slices", "", "sl# := []int{KK, CC}\nfor i := 0; i < CC; i++ { sl# = append(sl#, i*h.Input()) }\nprintln(len(sl#), sl#[len(sl#)-1], h.Sum(sl#...), h.Sum(1, KK, h.Input()))\n"},
		{"maps", "", "m# := map[string]int{\"a\": KK}\nm#[\"b\"] = h.Input()\nm#[\"a\"]++\nprintln(m#[\"a\"], m#[\"b\"], len(m#))\n"},
		{"structs", "type T# struct { A int; B string }\nfunc Sum#(t T#) int { return t.A + len(t.B) }\nfunc Inc#(t *T#, d int) { t.A += d }\n",
			"t# := T#{KK, WW}\nInc#(&t#, h.Input())\nu# := t#\nu#.A++\nprintln(Sum#(t#), Sum#(u#), t#.B)\n"},
		{"method-values", "", "cn# := &h.Counter{N: KK}\nf# := cn#.Add\nf#(CC)\nprintln(cn#.N, f#(h.Input()), cn#.Get())\n"},
		{"closures", "", "acc# := 0\nadd# := func(d int) int { acc# += d; return acc# }\nfor i := 0; i < CC; i++ { add#(i + h.Input()) }\nprintln(acc#, h.Apply(add#, KK))\n"},
		{"package-vars", "var G# = KK\nvar GS# = []int{1, 2, 3}\nvar GM# = map[string]int{\"k\": CC}\n",
			"G# += h.Input()\nGS#[0] += G#\nGS# = append(GS#, G#)\nGM#[\"k\"] += h.Input()\nprintln(G#, GS#[0], len(GS#), GM#[\"k\"])\n"},
		{"defer-recover", "func F#(d int) (r int) {\n\tdefer func() { if e := recover(); e != nil { r = -KK } }()\n\ta := []int{1, 2, 3}\n\treturn a[d]\n}\n",
			"println(\"d#\", F#(h.Input() % 5))\n"},
		{"complex", "var Z# = 3 + 4i\n", "c# := complex(KK, CC) * complex(float64(h.Input()), 1)\nprintln(int(real(c#)), int(imag(c#)), int(real(Z#*Z#)))\n"},
		{"nil-consts", "", "var ns# []int\nvar nm# map[string]int\nvar np# *int\nprintln(ns# == nil, nm# == nil, np# == nil, len(ns#))\nns# = append(ns#, h.Input())\nprintln(ns#[0])\n"},
		{"type-switch", "", "var i# interface{} = h.Input()\nif h.Input()%2 == 0 { i# = WW }\nswitch v := i#.(type) {\ncase int:\n\tprintln(\"int\", v+KK)\ncase string:\n\tprintln(\"str\", v)\n}\n"},
		{"emit-env", "", "h.Emit(\"e#\", h.Input(), WW, KK)\n"},
		{"range-string", "", "cnt# := 0\nfor i, r := range WW + \"pad\" { if i%2 == h.Input()%2 { cnt# += int(r) } }\nprintln(\"r#\", cnt#)\n"},
		{"arrays", "", "ar# := [4]int{1, 2, 3, KK}\nbr# := ar#\nbr#[0] = h.Input()\nprintln(ar#[0], br#[0], ar#[3])\n"},
		{"sprint", "", "println(h.Sprint(KK, \"x\", 1.5, h.Input(), WW))\n"},
		{"recursion", "func Fib#(a int) int { if a < 2 { return a }; return Fib#(a-1) + Fib#(a-2) }\n", "println(\"fib\", Fib#(8 + h.Input()%5))\n"},
		{"pointers", "", "p# := new(int)\n*p# = h.Input()\nq# := p#\n*q# += KK\nprintln(*p#)\n"},
		{"natives", "", "println(h.Nat0(h.Input()), h.Nat1(KK), h.Nat2(h.Nat1(h.Input())), h.Triple(CC))\n"},
		{"func-values", "func Twice#(f func(int) int, x int) int { return f(f(x)) }\n", "println(Twice#(func(a int) int { return a*2 + h.Input() }, KK), Twice#(h.Triple, CC))\n"},
		{"go-native-fan-in", "", "c# := make(chan int)\nfor i := 1; i <= CC+2; i++ { go h.Send(c#, i*KK+h.Input()) }\ns# := 0\nfor i := 1; i <= CC+2; i++ { s# += <-c# }\nprintln(\"gs#\", s#)\n"},
		{"go-native-then-sync-same", "", "b# := make(chan int, 8)\ngo h.Send(b#, 1+h.Input())\nh.Send(b#, KK)\ngo h.SendMul(b#, CC, h.Input())\nh.SendMul(b#, 3, KK)\nt# := 0\nfor i := 0; i < 4; i++ { t# += <-b# }\nprintln(\"gt#\", t#)\n"},
		{"go-native-variadic-env", "", "e# := make(chan int)\nfor i := 0; i < CC; i++ { go h.RecTag(e#, WW, i, h.Input(), KK); go h.SendSum(e#, i, h.Input()) }\nu# := 0\nfor i := 0; i < 2*CC; i++ { u# += <-e# }\nprintln(\"gv#\", u#)\n"},
		{"go-native-recd", "", "d# := make(chan int)\nfor i := 0; i < CC; i++ { go h.Recd(d#, i, KK+h.Input()) }\nfor i := 0; i < CC; i++ { <-d# }\n"},
		{"go-native-strings", "", "cs# := make(chan string)\ngo h.SendS(cs#, WW, 2)\ngo h.SendS(cs#, h.Itoa(h.Input()), CC)\nx#, y# := <-cs#, <-cs#\nif x# > y# { x#, y# = y#, x# }\nprintln(\"gss#\", x#, y#)\n"},
		{"defer-native", "func D#(c chan int) {\n\tdefer h.Send(c, KK)\n\tdefer h.SendMul(c, h.Input(), CC)\n\th.Send(c, 1)\n}\n", "dc# := make(chan int, 4)\nD#(dc#)\nprintln(\"dn#\", <-dc#, <-dc#, <-dc#)\n"},
		{"go-fast-path-native", "", "go h.Slen(WW)\ngo h.Repeat(WW, CC)\nprintln(\"gf#\", h.Slen(WW))\n"},
		{"callbacks", "", "t# := 0\nh.Each(CC, func(i int) { t# += i * h.Input() })\nn# := 0\nh.Until(func() bool { n#++; return n# > CC })\nprintln(\"cb#\", t#, n#, h.Apply(func(x int) int { return x + t# }, KK))\n"},
		{"goroutine", "", "ch# := make(chan int)\ngo func(d int) { ch# <- d * KK }(h.Input())\nprintln(\"g#\", <-ch#)\n"},
		{"select", "", "sa# := make(chan int, 1)\nsa# <- h.Input()\nselect {\ncase v := <-sa#:\n\tprintln(\"sel\", v+KK)\ndefault:\n\tprintln(\"none\")\n}\n"},
	}
	t := tpls[r.Intn(len(tpls))]
	return snippet{kind: t.kind, decls: rep(t.decls), stmts: rep(t.stmts), goStmt: t.kind == "goroutine" || strings.HasPrefix(t.kind, "go-")}
}

// endings: how a generated program ends (normal, unrecovered panic, runtime error).
func progEnding(r *proto.Rand) snippet {
	switch r.Intn(6) {
	case 0:
		return snippet{kind: "end-panic", stmts: "panic(\"boom\" + h.Itoa(h.Input()))\n"}
	case 1:
		return snippet{kind: "end-runtime-error", stmts: "var zz []int\nprintln(zz[h.Input()])\n"}
	}
	return snippet{kind: "end-normal"}
}

func progSource(sn []snippet) string {
	var b strings.Builder
	b.WriteString("package main\n\nimport \"h\"\n\nvar _ = h.Input\n\n")
	for _, s := range sn {
		b.WriteString(s.decls)
	}
	b.WriteString("\nfunc main() {\n")
	for _, s := range sn {
		b.WriteString(s.stmts)
	}
	b.WriteString("}\n")
	return b.String()
}

// ---- generated templates ---------------------------------------------------------------

func tplSnippet(r *proto.Rand, n int) snippet {
	k := r.Intn(1000) + 130
	c := r.Intn(6) + 2
	w := words[r.Intn(len(words))]
	id := fmt.Sprint(n)
	rep := func(s string) string {
		s = strings.ReplaceAll(s, "#", id)
		s = strings.ReplaceAll(s, "KK", fmt.Sprint(k))
		s = strings.ReplaceAll(s, "CC", fmt.Sprint(c))
		s = strings.ReplaceAll(s, "WW", fmt.Sprintf("%q", w))
		return s
	}
	tpls := [][2]string{
		{"show-vars", "<p>{{ v }} {{ s }} {{ v + KK }} {{ WW }}</p>\n"},
		{"for-items", "<ul>{% for i, x := range items %}<li>{{ i }}:{{ x * KK }}</li>{% end %}</ul>\n"},
		{"if", "{% if v > CC %}big{% else if v == CC %}same{% else %}small{% end %}\n"},
		{"macro", "{% macro M#(a int) %}<b>{{ a + v }}{{ s }}</b>{% end %}{{ M#(KK) }}{{ M#(CC) }}\n"},
		{"natives", "{{ triple(v) }} {{ sum(1, v, KK) }} {{ repeat(s, 2) }} {{ sprint(v, s, KK) }} {{ nat0(v) }} {{ nat1(nat2(v)) }} {{ slen(s) }}\n"},
		{"assign", "{% x# := KK %}{% x# = x# + v %}{{ x# }}\n"},
		{"closure", "{% f# := func(a int) int { return a*v + KK } %}{{ f#(3) }} {{ apply(f#, 2) }}\n"},
		{"contexts", "<a href=\"/p?q={{ s }}&n={{ v }}\" title=\"{{ s }}\">x</a><script>var x = {{ items }}; var y = {{ s }};</script><style>a{width:{{ v }}px}</style>\n"},
		{"render", "{{ render \"part.html\" }}\n"},
		{"map", "{% var m# = map[string]int{\"a\": KK} %}{% m#[\"b\"] = v %}{{ len(m#) }} {{ m#[\"b\"] }} {{ m#[\"a\"] }}\n"},
		{"slice", "{% sl# := []int{KK, v} %}{% sl# = append(sl#, v*2) %}{{ len(sl#) }} {{ sl#[2] }}{% for _, e := range sl# %}{{ e }},{% end %}\n"},
		{"go-block", "{%%\n  y# := 0\n  for i := 0; i < CC; i++ { y# += i * v }\n%%}{{ y# }}\n"},
		{"text", "plain text KK &amp; more\n"},
		{"callbacks", "{% t# := 0 %}{% each(CC, func(i int) { t# = t# + i*v }) %}{% n# := 0 %}{% until(func() bool { n# = n# + 1; return n# > CC }) %}{{ t# }} {{ n# }} {{ apply(func(x int) int { return x + t# }, KK) }}\n"},
		{"go-native-recd", "{% d# := make(chan int) %}{% go recd(d#, CC, v) %}{% go recd(d#, 1, v+KK) %}{% _ = <-d# %}{% _ = <-d# %}\n"},
		{"go-native-send", "{% c# := make(chan int, 4) %}{% go send(c#, v) %}{% send(c#, KK) %}{% go sendSum(c#, v, CC, 1) %}{% t# := <-c# %}{% t# = t# + <-c# %}{% t# = t# + <-c# %}{{ t# }}\n"},
		{"go-native-loop", "{% e# := make(chan int) %}{% for i := 0; i < CC; i++ %}{% go recTag(e#, s, i, v) %}{% end %}{% for i := 0; i < CC; i++ %}{% _ = <-e# %}{% end %}\n"},
		{"emit", "{% emit(\"t#\", v, s) %}\n"},
		{"items-write", "{% if len(items) > 0 %}{% items[0] = items[0] + KK %}{{ items[0] }}{% end %}\n"},
		{"string-ops", "{% st# := s + itoa(v) %}{{ st# }} {{ len(st#) }} {% if s contains \"a\" %}has-a{% end %}\n"},
	}
	t := tpls[r.Intn(len(tpls))]
	return snippet{kind: t[0], stmts: rep(t[1])}
}

func tplFiles(sn []snippet) map[string]string {
	var b strings.Builder
	b.WriteString("<!DOCTYPE html>\n")
	for _, s := range sn {
		b.WriteString(s.stmts)
	}
	return map[string]string{"index.html": b.String(), "part.html": "<i>{{ v * 2 }}{{ s }}</i>{% if v > 3 %}!{% end %}"}
}

func genInput(r *proto.Rand) run.Input {
	in := run.Input{V: r.Intn(10), S: words[r.Intn(len(words))]}
	for i := r.Intn(4); i > 0; i-- {
		in.Items = append(in.Items, r.Intn(50))
	}
	return in
}

// ---- toy programs (the machine of Model/Runs.lean, compiled as a template) -------------------

type toyInstr struct {
	op   byte // c v a n s
	a, b int
}

func genToy(r *proto.Rand) []toyInstr {
	n := 3 + r.Intn(10)
	var p []toyInstr
	natives := 0
	for q := 0; q < 4; q++ { // give the registers run-dependent contents first
		if r.Intn(3) > 0 {
			p = append(p, toyInstr{'c', q, r.Intn(200) - 50})
		}
		if r.Intn(2) == 0 {
			p = append(p, toyInstr{'v', q, 0})
		}
	}
	for i := 0; i < n; i++ {
		switch x := r.Intn(10); {
		case x < 2:
			p = append(p, toyInstr{'c', r.Intn(4), r.Intn(2000) - 500})
		case x < 4:
			p = append(p, toyInstr{'v', r.Intn(4), 0})
		case x < 5:
			p = append(p, toyInstr{'a', r.Intn(4), r.Intn(4)})
		case x < 6 && natives < 8:
			natives++
			p = append(p, toyInstr{'n', r.Intn(3), r.Intn(4)})
		case x < 8 && natives < 8:
			natives++
			p = append(p, toyInstr{'g', r.Intn(3), r.Intn(4)})
		case x < 9 && r.Intn(2) == 0:
			p = append(p, toyInstr{'j', 0, 0})
		default:
			p = append(p, toyInstr{'s', r.Intn(4), 0})
		}
	}
	p = append(p, toyInstr{'s', r.Intn(4), 0})
	return p
}

func toyProto(p []toyInstr) string {
	var parts []string
	for _, in := range p {
		switch in.op {
		case 'c', 'a', 'n', 'g':
			parts = append(parts, fmt.Sprintf("%c:%d:%d", in.op, in.a, in.b))
		case 'j':
			parts = append(parts, "j")
		default:
			parts = append(parts, fmt.Sprintf("%c:%d", in.op, in.a))
		}
	}
	return strings.Join(parts, ",")
}

func toyTemplate(p []toyInstr) string {
	var b strings.Builder
	b.WriteString("{% var r0, r1, r2, r3, pn int %}{% dch := make(chan int, 64) %}")
	for _, in := range p {
		switch in.op {
		case 'c':
			fmt.Fprintf(&b, "{%% r%d = %d %%}", in.a, in.b)
		case 'v':
			fmt.Fprintf(&b, "{%% r%d = r%d + v %%}", in.a, in.a)
		case 'a':
			fmt.Fprintf(&b, "{%% r%d = r%d + r%d %%}", in.a, in.a, in.b)
		case 'n':
			fmt.Fprintf(&b, "{%% r%d = nat%d(r%d) %%}", in.b, in.a, in.b)
		case 's':
			fmt.Fprintf(&b, "{{ r%d }};", in.a)
		case 'g': // go native_f(r): the goroutine records 3*r+f for this run and signals on dch
			fmt.Fprintf(&b, "{%% go recd(dch, %d, r%d) %%}{%% pn = pn + 1 %%}", in.a, in.b)
		case 'j':
			b.WriteString("{% if pn > 0 %}{% _ = <-dch %}{% pn = pn - 1 %}{% end %}")
		}
	}
	// the run ends when every native goroutine it started has recorded
	b.WriteString("{% for pn > 0 %}{% _ = <-dch %}{% pn = pn - 1 %}{% end %}")
	return b.String()
}
