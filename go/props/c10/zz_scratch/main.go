package main

import (
	"fmt"
	"os"

	"verifharness/props/c10/run"
)

func main() {
	b, _ := os.ReadFile(os.Args[1])
	cs := run.Case{Kind: "program", Files: map[string]string{"main.go": string(b)}, AllowGo: true, HostInit: run.Host{N: 5}}
	a, err := run.Build(cs)
	if err != nil {
		fmt.Println("BUILD:", err)
		return
	}
	for i := 0; i < 2; i++ {
		o := a.RunOnce(run.Input{V: 3}, nil)
		fmt.Printf("%s err=%q panic=%q host=%s\n", o.Printed, o.Err, o.Panic, a.Host())
	}
}
