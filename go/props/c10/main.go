package main

import (
	"crypto/sha256"
	"encoding/json"
	"fmt"
	"os"
	"os/exec"
	"path/filepath"
	"sort"
	"strings"
	"time"

	"verifharness/internal/hx"
	"verifharness/internal/proto"
	"verifharness/props/c10/run"
)

// C10: a built Program/Template run many times, concurrently and in sequence, must give in every
// run what a fresh build's single run gives (oracle on the real code); the toy machine of
// Model/Runs.lean, compiled as a template, must print under real concurrency what the Lean model
// predicts under a random schedule (correspondence); the regenerated frame-fact tables are
// reported. In the thorough tier a stress command re-runs a sample under the race detector.
func main() { hx.Main("C10", runC10) }

const nameDiffers = "run-differs-from-fresh-build"

func concurrency(c *hx.Ctx, cs *run.Case) {
	procs := []int{1, 2, 4, 8, 16}
	cs.Procs = procs[c.R.Intn(len(procs))]
	n := 2 + c.R.Intn(31) // 2..32
	if c.Quick() && n > 16 && c.R.Intn(3) > 0 {
		n = 2 + c.R.Intn(15)
	}
	same := c.R.Intn(3) == 0 // every run with the same input (pure repeatability)
	in0 := genInput(c.R)
	for i := 0; i < n; i++ {
		if same {
			cs.Inputs = append(cs.Inputs, in0)
		} else {
			cs.Inputs = append(cs.Inputs, genInput(c.R))
		}
		cs.Jitter = append(cs.Jitter, c.R.Intn(40))
	}
	cs.Seq = c.R.Intn(4) == 0
}

// failing runs a case up to tries times and returns the first failing result.
func failing(cs run.Case, tries int) (run.Result, bool) {
	var last run.Result
	for i := 0; i < tries; i++ {
		last = run.Run(cs)
		if last.Bad() {
			return last, true
		}
	}
	return last, false
}

func report(c *hx.Ctx, cs run.Case, res run.Result, human string) {
	b := proto.Break{Kind: "property", Name: nameDiffers, Case: "C10 case " + cs.JSON(), Human: human}
	if res.Hang {
		b.Name = "runs-hang"
		b.Impl, b.Model = "runs did not finish within "+run.HangTimeout.String(), "every run finishes"
	} else if i := res.Diff(); i >= 0 {
		b.Impl = fmt.Sprintf("run %d of %d (input %+v): %s", i, len(res.Got), cs.Inputs[i], res.Got[i])
		b.Model = "fresh build, single run: " + res.Want[i].String()
		if cs.SharedWrites {
			b.Model = "fresh build started on the host variables as the previous run must leave them, single run: " + res.Want[i].String()
		}
	} else if i := res.HostPanic(); i >= 0 {
		b.Name = "runs-panic-into-host"
		b.Impl = fmt.Sprintf("run %d of %d (input %+v): %s", i, len(res.Got), cs.Inputs[i], res.Got[i])
		b.Model = "generated code never panics into the host (a run and its oracle that panic alike would compare equal and test nothing)"
	} else if res.HostBad != "" {
		b.Name = "shared-host-variables-differ"
		b.Impl, b.Model = res.HostBad, "variables declared with a pointer are the host's own: every run reads and writes the host variable itself"
	}
	c.Res.AddBreak(b)
}

func runC10(c *hx.Ctx) error {
	res := c.Res
	res.Rule = "generated Go programs (2-7 snippets of 22 kinds: loops, strings, floats, slices, maps, methods, closures, package variables, defer/recover, complex and nil constants, type switches, natives with env/variadics/callbacks, goroutine, select; normal end, panic or runtime error) and HTML templates (2-7 snippets of 16 kinds: shows in HTML/attribute/JS/CSS contexts, for, if, macros, natives, closures, render, maps, slices), built once and run 2-32 times concurrently (start jitter, GOMAXPROCS 1-16) or sequentially with the same or different inputs, every run compared with a fresh build's single run; a second stream of artefacts that write and then read state of every kind that could outlive a run (20 kinds in programs: variables of a native package declared with nil pointers of seven types written directly, through pointers, from functions, goroutines and callbacks, variables declared with pointers to host variables read or written, package-level variables initialised by calls, composite values mutated in place, closures in package-level func variables, init functions, channels, literals; 11 kinds in templates: globals declared with nil pointers and with pointers, the same through import, Run variables given by pointer, {% var %} and macros of imported files, file-level variables of a file that extends a layout), mixed with 0-2 ordinary snippets, run 2-12 times first sequentially then concurrently; state shared on purpose (pointer declarations) is given to the oracle as an input: a chain of fresh builds each started on the host state its predecessor left, plus the generator's own reference semantics for the final host state; a third stream: the matrix function kind (declared function, method value, function literal in a package variable, imported-file macro, macro of the extending file, macro of the file itself) x state its body touches (11 program / 7 template kinds) x use of the function VALUE (15 program / 8 template forms), every point run 3-8 times in sequence with pairwise different inputs and then concurrently; plus toy register programs compared with the Lean machine. Non-trivial: at least two runs and a build that succeeds; distinct by source+inputs"

	if c.Replay != "" {
		return replay(c)
	}

	// 0. the regenerated frame facts, as the driver sees them
	if c.D != nil {
		a, err := c.D.Ask("C10 facts")
		if err != nil {
			return err
		}
		res.Notes = append(res.Notes, "frame facts: "+a)
		if !strings.HasPrefix(a, "ok ") {
			res.AddBreak(proto.Break{Kind: "correspondence", Name: "facts", Case: "C10 facts", Impl: "-", Model: a})
		}
	}

	if os.Getenv("VERIF_C10_ONLY") == "funcval" { // development aid: the function-value stream alone
		return funcValueStream(c)
	}

	// 1. toy machine: Lean prediction under a random schedule vs. real concurrent runs
	nToy := c.N(400, 4000)
	type toyCase struct {
		prog  []toyInstr
		cs    run.Case
		line  string
		sched string
	}
	var toys []toyCase
	var lines []string
	for i := 0; i < nToy; i++ {
		p := genToy(c.R)
		cs := run.Case{Kind: "template", Main: "index.txt", Files: map[string]string{"index.txt": toyTemplate(p)}, AllowGo: true}
		concurrency(c, &cs)
		if len(cs.Inputs) > 8 {
			cs.Inputs, cs.Jitter = cs.Inputs[:8], cs.Jitter[:8]
		}
		// a random complete schedule: every run gets len(p)+1 steps
		var sched []string
		left := make([]int, len(cs.Inputs))
		total := 0
		goes := 0
		for _, in := range p {
			if in.op == 'g' {
				goes++
			}
		}
		for j := range left {
			left[j] = len(p) + goes + 2 // the instructions, one delivery per started native, and slack
			total += left[j]
		}
		for total > 0 {
			j := c.R.Intn(len(left))
			if left[j] == 0 {
				continue
			}
			left[j]--
			total--
			sched = append(sched, fmt.Sprint(j))
		}
		var ins []string
		for _, in := range cs.Inputs {
			ins = append(ins, fmt.Sprint(in.V))
		}
		line := fmt.Sprintf("C10 toy %s %s %s", toyProto(p), strings.Join(ins, ","), strings.Join(sched, ","))
		toys = append(toys, toyCase{prog: p, cs: cs, line: line})
		lines = append(lines, line)
	}
	var model []string
	if c.D != nil {
		var err error
		if model, err = c.D.Batch(lines); err != nil {
			return err
		}
	}
	toyFailures := 0
	for i, t := range toys {
		r := run.Run(t.cs)
		natives := 0
		for _, in := range t.prog {
			if in.op == 'n' || in.op == 'g' {
				natives++
			}
		}
		res.Count("toy:"+t.line, natives > 0 && len(t.cs.Inputs) > 1)
		res.Hist("toy")
		if r.BuildErr != "" {
			return fmt.Errorf("toy template does not build: %s\n%s", r.BuildErr, t.cs.Files["index.txt"])
		}
		if r.Bad() {
			report(c, t.cs, r, t.cs.Files["index.txt"])
			if toyFailures++; toyFailures >= 2 {
				break
			}
		}
		if model != nil {
			var parts []string
			for _, o := range r.Got {
				s := strings.TrimSuffix(strings.ReplaceAll(o.Out, ";", ","), ",")
				if s == "" {
					s = "-"
				}
				if o.Recorded == "" {
					s += "|-"
				} else {
					s += "|" + o.Recorded
				}
				if o.Err != "" || o.Panic != "" {
					s = "error:" + o.Err + o.Panic
				}
				parts = append(parts, s)
			}
			impl := "ok " + strings.Join(parts, ";")
			if impl != sortRecords(model[i]) {
				res.AddBreak(proto.Break{Kind: "correspondence", Name: "toy-machine-vs-concurrent-template-runs", Case: t.line,
					Human: t.cs.Files["index.txt"], Impl: impl, Model: model[i]})
			}
			if i%40 == 0 {
				res.Sample(map[string]string{"line": t.line, "model": model[i], "template": t.cs.Files["index.txt"]})
			}
		}
	}

	// 2. generated programs and templates
	nCases := c.N(700, 8000)
	failures := 0
	var raceSample []run.Case
	for i := 0; i < nCases; i++ {
		var cs run.Case
		var sn []snippet
		n := 2 + c.R.Intn(6)
		isProg := i%2 == 0
		mk := func(sn []snippet) run.Case {
			out := cs
			if isProg {
				out.Kind, out.AllowGo = "program", true
				out.Files = map[string]string{"main.go": progSource(sn)}
			} else {
				out.Kind, out.Main, out.AllowGo = "template", "index.html", true
				out.Files = tplFiles(sn)
			}
			return out
		}
		for j := 0; j < n; j++ {
			if isProg {
				sn = append(sn, progSnippet(c.R, j))
			} else {
				sn = append(sn, tplSnippet(c.R, j))
			}
		}
		if isProg {
			sn = append(sn, progEnding(c.R))
		}
		concurrency(c, &cs)
		cs = mk(sn)
		r := run.Run(cs)
		if r.BuildErr != "" {
			return fmt.Errorf("generated %s does not build: %s\n%v", cs.Kind, r.BuildErr, cs.Files)
		}
		key := cs.Kind + ":" + cs.JSON()
		res.Count(key, len(cs.Inputs) > 1)
		for _, s := range sn {
			res.Hist(cs.Kind + ":" + s.kind)
		}
		res.Hist(fmt.Sprintf("procs%02d", cs.Procs))
		if cs.Seq {
			res.Hist("sequential")
		} else {
			res.Hist("concurrent")
		}
		if i%97 == 0 {
			res.Sample(map[string]any{"kind": cs.Kind, "runs": len(cs.Inputs), "procs": cs.Procs, "seq": cs.Seq, "files": cs.Files, "first": r.Got[0]})
		}
		if len(raceSample) < c.N(0, 150) && i%5 == 0 {
			raceSample = append(raceSample, cs)
		}
		if r.Bad() {
			failures++
			// shrink: drop snippets while some attempt still fails (bounded: a hang costs HangTimeout)
			cur := sn
			deadline := time.Now().Add(25 * time.Second)
			if r.Hang {
				run.HangTimeout = 3 * time.Second
			}
			for j := 0; j < len(cur) && len(cur) > 1 && time.Now().Before(deadline); {
				cand := append(append([]snippet(nil), cur[:j]...), cur[j+1:]...)
				if _, bad := failing(mk(cand), 4); bad {
					cur = cand
				} else {
					j++
				}
			}
			small := mk(cur)
			rr, bad := failing(small, 6)
			if !bad {
				small, rr = cs, r
			}
			human := ""
			for _, n := range run.SortedNames(small.Files) {
				human += "// " + n + "\n" + small.Files[n] + "\n"
			}
			report(c, small, rr, human)
			if failures >= 2 {
				res.Notes = append(res.Notes, "stopped after 2 failing cases")
				break
			}
		}
	}

	// 2b. state across runs
	stateSample, err := stateStream(c)
	if err != nil {
		return err
	}
	raceSample = append(raceSample, stateSample...)

	// 2c. function values across runs
	t0 := time.Now()
	if err := funcValueStream(c); err != nil {
		return err
	}
	res.Notes = append(res.Notes, fmt.Sprintf("function-value stream: %.1fs", time.Since(t0).Seconds()))

	// 3. the same kind of runs under the race detector (thorough tier; needs cgo)
	if len(raceSample) > 0 {
		note, races, err := raceStress(raceSample)
		if err != nil {
			res.Notes = append(res.Notes, "race-detector run skipped: "+err.Error())
		} else {
			res.Notes = append(res.Notes, note)
			res.Histogram["race-detector-cases"] = len(raceSample)
			if races != "" {
				res.AddBreak(proto.Break{Kind: "property", Name: "data-race", Case: "C10 racestress (thorough tier sample)", Human: races,
					Impl: "race detector reported a data race or a differing run", Model: "no race, every run equals the fresh build's run"})
			}
		}
	}
	return nil
}

// sortRecords sorts (as strings, like run.Outcome.Recorded) the recorded part of every run in a
// model answer `ok shown|recorded;…`.
func sortRecords(ans string) string {
	body, ok := strings.CutPrefix(ans, "ok ")
	if !ok {
		return ans
	}
	runs := strings.Split(body, ";")
	for i, r := range runs {
		sh, rec, ok := strings.Cut(r, "|")
		if !ok || rec == "-" {
			continue
		}
		l := strings.Split(rec, ",")
		sort.Strings(l)
		runs[i] = sh + "|" + strings.Join(l, ",")
	}
	return "ok " + strings.Join(runs, ";")
}

// RaceStress builds props/c10/racestress with -race (CGO_ENABLED=1) against the same repository
// copy and feeds it the cases; returns a note, and the detector's report if there is one.
func raceStress(cases []run.Case) (note string, races string, err error) {
	bin := filepath.Join("..", "bin", "racestress_C10")
	args := []string{"build", "-race", "-tags", "verif", "-o", bin}
	if repo := os.Getenv("VERIF_REPO"); repo != "" {
		if abs, _ := filepath.Abs(repo); abs != "/repo" {
			tag := fmt.Sprintf("%x", sha256.Sum256([]byte(abs)))[:8]
			args = append(args, "-modfile="+filepath.Join("..", "bin", "go_"+tag+".mod"))
		}
	}
	args = append(args, "./props/c10/racestress")
	cmd := exec.Command("go", args...)
	cmd.Env = append(os.Environ(), "CGO_ENABLED=1")
	if out, e := cmd.CombinedOutput(); e != nil {
		return "", "", fmt.Errorf("go build -race failed: %v: %s", e, lastLines(string(out), 5))
	}
	data, _ := json.Marshal(cases)
	run := exec.Command(bin)
	run.Stdin = strings.NewReader(string(data))
	run.Env = append(os.Environ(), "GORACE=halt_on_error=0 exitcode=66")
	out, e := run.CombinedOutput()
	text := string(out)
	if e != nil || strings.Contains(text, "DATA RACE") || strings.Contains(text, "MISMATCH") {
		return "", lastLines(text, 60), nil
	}
	return "race detector: " + strings.TrimSpace(lastLines(text, 1)), "", nil
}

func lastLines(s string, n int) string {
	ls := strings.Split(strings.TrimRight(s, "\n"), "\n")
	if len(ls) > n {
		ls = ls[len(ls)-n:]
	}
	return strings.Join(ls, "\n")
}

// replay re-runs the case of a replay file (the `case` field: "C10 case <json>").
func replay(c *hx.Ctx) error {
	data, err := os.ReadFile(c.Replay)
	if err != nil && !filepath.IsAbs(c.Replay) { // the check runs the harness in go/, the path is relative to its parent
		data, err = os.ReadFile(filepath.Join("..", c.Replay))
	}
	if err != nil {
		return err
	}
	var rp struct {
		Case string `json:"case"`
	}
	if err := json.Unmarshal(data, &rp); err != nil {
		return err
	}
	js, ok := strings.CutPrefix(rp.Case, "C10 case ")
	if !ok {
		return fmt.Errorf("replay: not a C10 case: %.80s", rp.Case)
	}
	var cs run.Case
	if err := json.Unmarshal([]byte(js), &cs); err != nil {
		return err
	}
	r, bad := failing(cs, 25)
	c.Res.Count(js, true)
	if bad {
		report(c, cs, r, "replay")
	}
	return nil
}
