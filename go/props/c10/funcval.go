package main

import (
	"fmt"
	"os"
	"strconv"
	"strings"
	"time"

	"verifharness/internal/hx"
	"verifharness/internal/proto"
	"verifharness/props/c10/run"
)

// ---- function values across runs ------------------------------------------------------------
//
// A third stream: run histories of artefacts in which a FUNCTION is used AS A VALUE and its body
// reads or writes state that belongs to one run. A function value is made by the running VM (it
// carries the run's variables and, when handed to native code, the run's env); nothing of it may
// be kept by the compiled artefact. The stream is the matrix
//
//	what the function is   ×  what its body touches                 ×  how the value is used
//	declared function         package-level int / slice / map /         assigned to a variable
//	method value              pointer-to-struct variables,              argument of a Scriggo function
//	function literal held     a variable only read (written by main),   argument of a native that calls back
//	  in a package variable   variables of a native package declared    element of a slice / map / struct
//	imported-file macro       with nil pointers, with pointers to       returned by a function
//	macro of the extending    host variables (shared on purpose:        deferred, run by a goroutine
//	  file                    reference semantics), the run's env       held in an interface / channel /
//	macro of the file itself  (print, context), template Run            closure / package-level variable
//	                          variables incl. pointer variables,
//	                          {% var %} of the declaring file
//
// every point run ≥ 3 times in sequence with different inputs and then concurrently; oracle: every
// run equals the single run of a fresh build (run.Run).

// fvCallee: a function of type func(int) int (programs) / macro(int) html (templates).
type fvCallee struct {
	kind  string
	decls string // programs: package level; templates: the file that declares the macro
	pre   string // statements before the uses
	expr  string // the function value
	back  string // expression that reads the state back directly (programs), "" = none
	h     bool   // the declaring template file needs import "h"
	ref   func(h *run.Host, d int)
}

var fvProgCallees = []fvCallee{
	{kind: "declared-func:pkg-int", decls: "var tot# int\nfunc Fn#(d int) int { tot# += d; return tot# }\n", expr: "Fn#", back: "tot#"},
	{kind: "declared-func:pkg-slice", decls: "var log# []int\nfunc Fn#(d int) int { log# = append(log#, d); return len(log#)*1000 + log#[0] }\n", expr: "Fn#", back: "len(log#)"},
	{kind: "declared-func:pkg-map", decls: "var tab# = map[string]int{}\nfunc Fn#(d int) int { tab#[\"k\"] += d; tab#[h.Itoa(d)]++; return tab#[\"k\"]*100 + len(tab#) }\n", expr: "Fn#", back: "tab#[\"k\"]"},
	{kind: "declared-func:pkg-struct-pointer", decls: "type A# struct{ n int; l []string }\nvar acc# = &A#{}\nfunc Fn#(d int) int { acc#.n += d; acc#.l = append(acc#.l, \"x\"); return acc#.n*10 + len(acc#.l) }\n", expr: "Fn#", back: "acc#.n"},
	{kind: "declared-func:reads-pkg-var", decls: "var base# int\nfunc Fn#(d int) int { return base#*7 + d }\n", pre: "base# = h.Input()*3 + KK\n", expr: "Fn#", back: "base#"},
	{kind: "declared-func:calls-declared-func", decls: "var cnt# int\nfunc inner#(d int) { cnt# += d }\nfunc Fn#(d int) int { inner#(d); inner#(1); return cnt# }\n", expr: "Fn#", back: "cnt#"},
	{kind: "declared-func:native-nil-vars", decls: "func Fn#(d int) int { h.NilN += d; h.NilL = append(h.NilL, d); h.NilS += \"+\"; return h.NilN*100 + len(h.NilL) }\n", expr: "Fn#", back: "h.NilN, h.NilS"},
	{kind: "declared-func:env-print-and-context", decls: "func Fn#(d int) int { h.Emit(\"fe#\", d, h.Input()); println(\"fp#\", d); return d*10 + h.Input() }\n", expr: "Fn#", back: "h.Input()"},
	{kind: "declared-func:native-ptr-var", decls: "func Fn#(d int) int { h.PtrN += d; return h.PtrN }\n", expr: "Fn#", back: "h.PtrN",
		ref: func(h *run.Host, d int) { h.N += d }},
	{kind: "method-value:pkg-var-receiver", decls: "var ctr# = &h.Counter{N: CC}\n", expr: "ctr#.Add", back: "ctr#.N"},
	{kind: "func-literal-in-pkg-var:pkg-int", decls: "var lit# int\nvar Fn# = func(d int) int { lit# += d; return lit# }\n", expr: "Fn#", back: "lit#"},
}

// fvUse: how the value @E is used; it is called exactly twice, with @1 and then with @2.
type fvUse struct {
	kind  string
	decls string
	stmts string // uses @E, @1, @2; defines r1#, r2#
	goSt  bool
}

var fvProgUses = []fvUse{
	{kind: "assigned", stmts: "f# := @E\nr1# := f#(@1)\nr2# := f#(@2)\n"},
	{kind: "scriggo-func-argument", decls: "func ap#(f func(int) int, x int) int { return f(x) }\n", stmts: "r1# := ap#(@E, @1)\nr2# := ap#(@E, @2)\n"},
	{kind: "native-callback-argument", stmts: "r1# := h.Apply(@E, @1)\nr2# := h.Apply(@E, @2)\n"},
	{kind: "slice-element", stmts: "fs# := []func(int) int{@E}\nr1# := fs#[0](@1)\nr2# := fs#[0](@2)\n"},
	{kind: "map-element", stmts: "fm# := map[string]func(int) int{\"a\": @E}\nr1# := fm#[\"a\"](@1)\nr2# := fm#[\"a\"](@2)\n"},
	{kind: "struct-field", decls: "type S# struct{ F func(int) int }\n", stmts: "st# := S#{F: @E}\nr1# := st#.F(@1)\nr2# := st#.F(@2)\n"},
	{kind: "returned", decls: "func get#() func(int) int { return @E }\n", stmts: "r1# := get#()(@1)\nr2# := get#()(@2)\n"},
	{kind: "deferred", decls: "func dr#(x int) { f := @E; defer f(x) }\n", stmts: "dr#(@1)\ndr#(@2)\nr1#, r2# := 0, 0\n"},
	{kind: "goroutine", stmts: "g# := @E\ndg# := make(chan int)\ngo func() { dg# <- g#(@1) }()\nr1# := <-dg#\nr2# := g#(@2)\n", goSt: true},
	{kind: "go-statement-on-value", decls: "func sg#(f func(int) int, c chan int, x int) { c <- f(x) }\n", stmts: "ws# := sg#\ncg# := make(chan int)\ngo ws#(@E, cg#, @1)\nr1# := <-cg#\ngo sg#(@E, cg#, @2)\nr2# := <-cg#\n", goSt: true},
	{kind: "interface-value", stmts: "var i# interface{} = @E\nr1# := i#.(func(int) int)(@1)\nr2# := i#.(func(int) int)(@2)\n"},
	{kind: "package-level-variable", decls: "var PV# = @E\n", stmts: "r1# := PV#(@1)\nr2# := PV#(@2)\n"},
	{kind: "captured-by-closure", stmts: "cf# := @E\ncl# := func(x int) int { return cf#(x) + 1 }\nr1# := cl#(@1)\nr2# := cl#(@2)\n"},
	{kind: "channel-element", stmts: "ce# := make(chan func(int) int, 2)\nce# <- @E\nce# <- @E\nr1# := (<-ce#)(@1)\nr2# := (<-ce#)(@2)\n"},
	{kind: "direct-call", stmts: "r1# := @E(@1)\nr2# := @E(@2)\n"},
}

// macros: the callee is `macro Fn#(d int)` declared in `where`
var fvTplCallees = []fvCallee{
	{kind: "run-vars", decls: "{% macro Fn#(d int) %}{{ d + v }}/{{ s }}/{{ len(items) }}{% end %}\n"},
	{kind: "global-nil-var", decls: "{% macro Fn#(d int) %}{% nilN = nilN + d %}{% nilL = append(nilL, d) %}{{ nilN }}:{{ len(nilL) }}{% end %}\n"},
	{kind: "declaring-file-var", decls: "{% var Cnt# = KK %}{% var Seen# []int %}{% macro Fn#(d int) %}{% Cnt# = Cnt# + d %}{% Seen# = append(Seen#, d) %}{{ Cnt# }}:{{ len(Seen#) }}{% end %}\n"},
	{kind: "run-pointer-var", decls: "{% macro Fn#(d int) %}{% pv = pv + d %}{% pl = append(pl, d) %}{{ pv }}:{{ len(pl) }}{% end %}\n"},
	{kind: "imported-native-nil-var", decls: "{% macro Fn#(d int) %}{% h.NilN = h.NilN + d %}{% h.NilS = h.NilS + s %}{{ h.NilN }}:{{ h.NilS }}{% end %}\n", h: true},
	{kind: "env-print", decls: "{% macro Fn#(d int) %}{% emit(\"me#\", d, v) %}{{ d }}{% end %}\n"},
	{kind: "global-ptr-var", decls: "{% macro Fn#(d int) %}{% ptrN = ptrN + d %}{{ ptrN }}{% end %}\n",
		ref: func(h *run.Host, d int) { h.N += d }},
}

var fvTplWhere = []string{"imported-file-macro", "extending-file-macro", "macro-of-the-file-itself"}

var fvTplUses = []fvUse{
	{kind: "assigned", stmts: "{% f# := @E %}{{ f#(@1) }} {{ f#(@2) }}"},
	{kind: "macro-argument", decls: "{% macro Box#(t macro(int) html, x int) %}[{{ t(x) }}]{% end %}\n", stmts: "{{ Box#(@E, @1) }}{{ Box#(@E, @2) }}"},
	{kind: "slice-element", stmts: "{% fs# := []macro(int) html{@E} %}{{ fs#[0](@1) }} {{ fs#[0](@2) }}"},
	{kind: "map-element", stmts: "{% fm# := map[string]macro(int) html{} %}{% fm#[\"a\"] = @E %}{{ fm#[\"a\"](@1) }} {{ fm#[\"a\"](@2) }}"},
	{kind: "interface-value", stmts: "{% var i# interface{} = @E %}{{ i#.(macro(int) html)(@1) }} {{ i#.(macro(int) html)(@2) }}"},
	{kind: "captured-by-closure", stmts: "{% cf# := @E %}{% cl# := func(x int) html { return cf#(x) } %}{{ cl#(@1) }} {{ cl#(@2) }}"},
	{kind: "native-callback-argument", stmts: "{{ callM(@E, @1) }} {{ callM(@E, @2) }}"},
	{kind: "direct-call", stmts: "{{ @E(@1) }} {{ @E(@2) }}"},
}

func fvMaxFail() int {
	if n, err := strconv.Atoi(os.Getenv("VERIF_C10_FV_MAXFAIL")); err == nil && n > 0 { // development aid
		return n
	}
	return 2
}

type fvPoint struct {
	prog              bool
	callee, use, where int
}

func (p fvPoint) String() string {
	if p.prog {
		return "program:" + fvProgCallees[p.callee].kind + ":" + fvProgUses[p.use].kind
	}
	return "template:" + fvTplWhere[p.where] + ":" + fvTplCallees[p.callee].kind + ":" + fvTplUses[p.use].kind
}

// fvSkip: points the generator steps around because the unchanged tree fails them in EVERY run, the
// first one of a fresh build included (nothing to do with state across runs; reported to the lead):
// a method value of a native type held in an interface cannot be asserted back to its func type
// ("interface conversion: interface {} is *runtime.callable, not func(int) int").
// (Also stepped around, in the table of uses: append(fs, Macro) on a []macro(int) html panics into
// the host with "reflect.Set: value of type *runtime.callable is not assignable to type func(int)
// native.HTML"; the slice is built by a composite literal instead.)
func fvSkip(p fvPoint) bool {
	return p.prog && strings.HasPrefix(fvProgCallees[p.callee].kind, "method-value") && fvProgUses[p.use].kind == "interface-value"
}

func fvPoints() []fvPoint {
	var ps []fvPoint
	for ci := range fvProgCallees {
		for ui := range fvProgUses {
			if fvSkip(fvPoint{prog: true, callee: ci, use: ui}) {
				continue
			}
			ps = append(ps, fvPoint{prog: true, callee: ci, use: ui})
		}
	}
	for wi := range fvTplWhere {
		for ci := range fvTplCallees {
			for ui := range fvTplUses {
				ps = append(ps, fvPoint{callee: ci, use: ui, where: wi})
			}
		}
	}
	return ps
}

// fvSnippet renders one point of the matrix as a snippet (id n) with constants k, c.
func fvSnippet(p fvPoint, n, k, c int) snippet {
	rep := func(s string) string { return stateRep(s, n, k, c, "w") }
	if p.prog {
		ce, us := fvProgCallees[p.callee], fvProgUses[p.use]
		st := strings.NewReplacer("@E", ce.expr, "@1", "h.Input()+1", "@2", "KK").Replace(us.stmts)
		dc := strings.ReplaceAll(us.decls, "@E", ce.expr)
		s := snippet{kind: p.String(), decls: rep(ce.decls + dc), state: true, goStmt: us.goSt,
			stmts: rep(ce.pre + st + "println(\"fv#\", r1#, r2#, " + ce.back + ")\n")}
		if ce.ref != nil {
			s.ref = func(h *run.Host, in run.Input) { ce.ref(h, in.V+1); ce.ref(h, k) }
		}
		return s
	}
	ce, us := fvTplCallees[p.callee], fvTplUses[p.use]
	st := strings.NewReplacer("@E", "Fn#", "@1", "v+1", "@2", "KK").Replace(us.stmts)
	s := snippet{kind: p.String(), state: true, top: rep(us.decls), stmts: rep("fv#:" + st + "\n")}
	switch fvTplWhere[p.where] {
	case "imported-file-macro":
		s.decls = rep(ce.decls)
	default: // declared in index.html: file level when it extends, else a macro of the file itself
		s.top = rep(ce.decls) + s.top
	}
	if ce.ref != nil {
		s.ref = func(h *run.Host, in run.Input) { ce.ref(h, in.V+1); ce.ref(h, k) }
	}
	return s
}

// fvCase builds the case of a list of snippets.
func fvCase(base run.Case, sn []snippet, isProg, extends bool) run.Case {
	out := base
	out.AllowGo = true
	if isProg {
		out.Kind = "program"
		out.Files = map[string]string{"main.go": progSource(sn)}
	} else {
		out.Kind, out.Main = "template", "index.html"
		out.Files = stateTplFiles(sn, extends)
		if imp, ok := out.Files["imp.html"]; ok {
			out.Files["imp.html"] = "{% import \"h\" %}" + imp
		}
	}
	out.SharedWrites = false
	for _, s := range sn {
		if s.ref != nil {
			out.SharedWrites = true
		}
	}
	return remk(out, sn)
}

// distinctInputs: n inputs, no two alike in v, s (a run that sees another run's variables shows it)
func distinctInputs(r *proto.Rand, n int) (ins []run.Input, jit []int) {
	v0, s0 := r.Intn(10), r.Intn(len(words))
	for i := 0; i < n; i++ {
		in := run.Input{V: (v0 + 3*i) % 10, S: words[(s0+i)%len(words)]}
		for j := r.Intn(3); j > 0; j-- {
			in.Items = append(in.Items, r.Intn(50))
		}
		ins = append(ins, in)
		jit = append(jit, r.Intn(40))
	}
	return
}

// funcValueStream runs the whole matrix (quick: every point once; thorough: several times with
// longer histories and two points per artefact).
func funcValueStream(c *hx.Ctx) error {
	res := c.Res
	points := fvPoints()
	rounds := c.N(1, 6)
	failures := 0
	procs := []int{1, 2, 4, 8}
	for round := 0; round < rounds; round++ {
		for pi, p := range points {
			isProg := p.prog
			extends := !isProg && (fvTplWhere[p.where] == "extending-file-macro" || (fvTplWhere[p.where] == "imported-file-macro" && (pi+round)%2 == 0))
			k, cc := c.R.Intn(1000)+130, c.R.Intn(6)+2
			sn := []snippet{fvSnippet(p, 0, k, cc)}
			if round > 0 { // a second point of the same kind of artefact, and sometimes an ordinary state snippet
				for {
					q := points[c.R.Intn(len(points))]
					if q.prog == isProg && (isProg || (fvTplWhere[q.where] == "extending-file-macro") == (fvTplWhere[p.where] == "extending-file-macro")) {
						sn = append(sn, fvSnippet(q, 1, c.R.Intn(1000)+130, c.R.Intn(6)+2))
						break
					}
				}
				if c.R.Intn(2) == 0 {
					if isProg {
						sn = append(sn, stateProgSnippet(c.R, 2))
					} else {
						sn = append(sn, stateTplSnippet(c.R, 2))
					}
				}
			}
			var base run.Case
			nRuns := 3 + c.R.Intn(c.N(2, 6))
			base.Inputs, base.Jitter = distinctInputs(c.R, nRuns)
			base.Procs = procs[c.R.Intn(len(procs))]
			base.HostInit = genHost(c.R)
			mk := func(sn []snippet) run.Case { return fvCase(base, sn, isProg, extends) }
			cs := mk(sn)
			// history 1: in sequence (state that leaks from run to run shows deterministically)
			seq := cs
			seq.Seq = true
			r := run.Run(seq)
			if r.BuildErr != "" {
				return fmt.Errorf("generated %s (function-value stream, %s) does not build: %s\n%v", cs.Kind, p, r.BuildErr, cs.Files)
			}
			final := seq
			// history 2: the same runs concurrently (not when the code writes the host's own variables)
			if !r.Bad() && !cs.SharedWrites {
				r = run.Run(cs)
				final = cs
				res.Hist("funcval:history:sequential+concurrent")
			} else {
				res.Hist("funcval:history:sequential")
			}
			if !r.Bad() {
				for i, o := range r.Got {
					if o.Err != "" {
						res.AddBreak(proto.Break{Kind: "property", Name: "generated-state-code-does-not-run-to-its-end", Case: "C10 case " + final.JSON(),
							Human: fmt.Sprint(final.Files), Impl: fmt.Sprintf("run %d: %s", i, o), Model: "no error"})
						failures++
						break
					}
				}
			}
			res.Count("funcval:"+final.JSON(), true)
			for _, s := range sn {
				if strings.HasPrefix(s.kind, "program:") || strings.HasPrefix(s.kind, "template:") {
					parts := strings.Split(s.kind, ":")
					res.Hist("funcval:" + parts[0] + ":function=" + strings.Join(parts[1:len(parts)-1], ":"))
					res.Hist("funcval:" + parts[0] + ":use=" + parts[len(parts)-1])
				}
			}
			res.Hist(fmt.Sprintf("funcval:runs=%d", nRuns))
			if (pi+round)%61 == 0 {
				res.Sample(map[string]any{"stream": "funcval", "point": p.String(), "files": cs.Files, "runs": len(cs.Inputs), "first": r.Got[0]})
			}
			if r.Bad() {
				failures++
				cur := sn
				deadline := time.Now().Add(20 * time.Second)
				for j := len(cur) - 1; j >= 0 && len(cur) > 1 && time.Now().Before(deadline); j-- {
					cand := append(append([]snippet(nil), cur[:j]...), cur[j+1:]...)
					cc := mk(cand)
					cc.Seq = final.Seq
					if _, bad := failing(cc, 3); bad {
						cur = cand
					}
				}
				small := mk(cur)
				small.Seq = final.Seq
				rr, bad := failing(small, 4)
				if !bad {
					small, rr = final, r
				} else {
					for len(small.Inputs) > 2 {
						cand := small
						cand.Inputs, cand.Jitter = small.Inputs[:len(small.Inputs)-1], small.Jitter[:len(small.Inputs)-1]
						cand = remk(cand, cur)
						r2, bad := failing(cand, 3)
						if !bad {
							break
						}
						small, rr = cand, r2
					}
				}
				human := "// " + p.String() + "\n"
				for _, n := range run.SortedNames(small.Files) {
					human += "// " + n + "\n" + small.Files[n] + "\n"
				}
				report(c, small, rr, human)
				if failures >= fvMaxFail() {
					res.Notes = append(res.Notes, "function-value stream: stopped after 2 failing cases")
					return nil
				}
			}
		}
	}
	return nil
}
