package main

import (
	"encoding/json"
	"fmt"
	"os"
	"regexp"
	"strings"
	"testing/fstest"

	"github.com/open2b/scriggo"
	sast "github.com/open2b/scriggo/ast"
	"github.com/open2b/scriggo/native"
	lexhook "github.com/open2b/scriggo/verifhook/c04"
	gast "github.com/yuin/goldmark/ast"
	gtext "github.com/yuin/goldmark/text"

	"verifharness/internal/hx"
	"verifharness/internal/proto"
)

// End-to-end stream: which escaper the ENGINE selects at each hole of a structured Markdown
// template. Generated .md templates (indented code at file start / after blank lines / as lazy
// continuation, fenced code, inline HTML and HTML blocks around holes, headings, lists, block
// quotes, URL destinations, LF or CR LF) are built with scriggo.BuildTemplate and run with one
// hole at a time set to a Markdown-active value, the others to inert markers. Oracle,
// independent of the model: goldmark must see the same structure as with the marker in that
// hole (same sequence of block and inline element kinds, same hard breaks), the value's text
// must be where the marker's was (paragraph text, or inside the indented code block).
// Correspondence: the context the real lexer gives each `{{` against goldmark's own reading of
// the rendered document (is the hole inside an indented code block?).

const e2eMaxHoles = 8

type e2eHole struct {
	kind string // "para" (block-level text: any value), "inline" (inside emphasis / link text / URL: single-line values), "code", "fenced"
	// set when the lexer's context and goldmark's reading of the hole disagree in one of the
	// two ways seen on the unchanged tree (see e2eFindings)
	finding string
}

type e2eTemplate struct {
	src   string
	holes []e2eHole
	tmpl  *scriggo.Template
}

func marker(i int) string { return fmt.Sprintf("xQ%dZx", i) }

type e2eGen struct {
	r     *proto.Rand
	holes []e2eHole
}

func (g *e2eGen) hole(kind string) string {
	if len(g.holes) >= e2eMaxHoles {
		return "filler"
	}
	g.holes = append(g.holes, e2eHole{kind: kind})
	return fmt.Sprintf("{{ v%d }}", len(g.holes)-1)
}

func (g *e2eGen) block(first bool) string {
	r := g.r
	n := 18
	if first {
		n = 22 // indented code at the very start of the file more often
	}
	switch k := r.Intn(n); k {
	case 0:
		return "plain paragraph " + g.hole("para") + " with a value"
	case 1:
		return "text <b>bold</b> then " + g.hole("para") + " and <i>" + g.hole("para") + "</i> end"
	case 2:
		return "<span>one</span> <em>two</em> <a href=\"#x\">three</a> " + g.hole("para") + " after three tags"
	case 3:
		return "\tcode line " + g.hole("code") + "\n\t" + g.hole("code") + " second"
	case 4:
		return "    four spaces " + g.hole("code") + "\n    " + g.hole("code")
	case 5:
		return "      six spaces " + g.hole("code")
	case 6:
		return "paragraph line\n\t" + g.hole("para") + " lazy continuation, no code block"
	case 7:
		return "paragraph line\n    " + g.hole("para") + " lazy too"
	case 8:
		return "```\nfenced " + g.hole("fenced") + "\n```"
	case 9:
		return "<div>\nhtml block\n</div>"
	case 10:
		return "# Title " + g.hole("para")
	case 11:
		return "- one\n- item " + g.hole("para") + "\n\nparagraph after the list"
	case 12:
		return "> quote " + g.hole("para")
	case 13:
		return "see [link](http://example.com/p/" + g.hole("inline") + ") here"
	case 14:
		return "some *emphasis " + g.hole("inline") + " end* and **strong**"
	case 15:
		return "<p>\nblock\n</p>\n\nafter block " + g.hole("para")
	case 16:
		return "- list item\n\n    continuation paragraph of the item " + g.hole("para") + "\n    its second line " + g.hole("para") + "\n\nparagraph after the list"
	case 17:
		return "# Heading\n\tcode directly after a heading " + g.hole("code")
	default: // first block only: code at file start
		if k%2 == 0 {
			return "\tstart code " + g.hole("code")
		}
		return "    start code " + g.hole("code")
	}
}

func genE2E(r *proto.Rand) *e2eTemplate {
	g := &e2eGen{r: r}
	n := 1 + r.Intn(5)
	var b strings.Builder
	for i := 0; i < n; i++ {
		if i > 0 {
			b.WriteString("\n\n")
		}
		b.WriteString(g.block(i == 0))
	}
	b.WriteString("\n")
	src := b.String()
	if r.Intn(4) == 0 {
		src = strings.ReplaceAll(src, "\n", "\r\n")
	}
	return &e2eTemplate{src: src, holes: g.holes}
}

func (t *e2eTemplate) build() error {
	decl := native.Declarations{}
	for i := 0; i < e2eMaxHoles; i++ {
		decl[fmt.Sprintf("v%d", i)] = (*string)(nil)
	}
	fsys := fstest.MapFS{"index.md": &fstest.MapFile{Data: []byte(t.src)}}
	tm, err := scriggo.BuildTemplate(fsys, "index.md", &scriggo.BuildOptions{Globals: decl})
	if err != nil {
		return err
	}
	t.tmpl = tm
	return nil
}

// render runs the template with hole `at` set to v (at < 0: none) and markers elsewhere.
func (t *e2eTemplate) render(at int, v string) (out string, err error) {
	defer func() {
		if r := recover(); r != nil {
			err = fmt.Errorf("panic: %v", r)
		}
	}()
	vars := map[string]any{}
	vals := make([]string, e2eMaxHoles)
	for i := range vals {
		vals[i] = marker(i)
		if i == at {
			vals[i] = v
		}
		vars[fmt.Sprintf("v%d", i)] = &vals[i]
	}
	var b strings.Builder
	err = t.tmpl.Run(&b, vars, nil)
	return b.String(), err
}

// what goldmark sees in a rendered document
type e2eView struct {
	sig   []string // block and inline element kinds in document order (paragraphs and text left out)
	hard  int
	code  string // content of the indented code blocks, white space removed
	text  string // text outside code blocks, white space removed
	valid bool
}

var e2ePlain = map[string]bool{"Document": true, "Paragraph": true, "Text": true, "TextBlock": true, "String": true}
var rePre = regexp.MustCompile(`(?s)<pre>.*?</pre>`)

func stripWS(s string) string {
	return strings.Map(func(r rune) rune {
		switch r {
		case ' ', '\t', '\n', '\r', '\f', '\v', 0xA0:
			return -1
		}
		return r
	}, s)
}

func e2eLook(doc string) (v e2eView) {
	defer func() {
		if r := recover(); r != nil {
			v.valid = false
		}
	}()
	b := []byte(doc)
	root := md.Parser().Parse(gtext.NewReader(b))
	var code strings.Builder
	gast.Walk(root, func(n gast.Node, entering bool) (gast.WalkStatus, error) {
		if !entering {
			return gast.WalkContinue, nil
		}
		if k := n.Kind().String(); !e2ePlain[k] {
			v.sig = append(v.sig, k)
		}
		if t, ok := n.(*gast.Text); ok && t.HardLineBreak() {
			v.hard++
		}
		if n.Kind() == gast.KindCodeBlock {
			ls := n.Lines()
			for i := 0; i < ls.Len(); i++ {
				sg := ls.At(i)
				code.Write(sg.Value(b))
			}
		}
		return gast.WalkContinue, nil
	})
	v.code = stripWS(code.String())
	var out strings.Builder
	if err := md.Renderer().Render(&out, b, root); err != nil {
		return v
	}
	v.text = stripWS(textOf(rePre.ReplaceAllString(out.String(), " ")))
	v.valid = true
	return v
}

// e2eOracle: the property for hole `at` of t shown value v; base is the view with markers only.
func e2eOracle(t *e2eTemplate, base e2eView, at int, v string) (clause, detail string) {
	out, err := t.render(at, v)
	if err != nil {
		return "render-fails", err.Error()
	}
	w := e2eLook(out)
	if !w.valid {
		return "converter-fails", out
	}
	m := marker(at)
	inCode := strings.Contains(base.code, m)
	if strings.Join(w.sig, ",") != strings.Join(base.sig, ",") {
		if inCode {
			return "stays-in-code-block", fmt.Sprintf("structure %v, with a marker %v; rendered %q", w.sig, base.sig, out)
		}
		extra := "structure"
		have := map[string]int{}
		for _, k := range base.sig {
			have[k]++
		}
		for _, k := range w.sig {
			if have[k]--; have[k] < 0 {
				extra = k
				break
			}
		}
		return "no-element:" + extra, fmt.Sprintf("structure %v, with a marker %v; rendered %q", w.sig, base.sig, out)
	}
	if w.hard != base.hard {
		return "no-element:HardLineBreak", fmt.Sprintf("rendered %q", out)
	}
	sv := stripWS(v)
	if inCode {
		if want := strings.Replace(base.code, m, sv, 1); w.code != want {
			return "same-code", fmt.Sprintf("code %q, expected %q; rendered %q", w.code, want, out)
		}
		if w.text != base.text {
			return "stays-in-code-block", fmt.Sprintf("text outside the code block %q, with a marker %q; rendered %q", w.text, base.text, out)
		}
	} else if strings.Contains(base.text, m) {
		if want := strings.Replace(base.text, m, sv, 1); w.text != want {
			return "same-content", fmt.Sprintf("text %q, expected %q; rendered %q", w.text, want, out)
		}
		if w.code != base.code {
			return "no-element:CodeBlock", fmt.Sprintf("code %q, with a marker %q; rendered %q", w.code, base.code, out)
		}
	}
	return "", ""
}

var e2eSingleLine = []string{
	"*pwned* [click](http://evil.example) `x`", "<b>x</b>", "<script>alert(1)</script>", "# h", "1. x", "- x", "+ x", "> q", "&amp; &#35; &lt;",
	"a  b", "![i](u)", "_e_ **s** ~~d~~", "`c`", "```", "~~~", "a\\", "\\*", "[r]: /u", "[a][b]", "<http://x.y>", "<a@b.c>", "a|b", "===", "---", "***",
	"\tx", "    x", " x ", "x  ", "<!-- c -->", "<![CDATA[x]]>", "é 日本 😀", "a b", "{#id}", "x.y!z", "(p)", "a*b*c",
}

var e2eMultiLine = []string{
	"a\nb", "a\n\nb", "a\n# h", "a\n- l", "a\n1. l", "a\n> q", "a\n===", "a\n---", "a\n\n\tx", "a\n\tb", "a\n\n    x", "a\n    b", "a\r\nb", "a\r\n\r\nb",
	"a\n\rb", "a\rb", "x\n```\ny", "a  \nb", "a\\\nb", "\n", "a\n", "\nb", "a\n\n", "a\n\n*b*", "a\n<div>\nb", "a\n\n<div>", "*a\nb*", "a\n\n\t*x*",
}

// The two ways in which the lexer's rule for code-block contexts ("a tab or four spaces at the
// start of a line that follows a line of spaces only, or at the start of the file") differs
// from CommonMark, as seen on the unchanged tree. Both need the hole's line to start with the
// indentation; a code-block context anywhere else is not one of them.
//
//   - md-list-continuation-as-code-block: the indented line follows a blank line inside a list,
//     where it is a continuation paragraph of the item, not code: the lexer chooses the
//     code-block context and the value is written with markdownCodeBlockEscape, i.e. unescaped;
//   - md-code-block-after-non-paragraph: the indented line directly follows a line that is not
//     a paragraph (a heading), so it is code for CommonMark, while the lexer — previous line not
//     blank — chooses the Markdown context: the value is backslash-escaped inside the code.
func e2eContextFinding(src string, start int, lexerCode, inCode bool) string {
	isIndented := func(line string) bool { return strings.HasPrefix(line, "\t") || strings.HasPrefix(line, "    ") }
	ls := strings.LastIndexByte(src[:start], '\n') + 1
	indented := isIndented(src[ls:start])
	// the line before the run of indented lines this one belongs to
	prev := ""
	for ls > 0 {
		p := strings.LastIndexByte(src[:ls-1], '\n') + 1
		line := src[p : ls-1]
		if prev = strings.Trim(line, " \t\r"); prev == "" || !isIndented(line) {
			break
		}
		ls = p
	}
	switch {
	case lexerCode && !inCode && indented && ls > 0 && prev == "":
		return "md-list-continuation-as-code-block"
	case !lexerCode && inCode && indented && prev != "":
		return "md-code-block-after-non-paragraph"
	}
	return ""
}

var e2eCodeCtx = map[int]bool{int(sast.ContextTabCodeBlock): true, int(sast.ContextSpacesCodeBlock): true}

// a failing value at a hole whose context is one of the recorded disagreements belongs to
// that finding; otherwise the classes of the escapers apply (TAB after a line ending: the new
// code block may also merge with a neighbouring one or swallow the rest of the line, so the
// clause can be a content or structure clause)
func e2eClassify(c *hx.Ctx, h e2eHole, shrunk, clause string) string {
	if h.finding != "" {
		return h.finding
	}
	if h.kind != "code" && reTabAfterBlank.MatchString(shrunk) &&
		(clause == "same-content" || strings.HasPrefix(clause, "no-element:")) {
		return c.Known("md-tab-after-blank-line")
	}
	return classify(c, shrunk, clause)
}

func runE2E(c *hx.Ctx) error {
	res := c.Res
	names := lexhook.TokenNames()
	braces := -1
	for i, n := range names {
		if n == "{{" {
			braces = i
		}
	}
	nT := c.N(260, 4000)
	nVal := c.N(14, 30)
	seenTmpl := map[string]bool{}
	fails := map[string]int{}
	// fixed templates first: the minimal templates of the recorded context findings (replayed
	// on the real code at every run) and the template of a replay file
	var fixed []*e2eTemplate
	fromSource := func(src string) *e2eTemplate {
		t := &e2eTemplate{}
		for strings.Contains(src, "{{ v }}") && len(t.holes) < e2eMaxHoles {
			src = strings.Replace(src, "{{ v }}", fmt.Sprintf("{{ v%d }}", len(t.holes)), 1)
			t.holes = append(t.holes, e2eHole{kind: "para"})
		}
		for i := len(t.holes); i < e2eMaxHoles && strings.Contains(src, fmt.Sprintf("{{ v%d }}", i)); i++ {
			t.holes = append(t.holes, e2eHole{kind: "para"})
		}
		t.src = src
		return t
	}
	var replayValue string
	if c.Replay != "" {
		if data, err := os.ReadFile(c.Replay); err == nil {
			var rp struct {
				Case string `json:"case"`
			}
			if json.Unmarshal(data, &rp) == nil {
				if f := strings.Fields(rp.Case); len(f) >= 3 && f[0] == "C26" && f[1] == "tmpl" {
					if b, err := proto.UnHex(f[2]); err == nil {
						fixed = append(fixed, fromSource(string(b)))
						res.Notes = append(res.Notes, fmt.Sprintf("replaying template %q first", b))
						if len(f) == 5 {
							if v, err := proto.UnHex(f[4]); err == nil {
								replayValue = string(v)
							}
						}
					}
				}
			}
		}
	}
	for _, id := range []string{"md-list-continuation-as-code-block", "md-code-block-after-non-paragraph"} {
		for _, f := range c.Findings {
			if f.ID == id {
				fixed = append(fixed, fromSource(f.Minimal))
			}
		}
	}
	for ti := -len(fixed); ti < nT; ti++ {
		var t *e2eTemplate
		if ti < 0 {
			t = fixed[len(fixed)+ti]
		} else {
			t = genE2E(c.R)
		}
		if len(t.holes) == 0 || seenTmpl[t.src] {
			continue
		}
		seenTmpl[t.src] = true
		if err := t.build(); err != nil {
			res.AddBreak(proto.Break{Kind: "property", Name: "e2e/build-fails", Case: "C26 tmpl " + proto.Hex([]byte(t.src)), Human: fmt.Sprintf("%q", t.src), Impl: err.Error()})
			continue
		}
		res.Hist("e2e-templates")
		doc0, err := t.render(-1, "")
		if err != nil {
			res.AddBreak(proto.Break{Kind: "property", Name: "e2e/render-fails", Case: "C26 tmpl " + proto.Hex([]byte(t.src)), Human: fmt.Sprintf("%q", t.src), Impl: err.Error()})
			continue
		}
		base := e2eLook(doc0)
		if !base.valid {
			continue
		}
		// --- correspondence: the lexer's context of each hole against goldmark's reading
		toks, lerr := lexhook.Scan([]byte(t.src), int(sast.FormatMarkdown), false, false)
		if lerr == nil {
			h := 0
			for _, tk := range toks {
				if tk.Typ != braces {
					continue
				}
				if h < len(t.holes) {
					inCode := strings.Contains(base.code, marker(h))
					res.Count(fmt.Sprintf("ctx %s #%d", t.src, h), true)
					res.Hist("e2e-hole-" + t.holes[h].kind)
					if e2eCodeCtx[tk.Ctx] != inCode {
						fid := c.Known(e2eContextFinding(t.src, tk.Start, e2eCodeCtx[tk.Ctx], inCode))
						t.holes[h].finding = fid
						name := "lexer-context-vs-commonmark/lexer-says-code-block"
						if inCode {
							name = "lexer-context-vs-commonmark/lexer-says-markdown"
						}
						if os.Getenv("VERIF_C26_DEBUG") != "" {
							fmt.Fprintf(os.Stderr, "CTX %s %q hole %d lexer=%s\n", name, t.src, h, sast.Context(tk.Ctx))
						}
						res.AddBreak(proto.Break{Kind: "correspondence", Name: name, Case: "C26 tmpl " + proto.Hex([]byte(t.src)),
							Human:   fmt.Sprintf("template %q, hole %d", t.src, h),
							Impl:    "lexer context " + sast.Context(tk.Ctx).String(),
							Model:   fmt.Sprintf("goldmark: marker inside an indented code block = %v", inCode),
							Finding: fid})
					}
				}
				h++
			}
		}
		// --- oracle: one hole at a time shown an active value
		for h := range t.holes {
			kind := t.holes[h].kind
			var vals []string
			for k := 0; k < nVal; k++ {
				switch {
				case kind == "inline" || c.R.Intn(2) == 0:
					vals = append(vals, e2eSingleLine[c.R.Intn(len(e2eSingleLine))])
				default:
					vals = append(vals, e2eMultiLine[c.R.Intn(len(e2eMultiLine))])
				}
			}
			if ti < 0 {
				vals = append(vals, "*pwned* [click](http://evil.example) `x`", "*a*")
				if replayValue != "" {
					vals = append(vals, replayValue)
				}
			}
			if ti%3 == 0 && kind != "inline" { // and a composed one
				d := dictionary()
				vals = append(vals, d[c.R.Intn(len(d))]+d[c.R.Intn(len(d))]+d[c.R.Intn(len(d))])
			}
			for _, v := range vals {
				if !oracleInput(v) || (kind == "inline" && strings.ContainsAny(v, "\n\r")) {
					continue
				}
				res.Count(fmt.Sprintf("e2e %s #%d %s", t.src, h, v), true)
				cl, _ := e2eOracle(t, base, h, v)
				if cl == "" {
					continue
				}
				res.Hist("e2e-oracle-" + cl)
				key := fmt.Sprintf("%s/%s", kind, cl)
				if fails[key]++; fails[key] > 40 {
					continue
				}
				failing := func(x string) string {
					if !oracleInput(x) || (kind == "inline" && strings.ContainsAny(x, "\n\r")) {
						return ""
					}
					cl, _ := e2eOracle(t, base, h, x)
					return cl
				}
				shrunk := v
				for range 5 {
					next := string(hx.ShrinkBytes([]byte(shrunk), func(b []byte) bool { return failing(string(b)) == cl }))
					rs := []rune(next) // multi-byte runes towards 'a' too
					for i := range rs {
						if rs[i] >= 0x80 {
							old := rs[i]
							if rs[i] = 'a'; failing(string(rs)) != cl {
								rs[i] = old
							}
						}
					}
					if next = string(rs); next == shrunk {
						break
					}
					shrunk = next
				}
				_, detail := e2eOracle(t, base, h, shrunk)
				if os.Getenv("VERIF_C26_DEBUG") != "" {
					fmt.Fprintf(os.Stderr, "E2E %s/%s %q hole %d value %q :: %s\n", kind, cl, t.src, h, shrunk, detail)
				}
				res.AddBreak(proto.Break{Kind: "property", Name: "e2e/" + kind + "/" + cl,
					Case:  "C26 tmpl " + proto.Hex([]byte(t.src)) + " " + fmt.Sprint(h) + " " + proto.Hex([]byte(shrunk)),
					Human: fmt.Sprintf("template %q, hole %d shown %q (found with %q)", t.src, h, shrunk, v),
					Impl:  detail, Finding: e2eClassify(c, t.holes[h], shrunk, cl)})
			}
		}
	}
	return nil
}
