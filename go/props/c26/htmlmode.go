package main

import (
	"fmt"
	"strings"

	"verifharness/internal/hx"
	"verifharness/internal/proto"
)

// allowHTML mode: markdownEscape(s, true) is what a value of type HTML is shown with in a
// Markdown paragraph. Oracle on the real code, for HTML without tags: goldmark must read the
// output as text only whose content is what the HTML means (character references resolved).

type htmlPiece struct{ src, meaning string }

var htmlPieces = []htmlPiece{
	{"&amp;", "&"}, {"&lt;", "<"}, {"&gt;", ">"}, {"&quot;", "\""}, {"&#35;", "#"}, {"&#x2A;", "*"}, {"&copy;", "©"}, {"&amp;amp;", "&amp;"},
	{"a", "a"}, {"b c", "b c"}, {"7", "7"}, {"é", "é"}, {" ", " "}, {"  ", "  "}, {"\t", "\t"},
	{"*", "*"}, {"_", "_"}, {"`", "`"}, {"#", "#"}, {"-", "-"}, {"+", "+"}, {".", "."}, {"!", "!"}, {"[", "["}, {"]", "]"}, {"(", "("}, {")", ")"},
	{"{", "{"}, {"}", "}"}, {"|", "|"}, {">", ">"}, {"~", "~"}, {"=", "="}, {"\\", "\\"}, {"1.", "1."}, {"\"", "\""}, {"'", "'"}, {";", ";"}, {":", ":"},
}

const htmlStaleID = "md-html-stale-esc-before-amp"
const htmlNumRefID = "md-html-numeric-reference-escaped"

func htmlModeOracle(src, meaning string) (clause, detail string) {
	line, out := implMd(src, true)
	if strings.HasPrefix(line, "err") {
		return "markdownEscape-fails", line
	}
	return htmlModeJudge(out, meaning)
}

func htmlModeJudge(out, meaning string) (clause, detail string) {
	p, err := convert("para " + out + " end\n")
	if err != nil {
		return "converter-fails", err.Error()
	}
	for k := range p.kinds {
		if !plainKinds[k] {
			return "no-element:" + k, p.html
		}
	}
	if p.hard > 0 {
		return "no-element:HardLineBreak", p.html
	}
	if got, want := normWS(textOf(p.html)), normWS("para "+meaning+" end"); got != want {
		return "same-content", fmt.Sprintf("text %q, expected %q; escaped %q", got, want, out)
	}
	return "", ""
}

func runHTMLMode(c *hx.Ctx) error {
	res := c.Res
	// the recorded finding, replayed on the real code
	for _, id := range []string{htmlStaleID, htmlNumRefID} {
		for _, f := range c.Findings {
			if f.ID == id {
				if cl, d := htmlModeOracle(f.Minimal, stdUnescape(f.Minimal)); cl != "" {
					res.AddBreak(proto.Break{Kind: "property", Name: "html-mode/" + cl, Case: "C26 md 1 " + proto.Hex([]byte(f.Minimal)),
						Human: fmt.Sprintf("HTML value %q", f.Minimal), Impl: d, Finding: id})
				}
			}
		}
	}
	n := c.N(4000, 60000)
	seen := 0
	for i := 0; i < n; i++ {
		k := 1 + c.R.Intn(6)
		ps := make([]htmlPiece, k)
		for j := range ps {
			ps[j] = htmlPieces[c.R.Intn(len(htmlPieces))]
		}
		join := func(ps []htmlPiece) (string, string) {
			var s, m strings.Builder
			for _, p := range ps {
				s.WriteString(p.src)
				m.WriteString(p.meaning)
			}
			return s.String(), m.String()
		}
		src, meaning := join(ps)
		res.Count("html "+src, strings.Contains(src, "&"))
		res.Hist("html-mode-values")
		cl, _ := htmlModeOracle(src, meaning)
		if cl == "" {
			continue
		}
		res.Hist("html-mode-oracle-" + cl)
		if seen++; seen > 60 {
			// attribution by cause without shrinking (see below)
			if htmlNumRefCause(src, meaning) || htmlStaleCause(src, meaning) {
				continue
			}
		}
		// shrink piece-wise: drop pieces while the same clause fails
		for progressed := true; progressed; {
			progressed = false
			for j := range ps {
				cand := append(append([]htmlPiece{}, ps[:j]...), ps[j+1:]...)
				s2, m2 := join(cand)
				if c2, _ := htmlModeOracle(s2, m2); c2 == cl {
					ps, progressed = cand, true
					break
				}
			}
		}
		src, meaning = join(ps)
		_, detail := htmlModeOracle(src, meaning)
		fid := ""
		if htmlNumRefCause(src, meaning) {
			fid = c.Known(htmlNumRefID)
		} else if htmlStaleCause(src, meaning) {
			fid = c.Known(htmlStaleID)
		}
		res.AddBreak(proto.Break{Kind: "property", Name: "html-mode/" + cl, Case: "C26 md 1 " + proto.Hex([]byte(src)),
			Human: fmt.Sprintf("HTML value %q shown in a Markdown paragraph", src), Impl: detail, Finding: fid})
	}
	return nil
}

// htmlStaleCause: the value fails only because of what the code writes directly before an `&`
// (the stale `esc`): with the backslash or U+00A0 in front of every `&` of the output taken
// away, goldmark reads the right text.
func htmlStaleCause(src, meaning string) bool {
	_, out := implMd(src, true)
	fixed := strings.ReplaceAll(strings.ReplaceAll(out, "\\&", "&"), "\u00a0&", "&")
	if fixed == out {
		return false
	}
	cl, _ := htmlModeJudge(fixed, meaning)
	return cl == ""
}

// htmlNumRefCause: the value fails only because the `#` of a numeric character reference is
// backslash-escaped (`&\#35;`): with that backslash (and the stale `esc` before `&`) taken
// away, goldmark reads the right text.
func htmlNumRefCause(src, meaning string) bool {
	_, out := implMd(src, true)
	if !strings.Contains(out, "&\\#") {
		return false
	}
	fixed := strings.ReplaceAll(out, "&\\#", "&#")
	fixed = strings.ReplaceAll(strings.ReplaceAll(fixed, "\\&", "&"), "\u00a0&", "&")
	cl, _ := htmlModeJudge(fixed, meaning)
	return cl == ""
}
