package main

import (
	"bytes"
	"encoding/json"
	"fmt"
	stdhtml "html"
	"os"
	"regexp"
	"strings"
	"testing/fstest"
	"unicode/utf8"

	"github.com/open2b/scriggo"
	"github.com/open2b/scriggo/native"
	hook "github.com/open2b/scriggo/verifhook/c26"
	"github.com/yuin/goldmark"
	gast "github.com/yuin/goldmark/ast"
	ghtml "github.com/yuin/goldmark/renderer/html"
	gtext "github.com/yuin/goldmark/text"

	"verifharness/internal/hx"
	"verifharness/internal/proto"
)

// C26: markdownEscape / markdownCodeBlockEscape (internal/runtime/escapers.go) vs. the Lean
// model (Model/MarkdownEscape.lean), with the property's own oracle on the real code:
// goldmark converts `prefix + escaped + suffix` and must see text only with the value's
// content; the code-block escaper's output must stay inside the indented code block.
func main() { hx.Main("C26", run) }

// ---------------------------------------------------------------- real code

func implMd(s string, allowHTML bool) (line string, out string) {
	defer func() {
		if r := recover(); r != nil {
			line, out = "err panic", fmt.Sprint(r)
		}
	}()
	o, err := hook.MarkdownEscape(s, allowHTML)
	if err != nil {
		switch err.Error() {
		case "not closed HTML comment":
			return "err comment", o
		case "not closed CDATA section":
			return "err cdata", o
		}
		return "err " + strings.ReplaceAll(err.Error(), " ", "_"), o
	}
	return "ok " + proto.Hex([]byte(o)), o
}

func implCb(s string, spaces bool) (line string, out string) {
	defer func() {
		if r := recover(); r != nil {
			line, out = "err panic", fmt.Sprint(r)
		}
	}()
	o, err := hook.MarkdownCodeBlockEscape(s, spaces)
	if err != nil {
		return "err " + strings.ReplaceAll(err.Error(), " ", "_"), o
	}
	return "ok " + proto.Hex([]byte(o)), o
}

// ---------------------------------------------------------------- goldmark

var md = goldmark.New(goldmark.WithRendererOptions(ghtml.WithUnsafe()))

type parsed struct {
	kinds map[string]int // node kind -> count
	hard  int            // hard line breaks
	top   []string       // kinds of the document's children
	code  string         // concatenated lines of all code blocks
	html  string
}

func convert(src string) (p parsed, err error) {
	defer func() {
		if r := recover(); r != nil {
			err = fmt.Errorf("goldmark panics: %v", r)
		}
	}()
	b := []byte(src)
	doc := md.Parser().Parse(gtext.NewReader(b))
	p.kinds = map[string]int{}
	for n := doc.FirstChild(); n != nil; n = n.NextSibling() {
		p.top = append(p.top, n.Kind().String())
	}
	var code strings.Builder
	gast.Walk(doc, func(n gast.Node, entering bool) (gast.WalkStatus, error) {
		if !entering {
			return gast.WalkContinue, nil
		}
		p.kinds[n.Kind().String()]++
		if t, ok := n.(*gast.Text); ok && t.HardLineBreak() {
			p.hard++
		}
		if n.Kind() == gast.KindCodeBlock || n.Kind() == gast.KindFencedCodeBlock {
			lines := n.Lines()
			for i := 0; i < lines.Len(); i++ {
				seg := lines.At(i)
				code.Write(seg.Value(b))
			}
		}
		return gast.WalkContinue, nil
	})
	p.code = code.String()
	var out bytes.Buffer
	if err := md.Renderer().Render(&out, b, doc); err != nil {
		return p, err
	}
	p.html = out.String()
	return p, nil
}

var tagRe = regexp.MustCompile(`<[^>]*>`)

// textOf is the text content of goldmark's HTML: tags removed, character references decoded.
func stdUnescape(s string) string { return stdhtml.UnescapeString(s) }

func textOf(html string) string { return stdhtml.UnescapeString(tagRe.ReplaceAllString(html, " ")) }

// normWS is the white-space normalisation under which contents are compared: every run of
// white space (ASCII white space and U+00A0, which the escaper writes for a space) is one
// space, leading and trailing white space is dropped.
func normWS(s string) string {
	var b strings.Builder
	sp := true
	for _, r := range s {
		switch r {
		case ' ', '\t', '\n', '\r', '\f', '\v', 0xA0:
			if !sp {
				b.WriteByte(' ')
				sp = true
			}
		default:
			b.WriteRune(r)
			sp = false
		}
	}
	return strings.TrimSuffix(b.String(), " ")
}

// a paragraph context a value is shown in
type pctx struct {
	name, prefix, suffix string
	textPre, textSuf     string         // text the context itself contributes
	altPre, altSuf       string         // alternative (the wrapper did not apply): literal text
	wrap                 map[string]int // kinds the context itself contributes, exact count (emphasis: at most)
	singleLine           bool           // applies only to values without a line ending
}

var pctxs = []*pctx{
	{name: "document", prefix: "", suffix: ""},
	{name: "paragraph", prefix: "para ", suffix: " end\n", textPre: "para ", textSuf: " end"},
	{name: "after-blank-line", prefix: "intro\n\n", suffix: "\n\nend\n", textPre: "intro ", textSuf: " end"},
	{name: "list-item", prefix: "- ", suffix: "\n", wrap: map[string]int{"List": 1, "ListItem": 1}},
	// (single-line values only: after a line ending in the value the context's own closing `*`
	// would start a line and be read as a bullet — an artefact of the context, not of the value)
	{name: "emphasis", prefix: "x *", suffix: "* y\n", textPre: "x ", textSuf: " y", altPre: "x *", altSuf: "* y", wrap: map[string]int{"Emphasis": 1}, singleLine: true},
	{name: "heading", prefix: "# ", suffix: "\n", wrap: map[string]int{"Heading": 1}},
	{name: "blockquote", prefix: "> ", suffix: "\n", wrap: map[string]int{"Blockquote": 1}},
}

var plainKinds = map[string]bool{"Document": true, "Paragraph": true, "Text": true, "TextBlock": true}

// paragraphOracle: goldmark reads prefix+escaped+suffix as text only (plus the context's own
// construct) whose content is the value. Returns the failing clause ("" = holds) and detail.
func paragraphOracle(cx *pctx, value, escaped string) (clause, detail string) {
	if cx.singleLine && strings.ContainsAny(value, "\n\r") {
		return "", ""
	}
	p, err := convert(cx.prefix + escaped + cx.suffix)
	if err != nil {
		return "converter-fails", err.Error()
	}
	for k, n := range p.kinds {
		if plainKinds[k] {
			continue
		}
		if w, ok := cx.wrap[k]; ok && (n == w || (k == "Emphasis" && n < w)) {
			continue
		}
		return "no-element:" + k, p.html
	}
	for k, w := range cx.wrap {
		if k != "Emphasis" && p.kinds[k] != w {
			return "no-element:" + k, p.html
		}
	}
	if p.hard > 0 {
		return "no-element:HardLineBreak", p.html
	}
	got := normWS(textOf(p.html))
	want := normWS(cx.textPre + value + cx.textSuf)
	if got != want && (cx.altPre == "" || got != normWS(cx.altPre+value+cx.altSuf)) {
		return "same-content", fmt.Sprintf("text %q, expected %q; html %q", got, want, p.html)
	}
	return "", ""
}

// blank lines count as empty and leading/trailing blank lines are dropped: CommonMark strips
// the indentation of blank lines inside an indented code block and does not make leading or
// trailing blank lines part of it.
func normCode(s string) string {
	lines := strings.Split(s, "\n")
	for i, l := range lines {
		if strings.Trim(l, " \t\r") == "" {
			lines[i] = ""
		}
	}
	for len(lines) > 0 && lines[0] == "" {
		lines = lines[1:]
	}
	for len(lines) > 0 && lines[len(lines)-1] == "" {
		lines = lines[:len(lines)-1]
	}
	return strings.Join(lines, "\n")
}

func indentOf(spaces bool) string {
	if spaces {
		return "    "
	}
	return "\t"
}

// codeBlockOracle: goldmark reads "para\n\n" + indent + escaped + "\n\nend\n" as paragraph,
// one indented code block with the value as content, paragraph.
func codeBlockOracle(spaces bool, value, escaped string) (clause, detail string) {
	p, err := convert("para\n\n" + indentOf(spaces) + escaped + "\n\nend\n")
	if err != nil {
		return "converter-fails", err.Error()
	}
	if strings.Trim(value, " \t\r\n") == "" {
		// nothing but white space: there is no code block at all; the value must not add anything
		if strings.Join(p.top, ",") != "Paragraph,Paragraph" {
			return "stays-in-code-block", p.html
		}
		return "", ""
	}
	if strings.Join(p.top, ",") != "Paragraph,CodeBlock,Paragraph" || p.kinds["CodeBlock"] != 1 {
		return "stays-in-code-block", p.html
	}
	if normWS(textOf(p.html)) != normWS("para "+value+" end") {
		return "same-content", p.html
	}
	if normCode(p.code) != normCode(value) {
		return "same-code", fmt.Sprintf("code %q; html %q", p.code, p.html)
	}
	return "", ""
}

// cmLineRule is CommonMark §2.1 on the escaper's output, independently of goldmark (which
// takes only LF as a line ending): a line ending is LF, CR not followed by LF, or CR LF;
// after each one must come the block's indentation or another line ending, and the output
// must not end there (what follows in the template would not be indented).
func cmLineRule(spaces bool, out string) bool {
	ind := indentOf(spaces)
	for i := 0; i < len(out); i++ {
		c := out[i]
		if c != '\n' && c != '\r' {
			continue
		}
		if c == '\r' && i+1 < len(out) && out[i+1] == '\n' {
			i++
		}
		rest := out[i+1:]
		if rest == "" {
			return false
		}
		if rest[0] != '\n' && rest[0] != '\r' && !strings.HasPrefix(rest, ind) {
			return false
		}
	}
	return true
}

// ---------------------------------------------------------------- templates (end to end)

type tctx struct {
	name, src string
	paragraph *pctx // nil for the code-block contexts
	spaces    bool
	tmpl      *scriggo.Template
}

var tctxs = []*tctx{
	{name: "t-document", src: "{{ v }}", paragraph: pctxs[0]},
	{name: "t-paragraph", src: "para {{ v }} end\n", paragraph: pctxs[1]},
	{name: "t-after-blank-line", src: "intro\n\n{{ v }}\n\nend\n", paragraph: pctxs[2]},
	{name: "t-list-item", src: "- {{ v }}\n", paragraph: pctxs[3]},
	{name: "t-emphasis", src: "x *{{ v }}* y\n", paragraph: pctxs[4]},
	{name: "t-tab-code-block", src: "para\n\n\t{{ v }}\n\nend\n"},
	{name: "t-spaces-code-block", src: "para\n\n    {{ v }}\n\nend\n", spaces: true},
}

func buildTemplates() error {
	for _, t := range tctxs {
		fsys := fstest.MapFS{"index.md": &fstest.MapFile{Data: []byte(t.src)}}
		tm, err := scriggo.BuildTemplate(fsys, "index.md", &scriggo.BuildOptions{Globals: native.Declarations{"v": (*string)(nil)}})
		if err != nil {
			return fmt.Errorf("template %s: %v", t.name, err)
		}
		t.tmpl = tm
	}
	return nil
}

func (t *tctx) render(v string) (out string, err error) {
	defer func() {
		if r := recover(); r != nil {
			err = fmt.Errorf("panic: %v", r)
		}
	}()
	var b strings.Builder
	err = t.tmpl.Run(&b, map[string]any{"v": &v}, nil)
	return b.String(), err
}

// ---------------------------------------------------------------- inputs

func dictionary() []string {
	return []string{
		"*", "**", "_", "__", "`", "``", "```", "~~~", "~", "~~x~~",
		"#", "# ", "## ", "####### ", ">", "> ", "-", "- ", "+", "+ ", "* ", "1.", "1. ", "1)", "12) ", "0. ", "123456789. ",
		"[", "]", "(", ")", "[a](b)", "![a](b)", "[a]: b", "[a][b]", "[^a]", "](", ")[",
		"<", ">", "<b>", "</b>", "<!--", "-->", "<![CDATA[", "]]>", "<?x", "<!X", "<a href=\"x\">", "<http://x.y>", "<a@b.c>", "<div>", "<script>", "<pre>",
		"&", "&amp;", "&#35;", "&#x23;", "&lt;", "&nbsp;", "&copy", ";",
		"\\", "\\\\", "\\*", "\\\n", "\\a", "\\ ",
		"\n", "\n\n", "\r", "\r\n", "\n\r", "\r\r", "\r\n\r\n", "  \n", " \n", "\t\n", "   \n",
		"\t", " ", "  ", "   ", "    ", "     ", " \t", "\t ", "\t\t",
		"\n\t", "\n    ", "\n\n\t", "\n\n    ", "\n \n\t", "\n\n \t", "\n\n  \t", "\r\r\t", "\r\n\r\n\t", "\n\n\t\t",
		"===", "---", "***", "___", "\n===", "\n---", "\n=", "\n-", "- - -", "* * *",
		"|", "a|b\n-|-", "|a|b|\n|-|-|\n", ":-", ":-:", "-:",
		"=", ".", "!", "![", "{", "}", "{#id}", "$", "^", "'", "\"", ":", "/", "@", ",", "%", "?",
		"a", "b", "x", "1", "0", "9", "http://example.com", "https://x.y/z?q=1&r=2", "www.x.y", "a@b.c",
		"é", "日本", "\u00a0", "\u2003", "\u200b", "\ufeff", "\u2028", "\u0085", "😀", "\f", "\v", "\x7f", "\x01",
	}
}

func randomUTF8(r *proto.Rand) string {
	n := r.Intn(24)
	var b strings.Builder
	for i := 0; i < n; i++ {
		switch r.Intn(6) {
		case 0:
			b.WriteRune(rune(1 + r.Intn(0x7f)))
		case 1:
			b.WriteString(r.Pick([]string{" ", "\t", "\n", "\r", "  ", "\n\n"}))
		case 2:
			b.WriteRune(rune(0x80 + r.Intn(0x2000)))
		case 3:
			x := rune(r.Intn(0x10ffff) + 1)
			if !utf8.ValidRune(x) {
				x = 0xfffd
			}
			b.WriteRune(x)
		default:
			b.WriteByte(byte('a' + r.Intn(26)))
		}
	}
	return b.String()
}

func oracleInput(s string) bool { return utf8.ValidString(s) && !strings.Contains(s, "\x00") }

// ---------------------------------------------------------------- findings

type findingDef struct {
	id      string
	minimal string
	check   func(s string) (clause string, detail string) // on the real code; "" = holds
	class   func(shrunk string, clause string) bool       // shrunk failing input belongs to this finding
}

var reTabAfterBlank = regexp.MustCompile(`^a?\n{1,2}\ta$`)
var reLfCr = regexp.MustCompile(`^a?\n\ra?$`)
var reLoneCr = regexp.MustCompile(`^a?\ra?$`)

func firstParagraphFailure(s string) (string, string) {
	_, e := implMd(s, false)
	for _, cx := range pctxs {
		if cl, d := paragraphOracle(cx, s, e); cl != "" {
			return cl, cx.name + ": " + d
		}
	}
	return "", ""
}

var findingDefs = []findingDef{
	{id: "md-tab-after-blank-line", minimal: "a\n\n\tx",
		check: firstParagraphFailure,
		class: func(sh, cl string) bool { return cl == "no-element:CodeBlock" && reTabAfterBlank.MatchString(sh) }},
	{id: "md-codeblock-lf-cr", minimal: "a\n\rb",
		check: func(s string) (string, string) { _, e := implCb(s, false); return codeBlockOracle(false, s, e) },
		class: func(sh, cl string) bool {
			return (cl == "stays-in-code-block" || cl == "same-code" || cl == "same-content") && reLfCr.MatchString(sh)
		}},
	{id: "md-codeblock-lone-cr", minimal: "a\rb",
		check: func(s string) (string, string) {
			_, e := implCb(s, false)
			if !cmLineRule(false, e) {
				return "commonmark-line-rule", fmt.Sprintf("%q", e)
			}
			return "", ""
		},
		class: func(sh, cl string) bool { return cl == "commonmark-line-rule" && reLoneCr.MatchString(sh) }},
}

func classify(c *hx.Ctx, shrunk, clause string) string {
	for _, f := range findingDefs {
		if f.class(shrunk, clause) {
			return c.Known(f.id)
		}
	}
	return ""
}

// ---------------------------------------------------------------- run

func run(c *hx.Ctx) error {
	res := c.Res
	res.Rule = "inputs: a Markdown-syntax dictionary (emphasis, links, headings, lists, tables, HTML, entities, autolinks, code spans, fences, hard breaks, line endings, indentation; ~190 entries) alone and every ordered pair, random concatenations of 3-6 entries, random valid UTF-8 (length < 24 runes, biased to white space), and for the correspondence only random bytes; every input goes through markdownEscape (both allowHTML modes) and markdownCodeBlockEscape (tab and spaces) and the model; the goldmark oracle runs on inputs that are valid UTF-8 without NUL in 7 paragraph contexts and 2 code-block contexts, a sample also through 7 real Markdown templates; a case is non-trivial when the input has a byte outside [0-9A-Za-z]; distinct by input"

	var inputs []string
	if c.Replay != "" {
		if data, err := os.ReadFile(c.Replay); err == nil {
			var rp struct {
				Case string `json:"case"`
			}
			if json.Unmarshal(data, &rp) == nil {
				if f := strings.Fields(rp.Case); len(f) == 4 && f[0] == "C26" {
					if b, err := proto.UnHex(f[3]); err == nil {
						inputs = append(inputs, string(b))
						res.Notes = append(res.Notes, fmt.Sprintf("replaying %q first", b))
					}
				}
			}
		}
	}
	dict := dictionary()
	inputs = append(inputs, "")
	inputs = append(inputs, dict...)
	for _, a := range dict {
		for _, b := range dict {
			inputs = append(inputs, a+b)
		}
	}
	nDict := len(inputs)
	nCat := c.N(4000, 120000)
	for i := 0; i < nCat; i++ {
		n := 3 + c.R.Intn(4)
		var b strings.Builder
		for j := 0; j < n; j++ {
			b.WriteString(dict[c.R.Intn(len(dict))])
		}
		inputs = append(inputs, b.String())
	}
	nRand := c.N(3000, 60000)
	for i := 0; i < nRand; i++ {
		inputs = append(inputs, randomUTF8(c.R))
	}
	nBytes := c.N(2000, 40000)
	for i := 0; i < nBytes; i++ {
		b := c.R.Bytes(c.R.Intn(16))
		for j := range b {
			if c.R.Intn(3) == 0 {
				b[j] = "<!-[CDAT]>\"' &\\*\n\r\t"[c.R.Intn(19)]
			}
		}
		inputs = append(inputs, string(b))
	}
	res.Histogram["inputs-dictionary-and-pairs"] = nDict
	res.Histogram["inputs-dictionary-concatenations"] = nCat
	res.Histogram["inputs-random-utf8"] = nRand
	res.Histogram["inputs-random-bytes"] = nBytes

	if err := buildTemplates(); err != nil {
		return err
	}

	// known findings: replay the recorded minimal input on the real code
	for _, f := range findingDefs {
		if !c.HasFinding(f.id) {
			continue
		}
		if cl, d := f.check(f.minimal); cl != "" {
			res.AddBreak(proto.Break{Kind: "property", Name: cl, Case: "C26 finding " + f.id + " " + proto.Hex([]byte(f.minimal)),
				Human: fmt.Sprintf("%q", f.minimal), Impl: d, Finding: f.id})
		}
	}

	report := func(kind, name, caseLine, human, impl, model, finding string) {
		res.AddBreak(proto.Break{Kind: kind, Name: name, Case: caseLine, Human: human, Impl: impl, Model: model, Finding: finding})
	}

	// property failure on input s: shrink, classify, report
	fail := func(s, where, clause string, failing func(string) string, caseOp string) {
		shrunk := s
		for range 5 { // ShrinkBytes ends with a simplification pass; repeat until nothing changes
			next := string(hx.ShrinkBytes([]byte(shrunk), func(b []byte) bool {
				return oracleInput(string(b)) && failing(string(b)) == clause
			}))
			// and rune-wise towards 'a' (ShrinkBytes works on bytes; a multi-byte rune cannot
			// become 'a' byte by byte without passing through invalid UTF-8)
			rs := []rune(next)
			for i := range rs {
				if rs[i] >= 0x80 {
					old := rs[i]
					rs[i] = 'a'
					if failing(string(rs)) != clause {
						rs[i] = old
					}
				}
			}
			next = string(rs)
			if next == shrunk {
				break
			}
			shrunk = next
		}
		fid := classify(c, shrunk, clause)
		report("property", where+"/"+clause, caseOp+" "+proto.Hex([]byte(shrunk)),
			fmt.Sprintf("value %q shown in context %s (found with %q)", shrunk, where, s), failing(shrunk), "", fid)
	}

	seenFail := map[string]int{}
	// every failing input is shrunk and classified, except that after the first 6 per
	// (context, clause) an input is only counted when removing the signature of the known
	// class from it makes the failure go away (then it is that class again); if it still fails
	// without the signature it is shrunk from there, so another class cannot hide behind it
	gate := func(key, s, sig, without string, failing func(string) string) (string, bool) {
		if seenFail[key]++; seenFail[key] <= 6 {
			return s, true
		}
		if strings.Contains(s, sig) {
			reduced := strings.ReplaceAll(s, sig, without)
			if failing(reduced) == "" {
				res.Hist("failing-input-of-a-known-class-not-shrunk")
				return s, false
			}
			return reduced, true
		}
		return s, true
	}
	const batch = 20000
	tmplEvery := c.N(23, 7)
	for lo := 0; lo < len(inputs); lo += batch {
		hi := min(lo+batch, len(inputs))
		var lines []string
		for _, s := range inputs[lo:hi] {
			h := proto.Hex([]byte(s))
			lines = append(lines, "C26 md 0 "+h, "C26 md 1 "+h, "C26 cb 0 "+h, "C26 cb 1 "+h, "C26 inert "+h, "C26 stays 0 "+h)
		}
		var model []string
		if c.D != nil {
			var err error
			model, err = c.D.Batch(lines)
			if err != nil {
				return err
			}
		}
		var specLines []string
		var specDocs []string
		for i, s := range inputs[lo:hi] {
			nontrivial := strings.IndexFunc(s, func(r rune) bool {
				return !(r >= '0' && r <= '9' || r >= 'a' && r <= 'z' || r >= 'A' && r <= 'Z')
			}) >= 0
			res.Count(s, nontrivial)
			res.Hist(fmt.Sprintf("len%02d", min(len(s)/4*4, 32)))

			l0, e0 := implMd(s, false)
			l1, _ := implMd(s, true)
			l2, cb0 := implCb(s, false)
			l3, cb1 := implCb(s, true)
			if model != nil {
				for k, impl := range []string{l0, l1, l2, l3} {
					if m := model[6*i+k]; m != impl {
						report("correspondence", []string{"markdownEscape(allowHTML=false)", "markdownEscape(allowHTML=true)", "markdownCodeBlockEscape(tab)", "markdownCodeBlockEscape(spaces)"}[k],
							lines[6*i+k], fmt.Sprintf("%q", s), impl, m, "")
					}
				}
				if (lo+i)%4001 == 0 && nontrivial {
					res.Sample(map[string]string{"input": s, "line": lines[6*i], "model": model[6*i], "impl": l0})
				}
			}
			if !oracleInput(s) {
				res.Hist("oracle-skipped-invalid-utf8-or-nul")
				continue
			}
			// --- the property's oracle on the real code
			if strings.HasPrefix(l0, "err") {
				report("property", "markdownEscape-fails", lines[6*i], fmt.Sprintf("%q", s), l0, "", "")
				continue
			}
			for _, cx := range pctxs {
				cx := cx
				if cl, _ := paragraphOracle(cx, s, e0); cl != "" {
					failing := func(x string) string {
						_, e := implMd(x, false)
						cl, _ := paragraphOracle(cx, x, e)
						return cl
					}
					if from, ok := gate(cx.name+"/"+cl, s, "\n\t", "\n", failing); ok {
						fail(from, cx.name, failing(from), failing, "C26 md 0")
					}
				}
			}
			for _, sp := range []bool{false, true} {
				sp := sp
				e := cb0
				if sp {
					e = cb1
				}
				name := "code-block(" + map[bool]string{false: "tab", true: "spaces"}[sp] + ")"
				op := "C26 cb " + map[bool]string{false: "0", true: "1"}[sp]
				if cl, _ := codeBlockOracle(sp, s, e); cl != "" {
					failing := func(x string) string {
						_, e := implCb(x, sp)
						cl, _ := codeBlockOracle(sp, x, e)
						return cl
					}
					if from, ok := gate(name+cl, s, "\n\r", "\n", failing); ok {
						fail(from, name, failing(from), failing, op)
					}
				}
				if !cmLineRule(sp, e) {
					failing := func(x string) string {
						_, e := implCb(x, sp)
						if !cmLineRule(sp, e) {
							return "commonmark-line-rule"
						}
						return ""
					}
					if from, ok := gate(name+"cm", s, "\r", "", failing); ok {
						fail(from, name, "commonmark-line-rule", failing, op)
					}
				}
			}
			// --- spec validation: the Lean specification against goldmark
			if model != nil {
				// `inert` of the model output says text-only  ==>  goldmark sees text only (document context)
				// (goldmark takes only LF as a line ending, CommonMark also a lone CR: CR-free values only)
				if model[6*i+4] == "ok 11111" && !strings.Contains(s, "\r") {
					res.SpecChecks["inert(model)=>goldmark-text-only"]++
					if cl, d := paragraphOracle(pctxs[0], s, e0); cl != "" && model[6*i] == l0 {
						report("correspondence", "spec-validation/inert-but-goldmark-"+cl, lines[6*i+4], fmt.Sprintf("%q", s), d, model[6*i+4], "")
					}
				}
				// staysInCodeBlock (CommonMark line endings) ==> goldmark keeps it in the block, for CR-free values
				if model[6*i+5] == "ok 1" && !strings.Contains(s, "\r") {
					res.SpecChecks["staysInCodeBlock(model)=>goldmark-stays (CR-free)"]++
					if cl, d := codeBlockOracle(false, s, cb0); cl != "" && model[6*i+2] == l2 {
						report("correspondence", "spec-validation/stays-but-goldmark-"+cl, lines[6*i+5], fmt.Sprintf("%q", s), d, model[6*i+5], "")
					}
				}
				// the lexical clauses on arbitrary text: the raw value and a damaged escape
				specDocs = append(specDocs, s)
				if len(e0) > 0 {
					k := (lo + i) % len(e0)
					specDocs = append(specDocs, e0[:k]+e0[k+1:])
				}
			}
			// --- end to end through real Markdown templates
			if (lo+i)%tmplEvery == 0 {
				for _, t := range tctxs {
					t := t
					out, err := t.render(s)
					if err != nil {
						report("property", t.name+"/render-fails", lines[6*i], fmt.Sprintf("%q", s), err.Error(), "", "")
						continue
					}
					res.Hist("template-" + t.name)
					var want string
					if t.paragraph != nil {
						want = strings.Replace(t.src, "{{ v }}", e0, 1)
					} else if t.spaces {
						want = strings.Replace(t.src, "{{ v }}", cb1, 1)
					} else {
						want = strings.Replace(t.src, "{{ v }}", cb0, 1)
					}
					if out != want {
						report("correspondence", "template-output-vs-escaper/"+t.name, lines[6*i], fmt.Sprintf("%q", s), fmt.Sprintf("%q", out), fmt.Sprintf("%q", want), "")
					}
				}
			}
		}
		// spec validation of the lexical clauses, batched
		if c.D != nil && len(specDocs) > 0 {
			for _, d := range specDocs {
				specLines = append(specLines, "C26 inertdoc "+proto.Hex([]byte(d)))
			}
			ans, err := c.D.Batch(specLines)
			if err != nil {
				return err
			}
			for i, d := range specDocs {
				if ans[i] != "ok 1111" || !oracleInput(d) || strings.Contains(d, "\r") {
					res.SpecChecks["inertDoc=false (nothing to validate)"]++
					continue
				}
				res.SpecChecks["inertDoc=>goldmark-text-only"]++
				p, err := convert(d)
				bad := err != nil || p.hard > 0
				for k := range p.kinds {
					bad = bad || !plainKinds[k]
				}
				if bad {
					report("correspondence", "spec-validation/inertDoc-but-goldmark-sees-elements", specLines[i], fmt.Sprintf("%q", d), p.html, ans[i], "")
				}
			}
		}
	}
	if err := runE2E(c); err != nil {
		return err
	}
	return runHTMLMode(c)
}
