package main

import (
	"errors"
	"fmt"
	"testing/fstest"

	"github.com/open2b/scriggo"
	"github.com/open2b/scriggo/native"
)

func main() {
	p := native.Package{Name: "p", Declarations: native.Declarations{"A": 1}}
	e := errors.New("boom")
	fmt.Println("Package.LookupFunc err:", p.LookupFunc(func(string, native.Declaration) error { return e }))
	fmt.Println("Combined.LookupFunc err:", native.CombinedPackage{p}.LookupFunc(func(string, native.Declaration) error { return e }))
	q := native.Package{Name: "q", Declarations: native.Declarations{"A": nil}}
	fmt.Println("nil decl lookup:", native.CombinedPackage{q, p}.Lookup("A"))
	f := scriggo.Files{"a.txt": []byte("x"), "d/b.txt": []byte("yy"), "d/e/c.txt": nil}
	fmt.Println("TestFS:", fstest.TestFS(f, "a.txt", "d/b.txt", "d/e/c.txt"))
}
