package main

import (
	"bytes"
	"context"
	"crypto/sha256"
	"encoding/json"
	"fmt"
	"os"
	"os/exec"
	"path/filepath"
	"runtime"
	"sort"
	"strconv"
	"strings"
	"time"

	"verifharness/internal/hx"
	"verifharness/internal/proto"
)

const (
	modeProgram = iota
	modeTemplateGlobals
	modeTemplateImport
)

var modeNames = []string{"program", "template", "template-import"}

type callCase struct {
	kind  callKind
	st    storage
	mode  int
	cs    Case
	gcKey string // kind/storage of the analogous Go program, "" if there is none
}

func (cc callCase) id() string {
	return cc.kind.name + "/" + cc.st.name + "/" + modeNames[cc.mode]
}

func unsuffix(s string) string { return strings.ReplaceAll(s, "§", "") }

func applies(k callKind, st storage) bool {
	if st.onlyType != "" && st.onlyType != k.typ {
		return false
	}
	if st.noSpread && (strings.Contains(k.args, "...") || strings.Contains(k.args, "func")) {
		return false
	}
	if st.goStmt && (k.nilFn || k.noHit) {
		return false
	}
	if st.viaNative && k.nilFn {
		return false
	}
	return true
}

func join(parts ...string) string {
	var out []string
	for _, p := range parts {
		if p != "" {
			out = append(out, p)
		}
	}
	return strings.Join(out, "\n")
}

// programSource is the program of a kind in a storage; sfx replaces §, imp is the import path of x.
func programSource(k callKind, st storage, sfx, imp, fn string, gc bool) string {
	c := cx{T: k.typ, E: k.expr, A: k.args, res: k.res, N: max(k.calls, 1)}
	decl := k.decl
	if gc && k.gcExpr != "" {
		c.T, c.E, decl = k.gcTyp, k.gcExpr, k.gcDecl
	}
	var decls, body string
	switch {
	case st.body != nil:
		decls, body = st.body(c)
	case gc && st.gc != nil:
		body = st.gc(c)
	default:
		return ""
	}
	pre := k.pre
	var b strings.Builder
	if !gc {
		b.WriteString("package main\nimport \"" + imp + "\"\nvar _ = x.Hit\n")
	}
	if decls != "" { // package-level storage: what the expression needs is at package level too
		b.WriteString(join(decl, pre, decls) + "\n")
		pre = ""
	} else if decl != "" {
		b.WriteString(decl + "\n")
	}
	b.WriteString("func " + fn + "() {\n" + join(pre, body) + "\n}\n")
	return strings.ReplaceAll(b.String(), "§", sfx)
}

func afterExtends(src, ins string) string {
	if strings.HasPrefix(src, "{% extends") {
		i := strings.Index(src, "%}") + 2
		return src[:i] + ins + src[i:]
	}
	return ins + src
}

// templateFiles is the template of a kind in a storage.
func templateFiles(k callKind, st storage, mode int) (string, map[string]string) {
	c := cx{T: k.typ, E: k.expr, A: k.args, res: k.res, N: max(k.calls, 1)}
	var index string
	extra := map[string]string{}
	for n, s := range k.extra {
		extra[n] = s
	}
	if st.tmpl != nil {
		head := k.macro
		if k.pre != "" {
			for _, l := range strings.Split(k.pre, "\n") {
				head += "{% " + l + " %}"
			}
		}
		var ex map[string]string
		index, ex = st.tmpl(c, head)
		for n, s := range ex {
			extra[n] = s
		}
	} else {
		decls, body := st.body(c)
		if decls != "" {
			return "", nil // a package-level declaration of a program
		}
		index = k.macro + "{%%\n" + join(k.pre, body) + "\n%%}"
	}
	index = unsuffix(index)
	for n, s := range extra {
		extra[n] = unsuffix(s)
	}
	if mode == modeTemplateGlobals {
		index = unqualify(index)
		for n, s := range extra {
			extra[n] = unqualify(s)
		}
	} else {
		index = afterExtends(index, `{% import "x" %}`)
		for n, s := range extra {
			if strings.Contains(s, "x.") {
				extra[n] = `{% import "x" %}` + s
			}
		}
	}
	if len(extra) == 0 {
		extra = nil
	}
	return index, extra
}

// callableMatrix returns every case of the family.
func callableMatrix() []callCase {
	var all []callCase
	globals := callableGlobals()
	sts := storages()
	for _, k := range callKinds() {
		for _, st := range sts {
			if !applies(k, st) {
				continue
			}
			gcKey := ""
			if !k.neverBuilds && !k.noGc && !st.show {
				switch {
				case st.gcLike != "":
					gcKey = k.name + "/" + st.gcLike
				case st.body != nil || st.gc != nil:
					gcKey = k.name + "/" + st.name
				}
			}
			for mode := modeProgram; mode <= modeTemplateImport; mode++ {
				cc := callCase{kind: k, st: st, mode: mode, gcKey: gcKey}
				if mode == modeProgram {
					if k.noProg || st.body == nil {
						continue
					}
					cc.cs = Case{Name: "callable " + cc.id(), Src: programSource(k, st, "", "x", "main", false)}
				} else {
					if k.noTmpl {
						continue
					}
					index, extra := templateFiles(k, st, mode)
					if index == "" {
						continue
					}
					cc.cs = Case{Name: "callable " + cc.id(), Tmpl: true, Src: index, Extra: extra}
					if mode == modeTemplateGlobals {
						cc.cs.Vars = globals
					}
				}
				// a case that waits for ever (a known finding predicts it) is cut short
				cc.cs.Timeout = 5 * time.Second
				if _, effect := predict(cc, nil); effect == "hang" {
					cc.cs.Timeout = 60 * time.Millisecond
				}
				all = append(all, cc)
			}
		}
	}
	return all
}

// ---------------------------------------------------------------- gc

// gcCallables compiles the analogous Go programs into one binary with real gc (offline) and
// returns, per kind/storage, the record gc's program leaves ("… panic" if it panics).
//
// The programs are the same on every run (the matrix is fixed), so are gc's records: the quick
// tier takes them from a cache file in the user cache directory, keyed by the sources and the
// Go version, when there is one; the thorough tier always runs gc and rewrites the file.
// gcExtra is one more Go function body (statements) to run under gc with the batch.
type gcExtra struct{ key, body string }

func gcCallables(useCache bool, extra []gcExtra) (map[string]string, error) {
	dir, err := os.MkdirTemp("", "verif-c05-gc-")
	if err != nil {
		return nil, err
	}
	defer os.RemoveAll(dir)
	write := func(name, text string) error {
		p := filepath.Join(dir, name)
		os.MkdirAll(filepath.Dir(p), 0o755)
		return os.WriteFile(p, []byte(text), 0o644)
	}
	write("go.mod", "module gcbatch\n\ngo 1.25.0\n")
	write("x/x.go", gcXSource)
	sts := storages()
	var keys []string
	var src, tab strings.Builder
	src.WriteString("package main\n\nimport (\n\t\"fmt\"\n\n\t\"gcbatch/x\"\n)\n\n")
	for _, k := range callKinds() {
		if k.neverBuilds {
			continue
		}
		for _, st := range sts {
			if !applies(k, st) || st.show || (st.body == nil && st.gc == nil) {
				continue
			}
			i := len(keys)
			s := programSource(k, st, "_"+strconv.Itoa(i), "", "case_"+strconv.Itoa(i), true)
			if s == "" {
				continue
			}
			keys = append(keys, k.name+"/"+st.name)
			src.WriteString(s + "\n")
			fmt.Fprintf(&tab, "\tcase_%d,\n", i)
		}
	}
	for _, e := range extra {
		i := len(keys)
		keys = append(keys, e.key)
		fmt.Fprintf(&src, "func case_%d() {\n%s\n}\n\n", i, e.body)
		fmt.Fprintf(&tab, "\tcase_%d,\n", i)
	}
	src.WriteString("var cases = []func(){\n" + tab.String() + "}\n\n")
	src.WriteString(`func main() {
	for i, f := range cases {
		x.Reset()
		func() {
			defer func() {
				if recover() != nil {
					x.Panicked()
				}
			}()
			f()
		}()
		fmt.Printf("#%d %s\n", i, x.Trace())
	}
}
`)
	write("main.go", src.String())
	cache := ""
	if d, err := os.UserCacheDir(); err == nil {
		h := sha256.Sum256([]byte(runtime.Version() + "\x00" + gcXSource + "\x00" + src.String() + "\x00" + strings.Join(keys, "\n")))
		cache = filepath.Join(d, "verif-c05", fmt.Sprintf("gc-%x.json", h[:8]))
		if data, err := os.ReadFile(cache); err == nil && useCache {
			res := map[string]string{}
			if json.Unmarshal(data, &res) == nil && len(res) == len(keys) {
				return res, nil
			}
		}
	}
	bin := filepath.Join(dir, "batch")
	cmd := exec.Command("go", "build", "-o", bin, ".")
	cmd.Dir = dir
	cmd.Env = append(os.Environ(), "GOFLAGS=-mod=mod", "GOPROXY=off", "GOWORK=off")
	if out, err := cmd.CombinedOutput(); err != nil {
		s := string(out)
		if len(s) > 3000 {
			s = s[:3000]
		}
		return nil, fmt.Errorf("go build of the gc analogues failed: %v\n%s", err, s)
	}
	run := exec.Command(bin)
	var stdout bytes.Buffer
	run.Stdout = &stdout
	run.Env = []string{"GOTRACEBACK=none"}
	done := make(chan error, 1)
	if err := run.Start(); err != nil {
		return nil, err
	}
	go func() { done <- run.Wait() }()
	select {
	case err := <-done:
		if err != nil {
			return nil, fmt.Errorf("the gc analogues: %v (after %d lines)", err, strings.Count(stdout.String(), "\n"))
		}
	case <-time.After(120 * time.Second):
		run.Process.Kill()
		return nil, fmt.Errorf("the gc analogues do not terminate")
	}
	res := map[string]string{}
	for _, l := range strings.Split(stdout.String(), "\n") {
		if !strings.HasPrefix(l, "#") {
			continue
		}
		head, rest, _ := strings.Cut(l[1:], " ")
		i, err := strconv.Atoi(head)
		if err != nil || i >= len(keys) {
			continue
		}
		res[keys[i]] = rest
	}
	if len(res) != len(keys) {
		return nil, fmt.Errorf("the gc analogues printed %d of %d records", len(res), len(keys))
	}
	if cache != "" {
		if data, err := json.Marshal(res); err == nil {
			os.MkdirAll(filepath.Dir(cache), 0o755)
			os.WriteFile(cache+".tmp", data, 0o644)
			os.Rename(cache+".tmp", cache)
		}
	}
	return res, nil
}

// ---------------------------------------------------------------- running the family

// runCallable runs one case and returns the outcome and the record.
func runCallable(cc callCase) (outcome, string) {
	crec.reset()
	o := runReal(cc.cs)
	if cc.st.goStmt && o.built && !o.hostPanic && o.err == nil {
		crWait(max(cc.kind.calls, 1))
	}
	tr := crec.trace()
	if o.built && !o.hostPanic && o.errType == "*scriggo.PanicError" {
		tr = strings.TrimSpace(tr + " panic")
	}
	return o, tr
}

func caseHuman(cs Case) string {
	if !cs.Tmpl {
		return cs.Src
	}
	h := "template " + cs.Src
	var names []string
	for n := range cs.Extra {
		names = append(names, n)
	}
	sort.Strings(names)
	for _, n := range names {
		h += "  [" + n + ": " + cs.Extra[n] + "]"
	}
	return h
}

// observe says how a case went: "ok", or the kind of failure.
func observe(cc callCase, o outcome, tr string, gc map[string]string) (effect, clause string) {
	if cl := oracle(cc.cs, o); cl != "" {
		if o.hostPanic {
			return "host-panic", cl
		}
		return "undocumented-error", cl
	}
	if o.err == context.DeadlineExceeded {
		return "hang", "does-not-terminate"
	}
	want, ok := gc[cc.gcKey]
	if !ok || want == tr {
		return "ok", ""
	}
	if o.errType == "*scriggo.PanicError" && !strings.HasSuffix(want, "panic") {
		return "panic-error", "callee-not-reached-as-in-go"
	}
	return "silent", "callee-not-reached-as-in-go"
}

func callableCases(c *hx.Ctx) error {
	dump := os.Getenv("VERIF_C05_DUMP") != ""
	t0 := time.Now()
	all := callableMatrix()
	nested := nestedMatrix()
	gc, err := gcCallables(c.Quick(), nestedGc(nested))
	if err != nil {
		return err
	}
	c.Res.SpecChecks["callables: records of the analogous Go programs under gc"] += len(gc)
	c.Res.Histogram["callables gc seconds (0: cached records)"] = int(time.Since(t0).Seconds())
	if show := os.Getenv("VERIF_C05_SHOW"); show != "" { // print the source of cases (to record a minimal input)
		for _, cc := range all {
			if strings.Contains(","+show+",", ","+cc.id()+",") {
				fmt.Fprintf(os.Stderr, "SOURCE %s %q\n", cc.id(), cc.cs.Src)
			}
		}
	}
	active := activeClasses(c, all, gc)
	if err := funcValueTie(c, all, gc); err != nil {
		return err
	}
	type stat struct{ predicted, cameTrue int }
	stats := map[string]*stat{}
	firstMiss := map[string]callCase{}
	buildPanics := 0
	for i, cc := range all {
		// the quick tier runs every kind in every storage in one of its modes, the thorough tier in all
		if c.Quick() && !pickedMode(all, i, int(c.Seed)) {
			continue
		}
		o, tr := runCallable(cc)
		key := "callable " + cc.id()
		if !o.built {
			c.Res.Count(key, false)
			if o.hostPanic {
				// the compiler panics: not this property's (C04 owns the robustness of Build)
				buildPanics++
				c.Res.Notes = appendNote(c.Res.Notes, "Build panics (not C05): "+cc.id()+": "+o.panicVal)
			} else {
				c.Res.Hist("callables does-not-build")
			}
			if dump {
				fmt.Fprintf(os.Stderr, "NOBUILD %s: %s%s\n   %q\n", cc.id(), o.buildErr, o.panicVal, caseHuman(cc.cs))
			}
			continue
		}
		c.Res.Count(key, strings.Contains(tr, "hit:") || strings.Contains(tr, "mark"))
		c.Res.Hist("callables " + modeNames[cc.mode])
		if _, ok := gc[cc.gcKey]; ok {
			c.Res.Hist("callables compared with gc")
		}
		class, effect := predict(cc, active)
		got, clause := observe(cc, o, tr, gc)
		if class != "" {
			st := stats[class]
			if st == nil {
				st = &stat{}
				stats[class] = st
			}
			st.predicted++
			if got == effect && messageOf(class, cc, o) {
				st.cameTrue++
			} else {
				if _, seen := firstMiss[class]; !seen {
					firstMiss[class] = cc
				}
				if dump {
					fmt.Fprintf(os.Stderr, "MISS %s: predicted %s/%s, got %s: %s | record %q gc %q\n", cc.id(), class, effect, got, o.String(), tr, gc[cc.gcKey])
				}
			}
		}
		if dump && got != "ok" {
			fmt.Fprintf(os.Stderr, "%s %s: predicted %s/%s: %s | record %q gc %q\n", strings.ToUpper(got), cc.id(), class, effect, o.String(), tr, gc[cc.gcKey])
		}
		if got == "ok" {
			continue
		}
		b := proto.Break{Kind: "property", Name: clause, Case: "callable " + cc.id() + " " + proto.Hex([]byte(cc.cs.Src)), Human: caseHuman(cc.cs),
			Impl: o.String() + "; record: " + tr, Model: "Run returns nil, a *PanicError or the error given to Stop; no host panic"}
		if want, ok := gc[cc.gcKey]; ok {
			b.Model += "; record of the analogous Go program under gc: " + want
		}
		if class != "" && got == effect && messageOf(class, cc, o) {
			b.Finding = c.Known(class)
		}
		c.Res.AddBreak(b)
	}
	c.Res.Histogram["callables Build panics (reported, not C05)"] = buildPanics
	for id, st := range stats {
		pm := 0
		if st.predicted > 0 {
			pm = st.cameTrue * 1000 / st.predicted
		}
		c.Res.Histogram["class-precision/"+id+"/cases"] = st.predicted
		c.Res.Histogram["class-precision/"+id+"/fail-as-predicted"] = st.cameTrue
		c.Res.Histogram["class-precision/"+id+"/permille"] = pm
		if pm < 950 {
			c.Res.Notes = appendNote(c.Res.Notes, fmt.Sprintf("class %s: precision %d ‰ — attribution by this class is unreliable on this tree", id, pm))
			if os.Getenv("VERIF_C05_STRICT") != "" {
				m := firstMiss[id]
				c.Res.AddBreak(proto.Break{Kind: "correspondence", Name: "finding-class-too-broad: " + id, Case: "callable " + m.id(), Human: caseHuman(m.cs),
					Impl: "passes, or fails in another way", Model: "the class predicts a failure"})
			}
		}
	}
	nestedCases(c, nested, gc)
	if dump {
		fmt.Fprintln(os.Stderr, "TIMING total", time.Since(t0), len(all), "cases", len(gc), "gc programs")
	}
	return nil
}

// pickedMode tells whether, in the quick tier, case i is the mode that runs for its kind and
// storage: the modes a pair exists in take turns with the seed.
func pickedMode(all []callCase, i, seed int) bool {
	lo := i
	for lo > 0 && all[lo-1].kind.name == all[i].kind.name && all[lo-1].st.name == all[i].st.name {
		lo--
	}
	hi := i
	for hi+1 < len(all) && all[hi+1].kind.name == all[i].kind.name && all[hi+1].st.name == all[i].st.name {
		hi++
	}
	n := hi - lo + 1
	return (lo+seed)%n == i-lo
}
